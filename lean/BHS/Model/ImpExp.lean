/-
M-ImportExport (property C17): exporting the longest chain of a SQLite store to the CSV file and
importing such a file into an empty database at start-up. Transcribed from
  /repo/database/export.go         (selectHeadersSQL, writeColumnNamesToCsvFile, writeRowsToCsvFile)
  /repo/database/import.go         (importHeaders, prepareRecord, parseRecordToBlockHeadersSource,
                                    calculateFields, validateDbConsistency and its three helpers)
  /repo/database/sqlite_adapter.go (importHeaders loop, insertHeaders: one transaction per batch of
                                    `sqliteBatchSize` = 500 records)
  /repo/database/database.go       (Init: prepared_db ⇒ importHeaders, else insertGenesisBlock)
  /repo/database/sql/headers.go    (CreateMultiple: sqlInsertHeader … ON CONFLICT DO NOTHING; Count; Height)

A CSV cell is a `Text` (list of characters), a record a list of cells, a file a list of records whose
first record is the column-name line. gzip and encoding/csv are outside the model: an unreadable
file (missing, bad gzip) is `none`; encoding/csv's one rule that matters is modelled (every record
must have as many fields as the first one, else `ErrFieldCount`).
Core Lean only. Polymorphic in the hash type `H`; `Codec H` is the text form of a hash.
-/
import BHS.Model.Chain
import BHS.Model.Query
import BHS.Model.Header

namespace BHS.ImpExp
open BHS BHS.Chain

abbrev Text := List Char
abbrev Record := List Text

/-- the text form of hashes (chainhash.Hash.String / chainhash.NewHashFromStr) and the zero hash -/
structure Codec (H : Type) where
  showH : H → Text
  parseH : Text → Option H
  zero : H

/-! ### decimal text (SQLite's rendering of integers; strconv.ParseInt / ParseUint with base 10) -/

def showNat (n : Nat) : Text := Nat.toDigits 10 n

def showInt (v : Int) : Text := if v < 0 then '-' :: Nat.toDigits 10 (-v).toNat else Nat.toDigits 10 v.toNat

/-- one or more ASCII digits (no sign, no underscore, no blank) -/
def digits? (cs : Text) : Option Nat :=
  if cs.isEmpty || !cs.all Char.isDigit then none else some (Nat.ofDigitChars 10 cs 0)

/-- strconv.ParseUint(s, 10, bits): digits only; a value of 2^bits or more is a range error -/
def parseUint (bits : Nat) (cs : Text) : Option Nat :=
  match digits? cs with
  | some n => if n < 2 ^ bits then some n else none
  | none => none

/-- strconv.ParseInt(s, 10, bits): optional sign, digits; range −2^(bits−1) … 2^(bits−1)−1 -/
def parseInt (bits : Nat) (cs : Text) : Option Int :=
  match cs with
  | [] => none
  | c :: ds =>
    if c = '-' then
      match digits? ds with
      | some n => if n ≤ 2 ^ (bits - 1) then some (-(n : Int)) else none
      | none => none
    else if c = '+' then
      match digits? ds with
      | some n => if n < 2 ^ (bits - 1) then some (n : Int) else none
      | none => none
    else
      match digits? (c :: ds) with
      | some n => if n < 2 ^ (bits - 1) then some (n : Int) else none
      | none => none

/-! ### export -/

variable {H : Type} [DecidableEq H]

/-- the column-name line: `rows.Columns()` of selectHeadersSQL -/
def headerLine : Record :=
  ["version".toList, "merkleroot".toList, "nonce".toList, "bits".toList, "timestamp".toList]

/-- one row of selectHeadersSQL: version, merkleroot, nonce, bits, strftime('%s', timestamp) -/
def exportRow (cd : Codec H) (r : Row H) : Record :=
  [showInt r.version, cd.showH r.merkle, showNat r.nonce, showNat r.bits, showNat r.time]

/-- `WHERE header_state = 'LONGEST_CHAIN' ORDER BY height asc` -/
def exportRows (cd : Codec H) (s : Store H) : List Record := (lcAsc s).map (exportRow cd)

def exportFile (cd : Codec H) (s : Store H) : List Record := headerLine :: exportRows cd s

/-! ### import: one record -/

inductive RowErr where
  | fieldCount     -- encoding/csv ErrFieldCount: the record has another number of fields than the first line
  | recordLength   -- "invalid record length: expected 5 elements"
  | version | merkle | nonce | bits | timestamp
deriving DecidableEq, Repr

inductive Parsed (H : Type) where
  | ok (x : Src H)
  | malformed (e : RowErr)
  /-- the timestamp parses as an int64 but lies outside 0 … 2^32−1: the code ACCEPTS such a record (the hash uses
      the value truncated to 32 bits, the table stores the untruncated time) — `Row.time` cannot express that, so the
      model declares the input outside its domain instead of inventing a value -/
  | outside
deriving DecidableEq, Repr

/-- numberOfColumnsInCSVDatabaseFile -/
def nColumns : Nat := 5

/-- csv.Reader.Read (field-count rule) followed by parseRecordToBlockHeadersSource; checks in code order.
    `prev` is the previous row's hash (`Hash.String()` of a hash always parses back, so that error path of the code is
    unreachable and absent here). -/
def parseRecord (cd : Codec H) (hdrLen : Nat) (prev : H) (rec : Record) : Parsed H :=
  if rec.length ≠ hdrLen then .malformed .fieldCount
  else
    match rec with
    | [v, m, n, b, t] =>
      match parseInt 32 v with
      | none => .malformed .version
      | some ver =>
        match cd.parseH m with
        | none => .malformed .merkle
        | some mr =>
          match parseUint 32 n with
          | none => .malformed .nonce
          | some nonce =>
            match parseUint 32 b with
            | none => .malformed .bits
            | some bits =>
              match parseInt 64 t with
              | none => .malformed .timestamp
              | some ts =>
                if 0 ≤ ts ∧ ts < 4294967296 then
                  .ok { version := ver, prev := prev, merkle := mr, time := ts.toNat, bits := bits, nonce := nonce }
                else .outside
    | _ => .malformed .recordLength

/-- the loop state of sqLiteAdapter.importHeaders: previous hash, cumulated work, row index -/
structure Acc (H : Type) where
  prev : H
  cum : Nat
  idx : Nat
deriving DecidableEq, Repr

/-- calculateFields: height = row index, state LONGEST_CHAIN, cumulated work = running sum
    (`parseBigInt("")` of the first call is 0). `id` is a placeholder: the rowid is given by the insert. -/
def mkImported (cfg : Cfg H) (x : Src H) (acc : Acc H) : Row H :=
  { id := acc.idx, hash := cfg.hashOf x, prev := x.prev, merkle := x.merkle, height := acc.idx, version := x.version,
    time := x.time, bits := x.bits, nonce := x.nonce, work := work x.bits, cum := acc.cum + work x.bits, st := .lc }

def nextAcc (r : Row H) (acc : Acc H) : Acc H := { prev := r.hash, cum := r.cum, idx := acc.idx + 1 }

/-! ### import: batches -/

inductive BatchRes (H : Type) where
  | ok (rows : List (Row H)) (acc : Acc H)
  | bad (idx : Nat) (e : RowErr)
  | outside (idx : Nat)
deriving DecidableEq, Repr

/-- the record loop of insertHeaders: the first bad record ends it and NOTHING of the batch is inserted -/
def prepareBatch (cfg : Cfg H) (cd : Codec H) (hdrLen : Nat) : List Record → Acc H → BatchRes H
  | [], acc => .ok [] acc
  | rec :: rest, acc =>
    match parseRecord cd hdrLen acc.prev rec with
    | .malformed e => .bad acc.idx e
    | .outside => .outside acc.idx
    | .ok x =>
      let r := mkImported cfg x acc
      match prepareBatch cfg cd hdrLen rest (nextAcc r acc) with
      | .ok rows acc' => .ok (r :: rows) acc'
      | .bad i e => .bad i e
      | .outside i => .outside i

/-- HeadersDb.CreateMultiple: one transaction of `INSERT … ON CONFLICT DO NOTHING` (hash is the primary key) -/
def commitBatch (tbl : Store H) (rows : List (Row H)) : Store H := rows.foldl insertRow tbl

def chunkGo {α : Type} (bs : Nat) : Nat → List α → List (List α)
  | 0, _ => []
  | fuel + 1, l => if l.isEmpty then [] else l.take bs :: chunkGo bs fuel (l.drop bs)

/-- the records as insertHeaders reads them: `bs` at a time. (`bs = 0` cannot occur in the code — the constant is 500;
    its loop would stop at once having read nothing, which is what the empty list of batches gives.) -/
def chunk {α : Type} (bs : Nat) (l : List α) : List (List α) := if bs = 0 then [] else chunkGo bs l.length l

inductive ImportRes where
  | done (n : Nat)                       -- importCount = number of records read
  | rowError (idx : Nat) (e : RowErr)
  | outside (idx : Nat)
  | noHeaderLine                         -- reader.Read() of the column-name line fails (empty file)
deriving DecidableEq, Repr

/-- the `for` loop of sqLiteAdapter.importHeaders over the batches: a failure inside batch j leaves the batches
    before j committed -/
def importChunks (cfg : Cfg H) (cd : Codec H) (hdrLen : Nat) : List (List Record) → Store H → Acc H → Store H × ImportRes
  | [], tbl, acc => (tbl, .done acc.idx)
  | c :: cs, tbl, acc =>
    match prepareBatch cfg cd hdrLen c acc with
    | .ok rows acc' => importChunks cfg cd hdrLen cs (commitBatch tbl rows) acc'
    | .bad i e => (tbl, .rowError i e)
    | .outside i => (tbl, .outside i)

/-- sqLiteAdapter.importHeaders on a decompressed file -/
def importFile (cfg : Cfg H) (cd : Codec H) (bs : Nat) (file : List Record) (tbl : Store H) : Store H × ImportRes :=
  match file with
  | [] => (tbl, .noHeaderLine)
  | hdr :: recs => importChunks cfg cd hdr.length (chunk bs recs) tbl { prev := cd.zero, cum := 0, idx := 0 }

/-- the rows of a whole file in one pass (no batching): what the import inserts when nothing is wrong -/
def importRows (cfg : Cfg H) (cd : Codec H) (recs : List Record) : BatchRes H :=
  prepareBatch cfg cd nColumns recs { prev := cd.zero, cum := 0, idx := 0 }

/-! ### validation -/

inductive Refusal where
  | unreadable                      -- file missing / not a regular file / gzip error
  | noHeaderLine
  | row (idx : Nat) (e : RowErr)
  | count                           -- "imported %d headers, number of headers in database %d"
  | maxHeight                       -- "current maximum header height … is different from imported headers number -1"
  | heights                         -- "height values are not unique"
  | checkpointAbsent                -- "newest checkpoint block with height … is not present in the database"
  | checkpointMismatch              -- "newest checkpoint block has different hash"
deriving DecidableEq, Repr

inductive ValRes where
  | ok
  | refuse (e : Refusal)
  | panic                           -- `config.Checkpoints[len(config.Checkpoints)-1]` on an empty list
deriving DecidableEq, Repr

/-- sqlHighestBlock: `COALESCE(max(height),0)` -/
def maxHeight (tbl : Store H) : Nat := tbl.foldl (fun m r => max m r.height) 0

/-- validateDbConsistency, checks in code order; `cps` is config.Checkpoints (height, hash) -/
def validate (cps : List (Nat × H)) (n : Nat) (tbl : Store H) : ValRes :=
  if tbl.length ≠ n then .refuse .count
  else if (maxHeight tbl : Int) ≠ (n : Int) - 1 then .refuse .maxHeight
  else if ¬ (tbl.map (·.height)).Nodup then .refuse .heights
  else
    match cps.getLast? with
    | none => .panic
    | some cp =>
      match tbl.find? (fun r => decide (r.height = cp.1)) with
      | none => .refuse .checkpointAbsent
      | some r => if r.hash = cp.2 then .ok else .refuse .checkpointMismatch

/-! ### start-up -/

inductive StartRes where
  | skipped               -- "skipping preloading database from file, database already contains %d block headers"
  | imported (n : Nat)
  | refused (e : Refusal) -- database.Init returns an error: start-up fails
  | panicked
  | outside (idx : Nat)   -- see `Parsed.outside`
deriving DecidableEq, Repr

/-- ═══ THE SWITCH ═══
    What /repo does with the rows an import has already committed when the import is then refused
    (a bad record in a later batch, or validateDbConsistency failing):
      true  = the code since /repo commit "fix: a refused import leaves no headers behind": importHeaders calls
              removeImportedHeaders (`DELETE FROM headers`) on both error paths — the table was empty when the import
              started, so this removes exactly what the import wrote (pinned by `C17_cleanup_statement`);
      false = the code before that commit: nothing was removed, the next start found `count > 0`, skipped import AND
              validation and served the refused rows (finding K-C17-leftover, found by this check; its witness is
              corpus/C17/k-c17-leftover.ops and `C17_leftover_before_fix`). -/
def cleanupOnRefusal : Bool := true

/-- importHeaders (import.go): skipped entirely — import AND validation — when the table already has rows -/
def startWith (cleanup : Bool) (cfg : Cfg H) (cd : Codec H) (bs : Nat) (cps : List (Nat × H)) (tbl : Store H)
    (file : Option (List Record)) : Store H × StartRes :=
  if tbl.length > 0 then (tbl, .skipped)
  else
    match file with
    | none => (tbl, .refused .unreadable)
    | some f =>
      match importFile cfg cd bs f tbl with
      | (t, .done n) =>
        match validate cps n t with
        | .ok => (t, .imported n)
        | .refuse e => (if cleanup then [] else t, .refused e)
        | .panic => (t, .panicked)
      | (t, .rowError i e) => (if cleanup then [] else t, .refused (.row i e))
      | (t, .noHeaderLine) => (if cleanup then [] else t, .refused .noHeaderLine)
      | (t, .outside i) => (t, .outside i)

/-- database.Init with prepared_db = true on a database whose `headers` table is `tbl` -/
def start (cfg : Cfg H) (cd : Codec H) (bs : Nat) (cps : List (Nat × H)) (tbl : Store H)
    (file : Option (List Record)) : Store H × StartRes :=
  startWith cleanupOnRefusal cfg cd bs cps tbl file

/-! ### the text form of hashes for `H := String` (display hex, as everywhere in the driver) -/

def isHexChar (c : Char) : Bool :=
  c.isDigit || (decide ('a'.toNat ≤ c.toNat) && decide (c.toNat ≤ 'f'.toNat)) ||
    (decide ('A'.toNat ≤ c.toNat) && decide (c.toNat ≤ 'F'.toNat))

def lowerHex (c : Char) : Char :=
  if 'A'.toNat ≤ c.toNat ∧ c.toNat ≤ 'F'.toNat then Char.ofNat (c.toNat + 32) else c

/-- chainhash.Decode followed by String(): at most 64 hex digits of either case, zero-padded on the left -/
def parseHashText (cs : Text) : Option String :=
  if cs.length > 64 then none
  else if cs.all isHexChar then some (String.ofList (List.replicate (64 - cs.length) '0' ++ cs.map lowerHex))
  else none

def strCodec : Codec String := { showH := String.toList, parseH := parseHashText, zero := Header.zeroHash }

end BHS.ImpExp
