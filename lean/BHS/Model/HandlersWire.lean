/-
The regenerated API handlers (`BHS.Gen.Handlers`) wired as gin wires the Go code, and evaluated on one ABSTRACT request
of the HTTP hand model (`Http.Req`). Hand-written, core Lean only, no proofs (the driver evaluates `genServe` next to the
hand model on every `http req` and answers `err:gen-mismatch` when they differ; `BHS.Props.HandlersGen` proves that
they never differ).

* `respOf`   what the writes of a handler leave on the wire, by the ResponseWriter rule of the hand model (`Http.send`:
             the first write fixes the status line, later documents are appended);
* `answer`   the response of one handler run: a fault is a panic under gin.Recovery (`Http.panicResp`: 500, empty body
             — right when nothing was written before the fault, which is the case wherever a fault is reachable);
* `ginOf`    the gin context of an abstract request;
* `genServe` the chain of an /api/v1 route: token middleware (its outcome class is the abstract input `AuthIn`; a refusal
             is written by the GENERATED bhserrors.AbortWithErrorResponse), auth.RequireAdmin on the handlers
             `Gen.Handlers.adminOnly` names, then the generated handler.
-/
import BHS.Gen.Handlers

namespace BHS.HandlersWire
open BHS BHS.Chain BHS.Http BHS.HandlersPrim BHS.Gen.Handlers
open BHS.MerkleRootsPrim (Fault Err)

/-- the kind of document a JSON value renders to (vocabulary of the hand model) -/
def bodyOf : JVal → Body
  | .errorDoc c m => .errorDoc c m
  | .str _ => .bareString
  | _ => .value

def sendOut (prev : Option Response) : Out → Option Response
  | .bindAbort => (match prev with | none => afterBindAbort | some r => some r)
  | .json st v => some (send prev st.toNat (bodyOf v))

/-- a handler that writes nothing is answered 200 with an empty body by gin -/
def respOf (outs : List Out) : Response := (outs.foldl sendOut none).getD ⟨200, []⟩

def isDoc : Out → Bool
  | .json _ _ => true
  | .bindAbort => false

/-- number of documents written -/
def docs (outs : List Out) : Nat := (outs.filter isDoc).length

/-- the writes a run added to the context it started from -/
def newOuts (c : Gin) (c' : Gin) : List Out := c'.out.drop c.out.length

def answer (c : Gin) (r : Except Fault (World × Gin)) : Response :=
  match r with
  | .ok (_, c') => respOf (newOuts c c')
  | .error _ => panicResp

/-- the state after a run (a panic changes nothing) -/
def envAfter (w : World) (r : Except Fault (World × Gin)) : Env :=
  match r with
  | .ok (w', _) => w'.env
  | .error _ => w.env

/-- the hand model's view of a bind outcome -/
def bindOf {α : Type} (b : BodyIn α) : Bind α := if b.err then .bindErr else .parsed b.left

def inOf {α : Type} (dflt : α) : Bind α → BodyIn α
  | .bindErr => ⟨true, dflt⟩
  | .parsed v => ⟨false, v⟩

def baseGin (a : AuthIn) : Gin :=
  { param := fun _ => "", query := fun _ => none, auth := a, bodyStrs := ⟨false, []⟩, bodyItems := ⟨false, []⟩, bodyHook := ⟨false, ⟨"", "", "", ""⟩⟩ }

def ginOf (a : AuthIn) : Req → Gin
  | .headerByHash x => { baseGin a with param := fun k => if k = "hash" then x else "" }
  | .headerState x => { baseGin a with param := fun k => if k = "hash" then x else "" }
  | .byHeight x n => { baseGin a with query := fun k => if k = "height" then x else if k = "count" then n else none }
  | .ancestors x y => { baseGin a with param := fun k => if k = "hash" then x else if k = "ancestorHash" then y else "" }
  | .commonAncestor b => { baseGin a with bodyStrs := inOf [] b }
  | .verify b => { baseGin a with bodyItems := inOf [] b }
  | .webhookRegister e u => { baseGin a with bodyHook := ⟨e, ⟨u, "", "", ""⟩⟩ }
  | .webhookGet u => { baseGin a with query := fun k => if k = "url" then u else none }
  | .webhookDelete u => { baseGin a with query := fun k => if k = "url" then u else none }
  | .accessDelete t => { baseGin a with param := fun k => if k = "token" then t else "" }
  | _ => baseGin a

/-- the generated handler that serves a request, with its name in `Gen.Handlers.registered` -/
def handlerOf : Req → Option (String × (World → Gin → Except Fault (World × Gin)))
  | .headerByHash _ => some ("headers_getHeaderByHash", headers_getHeaderByHash)
  | .headerState _ => some ("headers_getHeadersState", headers_getHeadersState)
  | .byHeight _ _ => some ("headers_getHeaderByHeight", headers_getHeaderByHeight)
  | .ancestors _ _ => some ("headers_getHeaderAncestorsByHash", headers_getHeaderAncestorsByHash)
  | .commonAncestor _ => some ("headers_getCommonAncestor", headers_getCommonAncestor)
  | .tips => some ("tips_getTips", tips_getTips)
  | .tipLongest => some ("tips_getTipLongestChain", tips_getTipLongestChain)
  | .verify _ => some ("merkleroots_verify", merkleroots_verify)
  | .webhookRegister _ _ => some ("webhook_registerWebhook", webhook_registerWebhook)
  | .webhookGet _ => some ("webhook_getWebhook", webhook_getWebhook)
  | .webhookDelete _ => some ("webhook_revokeWebhook", webhook_revokeWebhook)
  | .accessGet => some ("access_getToken", access_getToken)
  | .accessCreate => some ("access_createToken", access_createToken)
  | .accessDelete _ => some ("access_revokeToken", access_revokeToken)
  | _ => none      -- merkleroots: Gen.MerkleRoots; peers, status, gin's own answers: not translated

/-- a refusal of the middleware / of RequireAdmin -/
def abortWith (w : World) (c : Gin) (e : Gen.ErrDef) : Except Fault (World × Gin) :=
  (bhserrors_AbortWithErrorResponse c (bhsErr e)).map (fun c' => (w, c'))

/-- one exchange on a route with a translated handler (`none`: the request has none) -/
def genServe (w : World) (a : AuthIn) (r : Req) : Option (Except Fault (World × Gin)) :=
  match handlerOf r with
  | none => none
  | some (name, f) =>
    let c := ginOf a r
    match gate a with
    | some e => some (abortWith w c e)
    | none =>
      if adminOnly.contains name then
        (match adminGate a with
         | some e => some (abortWith w c e)
         | none => some (f w c))
      else some (f w c)

/-- the switches whose repair is in the handlers' own text (the translated handlers ARE the repaired ones) -/
def handlerSwitchesOn (fx : Fixes) : Bool :=
  fx.byHeightValidatesHeight && fx.webhookReturnsAfterBindError && fx.verifyBindErrorStructured && fx.accessGetNoAuthStructured

/-- the driver's cross-check: does the generated code answer as the hand model does (response and webhook table)? -/
def agrees (fx : Fixes) (env : Env) (a : AuthIn) (r : Req) : Bool :=
  if handlerSwitchesOn fx then
    match genServe ⟨fx, env⟩ a r with
    | none => true
    | some res =>
      let p := step fx env a r
      decide (answer (ginOf a r) res = p.1) && decide ((envAfter ⟨fx, env⟩ res).hooks = p.2.hooks)
  else true

end BHS.HandlersWire
