/-
The event machine of M-ConnMgr with every piece of Go code replaced by its REGENERATED translation
(`BHS.Gen.ConnMgr`). Hand-written wiring, core Lean only (the model driver evaluates it next to the hand model).

What is wiring (trusted reading of the scheduler, the same one the hand model `BHS.Model.ConnMgr.step` makes):
an event of the hand model is one goroutine of the Go program running to its next blocking point —
* `dialOk id a` / `dialFail id a` / `addrFail id`: the parked goroutine of request `id` (`NewConnReq` stopped at
  `cfg.GetNewAddress()`, see `park`) resumes with the environment's answers (`GetNewAddress` returned `a` / an
  error, `Dial` succeeded / failed) and runs to its end, the handler taking its message at once;
  the request object it holds is `{ id := id, addr := none }` (made by `&ConnReq{}`, its id stored);
* `disc id retry`: a caller runs `Disconnect(id)` (`retry`) or `Remove(id)`;
* `Start`: `TargetOutbound` times `go cm.NewConnReq()` (the loop of `Start` itself is not translated).
-/
import BHS.Gen.ConnMgr

namespace BHS.Model.ConnMgr
open BHS.Gen.ConnMgr

def genStep (c : GCfg) (g : G) : Event → G
  | .dialOk id a =>
    if id ∈ g.live then NewConnReq_resume c { g with live := g.live.erase id } { id := id } (some a) true else g
  | .dialFail id a =>
    if id ∈ g.live then NewConnReq_resume c { g with live := g.live.erase id } { id := id } (some a) false else g
  | .addrFail id =>
    -- `Dial` is not reached: the last argument is not looked at (`genStep_addrFail_dial`)
    if id ∈ g.live then NewConnReq_resume c { g with live := g.live.erase id } { id := id } none false else g
  | .disc id true => Disconnect c g id
  | .disc id false => Remove c g id

def genSpawnN (c : GCfg) : Nat → G → G
  | 0, g => g
  | n + 1, g => genSpawnN c n (NewConnReq_begin c g)

/-- `Start` -/
def genStart (c : GCfg) : G := genSpawnN c c.target {}

def genRun (c : GCfg) (g : G) (evs : List Event) : G := evs.foldl (genStep c) g

end BHS.Model.ConnMgr
