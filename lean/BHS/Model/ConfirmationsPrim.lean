/-
M-ConfirmationsPrim: the vocabulary of the REGENERATED merkle-root verification BHS/Gen/Confirmations.lean
(harness/cmd/extract/gen_merkleroots.go, module "Confirmations": service → repository → dto mapping → SQL layer of
`GetMerkleRootsConfirmations`) in addition to BHS/Model/MerkleRootsCore.lean. Hand-written, core Lean only, TRUSTED.

How Go maps to Lean here (see also MerkleRootsPrim.lean)
* `string`                   ↦ `Option H` (`""` ↦ `none`; the text of a merkle root / block hash ↦ `some`). A request item
                               with the root text `r` is `⟨some r, h⟩`.
* `int32`                    ↦ `Int`; int32 `+`/`-` and the conversion `int32(x)` wrap around (`Chain.toInt32`); `int` ↦ `Int`.
* `sql.NullString`           ↦ `Option H`: `.Valid` ↦ `isSome`, `.String` ↦ the option itself (`""` when not valid).
* `domains.MerkleRootConfirmationState` ↦ `String` (the VALUES of `domains.Confirmed` … are read from the declaration).
* `*dto.DbMerkleRootConfirmation`, `*domains.MerkleRootConfirmation` ↦ `Option` of the structures below; slices of such
  pointers ↦ `List (Option …)` (the elements are built by the code: a nil element stays visible, its use is `Fault.noRow`).
* `ms.merkleCfg.MaxBlockHeightExcess` ↦ the parameter `excess_ : Int`.
The two SQL statements are primitives, keyed by the NAME of the SQL constant, with the semantics of the hand model
(BHS/Model/Query.lean `verifyHash`, BHS/Model/Chain.lean `maxLcHeight`); their text is pinned by Props/SqlShape.
-/
import BHS.Model.MerkleRootsCore

namespace BHS.MerkleRootsPrim
open BHS BHS.Chain

/-- domains.MerkleRootConfirmationRequestItem -/
structure ReqItem (H : Type) where
  merkleRoot : Option H
  blockHeight : Int
deriving DecidableEq, Repr

/-- dto.DbMerkleRootConfirmation -/
structure DbConf (H : Type) where
  merkleRoot : Option H
  blockHeight : Int
  hash : Option H
  tipHeight : Int
deriving DecidableEq, Repr

/-- domains.MerkleRootConfirmation -/
structure Conf (H : Type) where
  merkleRoot : Option H
  blockHeight : Int
  hash : Option H
  confirmation : String
deriving DecidableEq, Repr

variable {H : Type} [DecidableEq H]

/-- sqlTipOfChainHeight `SELECT MAX(height) … WHERE header_state = 'LONGEST_CHAIN'` into an int32: `Chain.maxLcHeight`;
    without a longest-chain row the aggregate is NULL and the scan fails (destination untouched) -/
def dbGet_sqlTipOfChainHeight (s : Store H) (dest : Int) : Except Fault (Int × Option Err) :=
  match maxLcHeight s with
  | some m => pure ((m : Int), none)
  | none => pure (dest, some .scanNull)

/-- sqlVerifyHash `SELECT hash … WHERE merkleroot = $1 AND height = $2 AND LONGEST_CHAIN` into a NullString: the hash of
    the row `Query.verifyHash` finds (no row has an empty root); sql.ErrNoRows and the destination untouched otherwise -/
def dbGet_sqlVerifyHash (s : Store H) (dest : Option H) (root : Option H) (height : Int) :
    Except Fault (Option H × Option Err) :=
  match root.bind (fun k => verifyHash s k height) with
  | some r => pure (some r.hash, none)
  | none => pure (dest, some .sqlNoRows)

end BHS.MerkleRootsPrim
