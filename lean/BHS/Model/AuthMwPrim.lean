/-
Primitives of the REGENERATED authentication middleware (`BHS.Gen.AuthMw`, written by
harness/cmd/extract/gen_authmw.go from transports/http/auth/*.go, service/token_service.go,
domains/tokens.go). Hand-written, core Lean only (links into bhsdriver), no proofs.

The translator turns Go statements into Lean terms over these types; everything the Go code
does to a `*gin.Context` is one of the functions below, everything it reads from its receiver is
a field of `TokenMiddleware` / `TokenService`.

Design (request "monad" in state-passing style):
* `*gin.Context`            ↦ `Ctx σ` (immutable record; `c.Set` / `AbortWithErrorResponse` / a handler
                              call rebind the variable: `let c := Ctx.set c k v; …`).
* `gin.HandlerFunc`         ↦ `Ctx σ → Ctx σ`; a Go function without results that takes the context
                              returns the context it leaves behind.
* `(T, error)` / `error`    ↦ `Res T` / `Res Unit` with a THIRD outcome `panic` (index out of range), so
                              that a refinement theorem `generated = view (hand model)` also says the
                              code cannot panic there.
* Go `error` values         ↦ `GoErr`: a `bhserrors.ErrX` is the regenerated definition
                              `BHS.Gen.errX` (name, code, HTTP status, message), anything else `other`.
* `strings.Split(s, " ")`   ↦ `stringsSplitSp` = the hand model's `split` over `List Char`
                              (`String.splitOn` does not reduce in the kernel).
* `σ` is whatever endpoint handlers may touch (the database); the middleware never looks at it.
-/
import BHS.Model.Auth
import BHS.Gen.Errors

namespace BHS.Model.AuthMwPrim

/-- a non-nil Go `error` -/
inductive GoErr
  | bhs (d : BHS.Gen.ErrDef)   -- one of the `var ErrX = BHSError{…}` of /repo/bhserrors
  | other (msg : String)       -- any other error (sql.ErrNoRows, driver errors, …)
deriving DecidableEq, Repr

/-- outcome of a Go function with an `error` result -/
inductive Res (α : Type)
  | ok (v : α)
  | err (e : GoErr)
  | panic (msg : String)
deriving DecidableEq, Repr

def Res.bind {α β : Type} (x : Res α) (f : α → Res β) : Res β :=
  match x with
  | .ok v => f v
  | .err e => .err e
  | .panic m => .panic m

/-- a non-nil `*domains.Token` (`CreatedAt` is not modelled) -/
structure Tok where
  token : String := ""
  isAdmin : Bool := false
deriving DecidableEq, Repr

/-- a value stored under a key of the gin context (`any`) -/
inductive Val
  | tok (t : Tok)   -- a `*domains.Token`
  | other           -- a value of any other dynamic type
deriving DecidableEq, Repr

instance : Coe Tok Val := ⟨Val.tok⟩

/-- `v.(*domains.Token)` in comma-ok form -/
def Val.asTok : Val → Option Tok
  | .tok t => some t
  | .other => none

inductive Status
  | running                 -- later handlers of the chain will run
  | aborted (e : GoErr)     -- `AbortWithStatusJSON(status of e, {code,message})`: no later handler runs
  | panicked (msg : String) -- a handler panicked (gin's recovery answers 500): no later handler runs
deriving DecidableEq, Repr

/-- what the translated code can see of / do to a `*gin.Context` -/
structure Ctx (σ : Type) where
  header : String → String          -- `c.GetHeader`: "" for an absent header
  keys : List (String × Val) := []  -- `c.Keys`
  status : Status := .running
  world : σ                         -- everything an endpoint handler may touch

variable {σ : Type}

def Ctx.getHeader (c : Ctx σ) (name : String) : String := c.header name

/-- `c.Set(key, v)` -/
def Ctx.set (c : Ctx σ) (key : String) (v : Val) : Ctx σ :=
  { c with keys := (key, v) :: c.keys.filter (fun kv => kv.1 != key) }

/-- `c.Get(key)` in comma-ok form -/
def Ctx.get (c : Ctx σ) (key : String) : Option Val :=
  (c.keys.find? (fun kv => kv.1 == key)).map Prod.snd

/-- `bhserrors.AbortWithErrorResponse(c, err, log)` (the logger is not modelled) -/
def Ctx.abort (c : Ctx σ) (e : GoErr) : Ctx σ := { c with status := .aborted e }

/-- a panic escaping a function that has no result to carry it -/
def Ctx.panic (c : Ctx σ) (msg : String) : Ctx σ := { c with status := .panicked msg }

/-- `strings.Split(s, " ")` -/
def stringsSplitSp (s : String) : List String := (BHS.Model.Auth.split s.toList).map String.ofList

/-- `xs[i]`: panics when out of range -/
def index (xs : List String) (i : Nat) : Res String :=
  match xs[i]? with
  | some v => .ok v
  | none => .panic "index out of range"

/-- receiver of `(*TokenService).GetToken`: the fields / calls it uses -/
structure TokenService where
  adminToken : String
  repo_Tokens_GetTokenByValue : String → Res Tok   -- `s.repo.Tokens.GetTokenByValue`

/-- receiver of the `TokenMiddleware` methods -/
structure TokenMiddleware where
  cfg_UseAuth : Bool
  tokens_GetToken : String → Res Tok               -- `h.tokens.GetToken` (interface `service.Tokens`)

/-- gin's handler chain (`c.Next()` loop): handlers run in order until one aborts (or panics) -/
def chain : List (Ctx σ → Ctx σ) → Ctx σ → Ctx σ
  | [], c => c
  | h :: hs, c =>
    let c' := h c
    match c'.status with
    | .running => chain hs c'
    | _ => c'

end BHS.Model.AuthMwPrim
