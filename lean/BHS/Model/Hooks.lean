/-
Executable model of the webhook channel (C12). Core Lean only.

What is modelled, statement by statement (line numbers of /repo at the time of writing):
  * table `webhooks` (migrations 5 + 7)                      → `Row`, a `List Row` in rowid order
  * database/sql/webhooks.go   sqlInsertWebhook / sqlGetWebhookByURL / sqlGetAllWebhooks /
                               sqlDeleteWebhookByURL / sqlUpdateWebhook → `sqlInsert … sqlUpdate`
  * repository/dto/webhooks.go ToWebhook                    → `toWebhook`
  * notification/webhooks.go   Webhook.Notify, updateWebhookAfterNotification, CreateWebhook
                                                            → `attempt`, `updateAfter`, `afterOutcome`
  * notification/webhooks_service.go CreateWebhook / refreshWebhook / DeleteWebhook / Notify /
                               GetWebhookByURL               → `register`, `delete`, `notify`, `get`
  * transports/http/client/webhook_target.go callRequest (+ net/http's header-name check)
                                                            → `wireAccepts`
  * transports/http/endpoints/api/webhook/endpoints.go      → the `url = ""` refusals, `Report`

`created_at` is not modelled (written once, never read by any code path of the property).
Time is abstract: the clock is the number of `notify` operations so far; `Stamp.at k` is
"during the k-th event".  Strings are real strings (the empty header name matters).

THE THREE BEHAVIOURS THE DESIGN SUSPECTED (F2) ARE ONE DEFINITION EACH, directly below.
All three were confirmed as defects by this check and repaired in /repo (acffb03, 0c73de3,
b2d3d75); the definitions describe the repaired code (see docs/findings/C12.md).
-/
namespace BHS.Model.Hooks

/-! ## The three switches -/

/-- (i) `Webhook.MaxTries` after a hook was loaded from the table, given `webhook.max_tries`
of the configuration.  CODE (since /repo acffb03): `WebhooksService.Notify` sets
`webhook.MaxTries = s.cfg.MaxTries` for every hook it loaded.
(Before the fix the field kept Go's zero value: `:= 0`.) -/
def restoredMaxTries (cfgMax : Nat) : Nat := cfgMax

/-- (ii) does the delivery path leave out a header whose NAME is empty (the no-authorisation
registration stores `token_header = ""`)?  CODE (since /repo 0c73de3): yes — `Webhook.Notify`
adds `TokenHeader: Token` to the header map only when `TokenHeader != ""`.
(Before the fix `"" : ""` reached `req.Header.Add` and `http.Client.Do` refused the request
with `net/http: invalid header field name ""` before anything was sent: `:= false`.) -/
def emptyHeaderNameSkipped : Bool := true

/-- (iii) does `dto.ToWebhook` copy `last_emit_status` / `last_emit_timestamp`?
CODE (since /repo b2d3d75): yes, for the query endpoint and for `refreshWebhook` (which
therefore writes the loaded values back unchanged).
(Before the fix both stayed at Go's zero value (`""`, `0001-01-01`): `:= false`.) -/
def toWebhookMapsLastEmit : Bool := true

/-! ## Data -/

/-- `last_emit_status`: `""`, `fmt.Sprint(code, " ", body)`, or `fmt.Sprint(err)`. -/
inductive Status where
  | none
  | reply (code : Nat) (body : String)
  | err
deriving DecidableEq, Repr

/-- `last_emit_timestamp`: the column default `1970-01-01 00:00:00`, Go's zero time
`0001-01-01` (what `refreshWebhook` writes back today), or "during event k". -/
inductive Stamp where
  | never
  | zero
  | at (k : Nat)
deriving DecidableEq, Repr

/-- the event during which the last attempt was made, if there was one. -/
def Stamp.attempt : Stamp → Option Nat
  | .at k => some k
  | _ => Option.none

/-- what the target / network does with one delivery (scripted by the environment). -/
inductive Outcome where
  /-- a reply with a readable body -/
  | reply (code : Nat) (body : String)
  /-- `client.Call` returns an error -/
  | transportErr
  /-- a reply (any status, 200 included) whose body cannot be read: `io.ReadAll` fails -/
  | unreadableBody (code : Nat)
deriving DecidableEq, Repr

/-- one row of `webhooks`: exactly the columns the statements read or write (minus `created_at`). -/
structure Row where
  url : String
  tokenHeader : String
  token : String
  lastStatus : Status
  lastAt : Stamp
  errors : Nat
  active : Bool
deriving DecidableEq, Repr

/-- `notification.Webhook` in memory. -/
structure Hook where
  url : String
  tokenHeader : String
  token : String
  lastStatus : Status
  lastAt : Stamp
  errors : Nat
  active : Bool
  maxTries : Nat
deriving DecidableEq, Repr

structure Cfg where
  /-- `webhook.max_tries` -/
  maxTries : Nat
  /-- `true`: the production client (`transports/http/client` over net/http);
      `false`: a scripted `WebhookTargetClient` that accepts any header map -/
  prod : Bool
deriving DecidableEq, Repr

structure State where
  table : List Row := []
  /-- number of events delivered so far -/
  clock : Nat := 0
deriving DecidableEq, Repr

/-! ## SQL statements (database/sql/webhooks.go) -/

/-- `INSERT INTO webhooks(url, token_header, token, created_at)`; `url` is the PRIMARY KEY, so
the statement fails exactly when the url is present; the other columns take their defaults
(`''`, `'1970-01-01 00:00:00'`, `0`, `TRUE`). -/
def sqlInsert (t : List Row) (url hdr tok : String) : Option (List Row) :=
  if t.any (fun r => decide (r.url = url)) then Option.none
  else some (t ++ [{ url := url, tokenHeader := hdr, token := tok, lastStatus := .none, lastAt := .never, errors := 0, active := true }])

/-- `SELECT … FROM webhooks WHERE url = ?` through `db.Get`: first row or an error. -/
def sqlGetByUrl (t : List Row) (url : String) : Option Row :=
  t.find? (fun r => decide (r.url = url))

/-- `SELECT … FROM webhooks` (no ORDER BY: rowid order). -/
def sqlGetAll (t : List Row) : List Row := t

/-- `DELETE FROM webhooks WHERE url = :url`. -/
def sqlDelete (t : List Row) (url : String) : List Row :=
  t.filter (fun r => !decide (r.url = url))

/-- `UPDATE webhooks SET last_emit_status, last_emit_timestamp, errors_count, is_active WHERE url IN (?)`. -/
def sqlUpdate (t : List Row) (url : String) (ls : Status) (la : Stamp) (e : Nat) (a : Bool) : List Row :=
  t.map (fun r => if r.url = url then { r with lastStatus := ls, lastAt := la, errors := e, active := a } else r)

/-! ## DTO (repository/dto/webhooks.go) -/

/-- `DbWebhook.ToWebhook` (+ the threshold the service leaves in `MaxTries`, switch (i)). -/
def toWebhook (cfgMax : Nat) (r : Row) : Hook :=
  { url := r.url, tokenHeader := r.tokenHeader, token := r.token,
    lastStatus := if toWebhookMapsLastEmit then r.lastStatus else .none,
    lastAt := if toWebhookMapsLastEmit then r.lastAt else .zero,
    errors := r.errors, active := r.active,
    maxTries := restoredMaxTries cfgMax }

/-- `repository.UpdateWebhook(w)`: the four mutable fields of `w` into the row with `w.url`. -/
def repoUpdate (t : List Row) (w : Hook) : List Row :=
  sqlUpdate t w.url w.lastStatus w.lastAt w.errors w.active

/-! ## notification/webhooks.go -/

/-- `updateWebhookAfterNotification(sCode, body, err)` at time `now`; `st` is the status string. -/
def updateAfter (w : Hook) (sCode : Nat) (st : Status) (now : Nat) : Hook :=
  if sCode ≠ 200 then
    { w with lastAt := .at now, lastStatus := st, errors := w.errors + 1,
             active := if w.errors + 1 ≥ w.maxTries then false else w.active }
  else
    { w with lastAt := .at now, lastStatus := st, errors := 0, active := true }

/-- the three exits of `Webhook.Notify` after `client.Call` returned. -/
def afterOutcome (w : Hook) (now : Nat) : Outcome → Hook
  | .reply c b => updateAfter w c (.reply c b) now
  | .transportErr => updateAfter w 0 .err now
  | .unreadableBody _ => updateAfter w 0 .err now

/-- a delivery counts as a success exactly when a readable reply with status 200 came back. -/
def Outcome.isOk : Outcome → Bool
  | .reply c _ => decide (c = 200)
  | _ => false

/-- one `client.Call`: the url and the authorisation entry `TokenHeader: Token` of the header
map (the map also holds the constant `Content-Type: application/json`; a custom header
literally named `Content-Type` is outside the model, see the assumptions). -/
structure Call where
  url : String
  name : String
  value : String
deriving DecidableEq, Repr

/-- does a request with this authorisation header name leave the client?  The scripted client
accepts everything; net/http refuses a header whose name is not a token — modelled for the
one name the service itself produces, the empty one (switch (ii)). -/
def wireAccepts (prod : Bool) (name : String) : Bool :=
  !prod || decide (name ≠ "") || emptyHeaderNameSkipped

/-- one attempt: the call made, whether an HTTP POST reached the target, and the outcome
`Webhook.Notify` saw. -/
structure Attempt where
  call : Call
  posted : Bool
  seen : Outcome
deriving DecidableEq, Repr

def attempt (cfg : Cfg) (out : String → Outcome) (w : Hook) : Attempt :=
  if wireAccepts cfg.prod w.tokenHeader then
    { call := ⟨w.url, w.tokenHeader, w.token⟩, posted := true, seen := out w.url }
  else
    { call := ⟨w.url, w.tokenHeader, w.token⟩, posted := false, seen := .transportErr }

/-! ## notification/webhooks_service.go -/

inductive Err where
  | urlBodyRequired
  | urlParamRequired
  | refreshWebhook
  | webhookNotFound
deriving DecidableEq, Repr

/-- what the endpoints serialise of a `notification.Webhook`. -/
structure Report where
  active : Bool
  errors : Nat
  lastStatus : Status
  lastAt : Stamp
deriving DecidableEq, Repr

def report (w : Hook) : Report :=
  { active := w.active, errors := w.errors, lastStatus := w.lastStatus, lastAt := w.lastAt }

inductive Reply where
  | ok (r : Report)
  | done
  | refused (e : Err)
deriving DecidableEq, Repr

inductive AuthKind where
  /-- `strings.ToLower(authType) == "bearer"` -/
  | bearer
  /-- anything else: CUSTOM_HEADER, no authorisation (`header = token = ""`), unknown types -/
  | other
deriving DecidableEq, Repr

/-- the `(token_header, token)` pair `CreateWebhook` stores. -/
def authHeader (k : AuthKind) (header token : String) : String × String :=
  match k with
  | .bearer => ("Authorization", "Bearer " ++ token)
  | .other => (header, token)

/-- POST /api/v1/webhook → `WebhooksService.CreateWebhook` → (on any insert error) `refreshWebhook`. -/
def register (cfg : Cfg) (s : State) (k : AuthKind) (header token url : String) : State × Reply :=
  if url = "" then (s, .refused .urlBodyRequired) else
  match sqlInsert s.table url (authHeader k header token).1 (authHeader k header token).2 with
  | some t' =>
      -- the response is the in-memory webhook made by `notification.CreateWebhook`
      ({ s with table := t' }, .ok { active := true, errors := 0, lastStatus := .none, lastAt := .zero })
  | Option.none =>
      match sqlGetByUrl s.table url with
      | Option.none => (s, .refused .webhookNotFound)  -- the code's error path; unreachable (insert fails only on the key)
      | some r =>
          let w := toWebhook cfg.maxTries r
          if w.active then (s, .refused .refreshWebhook)
          else
            let w' := { w with active := true, errors := 0 }
            ({ s with table := repoUpdate s.table w' }, .ok (report w'))

/-- DELETE /api/v1/webhook?url= → `DeleteWebhook`. -/
def delete (s : State) (url : String) : State × Reply :=
  if url = "" then (s, .refused .urlParamRequired) else
  match sqlGetByUrl s.table url with
  | Option.none => (s, .refused .webhookNotFound)
  | some _ => ({ s with table := sqlDelete s.table url }, .done)

/-- GET /api/v1/webhook?url= → `GetWebhookByURL`. -/
def get (cfg : Cfg) (s : State) (url : String) : Reply :=
  if url = "" then .refused .urlParamRequired else
  match sqlGetByUrl s.table url with
  | Option.none => .refused .webhookNotFound
  | some r => .ok (report (toWebhook cfg.maxTries r))

/-- the body of the loop of `WebhooksService.Notify` over the snapshot loaded at its start:
inactive hooks are skipped; an active one is called, updated in memory and written back. -/
def notifyLoop (cfg : Cfg) (out : String → Outcome) (now : Nat) : List Hook → List Row × List Attempt → List Row × List Attempt
  | [], acc => acc
  | w :: ws, (t, as) =>
      if w.active then
        let a := attempt cfg out w
        notifyLoop cfg out now ws (repoUpdate t (afterOutcome w now a.seen), as ++ [a])
      else notifyLoop cfg out now ws (t, as)

/-- `WebhooksService.Notify(event)`: one event, delivered synchronously. -/
def notify (cfg : Cfg) (s : State) (out : String → Outcome) : State × List Attempt :=
  let now := s.clock + 1
  let hooks := (sqlGetAll s.table).map (toWebhook cfg.maxTries)
  let r := notifyLoop cfg out now hooks (s.table, [])
  ({ table := r.1, clock := now }, r.2)

/-! ## Operation sequences -/

inductive Op where
  | register (k : AuthKind) (header token url : String)
  | delete (url : String)
  | notify (out : String → Outcome)
  | get (url : String)
  /-- stop and start the service on the same database: the service keeps no webhook state in memory -/
  | restart

inductive Res where
  | reply (r : Reply)
  | attempts (as : List Attempt)
  | restarted

def step (cfg : Cfg) (s : State) : Op → State × Res
  | .register k h t u => let r := register cfg s k h t u; (r.1, .reply r.2)
  | .delete u => let r := delete s u; (r.1, .reply r.2)
  | .notify out => let r := notify cfg s out; (r.1, .attempts r.2)
  | .get u => (s, .reply (get cfg s u))
  | .restart => (s, .restarted)

/-- the state after a sequence of operations. -/
def run (cfg : Cfg) : List Op → State → State
  | [], s => s
  | op :: ops, s => run cfg ops (step cfg s op).1

/-- the HTTP POSTs that reached targets during one event. -/
def posts (as : List Attempt) : List Call := (as.filter (·.posted)).map (·.call)

end BHS.Model.Hooks
