/-
M-Auth / M-Tokens: executable model of
  transports/http/auth/auth_token_middleware.go  (ApplyToAPI, parseAuthHeader, getToken)
  transports/http/auth/require_auth.go           (RequireAdmin, validateToken)
  service/token_service.go                       (GenerateToken, GetToken, DeleteToken)
  database/sql/tokens.go                         (INSERT … ON CONFLICT DO NOTHING, SELECT … WHERE token = ?, DELETE … WHERE token = :token)
  transports/websocket/websocket_server.go       (OnConnecting: Tokens.GetToken(event.Token) when auth is required)
  transports/http/endpoints/bhs_endpoints.go     (group "/api/v1" carries the middleware; root group does not)
Core Lean only (links into bhsdriver).

Strings are Lean `String`s (valid UTF-8). Go strings are byte strings and
`strings.Split(h, " ")` splits on the byte 0x20; on valid UTF-8 that is the same
as splitting the character list on ' ' (UTF-8 is self-synchronising). Header
values that are not valid UTF-8 are outside the model (stated as an assumption).
-/
namespace BHS.Model.Auth

/-! ## routing table rows (data of `BHS.Gen.Routes`) -/

/-- one row of gin's `Engine.Routes()` -/
structure Route where
  method : String
  path : String
deriving DecidableEq, Repr, Inhabited

/-- the configuration switches that decide which routes are registered -/
structure Cfg where
  useAuth : Bool
  profiling : Bool
  metrics : Bool
deriving DecidableEq, Repr, Inhabited

/-- the API prefix of `SetupRoutes` (`prefix := "/api/v1"`) -/
def apiPrefix : String := "/api/v1"

/-- a registered path lies in the router group `engine.Group("/api/v1", apiMiddlewares...)`:
    the path is the prefix itself or continues with '/'. (gin joins group and relative paths,
    so every route registered on the group has this shape.) -/
def underPrefix (path : String) : Bool :=
  path == apiPrefix || (apiPrefix.toList ++ ['/']).isPrefixOf path.toList

def behindAuth (r : Route) : Bool := underPrefix r.path

/-- classes of routes the property allows outside the authenticated prefix -/
inductive Kind | api | status | swagger | metrics | pprof | websocket | other
deriving DecidableEq, Repr

def kind (r : Route) : Kind :=
  if behindAuth r then .api
  else if r.method == "GET" && r.path == "/status" then .status
  else if r.method == "GET" && "/swagger/".toList.isPrefixOf r.path.toList then .swagger
  else if r.method == "GET" && r.path == "/metrics" then .metrics
  else if r.method == "GET" && "/pprof/debug/".toList.isPrefixOf r.path.toList then .pprof
  else if r.method == "GET" && r.path == "/connection/websocket" then .websocket
  else .other

/-- may a route of this kind exist in configuration `c`? -/
def allowedIn (c : Cfg) : Kind → Bool
  | .api => true
  | .status => true
  | .swagger => true
  | .websocket => true
  | .metrics => c.metrics
  | .pprof => c.profiling
  | .other => false

/-- the two routes the access handler wraps with `auth.RequireAdmin(…, cfg.UseAuth)` -/
def adminOnly (r : Route) : Bool :=
  (r.method == "POST" && r.path == "/api/v1/access") ||
  (r.method == "DELETE" && r.path == "/api/v1/access/:token")

/-! ## `strings.Split(header, " ")` -/

/-- first part and remaining parts of `strings.Split(s, " ")` -/
def splitSp : List Char → List Char × List (List Char)
  | [] => ([], [])
  | c :: cs =>
    let r := splitSp cs
    if c = ' ' then ([], r.1 :: r.2) else (c :: r.1, r.2)

/-- `strings.Split(s, " ")`: never empty; `""` gives `[""]`, `"a  b"` gives `["a","","b"]` -/
def split (s : List Char) : List (List Char) := (splitSp s).1 :: (splitSp s).2

/-! ## middleware -/

/-- the four 401 answers of the middleware / RequireAdmin, by `bhserrors` code -/
inductive Reject
  | missingHeader      -- ErrMissingAuthHeader   401 "empty auth header"
  | invalidHeader      -- ErrInvalidAuthHeader   401 "invalid auth header"
  | invalidToken       -- ErrInvalidAccessToken  401 "invalid access token"
  | notAdmin           -- ErrUnauthorized        401 "not authorized"
  | adminTokenNotFound -- ErrAdminTokenNotFound  401 "admin token not found" (no token in the gin context)
deriving DecidableEq, Repr

def Reject.code : Reject → String
  | .missingHeader => "ErrMissingAuthHeader"
  | .invalidHeader => "ErrInvalidAuthHeader"
  | .invalidToken => "ErrInvalidAccessToken"
  | .notAdmin => "ErrUnauthorized"
  | .adminTokenNotFound => "ErrAdminTokenNotFound"

/-- "Bearer <t>" -/
def bearer (t : String) : String := "Bearer " ++ t

inductive Parse
  | missing
  | invalid
  | token (t : String)
deriving DecidableEq, Repr

/-- `parseAuthHeader`: `c.GetHeader` gives "" for an absent header; `header == ""` ⇒ missing;
    exactly two parts of which the first is exactly "Bearer" (case-sensitive) ⇒ the second part
    (possibly empty); anything else ⇒ invalid. -/
def parseAuthHeader (h : String) : Parse :=
  if h = "" then .missing
  else match split h.toList with
    | [a, b] => if a = "Bearer".toList then .token (String.ofList b) else .invalid
    | _ => .invalid

/-- the tokens table: values in rowid order (`token VARCHAR(255) PRIMARY KEY`) -/
abbrev Store := List String

/-- `TokenService.GetToken`: admin compare FIRST (`CreateAdminToken`, IsAdmin = true), then
    `SELECT … WHERE token = ?` (a row ⇒ IsAdmin = false; `sql.ErrNoRows` ⇒ error). -/
def getToken (admin : String) (st : Store) (t : String) : Option Bool :=
  if t = admin then some true
  else if t ∈ st then some false
  else none

structure Env where
  admin : String
  useAuth : Bool
deriving Repr, Inhabited

/-- what `ApplyToAPI` does to the gin context -/
inductive Mw
  | abort (why : Reject)         -- AbortWithStatusJSON(401, …): no later handler runs
  | next (ctx : Option Bool)     -- c.Set("token", …) happened (some isAdmin) or not (auth off)
deriving DecidableEq, Repr

def middleware (env : Env) (st : Store) (hdr : String) : Mw :=
  if env.useAuth then
    match parseAuthHeader hdr with
    | .missing => .abort .missingHeader
    | .invalid => .abort .invalidHeader
    | .token t =>
      match getToken env.admin st t with
      | none => .abort .invalidToken
      | some a => .next (some a)
  else .next none

/-- the answer of the authentication layer for one request -/
inductive Decision
  | unauthorized401 (why : Reject)
  | pass (ctx : Option Bool)     -- the endpoint handler is called; ctx = token put into the context
deriving DecidableEq, Repr

/-- `RequireAdmin(handler, requireAdmin)` + `validateToken` -/
def requireAdmin (wrapped : Bool) (ctx : Option Bool) : Decision :=
  if wrapped then
    match ctx with
    | none => .unauthorized401 .adminTokenNotFound
    | some true => .pass ctx
    | some false => .unauthorized401 .notAdmin
  else .pass ctx

/-- a request to a route of the "/api/v1" group; `admin` says whether the route is one of the two
    registered through `auth.RequireAdmin(h, cfg.UseAuth)` -/
def authorize (env : Env) (st : Store) (admin : Bool) (hdr : String) : Decision :=
  match middleware env st hdr with
  | .abort why => .unauthorized401 why
  | .next ctx => requireAdmin (admin && env.useAuth) ctx

def Decision.render : Decision → String
  | .unauthorized401 w => "401 " ++ w.code
  | .pass none => "pass open"
  | .pass (some true) => "pass admin"
  | .pass (some false) => "pass user"

/-- websocket `OnConnecting`: `GetToken(event.Token)` only when auth is required -/
def wsConnect (env : Env) (st : Store) (t : String) : Bool :=
  if env.useAuth then (getToken env.admin st t).isSome else true

/-! ## serving a request: state changes only through the handler -/

/-- everything a handler may change: the tokens table and the rest (webhooks, headers, …) -/
structure World (σ : Type) where
  tokens : Store
  rest : σ

structure Served (σ : Type) where
  world : World σ
  decision : Decision
  handlerRan : Bool

/-- a route of the authenticated group: gin runs the group middleware, then (unless aborted)
    the possibly RequireAdmin-wrapped handler. -/
def serve {σ : Type} (env : Env) (admin : Bool) (handler : World σ → World σ) (w : World σ) (hdr : String) : Served σ :=
  match authorize env w.tokens admin hdr with
  | .unauthorized401 why => ⟨w, .unauthorized401 why, false⟩
  | .pass ctx => ⟨handler w, .pass ctx, true⟩

/-- any registered route: routes under the prefix are in the authenticated group (and the two
    access-management routes are RequireAdmin-wrapped); routes of the root group (status, swagger,
    metrics, pprof, websocket upgrade) have no authentication middleware. -/
def serveRoute {σ : Type} (env : Env) (r : Route) (handler : World σ → World σ) (w : World σ) (hdr : String) : Served σ :=
  if behindAuth r then serve env (adminOnly r) handler w hdr
  else ⟨handler w, .pass none, true⟩

/-- the credential the property names: `Authorization: Bearer <t>` with `t` the admin token or a
    stored token. (`t` must be space-free: a third part makes the header invalid.) -/
def validCred (env : Env) (st : Store) (hdr : String) : Prop :=
  ∃ t, hdr = bearer t ∧ ' ' ∉ t.toList ∧ (t = env.admin ∨ t ∈ st)

/-- the admin credential -/
def adminCred (env : Env) (hdr : String) : Prop :=
  hdr = bearer env.admin ∧ ' ' ∉ env.admin.toList

/-! ## token table statements and the lifecycle machine -/

/-- `INSERT INTO tokens … ON CONFLICT DO NOTHING` -/
def insertTok (st : Store) (t : String) : Store := if t ∈ st then st else st ++ [t]

/-- `DELETE FROM tokens WHERE token = :token` -/
def deleteTok (st : Store) (t : String) : Store := st.filter (fun x => x ≠ t)

structure Sys where
  env : Env
  store : Store
deriving Repr, Inhabited

/-- operations of the lifecycle machine. `create`/`revoke` are the HTTP requests
    POST /api/v1/access and DELETE /api/v1/access/<t> carrying header `hdr`; the value `t` of
    `create` is what `uniuri.NewLen(32)` returned (environment choice). -/
inductive Op
  | create (hdr : String) (t : String)
  | revoke (hdr : String) (t : String)
  | auth (hdr : String)
  | ws (t : String)
  | restart
deriving DecidableEq, Repr

/-- close and reopen the same database file with the same configuration: migrations are a no-op,
    rows persist -/
def restart (s : Sys) : Sys := s

def step (s : Sys) : Op → Sys
  | .create hdr t =>
    match authorize s.env s.store true hdr with
    | .pass _ => { s with store := insertTok s.store t }
    | .unauthorized401 _ => s
  | .revoke hdr t =>
    match authorize s.env s.store true hdr with
    | .pass _ => { s with store := deleteTok s.store t }
    | .unauthorized401 _ => s
  | .auth _ => s
  | .ws _ => s
  | .restart => restart s

def run (s : Sys) (ops : List Op) : Sys := ops.foldl step s

/-- does a request with header `hdr` get through RequireAdmin? (does not depend on the table:
    a stored token is answered ErrUnauthorized, an unknown one ErrInvalidAccessToken — both 401) -/
def adminPass (env : Env) (hdr : String) : Bool :=
  match authorize env [] true hdr with
  | .pass _ => true
  | .unauthorized401 _ => false

/-- the token values handed out by the successful POST /api/v1/access requests of a run, in order -/
def issued (env : Env) (ops : List Op) : List String :=
  ops.filterMap (fun
    | .create hdr t => if adminPass env hdr then some t else none
    | _ => none)

/-- observable answer of one operation -/
def answer (s : Sys) : Op → String
  | .create hdr _ => (authorize s.env s.store true hdr).render
  | .revoke hdr _ => (authorize s.env s.store true hdr).render
  | .auth hdr => (authorize s.env s.store false hdr).render
  | .ws t => if wsConnect s.env s.store t then "connected" else "rejected"
  | .restart => "ok"

end BHS.Model.Auth
