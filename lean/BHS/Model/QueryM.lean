/-
M-QueryM: the vocabulary the REGENERATED module BHS/Gen/HeaderSvc.lean is written in. harness/cmd/extract/gen_headersvc.go
(sharing the translator core of gen_chainsvc.go) translates the query side of the service — service/header_service.go,
database/repository/header_repository.go and database/sql/headers.go — statement by statement into `do` blocks of
`QueryM H`, a reader over the model store (BHS/Model/Chain.lean) with the faults below. Hand-written, core Lean only.
Everything here is TRUSTED as the meaning of one Go notion; the SQL statements stay primitives: one function per SQL
constant NAME, defined with the list functions of the hand model BHS/Model/Query.lean (the text of every statement is
pinned by Gen.SqlText / Props/SqlShape.lean).

How Go maps to Lean here
* the database                         ↦ the model store of the environment (these functions only read).
* `*domains.BlockHeader`, `*dto.DbBlockHeader`, a `var x dto.DbBlockHeader` that `db.Get` scans into
                                       ↦ `Option (Row H)` (`nil` / nothing scanned = `none`); a dereference of `none` is the fault
                                         `nilDeref` (Go panics), never a default. DbBlockHeader ≙ BlockHeader ≙ Row:
                                         `ToBlockHeader` / `ConvertToBlockHeader` only dereference.
* `[]*domains.BlockHeader`, `[]*dto.DbBlockHeader`, `[]dto.DbBlockHeader` ↦ `List (Option (Row H))` (a nil slice is `[]`).
* `*wire.BlockHeader` ↦ `Option (Src H)`; `[]*wire.BlockHeader` ↦ `List (Option (Src H))`.
* hashes — `string` (every string of this code is the hex rendering of a hash), `chainhash.Hash`, `*chainhash.Hash`
  (non-nil: they come out of the wire decoder), `[]string`, `[]*chainhash.Hash`, `domains.BlockLocator`
                                       ↦ `H`, `List H`; `&chainhash.Hash{}` (all zero) ↦ `default`.
* `int`, `int32`                       ↦ `Int` WITHOUT wrap-around (assumption of C13 / C04: heights stay below 2^31);
  `uint8`, `uint32` (only the capacity of the locator is computed in them) ↦ `Int` with wrap-around (`wrapU`).
* `error`                              ↦ `Option Err`; a result list `(v, err)` ↦ the pair, both stay separate variables.
* `for cond {…}`                       ↦ a loop over `loopFuel`: at most `fuel` iterations (a parameter of the run), running
                                         out is the fault `outOfFuel`. A refinement theorem `∀ fuel ≥ bound, … = pure …`
                                         therefore also states that the Go loop terminates within `bound` iterations.
* reads are infallible apart from "no rows" (connection failures are not modelled).
-/
import BHS.Model.Query
import BHS.Spec.BestChain

namespace BHS.QueryM
open BHS BHS.Chain

/-- outcomes the translation gives no meaning to -/
inductive Fault where
  | nilDeref          -- Go panics
  | indexOutOfRange   -- Go panics
  | outOfFuel         -- a `for cond` loop did not stop within the loop budget
deriving DecidableEq, Repr

/-- the `error` values of these code paths; only their class is observable to the hand model -/
inductive Err where
  | sqlNoRows                                   -- database/sql.ErrNoRows
  | bhs (name : String)                         -- bhserrors.<name>
  | bhsWrap (name : String) (cause : Err)       -- bhserrors.<name>.Wrap(cause), cause non-nil
  | msg (text : String)                         -- errors.New / fmt.Errorf / errors.Errorf (format string)
  | wrap (text : String) (cause : Err)          -- pkg/errors.Wrap(f)(cause, text)
deriving DecidableEq, Repr

/-- `errors.Is(err, sql.ErrNoRows)`: the chain of causes is searched -/
def Err.isNoRows : Err → Bool
  | .sqlNoRows => true
  | .wrap _ c => c.isNoRows
  | .bhsWrap _ c => c.isNoRows
  | _ => false

def isNoRows (e : Option Err) : Bool := match e with
  | some e => e.isNoRows
  | none => false

/-- pkg/errors.Wrap / Wrapf: wrapping nil is nil -/
def errorsWrap (e : Option Err) (text : String) : Option Err := e.map (Err.wrap text)

/-- bhserrors.<name>.Wrap(cause): a BHSError whose cause may be nil -/
def bhsWrap (name : String) (cause : Option Err) : Option Err :=
  some (match cause with | some c => .bhsWrap name c | none => .bhs name)

/-- the code of the outermost bhserrors value (`none`: not a BHSError) — what the HTTP layer answers with -/
def Err.bhsName : Err → Option String
  | .bhs n => some n
  | .bhsWrap n _ => some n
  | _ => none

/-- uint8 / uint32 arithmetic -/
def wrapU (bits : Nat) (x : Int) : Int := x % (2 ^ bits : Nat)

structure QEnv (H : Type) where
  store : Store H
  /-- the iteration budget of every `for cond` loop -/
  fuel : Nat

abbrev QueryM (H : Type) := ReaderT (QEnv H) (Except Fault)

variable {H : Type} [DecidableEq H]

/-- a read of the store -/
def readStore {α : Type} (f : Store H → α) : QueryM H α := fun env => .ok (f env.store)

/-! ### pointers, slices, loops -/

/-- `p.F`, `*p`, a pointer-receiver method that reads its receiver -/
def deref {α : Type} : Option α → QueryM H α
  | some a => pure a
  | none => throw .nilDeref

/-- `xs[i]` -/
def index {α : Type} (xs : List α) (i : Nat) : QueryM H α :=
  match xs[i]? with
  | some a => pure a
  | none => throw .indexOutOfRange

/-- `xs[i] = v` -/
def setIndex {α : Type} (xs : List α) (i : Nat) (v : α) : QueryM H (List α) :=
  if i < xs.length then pure (xs.set i v) else throw .indexOutOfRange

/-- the budget of a `for cond {…}` loop -/
structure Fuel where
  n : Nat

def fuelLoop {β : Type} (body : Unit → β → QueryM H (ForInStep β)) : Nat → β → QueryM H β
  | 0, _ => throw .outOfFuel
  | n + 1, b => do
    match ← body () b with
    | .done b => pure b
    | .yield b => fuelLoop body n b

instance : ForIn (QueryM H) Fuel Unit where
  forIn f b body := fuelLoop body f.n b

def loopFuel : QueryM H Fuel := fun env => .ok ⟨env.fuel⟩

/-! ### repository/dto -/

/-- (*dto.DbBlockHeader).ToBlockHeader: reads every field of its receiver -/
def toBlockHeader (p : Option (Row H)) : QueryM H (Option (Row H)) := do
  return some (← deref p)

/-- dto.ConvertToBlockHeader: `ToBlockHeader` of every element -/
def convertToBlockHeader (xs : List (Option (Row H))) : QueryM H (List (Option (Row H))) :=
  xs.mapM toBlockHeader

/-! ### database/sql/headers.go: one primitive per SQL constant (`db.Get` = first row or sql.ErrNoRows; `db.Select` = all rows) -/

def firstRow (l : List (Row H)) : Option (Row H) × Option Err :=
  match l with
  | r :: _ => (some r, none)
  | [] => (none, some .sqlNoRows)

/-- sqlHeader: `WHERE hash = ?` -/
def dbGet_sqlHeader (hash : H) : QueryM H (Option (Row H) × Option Err) :=
  readStore fun s => firstRow (byHash s hash).toList

/-- sqlHeaderByHeight: `WHERE height = ? AND header_state = ?` -/
def dbGet_sqlHeaderByHeight (height : Int) (state : St) : QueryM H (Option (Row H) × Option Err) :=
  readStore fun s => firstRow (s.filter fun r => decide ((r.height : Int) = height ∧ r.st = state))

/-- sqlHeaderByHeightRange: `WHERE height BETWEEN ? AND ?` (`Chain.byHeightRange`) -/
def dbSelect_sqlHeaderByHeightRange (lo hi : Int) : QueryM H (List (Option (Row H)) × Option Err) :=
  readStore fun s => ((byHeightRange s lo hi).map some, none)

/-- sqlSelectPreviousBlock: the row whose hash is the previous_block of the row with the given hash -/
def dbGet_sqlSelectPreviousBlock (hash : H) : QueryM H (Option (Row H) × Option Err) :=
  readStore fun s => firstRow (match byHash s hash with
    | some r => (byHash s r.prev).toList
    | none => [])

/-- sqlSelectTip: every row at the greatest longest-chain height; the `(height, header_state)` index lists the
    LONGEST_CHAIN rows first (the accident `Chain.getTip` records) -/
def dbSelect_sqlSelectTip : QueryM H (List (Option (Row H)) × Option Err) :=
  readStore fun s => ((match maxLcHeight s with
    | none => []
    | some m => s.filter (fun (r : Row H) => decide (r.height = m ∧ r.st = St.lc)) ++
                s.filter (fun (r : Row H) => decide (r.height = m ∧ r.st ≠ St.lc))).map some, none)

/-- sqlSelectAncestorOnHeight(hash, h1, h2): the walk `Chain.walkWhileHeight` with bound h1, the rows at height h2 -/
def dbSelect_sqlSelectAncestorOnHeight (hash : H) (h1 h2 : Int) : QueryM H (List (Option (Row H)) × Option Err) :=
  readStore fun s => ((match byHash s hash with
    | none => []
    | some r => (walkWhileHeight s h1 s.length r).filter (fun (a : Row H) => decide ((a.height : Int) = h2))).map some, none)

/-- sqlSelectTips (`Chain.allTips`) -/
def dbSelect_sqlSelectTips : QueryM H (List (Option (Row H)) × Option Err) :=
  readStore fun s => ((allTips s).map some, none)

/-- sqlChainBetweenTwoHashes(high, low1, low2): the walk from `high` while the parent is not `low1`, then the row `low2` -/
def dbSelect_sqlChainBetweenTwoHashes (high low1 low2 : H) : QueryM H (List (Option (Row H)) × Option Err) :=
  readStore fun s => (((match byHash s high with
      | some r => walkUntil s low1 s.length r
      | none => []) ++ (match byHash s low2 with | some l => [l] | none => [])).map some, none)

/-- sqlHeaderHeightFromHashAndState: `SELECT height … WHERE hash = ? AND header_state = ?` into an int -/
def dbGet_sqlHeaderHeightFromHashAndState (hash : H) (state : St) : QueryM H (Int × Option Err) :=
  readStore fun s => match s.find? (fun r => decide (r.hash = hash ∧ r.st = state)) with
    | some r => ((r.height : Int), none)
    | none => (0, some .sqlNoRows)

/-- sqlHeaderByHeightRangeLongestChain: `BETWEEN ? AND ?` on the longest chain, in index (= height) order -/
def dbSelect_sqlHeaderByHeightRangeLongestChain (lo hi : Int) : QueryM H (List (Option (Row H)) × Option Err) :=
  readStore fun s => (((lcAsc s).filter (fun r => decide (lo ≤ (r.height : Int) ∧ (r.height : Int) ≤ hi))).map some, none)

/-- (*HeadersDb).GetHeadersStartHeight — kept whole: `sqlx.In(sqlGetHeadersHeight, hashes)` expands the IN list (an empty
    list is an error), `db.Get` reads `COALESCE(MAX(height), 0)` (`Chain.startHeight`); the translator checks that the
    method still refers to that SQL constant and no other -/
def HeadersDb_GetHeadersStartHeight (hashes : List H) : QueryM H (Int × Option Err) :=
  readStore fun s =>
    if hashes.isEmpty then (0, some (.msg "empty slice passed to 'in' query"))
    else ((startHeight s hashes : Nat), none)

/-! ### running a query -/

/-- run a translated function on store `s` with loop budget `fuel` -/
def runQ {α : Type} (s : Store H) (fuel : Nat) (m : QueryM H α) : Except Fault α := m.run { store := s, fuel := fuel }

end BHS.QueryM
