/-
M-Wire, stream layer (C14): ReadMessageWithEncodingN called REPEATEDLY on one reader.
The single-call model (BHS.Wire.readMessageRd) says what one call answers; this file adds what an
`Except`-valued reader cannot say: where the STREAM stands after a call that returned an error.
Read off ReadMessageWithEncodingN (internal/wire/message.go), in source order:

  header short (io.ReadFull of 24 bytes fails)      error eof            the stream is exhausted            -> stop
  length > maxMessagePayload()                      error oversizeGlobal NO discardInput: only the 24 header
                                                                         bytes are consumed                 -> goes on right after the header
  magic ≠ net                                       error magic          discardInput(r, length)            -> goes on `length` bytes later
  command not valid UTF-8 / not in the table        error badCmd         discardInput(r, length)            -> goes on `length` bytes later
  length > MaxPayloadLength(pver) of the type       error oversizeType   discardInput(r, length)            -> goes on `length` bytes later
  payload short (io.ReadFull of `length` fails)     error eof            the stream is exhausted            -> goes on at the (empty) end
  checksum mismatch                                 error checksum       the payload was read as a whole    -> goes on `length` bytes later
  Bsvdecode error (runs on the payload's own buffer) the decoder's error the payload was read as a whole    -> goes on `length` bytes later
  success                                           the message          header + payload consumed          -> goes on `length` bytes later

discardInput(r, n) reads n bytes (10 KiB at a time, then the n % 10240 remainder) or up to the end of the
stream; it consumes exactly min(n, remaining) bytes. Core Lean only.
-/
import BHS.Model.Wire

namespace BHS.Wire
open BHS.Gen BHS.Gen.WireC

/-- the four header fields, read as ReadMessageWithEncodingN's readMessageHeader does -/
def headerRd : Rd (Nat × Bytes × Nat × Bytes) := do
  let magic ← get32le
  let cmd ← getBytes commandSize
  let len ← get32le
  let ck ← getBytes 4
  pure (magic, cmd, len, ck)

/-- outcome of one ReadMessage seen from the stream -/
inductive FrameOut where
  | msg (m : Msg) (rest : Bytes)       -- a message was handed out; the stream goes on at `rest`
  | rejected (e : Err) (rest : Bytes)  -- an error was returned; the stream goes on at `rest`
  | stop (e : Err)                     -- the call found less than a header (eof): nothing more to read; or the model ends (unmodelled)
  deriving DecidableEq, Repr

/-- after the header: `body` is what follows the 24 header bytes -/
def frameBody (H : Bytes → Bytes) (gmax pver net magic : Nat) (cmd : Bytes) (len : Nat) (ck body : Bytes) : FrameOut :=
  if len > gmax then .rejected .oversizeGlobal body
  else if magic ≠ net then .rejected .magic (body.drop len)
  else match lookupCmd (trimZeros cmd) with
    | none => .rejected .badCmd (body.drop len)
    | some t =>
      match maxPayloadLength gmax pver t with
      | none => .stop .unmodelled
      | some mpl =>
        if len > mpl then .rejected .oversizeType (body.drop len)
        else if body.length < len then .rejected .eof []
        else match (finishPayload H gmax pver t ck (body.take len) (body.drop len)).2 with
          | .ok (m, rest) => .msg m rest
          | .error e => .rejected e (body.drop len)

/-- one ReadMessageWithEncodingN on the stream `bs` -/
def readFrame (H : Bytes → Bytes) (gmax pver net : Nat) (bs : Bytes) : FrameOut :=
  match (headerRd bs).2 with
  | .error _ => .stop .eof
  | .ok ((magic, cmd, len, ck), body) => frameBody H gmax pver net magic cmd len ck body

/-- one answer of the stream reader -/
inductive StreamItem where
  | ok (m : Msg) (consumed : Nat)
  | err (e : Err)
  deriving DecidableEq, Repr

/-- ReadMessage repeatedly on one reader until a call finds less than a header (`fuel` calls at most; every
    call but the last consumes at least the 24 header bytes, so `bs.length / 24 + 2` calls always suffice) -/
def readStream (H : Bytes → Bytes) (gmax pver net : Nat) : Nat → Bytes → List StreamItem
  | 0, _ => []
  | fuel + 1, bs =>
    match readFrame H gmax pver net bs with
    | .msg m rest => .ok m (bs.length - rest.length) :: readStream H gmax pver net fuel rest
    | .rejected e rest => .err e :: readStream H gmax pver net fuel rest
    | .stop e => [.err e]

/-- the answer a frame gets when it is read on its own -/
def frameItem (H : Bytes → Bytes) (gmax pver net : Nat) (f : Bytes) : StreamItem :=
  match readFrame H gmax pver net f with
  | .msg m _ => .ok m f.length
  | .rejected e _ => .err e
  | .stop e => .err e

/-- `f` is a whole frame: 24 header bytes declaring a length within the global limit, and exactly that many payload bytes -/
def IsFrame (gmax : Nat) (f : Bytes) : Prop :=
  ∃ magic cmd len ck payload, f = put32le magic ++ cmd ++ put32le len ++ ck ++ payload ∧
    magic < 2^32 ∧ len < 2^32 ∧ cmd.length = commandSize ∧ ck.length = 4 ∧ len ≤ gmax ∧ payload.length = len

end BHS.Wire
