/-
M-ImportPrim: the vocabulary the REGENERATED module BHS/Gen/Import.lean is written in
(harness/cmd/extract/gen_import.go translates /repo/database/import.go and the import half of
/repo/database/sqlite_adapter.go statement by statement into Lean over this file).
Hand-written, core Lean only. Everything that is NOT Go control flow of those two files is a primitive here:
the CSV reader, the SQL statements, strconv, chainhash, math/big, the prepared file. Each primitive is mapped to
what the hand model BHS/Model/ImpExp.lean uses for the same thing (parseInt / parseUint / Codec.parseH / insertRow /
maxHeight …), so the refinement theorem (BHS/Props/ImportGen.lean) compares CONTROL FLOW AND DATA FLOW of the Go
text with the hand model, on equal primitives.

How Go maps to Lean here
* the world (`World H`): table `headers`, the prepared file (`none` = missing / bad gzip), config.Checkpoints, and the
  state of the one csv.Reader (unread records, FieldsPerRecord as fixed by the first record, records read so far).
  Handles (`*sqlx.DB`, `*sql.HeadersDb`, `*csv.Reader`, `*os.File`, loggers, contexts, the adapter) carry no value.
* `ImpM H α = World H → Except Abort α × World H`: a Go function runs in this monad. `Abort` is what is not a Go
  return: `panic` (index out of range, nil dereference), `outside` (a value the model's row type cannot hold — see
  `timeUnix`, `asHash`, `asDec`, `asState`, unknown SQL text), `diverged` (a loop ran out of its fuel: the translator
  gives every Go `for` a fuel and the refinement theorem shows it is never exhausted).
* `error` ↦ `Option Err` (`nil` = `none`); `Err` keeps the LITERAL format string of fmt.Errorf / errors.New, its integer
  arguments and the wrapped error; string arguments of messages are dropped. `classify` maps an error to the verdict
  vocabulary of the hand model the way the Go runner's `c17Classify` maps the message text.
* Go `string` ↦ `GoStr H`, a string tagged with where it came from: a literal, a CSV cell, the `String()` of a hash,
  the `String()` of a big integer. `chainhash.NewHashFromStr` of a hash's `String()` gives that hash back and
  `big.Int.SetString` of a big integer's `String()` gives that integer back (library round trips, trusted); of the
  literal "" SetString fails and leaves 0 (the first batch's `var cumulatedChainWork string`).
* Go `int`, `int32`, `int64` ↦ `Int`; `uint32`, `uint64`, `*big.Int`, `time.Time` ↦ `Nat`; conversions `int32(x)`,
  `uint32(x)` are the identity (the values come from ParseInt / ParseUint with bit size 32; row indices stay below 2^31).
* pointers `*dto.DbBlockHeader`, `*domains.BlockHeaderSource`, `*chainhash.Hash` ↦ `Option …`, `nil` = `none`, a
  dereference of `none` is `panic`.
* no storage failure: Count / Height / CreateMultiple / Exec of the known statements / pragma and index handling succeed
  (assumption of C17; C05 is about storage failures).
-/
import BHS.Model.ImpExp

namespace BHS.ImportPrim
open BHS BHS.Chain BHS.ImpExp

/-- what ends a run without a Go `return` -/
inductive Abort where
  | panic
  | outside
  | diverged
deriving DecidableEq, Repr

/-- Go `error` values of the import -/
inductive Err where
  | nil                                    -- a nil error formatted into a message
  | eof                                    -- io.EOF
  | csvFieldCount (rec : Nat)              -- *csv.ParseError{Err: ErrFieldCount}; `rec` = 0-based index among ALL records read
  | strconv                                -- *strconv.NumError
  | hashStr                                -- chainhash.NewHashFromStr failed
  | sql                                    -- an error of Exec / Get (unique index refused, no rows)
  | unreadable                             -- getHeadersFile failed (missing file, gzip error)
  | new (msg : String)                     -- errors.New(msg)
  | errorf (f : String) (ints : List Int) (w : Err)   -- fmt.Errorf(f, …): integer arguments, the error argument
deriving DecidableEq, Repr

/-- an `error` argument of fmt.Errorf -/
def errArg : Option Err → Err
  | some e => e
  | none => .nil

/-- errors.Is(err, target) for the sentinel io.EOF: fmt.Errorf with %w keeps the chain, the messages of this code that
    wrap with %v do not — no message of this code wraps EOF, so only the bare sentinel is recognised -/
def errorsIs (e : Option Err) (t : Err) : Bool :=
  match e with
  | some x => decide (x = t)
  | none => false

/-- Go strings by provenance -/
inductive GoStr (H : Type) where
  | lit (s : String)
  | cell (t : Text)
  | hash (h : H)
  | dec (n : Nat)
deriving DecidableEq, Repr

/-- fmt.Sprintf(f, …) kept as text + arguments (SQL statements) -/
structure Fmt (H : Type) where
  f : String
  ints : List Int
  strs : List (GoStr H)
deriving DecidableEq, Repr

/-- a plain string used as a statement -/
def Fmt.ofStr {H : Type} : GoStr H → Fmt H
  | .lit s => ⟨s, [], []⟩
  | x => ⟨"%s", [], [x]⟩

structure World (H : Type) where
  tbl : Store H
  file : Option (List Record)
  cps : List (Nat × H)
  rd : List Record := []
  fields : Option Nat := none
  nread : Nat := 0

def ImpM (H : Type) (α : Type) : Type := World H → Except Abort α × World H

/-- how a Go loop iteration / loop ends: fall out of the loop (condition false or `break`) with the loop variables, or
    `return` from the enclosing function -/
inductive Ctl (σ ρ : Type) where
  | next (s : σ)
  | ret (r : ρ)

variable {H : Type}

@[inline] def ImpM.pure {α : Type} (a : α) : ImpM H α := fun w => (.ok a, w)

@[inline] def ImpM.bind {α β : Type} (x : ImpM H α) (f : α → ImpM H β) : ImpM H β := fun w =>
  match x w with
  | (.ok a, w') => f a w'
  | (.error e, w') => (.error e, w')

instance : Monad (ImpM H) where
  pure := ImpM.pure
  bind := ImpM.bind

def abort {α : Type} (a : Abort) : ImpM H α := fun w => (.error a, w)

@[simp] theorem run_pure {α : Type} (a : α) (w : World H) : (Pure.pure a : ImpM H α) w = (.ok a, w) := rfl

@[simp] theorem run_bind {α β : Type} (x : ImpM H α) (f : α → ImpM H β) (w : World H) :
    (x >>= f) w = match x w with
      | (.ok a, w') => f a w'
      | (.error e, w') => (.error e, w') := rfl

@[simp] theorem run_abort {α : Type} (a : Abort) (w : World H) : (abort a : ImpM H α) w = (.error a, w) := rfl

/-- a loop ran out of fuel -/
def diverged {α : Type} : ImpM H α := abort .diverged

/-- fuel of an unbounded `for { … }`: the unread records plus two — every iteration of the import's loop that does
    not leave it reads at least one record -/
def loopFuel : ImpM H Nat := fun w => (.ok (w.rd.length + 2), w)

/-- `*p` / `p.F` -/
def deref {α : Type} : Option α → ImpM H α
  | some a => pure a
  | none => abort .panic

/-- `xs[i]` -/
def index {α : Type} (xs : List α) (i : Int) : ImpM H α :=
  if i < 0 then abort .panic
  else match xs[i.toNat]? with
    | some a => pure a
    | none => abort .panic

/-- `record[i]` of a CSV record: a cell -/
def indexRec (xs : Record) (i : Int) : ImpM H (GoStr H) :=
  if i < 0 then abort .panic
  else match xs[i.toNat]? with
    | some a => pure (.cell a)
    | none => abort .panic

/-! ### strings -/

/-- the characters of a string whose text is known (cells; literals) -/
def GoStr.text? : GoStr H → Option Text
  | .cell t => some t
  | .lit s => some s.toList
  | _ => none

/-- strconv.ParseInt(s, 10, bits) — the hand model's `parseInt`; strings that are not cells or literals do not occur -/
def strconvParseInt (s : GoStr H) (base : Int) (bits : Int) : ImpM H (Int × Option Err) :=
  if base ≠ 10 then abort .outside
  else match s.text? with
    | none => abort .outside
    | some t =>
      match parseInt bits.toNat t with
      | some v => pure (v, none)
      | none => pure (0, some .strconv)

/-- strconv.ParseUint(s, 10, bits) — the hand model's `parseUint` -/
def strconvParseUint (s : GoStr H) (base : Int) (bits : Int) : ImpM H (Nat × Option Err) :=
  if base ≠ 10 then abort .outside
  else match s.text? with
    | none => abort .outside
    | some t =>
      match parseUint bits.toNat t with
      | some v => pure (v, none)
      | none => pure (0, some .strconv)

/-- chainhash.NewHashFromStr: a cell goes through the codec; the `String()` of a hash gives the hash back -/
def newHashFromStr (cd : Codec H) (s : GoStr H) : ImpM H (Option H × Option Err) :=
  match s with
  | .hash h => pure (some h, none)
  | .cell t =>
    match cd.parseH t with
    | some h => pure (some h, none)
    | none => pure (none, some .hashStr)
  | _ => abort .outside

/-- parseBigInt (import.go: `new(big.Int)` then `SetString(s, 10)`, result ignored): the `String()` of a big integer
    gives it back; the empty literal does not parse and leaves 0 -/
def parseBigInt (s : GoStr H) : ImpM H Nat :=
  match s with
  | .dec n => pure n
  | .lit "" => pure 0
  | _ => abort .outside

/-- time.Unix(sec, nsec): the model's rows hold a time in 0 … 2^32−1 (see `Parsed.outside` of the hand model) -/
def timeUnix (sec : Int) (nsec : Int) : ImpM H Nat :=
  if 0 ≤ sec ∧ sec < 4294967296 ∧ nsec = 0 then pure sec.toNat else abort .outside

/-- a string stored in a hash column -/
def asHash : GoStr H → ImpM H H
  | .hash h => pure h
  | _ => abort .outside

/-- a string stored in a big-integer column (chainwork, cumulatedWork) -/
def asDec : GoStr H → ImpM H Nat
  | .dec n => pure n
  | _ => abort .outside

/-- a string stored in column header_state -/
def asState : GoStr H → ImpM H St
  | .lit "LONGEST_CHAIN" => pure .lc
  | .lit "STALE" => pure .stale
  | .lit "ORPHAN" => pure .orphan
  | _ => abort .outside

/-! ### the prepared file and its csv.Reader -/

/-- getHeadersFile: fails when the file is missing / unreadable / not gzip -/
def getHeadersFile : ImpM H (Option Err) := fun w =>
  match w.file with
  | none => (.ok (some .unreadable), w)
  | some _ => (.ok none, w)

/-- csv.NewReader on the decompressed file (positioned at its start) -/
def csvNewReader : ImpM H Unit := fun w =>
  (.ok (), { w with rd := w.file.getD [], fields := none, nread := 0 })

/-- csv.Reader.Read: io.EOF at the end; the first record fixes the number of fields; a record with another number of
    fields is returned together with ErrFieldCount -/
def csvRead : ImpM H (Record × Option Err) := fun w =>
  match w.rd with
  | [] => (.ok ([], some .eof), w)
  | r :: rest =>
    match w.fields with
    | none => (.ok (r, none), { w with rd := rest, fields := some r.length, nread := w.nread + 1 })
    | some k =>
      if r.length = k then (.ok (r, none), { w with rd := rest, nread := w.nread + 1 })
      else (.ok (r, some (.csvFieldCount w.nread)), { w with rd := rest, nread := w.nread + 1 })

/-! ### table `headers` -/

variable [DecidableEq H]

/-- HeadersDb.Count -/
def repoCount : ImpM H (Int × Option Err) := fun w => (.ok ((w.tbl.length : Int), none), w)

/-- HeadersDb.Height: COALESCE(max(height), 0) -/
def repoHeight : ImpM H (Int × Option Err) := fun w => (.ok ((maxHeight w.tbl : Int), none), w)

/-- HeadersDb.CreateMultiple: the hand model's `commitBatch` -/
def createMultiple (batch : List (Row H)) : ImpM H (Option Err) := fun w =>
  (.ok none, { w with tbl := commitBatch w.tbl batch })

/-- (*sqlx.DB).Exec of the statements this code issues -/
def sqlExec (q : Fmt H) : ImpM H (Option Err) := fun w =>
  match q.f with
  | "DELETE FROM headers" => (.ok none, { w with tbl := [] })
  | "CREATE UNIQUE INDEX %s ON headers (height)" =>
    if (w.tbl.map (·.height)).Nodup then (.ok none, w) else (.ok (some .sql), w)
  | "DROP INDEX %s;" => (.ok none, w)
  | _ => (.error .outside, w)

/-- (*sqlx.DB).Get(&dest, query) of the one query this code issues; `dest` keeps its value when no row matches -/
def sqlGet (dest : GoStr H) (q : Fmt H) : ImpM H (GoStr H × Option Err) := fun w =>
  match q with
  | ⟨"SELECT hash FROM %s WHERE height = %d", [h], [.lit "headers"]⟩ =>
    match w.tbl.find? (fun r => decide ((r.height : Int) = h)) with
    | some r => (.ok (.hash r.hash, none), w)
    | none => (.ok (dest, some .sql), w)
  | _ => (.error .outside, w)

/-- config.Checkpoints -/
def checkpoints : ImpM H (List (Nat × H)) := fun w => (.ok w.cps, w)

/-- pragma / index / Seek handling of the bulk insert: succeeds -/
def envOk : ImpM H (Option Err) := pure none

/-! ### verdicts -/

/-- the record errors of parseRecordToBlockHeadersSource, by message text -/
def fieldErr : Err → Option RowErr
  | .errorf "invalid record length: expected %d elements, got %d" _ _ => some .recordLength
  | .errorf "cannot parse version: %w" _ _ => some .version
  | .errorf "cannot parse merkleroot: %w" _ _ => some .merkle
  | .errorf "cannot parse nonce: %w" _ _ => some .nonce
  | .errorf "cannot parse bits: %w" _ _ => some .bits
  | .errorf "cannot parse timestamp: %w" _ _ => some .timestamp
  | _ => none

/-- what the caller of database.Init observes -/
inductive Observed where
  | accepted                   -- importHeaders returned nil (imported, or skipped)
  | refused (e : Refusal)
  | refusedOther               -- an error the hand model has no name for
  | panicked
  | outside
  | diverged
deriving DecidableEq, Repr

/-- the start-up error by message text — the Lean twin of the runner's `c17Classify` (harness/cmd/drive/c17_impl.go):
    a CSV field-count error names the record through its line (record index − 1 = row index); a record error names its
    row through "block on height %d" -/
def classify : Err → Observed
  | .unreadable => .refused .unreadable
  | .eof => .refused .noHeaderLine
  | .errorf "error reading record: %v" _ (.csvFieldCount n) => .refused (.row (n - 1) .fieldCount)
  | .errorf "error while parsing values from block on height %d: %w" [h] e =>
    match fieldErr e with
    | some fe => if 0 ≤ h then .refused (.row h.toNat fe) else .refusedOther
    | none => .refusedOther
  | .errorf "database is not consistent with csv file, imported %d headers, number of headers in database %d" _ _ =>
    .refused .count
  | .errorf "database is not consistent with csv file, current maximum header height (%d) is different from imported headers number -1 (%d)" _ _ =>
    .refused .maxHeight
  | .errorf "database is not consistent with csv file, %w" _ (.new "height values are not unique(they should be just after import)") =>
    .refused .heights
  | .errorf "database is not consistent with csv file, %w" _ (.errorf "newest checkpoint block with height \"%d\" is not present in the database" _ _) =>
    .refused .checkpointAbsent
  | .errorf "database is not consistent with csv file, %w" _ (.errorf "newest checkpoint block has different hash \"%s\" than hash \"%s\" of block in database with the same height (%d)" _ _) =>
    .refused .checkpointMismatch
  | _ => .refusedOther

/-- the observable result of one start: the table afterwards and the verdict -/
def observe (r : Except Abort (Option Err) × World H) : Store H × Observed :=
  match r with
  | (.ok none, w) => (w.tbl, .accepted)
  | (.ok (some e), w) => (w.tbl, classify e)
  | (.error .panic, w) => (w.tbl, .panicked)
  | (.error .outside, w) => (w.tbl, .outside)
  | (.error .diverged, w) => (w.tbl, .diverged)

/-- what the hand model's result looks like to the same observer (imported / skipped are both `nil`; the row index of
    `outside` is not observable) -/
def verdictOf : StartRes → Observed
  | .skipped => .accepted
  | .imported _ => .accepted
  | .refused e => .refused e
  | .panicked => .panicked
  | .outside _ => .outside

/-- a database whose table `headers` is `tbl`, a prepared file, config.Checkpoints -/
def world0 (tbl : Store H) (file : Option (List Record)) (cps : List (Nat × H)) : World H :=
  { tbl := tbl, file := file, cps := cps }

end BHS.ImportPrim
