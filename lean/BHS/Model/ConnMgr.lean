/-
M-ConnMgr — the connection manager's request handler as a counter machine, transcribed
from /repo/transports/p2p/connmgr/connmanager.go (`connHandler`, `NewConnReq`, `Connect`,
`handleFailedConn`, `registerFailedConnectionTo`, `registerFailedConnection`, `Start`,
`Disconnect`/`Remove`). Core Lean only (links into `bhsdriver`).

Rendering:

* `pending`, `conns` are the two maps local to `connHandler` (keyed by request id);
  `conns` keeps (id, address) in order of establishment.
* `live` = ids of the requests whose goroutine (`NewConnReq` → `GetNewAddress` → `Dial`)
  is still running and will deliver exactly one of `handleConnected` / `handleFailed`.
  `go cm.NewConnReq()` and `time.AfterFunc(RetryDuration, cm.NewConnReq)` are both
  rendered as an immediate `spawn` (allocation of the id + `registerPending`): the retry
  *delay* is not modelled, only that the request is made. The scheduler's interleaving is
  the order of the events.
* a failed request is never removed from `pending` by the code (only `Disconnect`/`Remove`
  delete it); this leak is kept.
* `failedAttempts` is `map[string]uint16`: the wrap at 65536 is written out.
* a request cancelled while it waits for its address is dropped by `Connect`
  (`c.State() == ConnCanceled`) before it dials. (If the cancellation overtakes the check, the
  code dials and `handleConnected` closes the connection again — same counts except `dials`;
  that race is not modelled.)
* only non-permanent requests and a configured `GetNewAddress` (the server's
  configuration; nothing in the service creates a permanent request); `Stop` is not an event.
-/
namespace BHS.Model.ConnMgr

structure Cfg where
  target : Nat       -- cfg.TargetOutbound (after `New` replaced 0 by defaultTargetOutbound)
  banAddr : Bool     -- cfg.BanAddress != nil
  maxFailed : Nat    -- maxFailedAttempts

/-- `New`: `if cfg.TargetOutbound == 0 { cfg.TargetOutbound = defaultTargetOutbound }` -/
def effTarget (dflt t : Nat) : Nat := if t = 0 then dflt else t

structure St where
  nextId : Nat := 0                 -- connReqCount
  pending : List Nat := []
  conns : List (Nat × Nat) := []    -- (id, addr), oldest first
  live : List Nat := []
  fails : Nat → Nat := fun _ => 0   -- failedAttempts[addr]
  gfails : Nat := 0                 -- globalFailedAttempts
  banned : List Nat := []           -- addresses handed to cfg.BanAddress, in call order
  dials : Nat := 0                  -- calls of cfg.Dial
  asks : Nat := 0                   -- calls of cfg.GetNewAddress
  closed : List Nat := []           -- ids handed to cfg.OnDisconnection, newest first

def upd (f : Nat → Nat) (k v : Nat) : Nat → Nat := fun x => if x = k then v else f x

/-- `pending[id] = c` on a key set -/
def ins (x : Nat) (l : List Nat) : List Nat := if x ∈ l then l else x :: l
/-- `delete(pending, id)` -/
def rem (x : Nat) (l : List Nat) : List Nat := l.filter (fun y => y != x)

def hasConn (s : St) (id : Nat) : Bool := s.conns.any (fun c => c.1 == id)
def addrOf (s : St) (id : Nat) : Option Nat := (s.conns.find? (fun c => c.1 == id)).map (·.2)

/-- `NewConnReq` up to and including `registerPending`: a new id, registered, its goroutine running. -/
def spawn (s : St) : St :=
  { s with nextId := s.nextId + 1, pending := ins (s.nextId + 1) s.pending, live := s.live ++ [s.nextId + 1] }

/--
THE ONE PLACE that decides what happens to the outbound slot after `BanAddress`.
`registerFailedConnectionTo` (repaired in /repo, "fix: connection manager keeps filling an
outbound slot after banning its address"):
```go
if cm.isAddressConnectionAttemptsExceeded(c.Addr.String()) {
    cm.cfg.BanAddress(c.Addr.String())
}
go cm.NewConnReq()
```
`false` = the code as it is now: a new request is scheduled after the ban as well.
`true` was the code before the repair (finding R-C18: `return` after the ban, the slot was never
dialled again); with `true` the theorems `C18_target`/`C18_target_replacement` fail for
`banAddr = true` and the regression theorem `C18_target_after_ban` becomes false.
-/
def slotLostOnBan : Bool := false

def afterBanAddress (s : St) : St := if slotLostOnBan then s else spawn s

/-- outbound slots no request is working on any more (0 since the repair) -/
def lost (s : St) : Nat := if slotLostOnBan then s.banned.length else 0

/-- `handleFailedConn` for a non-permanent request (`addr = none`: `c.Addr == nil`, i.e.
`GetNewAddress` failed). With `BanAddress` and an address: `registerFailedConnectionTo`;
otherwise `registerFailedConnection` (immediate or delayed `NewConnReq`). -/
def failedConn (c : Cfg) (s : St) (addr : Option Nat) : St :=
  match addr, c.banAddr with
  | some a, true =>
    let s1 : St := { s with fails := upd s.fails a ((s.fails a + 1) % 65536) }
    if c.maxFailed ≤ s1.fails a then afterBanAddress { s1 with banned := s1.banned ++ [a] }
    else spawn s1
  | _, _ => spawn { s with gfails := s.gfails + 1 }

inductive Event where
  | dialOk (id addr : Nat)          -- the request's GetNewAddress gave `addr`, Dial succeeded
  | dialFail (id addr : Nat)        -- …, Dial failed
  | addrFail (id : Nat)             -- GetNewAddress returned an error
  | disc (id : Nat) (retry : Bool)  -- Disconnect(id) (retry) / Remove(id) (no retry)
  deriving Repr

def step (c : Cfg) (s : St) : Event → St
  | .dialOk id a =>
    if id ∈ s.live then
      let s1 : St := { s with live := s.live.erase id, asks := s.asks + 1 }
      if id ∈ s1.pending then
        -- Connect → Dial → handleConnected
        { s1 with dials := s1.dials + 1, conns := s1.conns.filter (fun x => x.1 != id) ++ [(id, a)],
                  pending := rem id s1.pending, fails := upd s1.fails a 0, gfails := 0 }
      else s1   -- Connect: `c.State() == ConnCanceled` → return, nothing is dialled
    else s
  | .dialFail id a =>
    if id ∈ s.live then
      let s1 : St := { s with live := s.live.erase id, asks := s.asks + 1 }
      if id ∈ s1.pending then failedConn c { s1 with dials := s1.dials + 1 } (some a) else s1
    else s
  | .addrFail id =>
    if id ∈ s.live then
      let s1 : St := { s with live := s.live.erase id, asks := s.asks + 1 }
      if id ∈ s1.pending then failedConn c s1 none else s1
    else s
  | .disc id retry =>
    -- handleDisconnected
    if hasConn s id then
      let s1 : St := { s with conns := s.conns.filter (fun x => x.1 != id), closed := id :: s.closed }
      if retry then
        if s1.conns.length < c.target then failedConn c { s1 with pending := ins id s1.pending } (addrOf s id)
        else s1
      else s1
    else if id ∈ s.pending then { s with pending := rem id s.pending }   -- "Canceling"
    else s                                                              -- "Unknown connid"

def spawnN : Nat → St → St
  | 0, s => s
  | n + 1, s => spawnN n (spawn s)

/-- `Start`: `for i := connReqCount; i < TargetOutbound; i++ { go cm.NewConnReq() }` -/
def start (c : Cfg) : St := spawnN c.target {}

def run (c : Cfg) (s : St) (evs : List Event) : St := evs.foldl (step c) s

/-- Events the callers in /repo produce: the server calls `Disconnect(id)` (never `Remove`)
and only for established connections (`sp.connReq` is set in `outboundPeerConnected`);
cancelling a request that is still dialling gives the slot up on purpose. -/
def Adm (s : St) : Event → Prop
  | .disc id retry => id ∉ s.live ∧ (hasConn s id = true → retry = true)
  | _ => True

def AdmAll (c : Cfg) (s : St) : List Event → Prop
  | [] => True
  | e :: es => Adm s e ∧ AdmAll c (step c s e) es

end BHS.Model.ConnMgr
