/-
Crash / restart / fault vocabulary for C05 (and the reader views of C15).
`addPrefix cfg s x k` (Model/Chain.lean) is the store after the first k write transactions of `Add`:
a kill at write boundary k, or write k+1 returning an error (the code issues no further write then).
Core Lean only.
-/
import BHS.Model.Chain

namespace BHS.Chain
variable {H : Type} [DecidableEq H]

/-- database.Init on an existing file: migrations are no-ops, then `INSERT genesis ... ON CONFLICT DO NOTHING` -/
def restart (g : Row H) (s : Store H) : Store H := insertRow s g

/-- the immutable part of a row: everything except the chain-state label -/
def sameButState (r r' : Row H) : Prop :=
  r'.id = r.id ∧ r'.hash = r.hash ∧ r'.prev = r.prev ∧ r'.merkle = r.merkle ∧ r'.height = r.height ∧
  r'.version = r.version ∧ r'.time = r.time ∧ r'.bits = r.bits ∧ r'.nonce = r.nonce ∧ r'.work = r.work ∧ r'.cum = r.cum

instance (r r' : Row H) : Decidable (sameButState r r') := by unfold sameButState; infer_instance

/-- every previously stored header is still present and unaltered (up to its state label), at the same rowid -/
def rowsPreserved (s s' : Store H) : Prop :=
  s.length ≤ s'.length ∧ ∀ i (h : i < s.length) (h' : i < s'.length), sameButState s[i] s'[i]

/-- the number of write transactions `Add` will issue for this submission -/
def nWrites (cfg : Cfg H) (s : Store H) (x : Src H) : Nat := (plan cfg s x).2.length

/-- kill at boundary k, restart, then the same header is delivered again -/
def crashRedeliver (cfg : Cfg H) (g : Row H) (s : Store H) (x : Src H) (k : Nat) : Store H × Outcome H :=
  add cfg (restart g (addPrefix cfg s x k)) x

end BHS.Chain
