/-
Line-protocol driver: one operation per stdin line, one canonical line out.
Core Lean only (links as a lean_exe). Each model contributes `Driver.Ops.<M>.handle`.
An operation nobody recognises answers `bad-op` (never a default value).
-/
import Driver.Ops.Arith
import Driver.Ops.Chain
import Driver.Ops.Wire
import Driver.Ops.Peers
import Driver.Ops.Hooks
import Driver.Ops.Auth
import Driver.Ops.Http
import Driver.Ops.Config
import Driver.Ops.Sync
import Driver.Ops.ImpExp

open Driver.Ops

structure DState where
  arith : Arith.S := {}
  chain : Chain.S := {}
  wire : Wire.S := {}
  peers : Peers.S := {}
  hooks : Hooks.S := {}
  auth : Auth.S := {}
  http : Http.S := {}
  config : Config.S := {}
  sync : Sync.S := {}
  impexp : ImpExp.S := {}

def step (st : DState) (line : String) : DState × String :=
  let ws := (line.trimAscii.toString.splitOn " ").filter (· ≠ "")
  if let some (s, o) := Arith.handle st.arith ws then ({ st with arith := s }, o)
  else if let some (s, o) := Chain.handle st.chain ws then ({ st with chain := s }, o)
  else if let some (s, o) := Wire.handle st.wire ws then ({ st with wire := s }, o)
  else if let some (s, o) := Peers.handle st.peers ws then ({ st with peers := s }, o)
  else if let some (s, o) := Hooks.handle st.hooks ws then ({ st with hooks := s }, o)
  else if let some (s, o) := Auth.handle st.auth ws then ({ st with auth := s }, o)
  else if let some (s, o) := Http.handle st.http ws then ({ st with http := s }, o)
  else if let some (s, o) := Config.handle st.config ws then ({ st with config := s }, o)
  else if let some (s, o) := Sync.handle st.sync ws then ({ st with sync := s }, o)
  else if let some (s, o) := ImpExp.handle st.impexp ws then ({ st with impexp := s }, o)
  else (st, "bad-op")

partial def loop (h : IO.FS.Stream) (out : IO.FS.Stream) (st : DState) : IO Unit := do
  let line ← h.getLine
  if line.isEmpty then return ()
  let (st', o) := step st line
  out.putStrLn o
  out.flush
  loop h out st'

def main : IO Unit := do
  loop (← IO.getStdin) (← IO.getStdout) {}
