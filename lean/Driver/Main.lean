/-
Line-protocol driver: one operation per stdin line, one canonical line out.
Core Lean only (links as a lean_exe).
-/
import BHS.Gen.Arith
import BHS.Gen.Consts
import BHS.Spec.Arith

open BHS

structure DState where
  dummy : Unit := ()

def arithOp : List String → Option String
  | ["bits", n] => (fun k => s!"{Gen.compactToBig k} {Gen.calcWork k}") <$> n.toNat?
  | ["log2", n] => (fun k => s!"{Gen.fastLog2Floor k}") <$> n.toNat?
  | ["specbits", n] => (fun k => s!"{Spec.targetSpec k} {Spec.workSpec (Spec.targetSpec k)}") <$> n.toNat?
  | ["speclog2", n] => (fun k => s!"{Nat.log2 k}") <$> n.toNat?
  | _ => none

def step (st : DState) (line : String) : DState × String :=
  let ws := (line.trimAscii.toString.splitOn " ").filter (· ≠ "")
  match arithOp ws with
  | some out => (st, out)
  | none => (st, "bad-op")

partial def loop (h : IO.FS.Stream) (out : IO.FS.Stream) (st : DState) : IO Unit := do
  let line ← h.getLine
  if line.isEmpty then return ()
  let (st', o) := step st line
  out.putStrLn o
  out.flush
  loop h out st'

def main : IO Unit := do
  loop (← IO.getStdin) (← IO.getStdout) {}
