/-
Shared read-eval-print loop of the line-protocol drivers: one operation per stdin line, one canonical
line out. Core Lean only. A driver is the loop over ONE model's `handle` (Driver/Mains/<Group>.lean), so
that a property's check builds and links only the models (and regenerated modules) it depends on.
-/
namespace Driver

def words (line : String) : List String :=
  (line.trimAscii.toString.splitOn " ").filter (· ≠ "")

partial def loopWith {σ : Type} (handle : σ → List String → Option (σ × String))
    (h : IO.FS.Stream) (out : IO.FS.Stream) (st : σ) : IO Unit := do
  let line ← h.getLine
  if line.isEmpty then return ()
  match handle st (words line) with
  | some (st', o) =>
    out.putStrLn o
    out.flush
    loopWith handle h out st'
  | none =>
    out.putStrLn "bad-op"
    out.flush
    loopWith handle h out st

def runWith {σ : Type} (handle : σ → List String → Option (σ × String)) (init : σ) : IO Unit := do
  loopWith handle (← IO.getStdin) (← IO.getStdout) init

end Driver
