import Driver.Loop
import Driver.Ops.ChainVGen

/-- line-protocol driver of the chain model for C02: `verify` is cross-checked against the regenerated verification path
    (BHS/Gen/Confirmations.lean); everything else is the hand model only -/
def main : IO Unit := Driver.runWith (Driver.Ops.Chain.handleWith Driver.Ops.Chain.verifyChecks) {}
