import Driver.Loop
import Driver.Ops.ChainCore

/-- line-protocol driver of the chain model without cross-checks (hand model only): for the properties whose runner
    uses neither a translated write path nor a translated header query (C02 verify, C08 roots) -/
def main : IO Unit := Driver.runWith (Driver.Ops.Chain.handleWith {}) {}
