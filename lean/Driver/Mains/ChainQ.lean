import Driver.Loop
import Driver.Ops.ChainQGen

/-- line-protocol driver of the chain model, read side: the queries are cross-checked against the regenerated
    header service; `add` is the hand model only (the read properties take the table as given) -/
def main : IO Unit := Driver.runWith (Driver.Ops.Chain.handleWith Driver.Ops.Chain.queryChecks) {}
