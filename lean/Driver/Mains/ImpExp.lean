import Driver.Loop
import Driver.Ops.ImpExp

/-- line-protocol driver of the model group `ImpExp` (see Driver/Loop.lean) -/
def main : IO Unit := Driver.runWith Driver.Ops.ImpExp.handle {}
