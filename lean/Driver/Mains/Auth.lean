import Driver.Loop
import Driver.Ops.Auth

/-- line-protocol driver of the model group `Auth` (see Driver/Loop.lean) -/
def main : IO Unit := Driver.runWith Driver.Ops.Auth.handle {}
