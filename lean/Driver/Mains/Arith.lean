import Driver.Loop
import Driver.Ops.Arith

/-- line-protocol driver of the model group `Arith` (see Driver/Loop.lean) -/
def main : IO Unit := Driver.runWith Driver.Ops.Arith.handle {}
