import Driver.Loop
import Driver.Ops.Hooks

/-- line-protocol driver of the model group `Hooks` (see Driver/Loop.lean) -/
def main : IO Unit := Driver.runWith Driver.Ops.Hooks.handle {}
