import Driver.Loop
import Driver.Ops.Chain

/-- line-protocol driver of the model group `Chain` (see Driver/Loop.lean) -/
def main : IO Unit := Driver.runWith Driver.Ops.Chain.handle {}
