import Driver.Loop
import Driver.Ops.ChainAddGen

/-- line-protocol driver of the chain model, write side: `add` / `crash` are cross-checked against the regenerated
    Chains.Add (see Driver/Loop.lean, Driver/Ops/ChainCore.lean) -/
def main : IO Unit := Driver.runWith (Driver.Ops.Chain.handleWith Driver.Ops.Chain.addChecks) {}
