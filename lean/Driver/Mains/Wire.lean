import Driver.Loop
import Driver.Ops.Wire

/-- line-protocol driver of the model group `Wire` (see Driver/Loop.lean) -/
def main : IO Unit := Driver.runWith Driver.Ops.Wire.handle {}
