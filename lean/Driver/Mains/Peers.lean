import Driver.Loop
import Driver.Ops.Peers

/-- line-protocol driver of the model group `Peers` (see Driver/Loop.lean) -/
def main : IO Unit := Driver.runWith Driver.Ops.Peers.handle {}
