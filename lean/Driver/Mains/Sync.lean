import Driver.Loop
import Driver.Ops.Sync

/-- line-protocol driver of the model group `Sync` (see Driver/Loop.lean) -/
def main : IO Unit := Driver.runWith Driver.Ops.Sync.handle {}
