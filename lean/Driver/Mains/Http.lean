import Driver.Loop
import Driver.Ops.Http

/-- line-protocol driver of the model group `Http` (see Driver/Loop.lean) -/
def main : IO Unit := Driver.runWith Driver.Ops.Http.handle {}
