import Driver.Loop
import Driver.Ops.Config

/-- line-protocol driver of the model group `Config` (see Driver/Loop.lean) -/
def main : IO Unit := Driver.runWith Driver.Ops.Config.handle {}
