/-
Cross-check of the chain driver against the REGENERATED `Chains.Add` (BHS/Gen/ChainSvc.lean).
-/
import Driver.Ops.ChainCore
import BHS.Model.RepoM
import BHS.Gen.ChainSvc

namespace Driver.Ops.Chain
open BHS BHS.Chain BHS.Header

/-- run the REGENERATED `Add` (BHS/Gen/ChainSvc.lean, translated from the Go source on every run) on the same store and
    compare everything observable with the hand model: `none` = they agree (as Props/ChainSvc.lean proves), otherwise the
    text of the difference. `fail = some k`: the write of index `k` returns an error. -/
def genMismatch (cfg : Cfg String) (s : Store String) (x : Src String) (fail : Option Nat)
    (o : Option (Outcome String)) (ws : List (Write String)) (s' : Store String) : Option String :=
  match observe s fail (BHS.Gen.ChainSvc.Add cfg x) with
  | .error f => some s!"err:gen-mismatch generated Add panics: {repr f}"
  | .ok (go, gws, gs) =>
    let oOk := match o, go with
      | some a, some b => outcomeEq a b
      | none, _ => true
      | _, none => false
    if !oOk then some s!"err:gen-mismatch outcome generated={(go.map outcomeStr).getD "other-error"}"
    else if !writesEq ws gws then some s!"err:gen-mismatch writes generated={" | ".intercalate (gws.map writeStr)}"
    else if gs != s' then some s!"err:gen-mismatch store generated={";".intercalate (gs.map rowStr)}"
    else none

/-- cross-check `add` / `crash` against the regenerated Add -/
def addChecks : Checks := { add := genMismatch }

end Driver.Ops.Chain
