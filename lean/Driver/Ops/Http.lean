/-
Driver operations for the Http model (C16, line protocol). Core Lean only.
`handle st words` returns `none` when the first word is not `http`.

State: the model's `Env` (header store fed by the same 80-byte headers the implementation ingests, webhook
table, configured excess) and the switch setting `codeToday`.

  http reset                       store = [genesis], no webhooks                         → ok
  http add <hex160>                Chains.Add of an 80-byte header (model of C01)         → ok <rows> | bad-header
  http dump                        the header store, same rendering as the chain driver   → <row>;<row>…
  http excess <int>                merkleroot.max_block_height_excess                     → ok
  http fix <switch|all> <0|1>      development aid: override one switch of `codeToday` for this session (trying a patch
                                   before flipping the definition); names = fields of BHS.Http.Fixes            → ok | bad-args
  http fixes                       the switch setting in use                                                   → <name>=<0|1> …
  http hook <xurl> <0|1>           put a webhook row (active flag) into the table         → ok
  http req <auth> <handler> <args…>                                                       → <status>|<bodies>|<n>
                                   | err:gen-mismatch hand=… generated=…   (the regenerated handlers of BHS.Gen.Handlers answer
                                     differently from the hand model; BHS.Props.HandlersGen.agrees_always proves this line is dead)
        auth     disabled | missing | malformed | unknown | user | admin
        handler  byhash <xs> | state <xs> | byheight <xs|-> <xs|-> | ancestors <xs> <xs>
                 | common err | common ok <xs>*
                 | tips | tiplongest | roots <xs|-> <xs|->
                 | verify err | verify ok (<xs>:<int>)*
                 | whpost <0|1> <xs> | whget <xs|-> | whdel <xs|->
                 | accessget | accesspost | accessdel <xs>
                 | peers | peerscount | status | noroute | redirect <get|other>
        strings are `x` + hex of their bytes (each byte one character), an absent parameter is `-`
        bodies   `empty` or the written documents joined by `+`:
                 errorDoc:<code> | value | bareString | nonJson
-/
import BHS.Model.Http
import BHS.Model.Header
import BHS.Model.HandlersWire
import Driver.Ops.ChainFmt

namespace Driver.Ops.Http
open BHS BHS.Chain BHS.Http

structure S where
  env : Env := { store := [BHS.Header.genesisRow], excess := 0, hooks := [] }
  fx : Fixes := codeToday

def cfg : Cfg String := { hashOf := BHS.Header.blockHash, forbidden := [] }

/-- `x<hex>` → the string whose characters are the bytes -/
def unhex (w : String) : Option String :=
  match w.toList with
  | 'x' :: cs => (BHS.Sha256.ofHexList cs).map fun bs => String.ofList (bs.map fun b => Char.ofNat b.toNat)
  | _ => none

/-- `-` = absent -/
def optStr (w : String) : Option (Option String) :=
  if w = "-" then some none else (unhex w).map some

def parseAuth : String → Option AuthIn
  | "disabled" => some .disabled
  | "missing" => some .missing
  | "malformed" => some .malformed
  | "unknown" => some .unknownToken
  | "user" => some .user
  | "admin" => some .admin
  | _ => none

def parseItem (w : String) : Option (String × Int) :=
  match w.splitOn ":" with
  | [root, h] => do
    let r ← unhex root
    let k ← h.toInt?
    pure (r, k)
  | _ => none

def parseReq : List String → Option Req
  | ["byhash", h] => Req.headerByHash <$> unhex h
  | ["state", h] => Req.headerState <$> unhex h
  | ["byheight", h, c] => do pure (Req.byHeight (← optStr h) (← optStr c))
  | ["ancestors", h, a] => do pure (Req.ancestors (← unhex h) (← unhex a))
  | ["common", "err"] => some (.commonAncestor .bindErr)
  | "common" :: "ok" :: hs => (fun l => Req.commonAncestor (.parsed l)) <$> hs.mapM unhex
  | ["tips"] => some .tips
  | ["tiplongest"] => some .tipLongest
  | ["roots", b, k] => do pure (Req.merkleroots (← optStr b) (← optStr k))
  | ["verify", "err"] => some (.verify .bindErr)
  | "verify" :: "ok" :: items => (fun l => Req.verify (.parsed l)) <$> items.mapM parseItem
  | ["whpost", e, u] => do
    let b ← (if e = "1" then some true else if e = "0" then some false else none)
    pure (Req.webhookRegister b (← unhex u))
  | ["whget", u] => Req.webhookGet <$> optStr u
  | ["whdel", u] => Req.webhookDelete <$> optStr u
  | ["accessget"] => some .accessGet
  | ["accesspost"] => some .accessCreate
  | ["accessdel", t] => Req.accessDelete <$> unhex t
  | ["peers"] => some .peers
  | ["peerscount"] => some .peersCount
  | ["status"] => some .status
  | ["noroute"] => some .noRoute
  | ["redirect", "get"] => some (.redirectSlash true)
  | ["redirect", "other"] => some (.redirectSlash false)
  | _ => none

def bodyStr : Body → String
  | .errorDoc c _ => "errorDoc:" ++ c
  | .value => "value"
  | .bareString => "bareString"
  | .nonJson => "nonJson"

def respStr (r : Response) : String :=
  let bs := if r.bodies.isEmpty then "empty" else "+".intercalate (r.bodies.map bodyStr)
  s!"{r.status}|{bs}|{r.bodies.length}"

def setFix (fx : Fixes) (name : String) (v : Bool) : Option Fixes :=
  match name with
  | "byHeightValidatesHeight" => some { fx with byHeightValidatesHeight := v }
  | "commonAncestorRejectsEmpty" => some { fx with commonAncestorRejectsEmpty := v }
  | "commonAncestorHandlesNil" => some { fx with commonAncestorHandlesNil := v }
  | "webhookReturnsAfterBindError" => some { fx with webhookReturnsAfterBindError := v }
  | "verifyBindErrorStructured" => some { fx with verifyBindErrorStructured := v }
  | "accessGetNoAuthStructured" => some { fx with accessGetNoAuthStructured := v }
  | "statusWritesJson" => some { fx with statusWritesJson := v }
  | "noRouteStructured" => some { fx with noRouteStructured := v }
  | "trailingSlashRedirectOff" => some { fx with trailingSlashRedirectOff := v }
  | "all" => some ⟨v, v, v, v, v, v, v, v, v⟩
  | _ => none

def fixesStr (fx : Fixes) : String :=
  let b (v : Bool) : String := if v then "1" else "0"
  s!"byHeightValidatesHeight={b fx.byHeightValidatesHeight} commonAncestorRejectsEmpty={b fx.commonAncestorRejectsEmpty} " ++
  s!"commonAncestorHandlesNil={b fx.commonAncestorHandlesNil} webhookReturnsAfterBindError={b fx.webhookReturnsAfterBindError} " ++
  s!"verifyBindErrorStructured={b fx.verifyBindErrorStructured} accessGetNoAuthStructured={b fx.accessGetNoAuthStructured} " ++
  s!"statusWritesJson={b fx.statusWritesJson} noRouteStructured={b fx.noRouteStructured} trailingSlashRedirectOff={b fx.trailingSlashRedirectOff}"

def handle (st : S) : List String → Option (S × String)
  | ["http", "fix", name, v] =>
    match setFix st.fx name (decide (v = "1")) with
    | some fx => some ({ st with fx := fx }, "ok")
    | none => some (st, "bad-args")
  | ["http", "fixes"] => some (st, fixesStr st.fx)
  | ["http", "reset"] => some ({ st with env := { st.env with store := [BHS.Header.genesisRow], hooks := [] } }, "ok")
  | ["http", "add", hex] =>
    match (BHS.Sha256.ofHex hex).bind BHS.Header.parse with
    | none => some (st, "bad-header")
    | some x =>
      let p := plan cfg st.env.store x
      let s' := applyWrites st.env.store p.2
      some ({ st with env := { st.env with store := s' } }, s!"ok {s'.length}")
  | ["http", "dump"] => some (st, ";".intercalate (st.env.store.map Driver.Ops.Chain.rowStr))
  | ["http", "excess", e] =>
    match e.toInt? with
    | some k => some ({ st with env := { st.env with excess := k } }, "ok")
    | none => some (st, "bad-args")
  | ["http", "hook", u, act] =>
    match unhex u with
    | some url =>
      let others := st.env.hooks.filter (fun h => decide (h.url ≠ url))
      some ({ st with env := { st.env with hooks := others ++ [⟨url, decide (act = "1")⟩] } }, "ok")
    | none => some (st, "bad-args")
  | "http" :: "req" :: a :: rest =>
    match parseAuth a, parseReq rest with
    | some auth, some r =>
      let p := step st.fx st.env auth r
      -- cross-check: the REGENERATED handlers (BHS.Gen.Handlers, wired by BHS.Model.HandlersWire) on the same request
      if BHS.HandlersWire.agrees st.fx st.env auth r then some ({ st with env := p.2 }, respStr p.1)
      else
        let g := (BHS.HandlersWire.genServe ⟨st.fx, st.env⟩ auth r).map (BHS.HandlersWire.answer (BHS.HandlersWire.ginOf auth r))
        some ({ st with env := p.2 }, "err:gen-mismatch hand=" ++ respStr p.1 ++ " generated=" ++ (match g with | some x => respStr x | none => "none"))
    | _, _ => some (st, "bad-args")
  | "http" :: _ => some (st, "bad-args")
  | _ => none

end Driver.Ops.Http
