/-
Driver operations for the Wire model (C14, line protocol). Core Lean only.
`handle st words` returns `none` when the first word is not one of this module's operations.

Canonical text form of a message (the same on the Go side, harness/cmd/drive/c14.go):
space-separated tokens, numbers in decimal, byte strings in lower-case hex (`-` = empty)

  version <pv> <services> <ts> <you> <me> <nonce> <ua-hex> <lastblock> <disablerelay 0|1>
          where <you>/<me> = <ts> <services> <ip-hex> <port>
  verack | getaddr | sendheaders | mempool
  addr <n> (<ts> <services> <ip-hex> <port>)*
  getheaders|getblocks <pv> <stop-hex> <n> <hash-hex>*
  headers <n> (<version> <prev-hex> <merkle-hex> <ts> <bits> <nonce>)*
  inv|getdata|notfound <n> (<type> <hash-hex>)*
  ping|pong <nonce>
  reject <cmd-hex> <code> <reason-hex> <hash-hex>
  feefilter <fee>
  protoconf <numberOfFields> <maxRecvPayloadLength>

Operations (answers are one line):
  wcfg <ebs>                      set the global limit as wire.SetLimits(ebs) does   -> <maxMessagePayload>
  wsha <hex>                      SHA-256                                            -> <hex>
  wwf <pver> <msg…>               the decidable well-formedness predicate WF          -> 1 | 0
  wenc <pver> <msg…>              BsvEncode                                           -> ok <hex> | err <class>
  wdec <pver> <command> <hex>     Bsvdecode of the command's type                     -> ok <msg…> | err <class>
  walloc <pver> <command> <hex>   allocation meter of that decode                     -> <n> <max> <sum>
  wwrite <pver> <net> <msg…>      WriteMessage                                        -> ok <hex> | err <class>
  wframe <pver> <net> <hex>       ReadMessage                                         -> ok <consumed> <msg…> | err <class>
  wfalloc <pver> <net> <hex>      allocation meter of that ReadMessage                -> <n> <max> <sum>
  wstream <pver> <net> <hex>      ReadMessage repeatedly on ONE reader until the stream is exhausted
                                  -> <item> ; <item> ; …   with <item> = ok <command> <consumed> | err <class>
-/
import BHS.Model.Wire
import BHS.Model.WireStream
import BHS.Model.WireSha

namespace Driver.Ops.Wire
open BHS BHS.Wire BHS.Gen.WireC

structure S where
  gmax : Nat := BHS.Wire.serviceMaxPayload

def hexDigit (n : Nat) : Char :=
  if n < 10 then Char.ofNat (48 + n) else Char.ofNat (87 + n)

def toHex (b : Bytes) : String :=
  if b.isEmpty then "-"
  else b.foldl (fun s x => (s.push (hexDigit (x.toNat / 16))).push (hexDigit (x.toNat % 16))) ""

def hexVal (c : Char) : Option Nat :=
  let n := c.toNat
  if 48 ≤ n ∧ n ≤ 57 then some (n - 48)
  else if 97 ≤ n ∧ n ≤ 102 then some (n - 87)
  else if 65 ≤ n ∧ n ≤ 70 then some (n - 55)
  else none

def hexPairs : List Char → Bytes → Option Bytes
  | [], acc => some acc.reverse
  | a :: b :: r, acc =>
    match hexVal a, hexVal b with
    | some x, some y => hexPairs r (UInt8.ofNat (16 * x + y) :: acc)
    | _, _ => none
  | _, _ => none

def fromHex (s : String) : Option Bytes :=
  if s = "-" then some [] else hexPairs s.toList []

def errName : Err → String
  | .eof => "eof" | .nonCanonical => "noncanonical" | .tooMany => "toomany" | .tooLong => "toolong"
  | .badPver => "badpver" | .txCount => "txcount" | .userAgent => "useragent" | .addrPver => "addrpver"
  | .oversizeGlobal => "oversize-global" | .magic => "magic" | .badCmd => "badcmd"
  | .oversizeType => "oversize-type" | .checksum => "checksum" | .cmdTooLong => "cmdtoolong"
  | .unmodelled => "unmodelled"

def renderNA (na : NetAddr) : String :=
  s!"{na.ts} {na.services} {toHex na.ip} {na.port}"

def renderMsg : Msg → String
  | .version pv sv ts you me nonce ua lb nr =>
    s!"version {pv} {sv} {ts} {renderNA you} {renderNA me} {nonce} {toHex ua} {lb} {if nr then 1 else 0}"
  | .verack => "verack"
  | .getaddr => "getaddr"
  | .sendheaders => "sendheaders"
  | .mempool => "mempool"
  | .addr l => l.foldl (fun s na => s ++ " " ++ renderNA na) s!"addr {l.length}"
  | .getheaders pv loc stop => loc.foldl (fun s h => s ++ " " ++ toHex h) s!"getheaders {pv} {toHex stop} {loc.length}"
  | .getblocks pv loc stop => loc.foldl (fun s h => s ++ " " ++ toHex h) s!"getblocks {pv} {toHex stop} {loc.length}"
  | .headers l =>
    l.foldl (fun s h => s ++ s!" {h.version} {toHex h.prev} {toHex h.merkle} {h.ts} {h.bits} {h.nonce}") s!"headers {l.length}"
  | .inv l => l.foldl (fun s iv => s ++ s!" {iv.type} {toHex iv.hash}") s!"inv {l.length}"
  | .getdata l => l.foldl (fun s iv => s ++ s!" {iv.type} {toHex iv.hash}") s!"getdata {l.length}"
  | .notfound l => l.foldl (fun s iv => s ++ s!" {iv.type} {toHex iv.hash}") s!"notfound {l.length}"
  | .ping n => s!"ping {n}"
  | .pong n => s!"pong {n}"
  | .reject cmd code reason hash => s!"reject {toHex cmd} {code} {toHex reason} {toHex hash}"
  | .feefilter fee => s!"feefilter {fee}"
  | .protoconf nf mr => s!"protoconf {nf} {mr}"

def parseNA : List String → Option (NetAddr × List String)
  | ts :: sv :: ip :: port :: r => do
    pure (⟨← ts.toNat?, ← sv.toNat?, ← fromHex ip, ← port.toNat?⟩, r)
  | _ => none

def parseMany (p : List String → Option (α × List String)) : Nat → List String → Option (List α × List String)
  | 0, r => some ([], r)
  | n + 1, r => do
    let (x, r) ← p r
    let (xs, r) ← parseMany p n r
    pure (x :: xs, r)

def parseHash : List String → Option (Bytes × List String)
  | h :: r => do pure (← fromHex h, r)
  | _ => none

def parseInv : List String → Option (InvVect × List String)
  | t :: h :: r => do pure (⟨← t.toNat?, ← fromHex h⟩, r)
  | _ => none

def parseHeader : List String → Option (BlockHeader × List String)
  | v :: p :: m :: t :: b :: n :: r => do
    pure (⟨← v.toNat?, ← fromHex p, ← fromHex m, ← t.toNat?, ← b.toNat?, ← n.toNat?⟩, r)
  | _ => none

def parseList (p : List String → Option (α × List String)) : List String → Option (List α)
  | n :: r => do
    let (xs, r) ← parseMany p (← n.toNat?) r
    if r.isEmpty then pure xs else none
  | _ => none

def parseMsg : List String → Option Msg
  | "version" :: pv :: sv :: ts :: r => do
    let (you, r) ← parseNA r
    let (me, r) ← parseNA r
    match r with
    | [nonce, ua, lb, nr] =>
      pure (.version (← pv.toNat?) (← sv.toNat?) (← ts.toNat?) you me (← nonce.toNat?) (← fromHex ua) (← lb.toNat?) (nr == "1"))
    | _ => none
  | ["verack"] => some .verack
  | ["getaddr"] => some .getaddr
  | ["sendheaders"] => some .sendheaders
  | ["mempool"] => some .mempool
  | "addr" :: r => .addr <$> parseList parseNA r
  | "getheaders" :: pv :: stop :: r => do pure (.getheaders (← pv.toNat?) (← parseList parseHash r) (← fromHex stop))
  | "getblocks" :: pv :: stop :: r => do pure (.getblocks (← pv.toNat?) (← parseList parseHash r) (← fromHex stop))
  | "headers" :: r => .headers <$> parseList parseHeader r
  | "inv" :: r => .inv <$> parseList parseInv r
  | "getdata" :: r => .getdata <$> parseList parseInv r
  | "notfound" :: r => .notfound <$> parseList parseInv r
  | ["ping", n] => .ping <$> n.toNat?
  | ["pong", n] => .pong <$> n.toNat?
  | ["reject", cmd, code, reason, hash] => do
    pure (.reject (← fromHex cmd) (← code.toNat?) (← fromHex reason) (← fromHex hash))
  | ["feefilter", fee] => .feefilter <$> fee.toNat?
  | ["protoconf", nf, mr] => do pure (.protoconf (← nf.toNat?) (← mr.toNat?))
  | _ => none

def strBytes (s : String) : Bytes := s.toUTF8.toList

def meter (al : List Nat) : String :=
  s!"{al.length} {al.foldl max 0} {al.foldl (· + ·) 0}"

def sha : Bytes → Bytes := BHS.WireSha.sha256

def msgName (m : Msg) : String := ((renderMsg m).splitOn " ").headD ""

def renderItem : StreamItem → String
  | .ok m c => s!"ok {msgName m} {c}"
  | .err e => "err " ++ errName e

def handle (st : S) : List String → Option (S × String)
  | ["wcfg", ebs] => some <| match ebs.toNat? with
    | some e => ({ st with gmax := maxMessagePayload e }, s!"{maxMessagePayload e}")
    | none => (st, "bad-args")
  | ["wsha", h] => some <| match fromHex h with
    | some b => (st, toHex (sha b))
    | none => (st, "bad-args")
  | "wwf" :: pver :: r => some <| match pver.toNat?, parseMsg r with
    | some pv, some m => (st, if decide (WF st.gmax pv m) then "1" else "0")
    | _, _ => (st, "bad-args")
  | "wenc" :: pver :: r => some <| match pver.toNat?, parseMsg r with
    | some pv, some m =>
      (st, match encodePayload pv m with
        | .ok b => "ok " ++ toHex b
        | .error e => "err " ++ errName e)
    | _, _ => (st, "bad-args")
  | ["wdec", pver, cmd, h] => some <| match pver.toNat?, fromHex h with
    | some pv, some b =>
      (st, match lookupCmd (strBytes cmd) with
        | none => "err badcmd"
        | some t => match decodePayload st.gmax pv t b with
          | .ok m => "ok " ++ renderMsg m
          | .error e => "err " ++ errName e)
    | _, _ => (st, "bad-args")
  | ["walloc", pver, cmd, h] => some <| match pver.toNat?, fromHex h with
    | some pv, some b =>
      (st, match lookupCmd (strBytes cmd) with
        | none => "err badcmd"
        | some t => meter (decodeAllocs st.gmax pv t b))
    | _, _ => (st, "bad-args")
  | "wwrite" :: pver :: net :: r => some <| match pver.toNat?, net.toNat?, parseMsg r with
    | some pv, some n, some m =>
      (st, match writeMessage sha st.gmax pv n m with
        | .ok b => "ok " ++ toHex b
        | .error e => "err " ++ errName e)
    | _, _, _ => (st, "bad-args")
  | ["wframe", pver, net, h] => some <| match pver.toNat?, net.toNat?, fromHex h with
    | some pv, some n, some b =>
      (st, match readMessage sha st.gmax pv n b with
        | .ok (m, rest) => s!"ok {b.length - rest.length} " ++ renderMsg m
        | .error e => "err " ++ errName e)
    | _, _, _ => (st, "bad-args")
  | ["wstream", pver, net, h] => some <| match pver.toNat?, net.toNat?, fromHex h with
    | some pv, some n, some b =>
      (st, String.intercalate " ; " ((readStream sha st.gmax pv n (b.length / 24 + 2) b).map renderItem))
    | _, _, _ => (st, "bad-args")
  | ["wfalloc", pver, net, h] => some <| match pver.toNat?, net.toNat?, fromHex h with
    | some pv, some n, some b => (st, meter (readMessageAllocs sha st.gmax pv n b))
    | _, _, _ => (st, "bad-args")
  | _ => none

end Driver.Ops.Wire
