/-
Driver operations for the sync models (C06, C07). Core Lean only.
`handle st words` returns `none` when the first word is not one of this module's operations.

  sync|xsync init <cpoff 0|1> <now> <h:hash,…|-> <forbidden,…|->     configuration
  sync hangup <peer>                                                   the remote closed the socket: the peer object is disconnected
  sync|xsync def <hex80>                                              appends a header to the table (index = order)
  sync|xsync preload <idx…>                                           headers added to the store before the engine exists
  sync new                                                            p2psync.New on the current store
  sync newpeer <choice> <p> <lastBlock> <candidate 0|1>               events; <choice> = observed sync peer afterwards
  sync headers <choice> <p> <idx…> | sync inv <choice> <p> <idx|t<idx>…> (t = non-block entry) | sync done <choice> <p> | sync tick <choice> <stale 0|1>
  xsync new | xsync start <p> <peerHeight> | xsync headers <c> <p> <idx…> | xsync inv <c> <p> <idx…>
  sync|xsync dump | sync state
  node reply <cap> <pos> <stop|0> <loc,…> : <path idx…>                  the conformant node's answer (tree indices)
Answer to an event: the actions, `gh <p> <stop|0> <loc,…> ; disc <p> ; ban <p> ; sendheaders <p> ; panic`.
-/
import BHS.Model.Header
import BHS.Model.Sync
import BHS.Model.SyncGenStep
import BHS.Model.SyncExp
import BHS.Model.Node

namespace Driver.Ops.Sync
open BHS BHS.Chain BHS.Header

structure S where
  cpoff : Bool := false
  now : Nat := 0
  cps : List (Nat × String) := []
  forbid : List String := []
  table : Array (Src String) := #[]
  store : Store String := [genesisRow]
  st : Option (BHS.Sync.State String) := none
  xsts : List (Nat × BHS.SyncExp.State String) := []     -- one experimental peer object per connection, sharing the store

def ccfg (s : S) : Chain.Cfg String := { hashOf := blockHash, forbidden := s.forbid }

def cfgOf (s : S) : BHS.Sync.Cfg String :=
  { chain := ccfg s, zero := zeroHash, checkpoints := s.cps, disableCp := s.cpoff, now := s.now }

def xcfgOf (s : S) : BHS.SyncExp.Cfg String := { chain := ccfg s, zero := zeroHash, checkpoints := s.cps }

def stName : St → String
  | .lc => "LONGEST_CHAIN"
  | .stale => "STALE"
  | .orphan => "ORPHAN"

def rowStr (r : Row String) : String :=
  s!"{r.id},{r.hash},{r.prev},{r.merkle},{r.height},{r.version},{r.time},{r.bits},{r.nonce},{r.work},{r.cum},{stName r.st}"

def hashName (h : String) : String := if h = zeroHash then "0" else h

def actStr : BHS.Sync.Action String → String
  | .getheaders p loc stop => s!"gh {p} {hashName stop} {",".intercalate (loc.map hashName)}"
  | .disconnect p => s!"disc {p}"
  | .ban p => s!"ban {p}"
  | .panic => "panic"

def xactStr (p : Nat) : BHS.SyncExp.Action String → String
  | .getheaders loc stop => s!"gh {p} {hashName stop} {",".intercalate (loc.map hashName)}"
  | .sendheaders => s!"sendheaders {p}"
  | .disconnect => s!"disc {p}"
  | .panic => "panic"

def parseCps (w : String) : Option (List (Nat × String)) :=
  if w = "-" then some [] else
  (w.splitOn ",").mapM fun item =>
    match item.splitOn ":" with
    | [h, hash] => (fun k => (k, hash)) <$> h.toNat?
    | _ => none

def parseList (w : String) : List String := if w = "-" then [] else w.splitOn ","

def lookupAll (s : S) (ws : List String) : Option (List (Src String)) :=
  ws.mapM fun w => w.toNat?.bind fun i => s.table[i]?

/-- inv entries: `<idx>` = a block inventory with that header's hash, `t<idx>` = a non-block (tx) inventory with it -/
def invItems (s : S) (ws : List String) : Option (List (Bool × String)) :=
  ws.mapM fun w =>
    if w.startsWith "t" then ((w.drop 1).toString.toNat?.bind fun i => s.table[i]?).map fun x => (false, blockHash x)
    else (w.toNat?.bind fun i => s.table[i]?).map fun x => (true, blockHash x)

def choiceStr (sp : Option Nat) : String :=
  match sp with
  | some p => toString p
  | none => "-"

/-- run one event of the default engine; the random pick is whichever index reproduces the observed choice.
    The REGENERATED handlers (BHS/Gen/SyncMgr.lean, `genStep`) are evaluated on the same event with the same pick:
    a difference from the hand model's step (actions, state summary, table) is answered `err:gen-mismatch`. -/
def runEvent (s : S) (st : BHS.Sync.State String) (choice : String) (ev : BHS.Sync.Event String) : S × String :=
  let cfg := cfgOf s
  let n := st.peers.length + 1
  let tries := (List.range n).map fun pick => (pick, BHS.Sync.step cfg st pick ev)
  let hit := tries.find? fun r => choice = "?" || choiceStr r.2.1.syncPeer = choice
  let (pick, r) := match hit with
    | some r => r
    | none => (0, BHS.Sync.step cfg st 0 ev)
  let out := " ; ".intercalate (r.2.map actStr)
  let out := if hit.isSome then out
    else (if out.isEmpty then "" else out ++ " ; ") ++ s!"bad-syncpeer model={choiceStr r.1.syncPeer} observed={choice}"
  let g := BHS.Sync.Refine.genStep cfg st pick ev
  let same := g.2 = r.2 && summary g.1 = summary r.1 && g.1.store.map rowStr = r.1.store.map rowStr
  ({ s with st := some r.1 }, if same then out else s!"err:gen-mismatch generated=[{" ; ".intercalate (g.2.map actStr)}] {summary g.1} model=[{out}] {summary r.1}")
where
  summary (st : BHS.Sync.State String) : String :=
    let cp := match st.nextCp with | some c => toString c.1 | none => "-"
    let peers := st.peers.map fun q => s!"{q.id}:{if q.inMap then "m" else "-"}{if q.candidate then "c" else "-"}{if q.disc then "d" else "-"}:{q.lastBlock}:{q.prevBegin}:{q.prevStop}"
    s!"sync={choiceStr st.syncPeer} hf={st.headersFirst} cp={cp} peers={",".intercalate peers}"

def stateStr (st : BHS.Sync.State String) : String :=
  let cp := match st.nextCp with | some c => toString c.1 | none => "-"
  let peers := st.peers.map fun q => s!"{q.id}:{if q.inMap then "m" else "-"}{if q.candidate then "c" else "-"}{if q.disc then "d" else "-"}:{q.lastBlock}"
  s!"sync={choiceStr st.syncPeer} hf={st.headersFirst} cp={cp} peers={",".intercalate peers}"

def handle (s : S) : List String → Option (S × String)
  | [pre, "init", cpoff, now, cps, forbid] =>
    if pre ≠ "sync" && pre ≠ "xsync" then none else
    match now.toNat?, parseCps cps with
    | some now, some cps =>
      some ({ cpoff := cpoff = "1", now := now, cps := cps, forbid := parseList forbid }, "ok")
    | _, _ => some (s, "bad-args")
  | [pre, "def", hex] =>
    if pre ≠ "sync" && pre ≠ "xsync" then none else
    match (BHS.Sha256.ofHex hex).bind parse with
    | some x => some ({ s with table := s.table.push x }, "ok")
    | none => some (s, "bad-header")
  | pre :: "preload" :: idxs =>
    if pre ≠ "sync" && pre ≠ "xsync" then none else
    match lookupAll s idxs with
    | some xs => some ({ s with store := run (ccfg s) s.store xs }, "ok")
    | none => some (s, "bad-args")
  | ["sync", "new"] =>
    let st := BHS.Sync.new (cfgOf s) s.store
    let g := BHS.Sync.Refine.genNew (cfgOf s) s.store
    some ({ s with st := some st }, if stateStr g = stateStr st then "ok" else s!"err:gen-mismatch New generated={stateStr g} model={stateStr st}")
  | ["xsync", "new"] => some (s, "ok")
  | ["sync", "newpeer", choice, p, lb, cand] =>
    match s.st, p.toNat?, lb.toInt? with
    | some st, some p, some lb => some (runEvent s st choice (.newPeer p (cand = "1") lb))
    | _, _, _ => some (s, "bad-args")
  | "sync" :: "headers" :: choice :: p :: idxs =>
    match s.st, p.toNat?, lookupAll s idxs with
    | some st, some p, some xs => some (runEvent s st choice (.headers p xs))
    | _, _, _ => some (s, "bad-args")
  | "sync" :: "inv" :: choice :: p :: idxs =>
    match s.st, p.toNat?, invItems s idxs with
    | some st, some p, some items => some (runEvent s st choice (.inv p items))
    | _, _, _ => some (s, "bad-args")
  | ["sync", "hangup", p] =>
    -- the remote end closed the socket: peer.go's inHandler calls Disconnect() on the peer object (nothing is sent,
    -- the manager learns of it with the done message)
    match s.st, p.toNat? with
    | some st, some p =>
      some ({ s with st := some { st with peers := st.peers.map fun q => if q.id == p then { q with disc := true } else q } }, "")
    | _, _ => some (s, "bad-args")
  | ["sync", "done", choice, p] =>
    match s.st, p.toNat? with
    | some st, some p => some (runEvent s st choice (.donePeer p))
    | _, _ => some (s, "bad-args")
  | ["sync", "tick", choice, stale] =>
    match s.st with
    | some st => some (runEvent s st choice (.tick (stale = "1")))
    | none => some (s, "bad-args")
  | ["sync", "dump"] =>
    match s.st with
    | some st => some (s, ";".intercalate (st.store.map rowStr))
    | none => some (s, ";".intercalate (s.store.map rowStr))
  | ["sync", "state"] =>
    match s.st with
    | some st => some (s, stateStr st)
    | none => some (s, "none")
  | ["xsync", "start", p, peerHeight] =>
    match p.toNat?, peerHeight.toInt? with
    | some p, some ph =>
      let r := BHS.SyncExp.start (xcfgOf s) s.store ph 70013
      some ({ s with xsts := (s.xsts.filter (·.1 ≠ p)) ++ [(p, r.1)] }, " ; ".intercalate (r.2.map (xactStr p)))
    | _, _ => some (s, "bad-args")
  | "xsync" :: "headers" :: _ :: p :: idxs =>
    match p.toNat?, lookupAll s idxs with
    | some p, some xs =>
      match s.xsts.find? (·.1 = p) with
      | some (_, st) =>
        let r := BHS.SyncExp.handleHeaders (xcfgOf s) { st with store := s.store } xs
        some ({ s with store := r.1.store, xsts := s.xsts.map fun e => if e.1 = p then (p, r.1) else e },
          " ; ".intercalate (r.2.map (xactStr p)))
      | none => some (s, "no-peer")
    | _, _ => some (s, "bad-args")
  | "xsync" :: "inv" :: _ :: p :: idxs =>
    match p.toNat?, invItems s idxs with
    | some p, some items =>
      match s.xsts.find? (·.1 = p) with
      | some (_, st) =>
        let r := BHS.SyncExp.handleInv (xcfgOf s) { st with store := s.store } items
        some ({ s with store := r.1.store, xsts := s.xsts.map fun e => if e.1 = p then (p, r.1) else e },
          " ; ".intercalate (r.2.map (xactStr p)))
      | none => some (s, "no-peer")
    | _, _ => some (s, "bad-args")
  | ["xsync", "dump"] => some (s, ";".intercalate (s.store.map rowStr))
  | "node" :: "reply" :: cap :: pos :: stop :: loc :: ":" :: path =>
    match cap.toNat?, pos.toNat?, lookupAll s path with
    | some cap, some pos, some chain =>
      let n : BHS.Sync.Node String := { genesis := genesisRow.hash, chain := chain.take pos, cap := cap }
      let stop := if stop = "0" then zeroHash else stop
      let out := BHS.Sync.reply blockHash n (parseList loc) stop
      some (s, ",".intercalate (out.map blockHash))
    | _, _, _ => some (s, "bad-args")
  | _ => none

end Driver.Ops.Sync
