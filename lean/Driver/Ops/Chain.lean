/-
Driver operations for the chain model (C01, C03, C05, C11, …). Core Lean only.
-/
import BHS.Model.Header
import BHS.Spec.BestChain
import BHS.Model.Query
import BHS.Model.Interleave
import BHS.Model.RepoM
import BHS.Gen.ChainSvc
import BHS.Model.QueryM
import BHS.Gen.HeaderSvc

namespace Driver.Ops.Chain
open BHS BHS.Chain BHS.Header

structure S where
  store : Store String := [genesisRow]
  forbidden : List String := []
  threads : List (Thread String) := []

def cfgOf (st : S) : Cfg String := { hashOf := blockHash, forbidden := st.forbidden }

def stName : St → String
  | .lc => "LONGEST_CHAIN"
  | .stale => "STALE"
  | .orphan => "ORPHAN"

def rowStr (r : Row String) : String :=
  s!"{r.id},{r.hash},{r.prev},{r.merkle},{r.height},{r.version},{r.time},{r.bits},{r.nonce},{r.work},{r.cum},{stName r.st}"

def sortStrs (l : List String) : List String := (l.toArray.qsort (· < ·)).toList

def writeStr : Write String → String
  | .setState hs st => s!"W setstate:{stName st}:{",".intercalate (sortStrs hs)}"
  | .insert r => s!"W insert:{r.hash}"

def outcomeStr : Outcome String → String
  | .stored r => s!"stored {rowStr r}"
  | .duplicate => "duplicate"
  | .rejected => "rejected"
  | .creationFail => "error:HeaderCreationFail"

def verdictName : Verdict → String
  | .confirmed => "CONFIRMED"
  | .unable => "UNABLE_TO_VERIFY"
  | .invalid => "INVALID"

def parseItem (w : String) : Option (String × Int) :=
  match w.splitOn ":" with
  | [root, h] => (fun k => (root, k)) <$> h.toInt?
  | _ => none

def hashesStr (l : List (Row String)) : String := ",".intercalate (l.map (·.hash))

def optKey (k : String) : Option String := if k = "-" then none else some k

def parseHeader (hex : String) : Option (Src String) := (BHS.Sha256.ofHex hex).bind parse

/-- the repository call a thread is about to make -/
def callName : Pc String → String
  | .start => "R byhash"
  | .readParent => "R byhash"
  | .readAtHeight _ => "R byheight"
  | .readTip _ => "R tip"
  | .readStale _ => "R staleback"
  | .readConc _ _ => "R lcfrom"
  | .writes _ (w :: _) => writeStr w
  | .writes _ [] => "none"
  | .done _ => "done"

def writeEq : Write String → Write String → Bool
  | .setState a s, .setState b t => a == b && s == t
  | .insert a, .insert b => a == b
  | _, _ => false

def outcomeEq : Outcome String → Outcome String → Bool
  | .stored a, .stored b => a == b
  | .duplicate, .duplicate => true
  | .rejected, .rejected => true
  | .creationFail, .creationFail => true
  | _, _ => false

def writesEq : List (Write String) → List (Write String) → Bool
  | [], [] => true
  | a :: l, b :: m => writeEq a b && writesEq l m
  | _, _ => false

/-- run the REGENERATED `Add` (BHS/Gen/ChainSvc.lean, translated from the Go source on every run) on the same store and
    compare everything observable with the hand model: `none` = they agree (as Props/ChainSvc.lean proves), otherwise the
    text of the difference. `fail = some k`: the write of index `k` returns an error. -/
def genMismatch (cfg : Cfg String) (s : Store String) (x : Src String) (fail : Option Nat)
    (o : Option (Outcome String)) (ws : List (Write String)) (s' : Store String) : Option String :=
  match observe s fail (BHS.Gen.ChainSvc.Add cfg x) with
  | .error f => some s!"err:gen-mismatch generated Add panics: {repr f}"
  | .ok (go, gws, gs) =>
    let oOk := match o, go with
      | some a, some b => outcomeEq a b
      | none, _ => true
      | _, none => false
    if !oOk then some s!"err:gen-mismatch outcome generated={(go.map outcomeStr).getD "other-error"}"
    else if !writesEq ws gws then some s!"err:gen-mismatch writes generated={" | ".intercalate (gws.map writeStr)}"
    else if gs != s' then some s!"err:gen-mismatch store generated={";".intercalate (gs.map rowStr)}"
    else none

/-! ### the REGENERATED query side (BHS/Gen/HeaderSvc.lean, translated from service/header_service.go and the repository
and SQL layers below it on every run), evaluated next to the hand model on every read op: `none` = they agree (as
Props/HeaderSvcGen.lean proves), otherwise the text of the difference. The zero hash of the protocol is `zeroHash`. -/
section GenQuery
open BHS.QueryM (runQ)
open BHS.Gen.HeaderSvc

/-- the loop budget: above every stored height (the hypothesis of the refinement theorems) -/
def qFuel (s : Store String) : Nat := s.foldl (fun m r => max m r.height) 0 + 1

local instance zeroHashDefault : Inhabited String := ⟨zeroHash⟩

/-- one protocol line: no line breaks, bounded length -/
def oneLine (t : String) : String :=
  let u := String.ofList (t.toList.map fun c => if c == '\n' then ' ' else c)
  if u.length > 600 then (u.take 600).toString ++ "…" else u

def genDiff {α : Type} [Repr α] (what : String) (r : Except QueryM.Fault α) (ok : α → Bool) : Option String :=
  match r with
  | .error f => some s!"err:gen-mismatch {what}: the generated code faults: {repr f}"
  | .ok a => if ok a then none else some s!"err:gen-mismatch {what}: generated={oneLine (toString (repr a))}"

def errName (e : Option QueryM.Err) : String := ((e.bind QueryM.Err.bhsName).getD (match e with
  | some (.msg t) => t | _ => "-"))

def genLocatorDiff (s : Store String) : Option String :=
  genDiff "locator" (runQ s (qFuel s) HeaderService_LatestHeaderLocator) (· == locator s)

def genGetHeadersDiff (s : Store String) (loc : List String) (stop : String) : Option String :=
  genDiff "getheaders" (runQ s (qFuel s) (HeaderService_LocateHeadersGetHeaders loc stop)) fun res =>
    match getHeaders s zeroHash loc stop with
    | .ok rows => res.2.isNone && res.1 == rows.map (fun r => some (srcOf r))
    | .error .noLocators => errName res.2 == "no locators provided"
    | .error .stopLower => errName res.2 == "hashStop is lower than first valid height"

def genByHeightDiff (s : Store String) (lo cnt : Int) : Option String :=
  genDiff "byheight" (runQ s (qFuel s) (HeaderService_GetHeadersByHeight lo cnt)) fun res =>
    res.2.isNone && res.1 == (byHeightRange s lo (lo + cnt - 1)).map some

def genTipsDiff (s : Store String) : Option String :=
  genDiff "tips" (runQ s (qFuel s) HeaderService_GetTips) fun res => res.2.isNone && res.1 == (allTips s).map some

def genTipDiff (s : Store String) : Option String :=
  genDiff "tip" (runQ s (qFuel s) HeaderService_GetTip) (· == getTip s)

def genStateDiff (s : Store String) (h : String) : Option String :=
  genDiff "state" (runQ s (qFuel s) (HeaderService_GetHeaderByHash h)) fun res =>
    match byHash s h with
    | some r => res.2.isNone && res.1 == some r
    | none => res.1.isNone && errName res.2 == "ErrHeaderNotFound"

def genAncestorsDiff (s : Store String) (h a : String) : Option String :=
  genDiff "ancestors" (runQ s (qFuel s) (HeaderService_GetHeaderAncestorsByHash h a)) fun res =>
    match ancestors s h a with
    | .ok rows => res.2.isNone && res.1 == rows.map some
    | .error .notFound => errName res.2 == "ErrHeaderWithGivenHashes"
    | .error .ancestorHigher => errName res.2 == "ErrAncestorHashHigher"
    | .error .notSameChain => errName res.2 == "ErrHeadersNotPartOfTheSameChain"

def genCommonDiff (s : Store String) (hs : List String) : Option String :=
  genDiff "common" (runQ s (qFuel s) (HeaderService_GetCommonAncestor hs)) fun res =>
    match commonAncestor s hs with
    | .found r => res.2.isNone && res.1 == some r
    | .notFound => res.1.isNone && (errName res.2 == "ErrAncestorNotFound" || errName res.2 == "ErrHeaderNotFound")
    | .nilResult => res.1.isNone && (errName res.2 == "ErrAncestorNotFound" || errName res.2 == "ErrHeaderNotFound")
    | .panicEmpty => res.1.isNone && errName res.2 == "ErrCommonAncestorEmptyList"

/-- the hand model's answer, unless the generated code disagrees -/
def genCheck (d : Option String) (out : String) : String :=
  match d with
  | some x => x
  | none => out

end GenQuery

def parseSt : String → Option St
  | "LONGEST_CHAIN" => some .lc
  | "STALE" => some .stale
  | "ORPHAN" => some .orphan
  | _ => none

/-- one row in the `dump` format -/
def parseRow (w : String) : Option (Row String) :=
  match w.splitOn "," with
  | [id, hash, prev, merkle, height, version, time, bits, nonce, work, cum, st] => do
    let id ← id.toNat?
    let height ← height.toNat?
    let version ← version.toInt?
    let time ← time.toNat?
    let bits ← bits.toNat?
    let nonce ← nonce.toNat?
    let work ← work.toNat?
    let cum ← cum.toNat?
    let st ← parseSt st
    pure { id, hash, prev, merkle, height, version, time, bits, nonce, work, cum, st }
  | _ => none

def handle (st : S) : List String → Option (S × String)
  | ["reset"] => some ({ st with store := [genesisRow] }, "ok")
  -- the table of the implementation, as dumped: the runners of the READ properties (C02, C04, C08, C13) put the model on
  -- exactly the table the queries run on, so that they judge the queries and not how the table came about (C01)
  | ["load", rows] =>
    match (rows.splitOn ";").mapM parseRow with
    | some rs => some ({ st with store := rs }, "ok")
    | none => some (st, "bad-rows")
  | "forbid" :: hs => some ({ st with forbidden := hs }, "ok")
  | ["add", hex] =>
    match parseHeader hex with
    | none => some (st, "bad-header")
    | some x =>
      let p := plan (cfgOf st) st.store x
      let s' := applyWrites st.store p.2
      match genMismatch (cfgOf st) st.store x none (some p.1) p.2 s' with
      | some diff => some ({ st with store := s' }, diff)
      | none => some ({ st with store := s' }, " | ".intercalate (outcomeStr p.1 :: p.2.map writeStr))
  | ["crash", k, hex] =>
    match parseHeader hex, k.toNat? with
    | some x, some k =>
      let p := plan (cfgOf st) st.store x
      let s' := applyWrites st.store (p.2.take k)
      -- the generated Add with write k failing stops by itself at the same prefix
      match genMismatch (cfgOf st) st.store x (some k) (if k < p.2.length then none else some p.1) (p.2.take k) s' with
      | some diff => some ({ st with store := s' }, diff)
      | none => some ({ st with store := s' }, s!"crashed {min k p.2.length}")
    | _, _ => some (st, "bad-header")
  | ["restart"] => some ({ st with store := insertRow st.store genesisRow }, "ok")
  | ["hashof", hex] =>
    match parseHeader hex with
    | none => some (st, "bad-header")
    | some x => some (st, blockHash x)
  | ["tip"] => some (st, genCheck (genTipDiff st.store) (match getTip st.store with | some r => rowStr r | none => "none"))
  | ["state", h] => some (st, genCheck (genStateDiff st.store h)
      (match byHash st.store h with | some r => rowStr r | none => "not-found"))
  | ["dump"] => some (st, ";".intercalate (st.store.map rowStr))
  | ["inv"] =>
    let c := cfgOf st
    some (st, s!"wf={decide (WF c st.store)} lcinv={decide (LcInv st.store)} canon={decide (Canon st.store)} struct={decide (StructValid st.store)}")
  | "verify" :: excess :: items =>
    match excess.toInt?, items.mapM parseItem with
    | some e, some req =>
      match verify st.store e req with
      | none => some (st, "err:tipheight")
      | some res =>
        let agg := aggregate (res.map (fun x => x.2.2.1))
        some (st, verdictName agg ++ ";" ++ ";".intercalate (res.map fun (root, h, v, hash) =>
          s!"{root}:{h}:{verdictName v}:{hash.getD "-"}"))
    | _, _ => some (st, "bad-args")
  | ["roots", n, key] =>
    match n.toNat? with
    | none => some (st, "bad-args")
    | some n =>
      match page st.store n (optKey key) with
      | .error .notFound => some (st, "err:notfound")
      | .error .notLc => some (st, "err:conflict")
      | .error .noTip => some (st, "err:notip")
      | .ok (rows, last) => some (st, ",".intercalate (rows.map fun r => s!"{r.merkle}:{r.height}") ++ "|" ++ last.getD "-")
  | ["locator"] => some (st, genCheck (genLocatorDiff st.store) (",".intercalate (locator st.store)))
  | "getheaders" :: stop :: loc =>
    match getHeaders st.store zeroHash loc stop with
    | .error .noLocators => some (st, genCheck (genGetHeadersDiff st.store loc stop) "err:nolocators")
    | .error .stopLower => some (st, genCheck (genGetHeadersDiff st.store loc stop) "err:stoplower")
    | .ok rows => some (st, genCheck (genGetHeadersDiff st.store loc stop) (hashesStr rows))
  | ["byheight", lo, cnt] =>
    match lo.toInt?, cnt.toInt? with
    | some lo, some cnt => some (st, genCheck (genByHeightDiff st.store lo cnt)
        (",".intercalate (sortStrs ((byHeightRange st.store lo (lo + cnt - 1)).map (·.hash)))))
    | _, _ => some (st, "bad-args")
  | ["tips"] => some (st, genCheck (genTipsDiff st.store) (",".intercalate (sortStrs ((allTips st.store).map (·.hash)))))
  | ["ancestors", h, a] =>
    match ancestors st.store h a with
    | .error .notFound => some (st, genCheck (genAncestorsDiff st.store h a) "err:notfound")
    | .error .ancestorHigher => some (st, genCheck (genAncestorsDiff st.store h a) "err:ancestorhigher")
    | .error .notSameChain => some (st, genCheck (genAncestorsDiff st.store h a) "err:notsamechain")
    | .ok rows => some (st, genCheck (genAncestorsDiff st.store h a) ("ok:" ++ hashesStr rows))
  | "common" :: hs =>
    match commonAncestor st.store hs with
    | .found r => some (st, genCheck (genCommonDiff st.store hs) ("found:" ++ r.hash))
    | .notFound => some (st, genCheck (genCommonDiff st.store hs) "err:notfound")
    -- after the repairs 397583f / 15c8125 the service answers these two outcomes with structured 400 errors
    -- (ErrAncestorNotFound / ErrCommonAncestorEmptyList); the constructor names are kept from the original code
    | .nilResult => some (st, genCheck (genCommonDiff st.store hs) "err:notfound")
    | .panicEmpty => some (st, genCheck (genCommonDiff st.store hs) "err:empty")
  | "ilv" :: "init" :: hexes =>
    match hexes.mapM parseHeader with
    | none => some (st, "bad-header")
    | some xs => some ({ st with threads := xs.map (fun x => { x := x, pc := .start }) }, "ok")
  | ["ilv", "step", i] =>
    match i.toNat? with
    | none => some (st, "bad-args")
    | some i =>
      match st.threads[i]? with
      | none => some (st, "no-thread")
      | some t =>
        let call := callName t.pc
        let p := stepThread (cfgOf st) st.store t
        let out := match p.2.pc with
          | .done o => call ++ " => " ++ outcomeStr o
          | _ => call
        some ({ st with store := p.1, threads := st.threads.set i p.2 }, out)
  | ["count"] => some (st, toString st.store.length)
  | _ => none

end Driver.Ops.Chain
