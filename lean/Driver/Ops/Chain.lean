/-
Driver operations for the chain model (C01, C03, C05, C11, …). Core Lean only.
-/
import BHS.Model.Header
import BHS.Spec.BestChain

namespace Driver.Ops.Chain
open BHS BHS.Chain BHS.Header

structure S where
  store : Store String := [genesisRow]
  forbidden : List String := []

def cfgOf (st : S) : Cfg String := { hashOf := blockHash, forbidden := st.forbidden }

def stName : St → String
  | .lc => "LONGEST_CHAIN"
  | .stale => "STALE"
  | .orphan => "ORPHAN"

def rowStr (r : Row String) : String :=
  s!"{r.id},{r.hash},{r.prev},{r.merkle},{r.height},{r.version},{r.time},{r.bits},{r.nonce},{r.work},{r.cum},{stName r.st}"

def sortStrs (l : List String) : List String := (l.toArray.qsort (· < ·)).toList

def writeStr : Write String → String
  | .setState hs st => s!"W setstate:{stName st}:{",".intercalate (sortStrs hs)}"
  | .insert r => s!"W insert:{r.hash}"

def outcomeStr : Outcome String → String
  | .stored r => s!"stored {rowStr r}"
  | .duplicate => "duplicate"
  | .rejected => "rejected"
  | .creationFail => "error:HeaderCreationFail"

def parseHeader (hex : String) : Option (Src String) := (BHS.Sha256.ofHex hex).bind parse

def handle (st : S) : List String → Option (S × String)
  | ["reset"] => some ({ st with store := [genesisRow] }, "ok")
  | "forbid" :: hs => some ({ st with forbidden := hs }, "ok")
  | ["add", hex] =>
    match parseHeader hex with
    | none => some (st, "bad-header")
    | some x =>
      let p := plan (cfgOf st) st.store x
      let s' := applyWrites st.store p.2
      some ({ st with store := s' }, " | ".intercalate (outcomeStr p.1 :: p.2.map writeStr))
  | ["crash", k, hex] =>
    match parseHeader hex, k.toNat? with
    | some x, some k =>
      let p := plan (cfgOf st) st.store x
      some ({ st with store := applyWrites st.store (p.2.take k) }, s!"crashed {min k p.2.length}")
    | _, _ => some (st, "bad-header")
  | ["restart"] => some ({ st with store := insertRow st.store genesisRow }, "ok")
  | ["hashof", hex] =>
    match parseHeader hex with
    | none => some (st, "bad-header")
    | some x => some (st, blockHash x)
  | ["tip"] => some (st, match getTip st.store with | some r => rowStr r | none => "none")
  | ["state", h] => some (st, match byHash st.store h with | some r => rowStr r | none => "not-found")
  | ["dump"] => some (st, ";".intercalate (st.store.map rowStr))
  | ["inv"] =>
    let c := cfgOf st
    some (st, s!"wf={decide (WF c st.store)} lcinv={decide (LcInv st.store)} canon={decide (Canon st.store)} struct={decide (StructValid st.store)}")
  | ["count"] => some (st, toString st.store.length)
  | _ => none

end Driver.Ops.Chain
