/-
Driver operations for the Chain model (line protocol). Core Lean only.
`handle st words` returns `none` when the first word is not one of this module's operations.
-/
namespace Driver.Ops.Chain

structure S where
  unit : Unit := ()

def handle (_st : S) (_ws : List String) : Option (S × String) := none

end Driver.Ops.Chain
