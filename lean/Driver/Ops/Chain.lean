/-
The chain driver with every cross-check switched on (Chains.Add and the header queries). The model drivers proper are
Driver/Mains/Chain.lean (write side: C01, C03, C05, C11, C15) and Driver/Mains/ChainQ.lean (read side: C02, C04, C08, C13).
-/
import Driver.Ops.ChainAddGen
import Driver.Ops.ChainQGen

namespace Driver.Ops.Chain

def fullChecks : Checks := { queryChecks with add := genMismatch }

def handle (st : S) : List String → Option (S × String) := handleWith fullChecks st

end Driver.Ops.Chain
