/-
Driver operations for the chain model (C01, C03, C05, C11, …). Core Lean only.
-/
import BHS.Model.Header
import BHS.Spec.BestChain
import BHS.Model.Query
import BHS.Model.Interleave
import BHS.Model.RepoM
import BHS.Gen.ChainSvc

namespace Driver.Ops.Chain
open BHS BHS.Chain BHS.Header

structure S where
  store : Store String := [genesisRow]
  forbidden : List String := []
  threads : List (Thread String) := []

def cfgOf (st : S) : Cfg String := { hashOf := blockHash, forbidden := st.forbidden }

def stName : St → String
  | .lc => "LONGEST_CHAIN"
  | .stale => "STALE"
  | .orphan => "ORPHAN"

def rowStr (r : Row String) : String :=
  s!"{r.id},{r.hash},{r.prev},{r.merkle},{r.height},{r.version},{r.time},{r.bits},{r.nonce},{r.work},{r.cum},{stName r.st}"

def sortStrs (l : List String) : List String := (l.toArray.qsort (· < ·)).toList

def writeStr : Write String → String
  | .setState hs st => s!"W setstate:{stName st}:{",".intercalate (sortStrs hs)}"
  | .insert r => s!"W insert:{r.hash}"

def outcomeStr : Outcome String → String
  | .stored r => s!"stored {rowStr r}"
  | .duplicate => "duplicate"
  | .rejected => "rejected"
  | .creationFail => "error:HeaderCreationFail"

def verdictName : Verdict → String
  | .confirmed => "CONFIRMED"
  | .unable => "UNABLE_TO_VERIFY"
  | .invalid => "INVALID"

def parseItem (w : String) : Option (String × Int) :=
  match w.splitOn ":" with
  | [root, h] => (fun k => (root, k)) <$> h.toInt?
  | _ => none

def hashesStr (l : List (Row String)) : String := ",".intercalate (l.map (·.hash))

def optKey (k : String) : Option String := if k = "-" then none else some k

def parseHeader (hex : String) : Option (Src String) := (BHS.Sha256.ofHex hex).bind parse

/-- the repository call a thread is about to make -/
def callName : Pc String → String
  | .start => "R byhash"
  | .readParent => "R byhash"
  | .readAtHeight _ => "R byheight"
  | .readTip _ => "R tip"
  | .readStale _ => "R staleback"
  | .readConc _ _ => "R lcfrom"
  | .writes _ (w :: _) => writeStr w
  | .writes _ [] => "none"
  | .done _ => "done"

def writeEq : Write String → Write String → Bool
  | .setState a s, .setState b t => a == b && s == t
  | .insert a, .insert b => a == b
  | _, _ => false

def outcomeEq : Outcome String → Outcome String → Bool
  | .stored a, .stored b => a == b
  | .duplicate, .duplicate => true
  | .rejected, .rejected => true
  | .creationFail, .creationFail => true
  | _, _ => false

def writesEq : List (Write String) → List (Write String) → Bool
  | [], [] => true
  | a :: l, b :: m => writeEq a b && writesEq l m
  | _, _ => false

/-- run the REGENERATED `Add` (BHS/Gen/ChainSvc.lean, translated from the Go source on every run) on the same store and
    compare everything observable with the hand model: `none` = they agree (as Props/ChainSvc.lean proves), otherwise the
    text of the difference. `fail = some k`: the write of index `k` returns an error. -/
def genMismatch (cfg : Cfg String) (s : Store String) (x : Src String) (fail : Option Nat)
    (o : Option (Outcome String)) (ws : List (Write String)) (s' : Store String) : Option String :=
  match observe s fail (BHS.Gen.ChainSvc.Add cfg x) with
  | .error f => some s!"err:gen-mismatch generated Add panics: {repr f}"
  | .ok (go, gws, gs) =>
    let oOk := match o, go with
      | some a, some b => outcomeEq a b
      | none, _ => true
      | _, none => false
    if !oOk then some s!"err:gen-mismatch outcome generated={(go.map outcomeStr).getD "other-error"}"
    else if !writesEq ws gws then some s!"err:gen-mismatch writes generated={" | ".intercalate (gws.map writeStr)}"
    else if gs != s' then some s!"err:gen-mismatch store generated={";".intercalate (gs.map rowStr)}"
    else none

def handle (st : S) : List String → Option (S × String)
  | ["reset"] => some ({ st with store := [genesisRow] }, "ok")
  | "forbid" :: hs => some ({ st with forbidden := hs }, "ok")
  | ["add", hex] =>
    match parseHeader hex with
    | none => some (st, "bad-header")
    | some x =>
      let p := plan (cfgOf st) st.store x
      let s' := applyWrites st.store p.2
      match genMismatch (cfgOf st) st.store x none (some p.1) p.2 s' with
      | some diff => some ({ st with store := s' }, diff)
      | none => some ({ st with store := s' }, " | ".intercalate (outcomeStr p.1 :: p.2.map writeStr))
  | ["crash", k, hex] =>
    match parseHeader hex, k.toNat? with
    | some x, some k =>
      let p := plan (cfgOf st) st.store x
      let s' := applyWrites st.store (p.2.take k)
      -- the generated Add with write k failing stops by itself at the same prefix
      match genMismatch (cfgOf st) st.store x (some k) (if k < p.2.length then none else some p.1) (p.2.take k) s' with
      | some diff => some ({ st with store := s' }, diff)
      | none => some ({ st with store := s' }, s!"crashed {min k p.2.length}")
    | _, _ => some (st, "bad-header")
  | ["restart"] => some ({ st with store := insertRow st.store genesisRow }, "ok")
  | ["hashof", hex] =>
    match parseHeader hex with
    | none => some (st, "bad-header")
    | some x => some (st, blockHash x)
  | ["tip"] => some (st, match getTip st.store with | some r => rowStr r | none => "none")
  | ["state", h] => some (st, match byHash st.store h with | some r => rowStr r | none => "not-found")
  | ["dump"] => some (st, ";".intercalate (st.store.map rowStr))
  | ["inv"] =>
    let c := cfgOf st
    some (st, s!"wf={decide (WF c st.store)} lcinv={decide (LcInv st.store)} canon={decide (Canon st.store)} struct={decide (StructValid st.store)}")
  | "verify" :: excess :: items =>
    match excess.toInt?, items.mapM parseItem with
    | some e, some req =>
      match verify st.store e req with
      | none => some (st, "err:tipheight")
      | some res =>
        let agg := aggregate (res.map (fun x => x.2.2.1))
        some (st, verdictName agg ++ ";" ++ ";".intercalate (res.map fun (root, h, v, hash) =>
          s!"{root}:{h}:{verdictName v}:{hash.getD "-"}"))
    | _, _ => some (st, "bad-args")
  | ["roots", n, key] =>
    match n.toNat? with
    | none => some (st, "bad-args")
    | some n =>
      match page st.store n (optKey key) with
      | .error .notFound => some (st, "err:notfound")
      | .error .notLc => some (st, "err:conflict")
      | .error .noTip => some (st, "err:notip")
      | .ok (rows, last) => some (st, ",".intercalate (rows.map fun r => s!"{r.merkle}:{r.height}") ++ "|" ++ last.getD "-")
  | ["locator"] => some (st, ",".intercalate (locator st.store))
  | "getheaders" :: stop :: loc =>
    match getHeaders st.store zeroHash loc stop with
    | .error .noLocators => some (st, "err:nolocators")
    | .error .stopLower => some (st, "err:stoplower")
    | .ok rows => some (st, hashesStr rows)
  | ["byheight", lo, cnt] =>
    match lo.toInt?, cnt.toInt? with
    | some lo, some cnt => some (st, ",".intercalate (sortStrs ((byHeightRange st.store lo (lo + cnt - 1)).map (·.hash))))
    | _, _ => some (st, "bad-args")
  | ["tips"] => some (st, ",".intercalate (sortStrs ((allTips st.store).map (·.hash))))
  | ["ancestors", h, a] =>
    match ancestors st.store h a with
    | .error .notFound => some (st, "err:notfound")
    | .error .ancestorHigher => some (st, "err:ancestorhigher")
    | .error .notSameChain => some (st, "err:notsamechain")
    | .ok rows => some (st, "ok:" ++ hashesStr rows)
  | "common" :: hs =>
    match commonAncestor st.store hs with
    | .found r => some (st, "found:" ++ r.hash)
    | .notFound => some (st, "err:notfound")
    -- after the repairs 397583f / 15c8125 the service answers these two outcomes with structured 400 errors
    -- (ErrAncestorNotFound / ErrCommonAncestorEmptyList); the constructor names are kept from the original code
    | .nilResult => some (st, "err:notfound")
    | .panicEmpty => some (st, "err:empty")
  | "ilv" :: "init" :: hexes =>
    match hexes.mapM parseHeader with
    | none => some (st, "bad-header")
    | some xs => some ({ st with threads := xs.map (fun x => { x := x, pc := .start }) }, "ok")
  | ["ilv", "step", i] =>
    match i.toNat? with
    | none => some (st, "bad-args")
    | some i =>
      match st.threads[i]? with
      | none => some (st, "no-thread")
      | some t =>
        let call := callName t.pc
        let p := stepThread (cfgOf st) st.store t
        let out := match p.2.pc with
          | .done o => call ++ " => " ++ outcomeStr o
          | _ => call
        some ({ st with store := p.1, threads := st.threads.set i p.2 }, out)
  | ["count"] => some (st, toString st.store.length)
  | _ => none

end Driver.Ops.Chain
