/-
Driver operations for the Hooks model (C12, line protocol). Core Lean only.
`handle st words` returns `none` when the first word is not one of this module's operations.

  hook cfg <maxTries> <scripted|prod>            new sequence: empty table, clock 0      → ok
  hook register <authType> <header> <token> <url>  ("-" = empty string)                    → ok <report> | refused:<Code>
  hook delete <url>                                                                       → ok | refused:<Code>
  hook notify <url>=<outcome> …   outcome: r<code>:<body>[:<mode>] | terr | ub<code>[:<sent>]  (body "-" = empty;
        <mode>/<sent> say HOW the target transmits the reply and are not part of the model; a body
        token X<n> stands for n bytes and is carried as a token)
        every url of the table must be given an outcome (used only when the hook is called) → calls=[…] posts=[…] table=[…]
  hook get <url>                                                                          → <report> | refused:<Code>
  hook dump                                                                               → table=[…]
  hook restart                                                                            → ok
-/
import BHS.Model.Hooks

namespace Driver.Ops.Hooks
open BHS.Model.Hooks

structure S where
  cfg : Cfg := { maxTries := 1, prod := false }
  st : State := {}

def unesc (s : String) : String := if s == "-" then "" else s
def esc (s : String) : String := if s == "" then "-" else s

def showStatus : Status → String
  | .none => "-"
  | .reply c b => s!"{c}:{b}"
  | .err => "err"

def showStamp : Stamp → String
  | .never => "never"
  | .zero => "zero"
  | .at k => s!"n{k}"

def showErr : Err → String
  | .urlBodyRequired => "ErrURLBodyRequired"
  | .urlParamRequired => "ErrURLParamRequired"
  | .refreshWebhook => "ErrRefreshWebhook"
  | .webhookNotFound => "ErrWebhookNotFound"

def showReport (r : Report) : String :=
  s!"active={r.active} errors={r.errors} last={showStatus r.lastStatus} at={showStamp r.lastAt}"

def showRow (r : Row) : String :=
  s!"{r.url}|{esc r.tokenHeader}|{esc r.token}|{showStatus r.lastStatus}|{showStamp r.lastAt}|{r.errors}|{r.active}"

def showTable (t : List Row) : String := "table=[" ++ ";".intercalate (t.map showRow) ++ "]"

/-- an entry of the header map whose name is empty is not an HTTP header: the canonical
form leaves it out (so the line does not depend on which layer drops it). -/
def showCall (c : Call) : String :=
  if c.name == "" then s!"{c.url}(-)" else s!"{c.url}({c.name}={c.value})"

def showCalls (cs : List Call) : String := "[" ++ ",".intercalate (cs.map showCall) ++ "]"

def parseOutcome (s : String) : Option Outcome :=
  if s == "terr" then some .transportErr
  else if s.startsWith "ub" then
    match ((s.drop 2).toString.splitOn ":") with
    | [c] => c.toNat?.map .unreadableBody
    | [c, _] => c.toNat?.map .unreadableBody   -- 2nd field: bytes sent before the cut (transport detail)
    | _ => none
  else if s.startsWith "r" then
    match ((s.drop 1).toString.splitOn ":") with
    | [c, b] => c.toNat?.map (fun n => .reply n (unesc b))
    | [c, b, _] => c.toNat?.map (fun n => .reply n (unesc b))   -- 3rd field: how the target transmits the body (transport detail)
    | _ => none
  else none

def parseOuts : List String → Option (List (String × Outcome))
  | [] => some []
  | w :: ws =>
    match w.splitOn "=" with
    | [u, o] => do
        let oc ← parseOutcome o
        let rest ← parseOuts ws
        pure ((u, oc) :: rest)
    | _ => none

def showReply : Reply → String
  | .ok r => "ok " ++ showReport r
  | .done => "ok"
  | .refused e => "refused:" ++ showErr e

def handle (s : S) : List String → Option (S × String)
  | ["hook", "cfg", m, cl] =>
    match m.toNat?, cl with
    | some n, "scripted" => some ({ cfg := { maxTries := n, prod := false }, st := {} }, "ok")
    | some n, "prod" => some ({ cfg := { maxTries := n, prod := true }, st := {} }, "ok")
    | _, _ => some (s, "bad-op")
  | ["hook", "register", a, h, t, u] =>
    let k := if a.toLower == "bearer" then AuthKind.bearer else AuthKind.other
    let r := register s.cfg s.st k (unesc h) (unesc t) (unesc u)
    some ({ s with st := r.1 }, showReply r.2)
  | ["hook", "delete", u] =>
    let r := delete s.st (unesc u)
    some ({ s with st := r.1 }, showReply r.2)
  | "hook" :: "notify" :: ws =>
    match parseOuts ws with
    | none => some (s, "bad-op")
    | some outs =>
      if s.st.table.all (fun r => outs.any (fun p => p.1 == r.url)) then
        let out := fun u => match outs.find? (fun p => p.1 == u) with
          | some p => p.2
          | none => Outcome.transportErr  -- not reached: every url of the table has an entry
        let r := notify s.cfg s.st out
        some ({ s with st := r.1 },
          s!"calls={showCalls (r.2.map (·.call))} posts={showCalls (posts r.2)} {showTable r.1.table}")
      else some (s, "bad-op missing-outcome")
  | ["hook", "get", u] =>
    match get s.cfg s.st (unesc u) with
    | .ok r => some (s, showReport r)
    | r => some (s, showReply r)
  | ["hook", "dump"] => some (s, showTable s.st.table)
  | ["hook", "restart"] =>
    some ({ s with st := (step s.cfg s.st .restart).1 }, "ok")
  | "hook" :: _ => some (s, "bad-op")
  | _ => none

end Driver.Ops.Hooks
