/-
Driver operations for the ImpExp model (C17; line protocol). Core Lean only.
`handle st words` returns `none` when the first word is not one of this module's operations.

  ireset                                   source store := [genesis], table := []
  iadd <hex160>                            Chains.Add on the source store (same answer line as `add`)
  iexport                                  the CSV records of the export (first the column-name line); cells joined by ',',
                                           records by ' '
  iuse                                     table := source store (a database that already holds headers)
  iimport <batch> <cp-height> <cp-hash> <records…>   start-up with prepared_db on an EMPTY table
  istart  <batch> <cp-height> <cp-hash> <records…>   start-up with prepared_db on the table left by the previous op
                                           (`- -` = config.Checkpoints empty; the single record `!unreadable[:how]` = file
                                           missing / bad gzip; no record at all = empty file)
        →  ok <rows> <digest> | skipped <rows> <digest> | refused:<why> <rows> <digest> | panic <rows> <digest>
           | outside <row index>
  idump                                    the table, rows as in `dump`

Every iimport / istart ALSO runs the REGENERATED import (BHS/Gen/Import.lean, translated from database/import.go and
sqlite_adapter.go on every run) on the same table, file and checkpoints and answers `err:gen-mismatch …` when its table
or its verdict differs from the hand model's — the correspondence runs exercise the translation too (the equality is
theorem Gen_import_refines in BHS/Props/ImportGen.lean).
-/
import BHS.Model.ImpExp
import BHS.Gen.Import
import Driver.Ops.ChainFmt

namespace Driver.Ops.ImpExp
open BHS BHS.Chain BHS.Header BHS.ImpExp

structure S where
  src : Store String := [genesisRow]
  table : Store String := []

def cfg : Cfg String := { hashOf := blockHash, forbidden := [] }

def recStr (r : Record) : String := ",".intercalate (r.map String.ofList)

def parseRec (tok : String) : Record := (tok.splitOn ",").map String.toList

def parseFile (toks : List String) : Option (List Record) :=
  match toks with
  | [t] => if t.startsWith "!unreadable" then none else some [parseRec t]
  | _ => some (toks.map parseRec)

def errName : RowErr → String
  | .fieldCount => "fieldcount"
  | .recordLength => "recordlength"
  | .version => "version"
  | .merkle => "merkleroot"
  | .nonce => "nonce"
  | .bits => "bits"
  | .timestamp => "timestamp"

def refusalName : Refusal → String
  | .unreadable => "unreadable"
  | .noHeaderLine => "noheader"
  | .row i e => s!"row:{i}:{errName e}"
  | .count => "count"
  | .maxHeight => "maxheight"
  | .heights => "heights"
  | .checkpointAbsent => "cp-absent"
  | .checkpointMismatch => "cp-mismatch"

def dumpStr (t : Store String) : String := ";".intercalate (t.map Chain.rowStr)

def digest (t : Store String) : String := BHS.Sha256.toHex (BHS.Sha256.sha256 (dumpStr t).toUTF8.toList)

def resStr (t : Store String) : StartRes → String
  | .skipped => s!"skipped {t.length} {digest t}"
  | .imported _ => s!"ok {t.length} {digest t}"
  | .refused e => s!"refused:{refusalName e} {t.length} {digest t}"
  | .panicked => s!"panic {t.length} {digest t}"
  | .outside i => s!"outside {i}"

def parseCps (h hash : String) : Option (List (Nat × String)) :=
  if h = "-" then some [] else (fun k => [(k, hash)]) <$> h.toNat?

/-- the regenerated import on the same input: table afterwards and observed verdict -/
def genStart (bs : Nat) (cps : List (Nat × String)) (tbl : Store String) (file : Option (List Record)) :
    Store String × BHS.ImportPrim.Observed :=
  BHS.ImportPrim.observe (BHS.Gen.Import.importHeaders cfg strCodec
    { BHS.Gen.Import.consts with sqliteBatchSize := (bs : Int) } (BHS.ImportPrim.world0 tbl file cps))

def doStart (st : S) (tbl : Store String) (bs cph cphash : String) (toks : List String) : Option (S × String) :=
  match bs.toNat?, parseCps cph cphash with
  | some bs, some cps =>
    let r := start cfg strCodec bs cps tbl (parseFile toks)
    let g := genStart bs cps tbl (parseFile toks)
    if bs > 0 && !(decide (g.1 = r.1) && decide (g.2 = BHS.ImportPrim.verdictOf r.2)) then
      some ({ st with table := r.1 }, s!"err:gen-mismatch model={resStr r.1 r.2} generated={repr g.2} rows={g.1.length}")
    else
    some ({ st with table := r.1 }, resStr r.1 r.2)
  | _, _ => some (st, "bad-args")

def handle (st : S) : List String → Option (S × String)
  | ["ireset"] => some ({ src := [genesisRow], table := [] }, "ok")
  | ["iadd", hex] =>
    match Chain.parseHeader hex with
    | none => some (st, "bad-header")
    | some x =>
      let p := plan cfg st.src x
      some ({ st with src := applyWrites st.src p.2 }, " | ".intercalate (Chain.outcomeStr p.1 :: p.2.map Chain.writeStr))
  | ["iexport"] => some (st, " ".intercalate ((exportFile strCodec st.src).map recStr))
  | ["iuse"] => some ({ st with table := st.src }, s!"ok {st.src.length}")
  | "iimport" :: bs :: cph :: cphash :: toks => doStart st [] bs cph cphash toks
  | "istart" :: bs :: cph :: cphash :: toks => doStart st st.table bs cph cphash toks
  | ["idump"] => some (st, dumpStr st.table)
  | ["icsv", _] => some (st, "ok")   -- CSV spelling (line ends, quotes, blank lines) is outside the model
  | _ => none

end Driver.Ops.ImpExp
