/-
Cross-check of the chain driver's `verify` operation against the REGENERATED verification path
(BHS/Gen/Confirmations.lean, translated from service/merkleroots_service.go and the repository, dto and SQL layers below
it on every run): `none` = the generated code answers what the hand model answers (as Props/ConfirmationsGen.lean
proves), otherwise the text of the difference.
-/
import Driver.Ops.ChainCore
import BHS.Model.ConfirmationsPrim
import BHS.Gen.Confirmations

namespace Driver.Ops.Chain
open BHS BHS.Chain BHS.Header BHS.MerkleRootsPrim
open BHS.Gen.Confirmations

/-- a root text as the Go string it is (`""` = the zero string) -/
def rootKey (r : String) : Option String := if r = "" then none else some r

def genVerifyDiff (s : Store String) (e : Int) (req : List (String × Int)) : Option String :=
  -- the refinement is stated for int32 heights (the Go type of BlockHeight); other requests are not cross-checked
  if req.any (fun x => x.2 < -2147483648 || x.2 ≥ 2147483648) then none
  else
    match MerklerootsService_GetMerkleRootsConfirmations s e (req.map fun x => ⟨rootKey x.1, x.2⟩) with
    | .error f => some s!"err:gen-mismatch verify: the generated code faults: {repr f}"
    | .ok (res, err) =>
      let ok : Bool := match verify s e req with
        | none => res.isEmpty && err == some (.bhsWrap "ErrGetChainTipHeight" .scanNull)
        | some hres => err.isNone &&
            res == hres.map (fun x => some ⟨rootKey x.1, x.2.1, x.2.2.2, verdictName x.2.2.1⟩)
      if ok then none
      else
        let t := toString (repr (res, err))
        let u := String.ofList (t.toList.map fun c => if c == '\n' then ' ' else c)
        some s!"err:gen-mismatch verify: generated={if u.length > 600 then (u.take 600).toString ++ "…" else u}"

def verifyChecks : Checks := { verify := genVerifyDiff }

end Driver.Ops.Chain
