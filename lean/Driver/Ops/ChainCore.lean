/-
Driver operations for the chain model (C01, C03, C05, C11, …; the read properties C02, C04, C08, C13). Core Lean only.
`handleWith ck` is the operation table; `ck : Checks` are optional cross-checks which evaluate a REGENERATED definition
next to the hand model and replace the answer by `err:gen-mismatch …` when they differ (`none` = agree / not checked).
The cross-checks live in their own modules (ChainAddGen: Chains.Add; ChainQGen: the header queries) so that this module
imports no regenerated translation: a driver depends only on the translations it actually cross-checks.
-/
import Driver.Ops.ChainFmt

namespace Driver.Ops.Chain
open BHS BHS.Chain BHS.Header

def writeEq : Write String → Write String → Bool
  | .setState a s, .setState b t => a == b && s == t
  | .insert a, .insert b => a == b
  | _, _ => false

def outcomeEq : Outcome String → Outcome String → Bool
  | .stored a, .stored b => a == b
  | .duplicate, .duplicate => true
  | .rejected, .rejected => true
  | .creationFail, .creationFail => true
  | _, _ => false

def writesEq : List (Write String) → List (Write String) → Bool
  | [], [] => true
  | a :: l, b :: m => writeEq a b && writesEq l m
  | _, _ => false

/-- optional cross-checks against regenerated definitions; every field defaults to "not checked" -/
structure Checks where
  add : Cfg String → Store String → Src String → Option Nat → Option (Outcome String) → List (Write String) →
    Store String → Option String := fun _ _ _ _ _ _ _ => none
  locator : Store String → Option String := fun _ => none
  getheaders : Store String → List String → String → Option String := fun _ _ _ => none
  byheight : Store String → Int → Int → Option String := fun _ _ _ => none
  tips : Store String → Option String := fun _ => none
  tip : Store String → Option String := fun _ => none
  state : Store String → String → Option String := fun _ _ => none
  ancestors : Store String → String → String → Option String := fun _ _ _ => none
  common : Store String → List String → Option String := fun _ _ => none
  verify : Store String → Int → List (String × Int) → Option String := fun _ _ _ => none

/-- the hand model's answer, unless the generated code disagrees -/
def genCheck (d : Option String) (out : String) : String :=
  match d with
  | some x => x
  | none => out



def parseSt : String → Option St
  | "LONGEST_CHAIN" => some .lc
  | "STALE" => some .stale
  | "ORPHAN" => some .orphan
  | _ => none

/-- one row in the `dump` format -/
def parseRow (w : String) : Option (Row String) :=
  match w.splitOn "," with
  | [id, hash, prev, merkle, height, version, time, bits, nonce, work, cum, st] => do
    let id ← id.toNat?
    let height ← height.toNat?
    let version ← version.toInt?
    let time ← time.toNat?
    let bits ← bits.toNat?
    let nonce ← nonce.toNat?
    let work ← work.toNat?
    let cum ← cum.toNat?
    let st ← parseSt st
    pure { id, hash, prev, merkle, height, version, time, bits, nonce, work, cum, st }
  | _ => none

def handleWith (ck : Checks) (st : S) : List String → Option (S × String)
  | ["reset"] => some ({ st with store := [genesisRow] }, "ok")
  -- the table of the implementation, as dumped: the runners of the READ properties (C02, C04, C08, C13) put the model on
  -- exactly the table the queries run on, so that they judge the queries and not how the table came about (C01)
  | ["load", rows] =>
    match (rows.splitOn ";").mapM parseRow with
    | some rs => some ({ st with store := rs }, "ok")
    | none => some (st, "bad-rows")
  | "forbid" :: hs => some ({ st with forbidden := hs }, "ok")
  | ["add", hex] =>
    match parseHeader hex with
    | none => some (st, "bad-header")
    | some x =>
      let p := plan (cfgOf st) st.store x
      let s' := applyWrites st.store p.2
      match ck.add (cfgOf st) st.store x none (some p.1) p.2 s' with
      | some diff => some ({ st with store := s' }, diff)
      | none => some ({ st with store := s' }, " | ".intercalate (outcomeStr p.1 :: p.2.map writeStr))
  | ["crash", k, hex] =>
    match parseHeader hex, k.toNat? with
    | some x, some k =>
      let p := plan (cfgOf st) st.store x
      let s' := applyWrites st.store (p.2.take k)
      -- the generated Add with write k failing stops by itself at the same prefix
      match ck.add (cfgOf st) st.store x (some k) (if k < p.2.length then none else some p.1) (p.2.take k) s' with
      | some diff => some ({ st with store := s' }, diff)
      | none => some ({ st with store := s' }, s!"crashed {min k p.2.length}")
    | _, _ => some (st, "bad-header")
  | ["restart"] => some ({ st with store := insertRow st.store genesisRow }, "ok")
  | ["hashof", hex] =>
    match parseHeader hex with
    | none => some (st, "bad-header")
    | some x => some (st, blockHash x)
  | ["tip"] => some (st, genCheck (ck.tip st.store) (match getTip st.store with | some r => rowStr r | none => "none"))
  | ["state", h] => some (st, genCheck (ck.state st.store h)
      (match byHash st.store h with | some r => rowStr r | none => "not-found"))
  | ["dump"] => some (st, ";".intercalate (st.store.map rowStr))
  | ["inv"] =>
    let c := cfgOf st
    some (st, s!"wf={decide (WF c st.store)} lcinv={decide (LcInv st.store)} canon={decide (Canon st.store)} struct={decide (StructValid st.store)}")
  | "verify" :: excess :: items =>
    match excess.toInt?, items.mapM parseItem with
    | some e, some req =>
      match verify st.store e req with
      | none => some (st, genCheck (ck.verify st.store e req) "err:tipheight")
      | some res =>
        let agg := aggregate (res.map (fun x => x.2.2.1))
        some (st, genCheck (ck.verify st.store e req) (verdictName agg ++ ";" ++ ";".intercalate (res.map fun (root, h, v, hash) =>
          s!"{root}:{h}:{verdictName v}:{hash.getD "-"}")))
    | _, _ => some (st, "bad-args")
  | ["roots", n, key] =>
    match n.toNat? with
    | none => some (st, "bad-args")
    | some n =>
      match page st.store n (optKey key) with
      | .error .notFound => some (st, "err:notfound")
      | .error .notLc => some (st, "err:conflict")
      | .error .noTip => some (st, "err:notip")
      | .ok (rows, last) => some (st, ",".intercalate (rows.map fun r => s!"{r.merkle}:{r.height}") ++ "|" ++ last.getD "-")
  | ["locator"] => some (st, genCheck (ck.locator st.store) (",".intercalate (locator st.store)))
  | "getheaders" :: stop :: loc =>
    match getHeaders st.store zeroHash loc stop with
    | .error .noLocators => some (st, genCheck (ck.getheaders st.store loc stop) "err:nolocators")
    | .error .stopLower => some (st, genCheck (ck.getheaders st.store loc stop) "err:stoplower")
    | .ok rows => some (st, genCheck (ck.getheaders st.store loc stop) (hashesStr rows))
  | ["byheight", lo, cnt] =>
    match lo.toInt?, cnt.toInt? with
    | some lo, some cnt => some (st, genCheck (ck.byheight st.store lo cnt)
        (",".intercalate (sortStrs ((byHeightRange st.store lo (lo + cnt - 1)).map (·.hash)))))
    | _, _ => some (st, "bad-args")
  | ["tips"] => some (st, genCheck (ck.tips st.store) (",".intercalate (sortStrs ((allTips st.store).map (·.hash)))))
  | ["ancestors", h, a] =>
    match ancestors st.store h a with
    | .error .notFound => some (st, genCheck (ck.ancestors st.store h a) "err:notfound")
    | .error .ancestorHigher => some (st, genCheck (ck.ancestors st.store h a) "err:ancestorhigher")
    | .error .notSameChain => some (st, genCheck (ck.ancestors st.store h a) "err:notsamechain")
    | .ok rows => some (st, genCheck (ck.ancestors st.store h a) ("ok:" ++ hashesStr rows))
  | "common" :: hs =>
    match commonAncestor st.store hs with
    | .found r => some (st, genCheck (ck.common st.store hs) ("found:" ++ r.hash))
    | .notFound => some (st, genCheck (ck.common st.store hs) "err:notfound")
    -- after the repairs 397583f / 15c8125 the service answers these two outcomes with structured 400 errors
    -- (ErrAncestorNotFound / ErrCommonAncestorEmptyList); the constructor names are kept from the original code
    | .nilResult => some (st, genCheck (ck.common st.store hs) "err:notfound")
    | .panicEmpty => some (st, genCheck (ck.common st.store hs) "err:empty")
  | "ilv" :: "init" :: hexes =>
    match hexes.mapM parseHeader with
    | none => some (st, "bad-header")
    | some xs => some ({ st with threads := xs.map (fun x => { x := x, pc := .start }) }, "ok")
  | ["ilv", "step", i] =>
    match i.toNat? with
    | none => some (st, "bad-args")
    | some i =>
      match st.threads[i]? with
      | none => some (st, "no-thread")
      | some t =>
        let call := callName t.pc
        let p := stepThread (cfgOf st) st.store t
        let out := match p.2.pc with
          | .done o => call ++ " => " ++ outcomeStr o
          | _ => call
        some ({ st with store := p.1, threads := st.threads.set i p.2 }, out)
  | ["count"] => some (st, toString st.store.length)
  | _ => none

end Driver.Ops.Chain
