/-
Driver operations for the Auth model (line protocol, C09 / C10). Core Lean only.
`handle st words` returns `none` when the first word is not one of this module's operations.

All operations start with the word `tok`. Arbitrary strings (headers with spaces, empty
values, …) travel as one word `x<hex of the UTF-8 bytes>` (`x` alone = empty string).

  tok cfg <xADMIN> <0|1>            set admin token and use_auth, empty the table       -> ok
  tok create <xT>                   effect of an admin-authorised POST /api/v1/access    -> ok
  tok revoke <xT>                   effect of an admin-authorised DELETE /access/<T>     -> ok
  tok acreate <xHDR> <xT>           POST /api/v1/access with header HDR, generator value T -> decision
  tok arevoke <xHDR> <xT>           DELETE /api/v1/access/<T> with header HDR            -> decision
  tok auth <xHDR>                   ordinary API route                                   -> decision
  tok authadmin <xHDR>              RequireAdmin route                                   -> decision
  tok ws <xT>                       websocket connect handshake                          -> connected | rejected
  tok restart                                                                            -> ok
  tok dump                          table as sorted hex words                            -> x.. x.. | -
  tok routes <a><p><m>              regenerated routing table of a configuration         -> METHOD path|…
  tok wrapped <a><p><m>             routes ending in the RequireAdmin closure            -> METHOD path|… | -
  tok req <a><p><m> <METHOD> <xPATH> <xHDR>   a request to a registered route pattern    -> noroute | outside <kind> | decision
decision = 401 <bhserrors code> | pass open | pass user | pass admin
Every decision is ALSO computed by the code regenerated from the Go source (`BHS.Gen.AuthMw` through
`BHS.Model.AuthMwWire.genAuthorize`); when the two differ the answer is `err:gen-mismatch model=… gen=…`
(never on the unchanged tree: `BHS.Props.AuthMw.AuthMw_render`). `tok ws` cross-checks the regenerated
`(*TokenService).GetToken` the same way. The same decisions are computed a third time over the regenerated token
store below the middleware (`BHS.Gen.TokenStore` through `BHS.Model.TokenStoreWire.genAuthorizeAt`), and the table
after a passed `acreate` / `arevoke` and after `create` / `revoke` is compared with the regenerated
GenerateToken / DeleteToken (`err:gen-mismatch store …`; never on the unchanged tree:
`BHS.Props.TokenStore.driver_crosscheck`).
-/
import BHS.Model.Auth
import BHS.Model.AuthMwWire
import BHS.Model.TokenStoreWire
import BHS.Gen.Routes

namespace Driver.Ops.Auth
open BHS BHS.Model.Auth

structure S where
  sys : Sys := ⟨⟨"", false⟩, []⟩

def hexVal (c : Char) : Option Nat :=
  if '0' ≤ c ∧ c ≤ '9' then some (c.toNat - '0'.toNat)
  else if 'a' ≤ c ∧ c ≤ 'f' then some (c.toNat - 'a'.toNat + 10)
  else if 'A' ≤ c ∧ c ≤ 'F' then some (c.toNat - 'A'.toNat + 10)
  else none

def unhexBytes : List Char → Option (List UInt8)
  | [] => some []
  | [_] => none
  | a :: b :: rest => do
    let x ← hexVal a
    let y ← hexVal b
    let r ← unhexBytes rest
    pure (UInt8.ofNat (16 * x + y) :: r)

/-- `x<hex>` → string; `none` on bad hex or invalid UTF-8 (outside the model) -/
def decodeWord (w : String) : Option String :=
  match w.toList with
  | 'x' :: cs => do
    let bs ← unhexBytes cs
    String.fromUTF8? (ByteArray.mk bs.toArray)
  | _ => none

def hexDigit (n : Nat) : Char := if n < 10 then Char.ofNat (48 + n) else Char.ofNat (87 + n)

def encodeWord (s : String) : String :=
  String.ofList ('x' :: (s.toUTF8.toList.foldr (fun b acc => hexDigit (b.toNat / 16) :: hexDigit (b.toNat % 16) :: acc) []))

def parseCfg (w : String) : Option Cfg :=
  match w.toList with
  | [a, p, m] =>
    let b (c : Char) : Option Bool := if c = '1' then some true else if c = '0' then some false else none
    do pure ⟨← b a, ← b p, ← b m⟩
  | _ => none

def lookupCfg (tbl : List (Cfg × List Route)) (c : Cfg) : Option (List Route) :=
  (tbl.find? (fun row => row.1 == c)).map Prod.snd

def renderRoutes (rs : List Route) : String :=
  if rs.isEmpty then "-" else "|".intercalate (rs.map (fun r => r.method ++ " " ++ r.path))

def kindName : Kind → String
  | .api => "api" | .status => "status" | .swagger => "swagger" | .metrics => "metrics"
  | .pprof => "pprof" | .websocket => "websocket" | .other => "other"

/-- the model's decision line, cross-checked against the regenerated code -/
def decide2 (env : Env) (store : Store) (admin : Bool) (h : String) : String :=
  let m := (authorize env store admin h).render
  let g := BHS.Model.AuthMwWire.genAuthorize env store admin h
  let g2 := BHS.Model.TokenStoreWire.genAuthorizeAt env store admin h
  if m = g && m = g2 then m else "err:gen-mismatch model=" ++ m ++ " gen=" ++ g ++ " gen-store=" ++ g2

/-- the answer of a table-changing op, unless the regenerated store disagrees with the model about the table -/
def store2 (model gen : Store) (answer : String) : String :=
  if model = gen then answer else "err:gen-mismatch store model=" ++ toString model ++ " gen=" ++ toString gen

/-- websocket handshake line, cross-checked against the regenerated `(*TokenService).GetToken` -/
def ws2 (sys : Sys) (t : String) : String :=
  let m := answer sys (.ws t)
  let ok := match BHS.Gen.AuthMw.tokenServiceGetToken ⟨sys.env.admin, BHS.Model.AuthMwWire.repoOf sys.store⟩ t with
    | .ok _ => true
    | _ => false
  let g := if sys.env.useAuth then (if ok then "connected" else "rejected") else "connected"
  if m = g then m else "err:gen-mismatch model=" ++ m ++ " gen=" ++ g

def handleTok (st : S) : List String → Option (S × String)
  | ["cfg", a, u] => do
    let adm ← decodeWord a
    let ua ← (if u = "1" then some true else if u = "0" then some false else none)
    pure ({ sys := ⟨⟨adm, ua⟩, []⟩ }, "ok")
  | ["create", t] => do
    let t ← decodeWord t
    pure ({ sys := { st.sys with store := insertTok st.sys.store t } },
      store2 (insertTok st.sys.store t) (BHS.Model.TokenStoreWire.genCreate st.sys.env.admin st.sys.store t) "ok")
  | ["revoke", t] => do
    let t ← decodeWord t
    pure ({ sys := { st.sys with store := deleteTok st.sys.store t } },
      store2 (deleteTok st.sys.store t) (BHS.Model.TokenStoreWire.genRevoke st.sys.env.admin st.sys.store t) "ok")
  | ["acreate", h, t] => do
    let h ← decodeWord h
    let t ← decodeWord t
    let s' := step st.sys (.create h t)
    let gen := if adminPass st.sys.env h then BHS.Model.TokenStoreWire.genCreate st.sys.env.admin st.sys.store t else st.sys.store
    pure ({ sys := s' }, store2 s'.store gen (decide2 st.sys.env st.sys.store true h))
  | ["arevoke", h, t] => do
    let h ← decodeWord h
    let t ← decodeWord t
    let s' := step st.sys (.revoke h t)
    let gen := if adminPass st.sys.env h then BHS.Model.TokenStoreWire.genRevoke st.sys.env.admin st.sys.store t else st.sys.store
    pure ({ sys := s' }, store2 s'.store gen (decide2 st.sys.env st.sys.store true h))
  | ["auth", h] => do
    let h ← decodeWord h
    pure ({ sys := step st.sys (.auth h) }, decide2 st.sys.env st.sys.store false h)
  | ["authadmin", h] => do
    let h ← decodeWord h
    pure (st, decide2 st.sys.env st.sys.store true h)
  | ["ws", t] => do
    let t ← decodeWord t
    pure ({ sys := step st.sys (.ws t) }, ws2 st.sys t)
  | ["restart"] => some ({ sys := step st.sys .restart }, answer st.sys .restart)
  | ["dump"] =>
    let ws := (st.sys.store.map encodeWord).toArray.qsort (· < ·)
    some (st, if ws.isEmpty then "-" else " ".intercalate ws.toList)
  | ["routes", c] => do
    let c ← parseCfg c
    let rs ← lookupCfg Gen.routes c
    pure (st, renderRoutes rs)
  | ["wrapped", c] => do
    let c ← parseCfg c
    let rs ← lookupCfg Gen.adminWrapped c
    pure (st, renderRoutes rs)
  | ["req", c, m, p, h] => do
    let c ← parseCfg c
    let p ← decodeWord p
    let h ← decodeWord h
    let rs ← lookupCfg Gen.routes c
    let r : Route := ⟨m, p⟩
    if !rs.contains r then pure (st, "noroute")
    else if behindAuth r then
      pure (st, decide2 ⟨st.sys.env.admin, c.useAuth⟩ st.sys.store (adminOnly r) h)
    else pure (st, "outside " ++ kindName (kind r))
  | _ => none

def handle (st : S) : List String → Option (S × String)
  | "tok" :: rest =>
    match handleTok st rest with
    | some r => some r
    | none => some (st, "bad-op")
  | _ => none

end Driver.Ops.Auth
