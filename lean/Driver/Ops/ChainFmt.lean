/-
Formatting and parsing helpers of the chain driver vocabulary (rows, writes, outcomes, headers): shared by the
chain, HTTP and import/export drivers. Imports no regenerated module, so that a driver which only prints rows does
not depend on the translations of Chains.Add or of the header queries.
-/
import BHS.Model.Header
import BHS.Spec.BestChain
import BHS.Model.Query
import BHS.Model.Interleave

namespace Driver.Ops.Chain
open BHS BHS.Chain BHS.Header

structure S where
  store : Store String := [genesisRow]
  forbidden : List String := []
  threads : List (Thread String) := []

def cfgOf (st : S) : Cfg String := { hashOf := blockHash, forbidden := st.forbidden }

def stName : St → String
  | .lc => "LONGEST_CHAIN"
  | .stale => "STALE"
  | .orphan => "ORPHAN"

def rowStr (r : Row String) : String :=
  s!"{r.id},{r.hash},{r.prev},{r.merkle},{r.height},{r.version},{r.time},{r.bits},{r.nonce},{r.work},{r.cum},{stName r.st}"

def sortStrs (l : List String) : List String := (l.toArray.qsort (· < ·)).toList

def writeStr : Write String → String
  | .setState hs st => s!"W setstate:{stName st}:{",".intercalate (sortStrs hs)}"
  | .insert r => s!"W insert:{r.hash}"

def outcomeStr : Outcome String → String
  | .stored r => s!"stored {rowStr r}"
  | .duplicate => "duplicate"
  | .rejected => "rejected"
  | .creationFail => "error:HeaderCreationFail"

def verdictName : Verdict → String
  | .confirmed => "CONFIRMED"
  | .unable => "UNABLE_TO_VERIFY"
  | .invalid => "INVALID"

def parseItem (w : String) : Option (String × Int) :=
  match w.splitOn ":" with
  | [root, h] => (fun k => (root, k)) <$> h.toInt?
  | _ => none

def hashesStr (l : List (Row String)) : String := ",".intercalate (l.map (·.hash))

def optKey (k : String) : Option String := if k = "-" then none else some k

def parseHeader (hex : String) : Option (Src String) := (BHS.Sha256.ofHex hex).bind parse

/-- the repository call a thread is about to make -/
def callName : Pc String → String
  | .start => "R byhash"
  | .readParent => "R byhash"
  | .readAtHeight _ => "R byheight"
  | .readTip _ => "R tip"
  | .readStale _ => "R staleback"
  | .readConc _ _ => "R lcfrom"
  | .writes _ (w :: _) => writeStr w
  | .writes _ [] => "none"
  | .done _ => "done"

end Driver.Ops.Chain
