/-
Cross-check of the chain driver's read operations against the REGENERATED header queries (BHS/Gen/HeaderSvc.lean).
-/
import Driver.Ops.ChainCore
import BHS.Model.QueryM
import BHS.Gen.HeaderSvc

namespace Driver.Ops.Chain
open BHS BHS.Chain BHS.Header

/-! ### the REGENERATED query side (BHS/Gen/HeaderSvc.lean, translated from service/header_service.go and the repository
and SQL layers below it on every run), evaluated next to the hand model on every read op: `none` = they agree (as
Props/HeaderSvcGen.lean proves), otherwise the text of the difference. The zero hash of the protocol is `zeroHash`. -/
section GenQuery
open BHS.QueryM (runQ)
open BHS.Gen.HeaderSvc

/-- the loop budget: above every stored height (the hypothesis of the refinement theorems) -/
def qFuel (s : Store String) : Nat := s.foldl (fun m r => max m r.height) 0 + 1

local instance zeroHashDefault : Inhabited String := ⟨zeroHash⟩

/-- one protocol line: no line breaks, bounded length -/
def oneLine (t : String) : String :=
  let u := String.ofList (t.toList.map fun c => if c == '\n' then ' ' else c)
  if u.length > 600 then (u.take 600).toString ++ "…" else u

def genDiff {α : Type} [Repr α] (what : String) (r : Except QueryM.Fault α) (ok : α → Bool) : Option String :=
  match r with
  | .error f => some s!"err:gen-mismatch {what}: the generated code faults: {repr f}"
  | .ok a => if ok a then none else some s!"err:gen-mismatch {what}: generated={oneLine (toString (repr a))}"

def errName (e : Option QueryM.Err) : String := ((e.bind QueryM.Err.bhsName).getD (match e with
  | some (.msg t) => t | _ => "-"))

def genLocatorDiff (s : Store String) : Option String :=
  genDiff "locator" (runQ s (qFuel s) HeaderService_LatestHeaderLocator) (· == locator s)

def genGetHeadersDiff (s : Store String) (loc : List String) (stop : String) : Option String :=
  genDiff "getheaders" (runQ s (qFuel s) (HeaderService_LocateHeadersGetHeaders loc stop)) fun res =>
    match getHeaders s zeroHash loc stop with
    | .ok rows => res.2.isNone && res.1 == rows.map (fun r => some (srcOf r))
    | .error .noLocators => errName res.2 == "no locators provided"
    | .error .stopLower => errName res.2 == "hashStop is lower than first valid height"

def genByHeightDiff (s : Store String) (lo cnt : Int) : Option String :=
  genDiff "byheight" (runQ s (qFuel s) (HeaderService_GetHeadersByHeight lo cnt)) fun res =>
    res.2.isNone && res.1 == (byHeightRange s lo (lo + cnt - 1)).map some

def genTipsDiff (s : Store String) : Option String :=
  genDiff "tips" (runQ s (qFuel s) HeaderService_GetTips) fun res => res.2.isNone && res.1 == (allTips s).map some

def genTipDiff (s : Store String) : Option String :=
  genDiff "tip" (runQ s (qFuel s) HeaderService_GetTip) (· == getTip s)

def genStateDiff (s : Store String) (h : String) : Option String :=
  genDiff "state" (runQ s (qFuel s) (HeaderService_GetHeaderByHash h)) fun res =>
    match byHash s h with
    | some r => res.2.isNone && res.1 == some r
    | none => res.1.isNone && errName res.2 == "ErrHeaderNotFound"

def genAncestorsDiff (s : Store String) (h a : String) : Option String :=
  genDiff "ancestors" (runQ s (qFuel s) (HeaderService_GetHeaderAncestorsByHash h a)) fun res =>
    match ancestors s h a with
    | .ok rows => res.2.isNone && res.1 == rows.map some
    | .error .notFound => errName res.2 == "ErrHeaderWithGivenHashes"
    | .error .ancestorHigher => errName res.2 == "ErrAncestorHashHigher"
    | .error .notSameChain => errName res.2 == "ErrHeadersNotPartOfTheSameChain"

def genCommonDiff (s : Store String) (hs : List String) : Option String :=
  genDiff "common" (runQ s (qFuel s) (HeaderService_GetCommonAncestor hs)) fun res =>
    match commonAncestor s hs with
    | .found r => res.2.isNone && res.1 == some r
    | .notFound => res.1.isNone && (errName res.2 == "ErrAncestorNotFound" || errName res.2 == "ErrHeaderNotFound")
    | .nilResult => res.1.isNone && (errName res.2 == "ErrAncestorNotFound" || errName res.2 == "ErrHeaderNotFound")
    | .panicEmpty => res.1.isNone && errName res.2 == "ErrCommonAncestorEmptyList"

end GenQuery

/-- cross-check the read operations against the regenerated header queries -/
def queryChecks : Checks :=
  { locator := genLocatorDiff, getheaders := genGetHeadersDiff, byheight := genByHeightDiff, tips := genTipsDiff,
    tip := genTipDiff, state := genStateDiff, ancestors := genAncestorsDiff, common := genCommonDiff }

end Driver.Ops.Chain
