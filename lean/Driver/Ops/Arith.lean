/-
Driver operations for the arithmetic model (C19). Core Lean only.
-/
import BHS.Gen.Arith
import BHS.Spec.Arith

namespace Driver.Ops.Arith
open BHS

structure S where
  unit : Unit := ()

def handle (st : S) : List String → Option (S × String)
  | ["bits", n] => (fun k => (st, s!"{Gen.compactToBig k} {Gen.calcWork k}")) <$> n.toNat?
  | ["log2", n] => (fun k => (st, s!"{Gen.fastLog2Floor k}")) <$> n.toNat?
  | ["specbits", n] => (fun k => (st, s!"{Spec.targetSpec k} {Spec.workSpec (Spec.targetSpec k)}")) <$> n.toNat?
  | ["speclog2", n] => (fun k => (st, s!"{Nat.log2 k}")) <$> n.toNat?
  | _ => none

end Driver.Ops.Arith
