/-
Driver operations for the Config model (C20, line protocol). Core Lean only.
`handle st words` returns `none` when the first word is not one of this module's operations.

Values travel as `x<hex of the UTF-8 bytes>` (so the empty string is `x`), an absent
source as `-`.

  cfg keys                                   → `key:kind,key:kind,…` of the regenerated table
  cfg envname <key>                          → environment variable viper consults for <key>
  cfg resolve <key> <env|-> <file|->         → effective value of <key> (x<hex>) | unknown-key
  cfg resolveu <key> <env|-> <file|->        → same, on the table with <key>'s viper default NOT registered
  cfg reset | cfg setenv <key> <v> | cfg setfile <key> <v> | cfg dump
                                             → whole-table resolution `key=x..;key=x..;…`
  cfg validate <engine> <sqlitePathEmpty> <pgHost> <pgPort> <pgUser> <pgDb> <prepared> <preparedPathEmpty> <preparedExists>
                                             → ok | refused:<reason>
  cfg validate-nil                           → refused:nil-db
-/
import BHS.Model.Config
import BHS.Gen.ConfigKeys

namespace Driver.Ops.Config
open BHS BHS.Config

structure S where
  env : List (String × String) := []
  file : List (String × String) := []

private def hexDigit (c : Char) : Option UInt8 :=
  if '0' ≤ c ∧ c ≤ '9' then some (c.toNat - 48).toUInt8
  else if 'a' ≤ c ∧ c ≤ 'f' then some (c.toNat - 87).toUInt8
  else none

private def unhexBytes : List Char → Option (List UInt8)
  | [] => some []
  | a :: b :: r => do
    let h ← hexDigit a
    let l ← hexDigit b
    let t ← unhexBytes r
    pure ((h * 16 + l) :: t)
  | _ => none

/-- `x<hex>` → string. -/
def decode (w : String) : Option String :=
  match w.toList with
  | 'x' :: r => (unhexBytes r).bind fun bs => String.fromUTF8? (ByteArray.mk bs.toArray)
  | _ => none

private def hexChar (n : UInt8) : Char :=
  if n < 10 then Char.ofNat (48 + n.toNat) else Char.ofNat (87 + n.toNat)

/-- string → `x<hex>`. -/
def encode (s : String) : String :=
  String.ofList ('x' :: s.toUTF8.toList.flatMap fun b => [hexChar (b / 16), hexChar (b % 16)])

/-- `-` → absent, `x<hex>` → present. -/
def source (w : String) : Option (Option String) :=
  if w = "-" then some none else (decode w).map some

def out : Option String → String
  | some v => encode v
  | none => "unknown-key"

def flag (w : String) : Option Bool :=
  if w = "1" then some true else if w = "0" then some false else none

def unregister (keys : List KeyInfo) (key : String) : List KeyInfo :=
  keys.map fun i => if i.key = key then { i with registered := false, viperDflt := "" } else i

def one (keys : List KeyInfo) (key e f : String) : Option String := do
  let e ← source e
  let f ← source f
  pure (out (effective keys Gen.allowEmptyEnv (fun k => if k = key then e else none) (fun k => if k = key then f else none) key))

def handle (st : S) : List String → Option (S × String)
  | ["cfg", "keys"] => some (st, ",".intercalate (Gen.keys.map fun i => i.key ++ ":" ++ i.kind.name))
  | ["cfg", "envname", key] => some (st, envName Gen.envPrefix key)
  | ["cfg", "resolve", key, e, f] => some (st, (one Gen.keys key e f).getD "bad-args")
  | ["cfg", "resolveu", key, e, f] => some (st, (one (unregister Gen.keys key) key e f).getD "bad-args")
  | ["cfg", "reset"] => some ({}, "ok")
  | ["cfg", "setenv", key, v] =>
    match decode v with
    | some v => some ({ st with env := (key, v) :: st.env }, "ok")
    | none => some (st, "bad-args")
  | ["cfg", "setfile", key, v] =>
    match decode v with
    | some v => some ({ st with file := (key, v) :: st.file }, "ok")
    | none => some (st, "bad-args")
  | ["cfg", "dump"] =>
    some (st, ";".intercalate ((effectiveTable Gen.keys Gen.allowEmptyEnv (ofList st.env) (ofList st.file)).map fun p => p.1 ++ "=" ++ out p.2))
  | ["cfg", "validate-nil"] => some (st, (validateDb (fun _ => true) none).name)
  | ["cfg", "validate", eng, sqE, host, port, user, db, prep, prepE, prepX] =>
    let r : Option String := do
      let eng ← decode eng
      let sqE ← flag sqE
      let host ← decode host
      let port ← port.toNat?
      let user ← decode user
      let db ← decode db
      let prep ← flag prep
      let prepE ← flag prepE
      let prepX ← flag prepX
      let c : DbSection := { engine := eng, sqlitePath := if sqE then "" else "p", pgHost := host, pgPort := port,
                             pgUser := user, pgDb := db, prepared := prep, preparedPath := if prepE then "" else "p" }
      pure (validateDb (fun _ => prepX) (some c)).name
    some (st, r.getD "bad-args")
  | "cfg" :: _ => some (st, "bad-op")
  | _ => none

end Driver.Ops.Config
