/-
Driver operations for the peer-management models (C18). Core Lean only.

  peer new <banTicks>                          -> ok            (limits = regenerated server constants)
  peer add <in|out|pers> <host> <group> <id> <vk:0|1>
                                               -> admitted|rejected:<reason> n=<Count()> ip=<connectionCount[host]> grp=<outboundGroups[group]>
  peer addbad                                  -> rejected:badaddr|rejected:shutdown n=<Count()>
  peer done <in|out|pers> <host> <group> <id> <vk>
                                               -> done n=… ip=… grp=…
  peer ban <host>                              -> banned
  peer clock <ticks>                           -> clock
  peer shutdown                                -> shutdown
  peer dump <hosts> <groups>                   -> in=[id:host:group,…] out=[…] pers=[…] cc=[h:n,…] og=[g:n,…] ban=[h:remaining,…]
                                                  (ids ascending; counters/bans of hosts < hosts, groups < groups; zero entries omitted,
                                                   an expired but not yet deleted ban entry prints remaining 0)

  conn new <target> <banaddr:0|1>              -> <state line>   (target 0 = default)
  conn ok <k> <addr> | conn fail <k> <addr> | conn addrfail <k>      (k-th request in flight, 0-based, oldest first)
  conn disc <k> <retry:0|1>                    (k-th established connection, oldest first)
  conn discold <k> <retry>                     (k-th connection closed so far, oldest first: its id again)
  conn discid <id> <retry>                     (raw id)
  conn cancel <k>                              (Disconnect of the id of the k-th request in flight)
  conn dump
     state line: conns=<n> live=<n> bans=<n> dials=<n> asks=<n> closed=<n> addrs=[…] banned=[…]

  wire new <target> <banTicks>                 admission handlers and connection manager wired together (BanAddress set)
  wire ok <k> <host> <group> | wire fail <k> <host> | wire addrfail <k>   (k-th request in flight; ok = dial, handshake, admission;
                                                                            a refused peer is handed to done → Disconnect(connReq))
  wire done <j> | wire in <host> <group> | wire indone <j> | wire ban <host> | wire clock <ticks> | wire dump
     answer: <admitted|rejected:reason|-> conns=<n> live=<n> closed=<n> dials=<n> asks=<n> out=<n> inb=<n> n=<Count()> cc=[…] og=[…]
             (cc over hosts < 32, og over groups < 8)

  am new <banTicks> <maxRefs> | am add <addr> <bucket> <dice:0|1> | am good <addr> <triedBucket> | am ban <addr> | am clock <ticks> | am dump
     answer: nNew=<n> nTried=<n> idx=[addr:refs:tried,…] new=[bucket:addr,…] tried=[bucket:addr,…] ban=[addr:remaining,…]
  am get        -> the outcomes GetAddress can have for the two values of its coin: nil | tried | new | hang, e.g. `tried|new`

Every `conn` op is ALSO computed by the code regenerated from connmanager.go (`BHS.Gen.ConnMgr` through
`BHS.Model.ConnMgrWire.genStep`); when its state (answer line, pending, live, ids, counters) differs from the hand
model's the answer is `err:gen-mismatch model=… gen=…`, so the correspondence runs exercise the translation too.
-/
import BHS.Model.Peers
import BHS.Model.ConnMgr
import BHS.Model.ConnMgrWire
import BHS.Model.PeerWire
import BHS.Model.AddrMgr
import BHS.Gen.PeerConsts

namespace Driver.Ops.Peers
open BHS BHS.Model

structure S where
  cfg : Peers.Cfg := { maxPeers := Gen.maxPeers, maxPerIP := Gen.maxPeersPerIP, banMs := Gen.banDurationDefaultMs }
  st : Peers.State := {}
  ccfg : ConnMgr.Cfg := { target := Gen.defaultTargetOutbound, banAddr := true, maxFailed := Gen.maxFailedAttempts }
  cst : ConnMgr.St := {}
  gst : ConnMgr.G := {}   -- the same machine over the code REGENERATED from connmanager.go (BHS.Gen.ConnMgr)
  wcfg : PeerWire.Cfg := { pc := { maxPeers := Gen.maxPeers, maxPerIP := Gen.maxPeersPerIP, banMs := Gen.banDurationDefaultMs },
                           cc := { target := Gen.defaultTargetOutbound, banAddr := true, maxFailed := Gen.maxFailedAttempts } }
  wst : PeerWire.W := {}  -- admission handlers + connection manager wired as in server.go
  acfg : AddrMgr.Cfg := { banT := 24, maxRefs := 8 }
  ast : AddrMgr.St := {}  -- the address manager's bookkeeping

def kindOf : String → Option Peers.Kind
  | "in" => some .inbound
  | "out" => some .outbound
  | "pers" => some .persistent
  | _ => none

def reason : Peers.AddResult → String
  | .admitted => "admitted"
  | .shutdown => "rejected:shutdown"
  | .badaddr => "rejected:badaddr"
  | .banned => "rejected:banned"
  | .perHost => "rejected:perhost"
  | .total => "rejected:total"

def counters (s : Peers.State) (host group : Nat) : String :=
  s!"n={Peers.count s} ip={s.conn host} grp={s.groups group}"

def insertById (p : Peers.Peer) : List Peers.Peer → List Peers.Peer
  | [] => [p]
  | q :: l => if p.id ≤ q.id then p :: q :: l else q :: insertById p l

def sortById (l : List Peers.Peer) : List Peers.Peer := l.foldl (fun acc p => insertById p acc) []

def showPeers (l : List Peers.Peer) : String :=
  "[" ++ ",".intercalate ((sortById l).map (fun p => s!"{p.id}:{p.host}:{p.group}")) ++ "]"

def showInts (n : Nat) (f : Nat → Int) : String :=
  "[" ++ ",".intercalate (((List.range n).filter (fun k => f k != 0)).map (fun k => s!"{k}:{f k}")) ++ "]"

def showBans (n : Nat) (s : Peers.State) : String :=
  "[" ++ ",".intercalate ((List.range n).filterMap (fun h =>
    match s.banned h with
    | some e => some s!"{h}:{e - s.now}"
    | none => none)) ++ "]"

def peerArgs (k h g i v : String) : Option Peers.Peer := do
  let kind ← kindOf k
  let host ← h.toNat?
  let group ← g.toNat?
  let id ← i.toNat?
  let vk ← v.toNat?
  pure { id := id, kind := kind, host := host, group := group, vk := vk != 0 }

def showNats (l : List Nat) : String := "[" ++ ",".intercalate (l.map toString) ++ "]"

def connLine (s : ConnMgr.St) : String :=
  s!"conns={s.conns.length} live={s.live.length} bans={s.banned.length} dials={s.dials} asks={s.asks} closed={s.closed.length} addrs={showNats (s.conns.map (·.2))} banned={showNats s.banned}"

/-- everything of the hand model's state that can be printed: the answer line plus the handler's internals -/
def connFull (s : ConnMgr.St) : String :=
  connLine s ++ s!" pending={showNats s.pending} live={showNats s.live} next={s.nextId} gfails={s.gfails} closed={showNats s.closed} fails={showNats ((s.conns.map (·.2) ++ s.banned).map s.fails)}"

/-- the hand model's answer, unless the regenerated code (evaluated on every op as well) says otherwise -/
def connCheck (m : ConnMgr.St) (g : ConnMgr.G) : String :=
  if connFull m = connFull g.toSt then connLine m
  else "err:gen-mismatch model=" ++ connFull m ++ " gen=" ++ connFull g.toSt

def connStep (st : S) (e : Option ConnMgr.Event) : Option (S × String) :=
  match e with
  | some ev =>
    let c := ConnMgr.step st.ccfg st.cst ev
    let g := ConnMgr.genStep { toCfg := st.ccfg } st.gst ev
    some ({ st with cst := c, gst := g }, connCheck c g)
  | none => some (st, "bad-index")

def insPair (p : Nat × Nat) : List (Nat × Nat) → List (Nat × Nat)
  | [] => [p]
  | q :: l => if p.1 < q.1 ∨ (p.1 = q.1 ∧ p.2 ≤ q.2) then p :: q :: l else q :: insPair p l

def insBucketStable (p : Nat × Nat) : List (Nat × Nat) → List (Nat × Nat)
  | [] => [p]
  | q :: l => if p.1 < q.1 then p :: q :: l else q :: insBucketStable p l

def showPairs (l : List (Nat × Nat)) : String := "[" ++ ",".intercalate (l.map (fun p => s!"{p.1}:{p.2}")) ++ "]"

def amLine (s : AddrMgr.St) : String :=
  let idx := (s.index.foldl (fun acc e => insPair (e.1, 0) acc) []).map (fun p =>
    match AddrMgr.find s p.1 with
    | some ka => s!"{p.1}:{ka.refs}:{if ka.tried then 1 else 0}"
    | none => s!"{p.1}:?")
  let nw := s.newB.foldl (fun acc e => insPair e acc) []
  let tr := s.triedB.foldl (fun acc e => insBucketStable e acc) []
  let bn := (s.banned.foldl (fun acc e => insPair (e.1, e.2 - s.now) acc) [])
  s!"nNew={s.nNew} nTried={s.nTried} idx=[{",".intercalate idx}] new={showPairs nw} tried={showPairs tr} ban={showPairs bn}"

def gotStr : AddrMgr.Got → String
  | .nil => "nil" | .tried => "tried" | .new => "new" | .hang => "hang"

def amStep (st : S) (op : AddrMgr.Op) : Option (S × String) :=
  let s' := AddrMgr.step st.acfg st.ast op
  some ({ st with ast := s' }, amLine s')

def wireLine (res : String) (w : PeerWire.W) : String :=
  s!"{res} conns={w.c.conns.length} live={w.c.live.length} closed={w.c.closed.length} dials={w.c.dials} asks={w.c.asks} out={w.out.length} inb={w.inb.length} n={Peers.count w.p} cc={showInts 32 w.p.conn} og={showInts 8 w.p.groups}"

def wireStep (st : S) (e : PeerWire.Event) : Option (S × String) :=
  let r := PeerWire.step st.wcfg st.wst e
  let res := match r.2 with
    | some a => reason a
    | none => "-"
  some ({ st with wst := r.1 }, wireLine res r.1)

def handle (st : S) : List String → Option (S × String)
  | ["am", "new", b, m] => do
    let cfg : AddrMgr.Cfg := { banT := (← b.toNat?), maxRefs := ((← m.toNat?) : Nat) }
    pure ({ st with acfg := cfg, ast := {} }, amLine {})
  | ["am", "add", a, b, d] => do amStep st (.add (← a.toNat?) (← b.toNat?) ((← d.toNat?) != 0))
  | ["am", "good", a, t] => do amStep st (.good (← a.toNat?) (← t.toNat?))
  | ["am", "ban", a] => do amStep st (.ban (← a.toNat?))
  | ["am", "clock", d] => do amStep st (.clock (← d.toNat?))
  | ["am", "dump"] => some (st, amLine st.ast)
  | ["am", "get"] =>
    let x := gotStr (AddrMgr.getAddress st.ast true)
    let y := gotStr (AddrMgr.getAddress st.ast false)
    some (st, if x = y then x else x ++ "|" ++ y)
  | ["wire", "new", t, b] => do
    let target ← t.toNat?
    let ban ← b.toNat?
    let pc0 : Peers.Cfg := { st.wcfg.pc with banMs := ban }
    let cc0 : ConnMgr.Cfg := { target := ConnMgr.effTarget Gen.defaultTargetOutbound target, banAddr := true, maxFailed := Gen.maxFailedAttempts }
    let cfg : PeerWire.Cfg := { pc := pc0, cc := cc0 }
    let w := PeerWire.start cfg
    pure ({ st with wcfg := cfg, wst := w }, wireLine "-" w)
  | ["wire", "ok", k, h, g] => do wireStep st (.ok (← k.toNat?) (← h.toNat?) (← g.toNat?))
  | ["wire", "fail", k, h] => do wireStep st (.fail (← k.toNat?) (← h.toNat?))
  | ["wire", "addrfail", k] => do wireStep st (.addrFail (← k.toNat?))
  | ["wire", "done", j] => do wireStep st (.done (← j.toNat?))
  | ["wire", "in", h, g] => do wireStep st (.inbound (← h.toNat?) (← g.toNat?))
  | ["wire", "indone", j] => do wireStep st (.inDone (← j.toNat?))
  | ["wire", "ban", h] => do wireStep st (.ban (← h.toNat?))
  | ["wire", "clock", d] => do wireStep st (.clock (← d.toNat?))
  | ["wire", "dump"] => some (st, wireLine "-" st.wst)
  | ["peer", "new", b] => do
    let ban ← b.toNat?
    pure ({ st with cfg := { st.cfg with banMs := ban }, st := {} }, "ok")
  | ["peer", "add", k, h, g, i, v] => do
    let p ← peerArgs k h g i v
    let r := Peers.addPeer st.cfg st.st p
    pure ({ st with st := r.1 }, s!"{reason r.2} {counters r.1 p.host p.group}")
  | ["peer", "addbad"] =>
    let r := Peers.addBad st.st
    some ({ st with st := r.1 }, s!"{reason r.2} n={Peers.count r.1}")
  | ["peer", "done", k, h, g, i, v] => do
    let p ← peerArgs k h g i v
    let s' := Peers.donePeer st.st p
    pure ({ st with st := s' }, s!"done {counters s' p.host p.group}")
  | ["peer", "ban", h] => do
    let host ← h.toNat?
    pure ({ st with st := Peers.banHost st.cfg st.st host }, "banned")
  | ["peer", "clock", d] => do
    let dt ← d.toNat?
    pure ({ st with st := (Peers.step st.cfg st.st (.clock dt)).1 }, "clock")
  | ["peer", "shutdown"] => some ({ st with st := (Peers.step st.cfg st.st .shutdown).1 }, "shutdown")
  | ["peer", "dump", hs, gs] => do
    let nh ← hs.toNat?
    let ng ← gs.toNat?
    let s := st.st
    pure (st, s!"in={showPeers s.inb} out={showPeers s.outb} pers={showPeers s.pers} cc={showInts nh s.conn} og={showInts ng s.groups} ban={showBans nh s}")
  | ["conn", "new", t, b] => do
    let target ← t.toNat?
    let ban ← b.toNat?
    let c : ConnMgr.Cfg := { target := ConnMgr.effTarget Gen.defaultTargetOutbound target, banAddr := ban != 0, maxFailed := Gen.maxFailedAttempts }
    let s := ConnMgr.start c
    let g := ConnMgr.genStart { toCfg := c }
    pure ({ st with ccfg := c, cst := s, gst := g }, connCheck s g)
  | ["conn", "ok", k, a] => do
    let k ← k.toNat?
    let a ← a.toNat?
    connStep st ((st.cst.live[k]?).map (fun id => .dialOk id a))
  | ["conn", "fail", k, a] => do
    let k ← k.toNat?
    let a ← a.toNat?
    connStep st ((st.cst.live[k]?).map (fun id => .dialFail id a))
  | ["conn", "addrfail", k] => do
    let k ← k.toNat?
    connStep st ((st.cst.live[k]?).map (fun id => .addrFail id))
  | ["conn", "disc", k, r] => do
    let k ← k.toNat?
    let r ← r.toNat?
    connStep st ((st.cst.conns[k]?).map (fun c => .disc c.1 (r != 0)))
  | ["conn", "discold", k, r] => do
    let k ← k.toNat?
    let r ← r.toNat?
    connStep st ((st.cst.closed.reverse[k]?).map (fun id => .disc id (r != 0)))
  | ["conn", "discid", i, r] => do
    let i ← i.toNat?
    let r ← r.toNat?
    connStep st (some (.disc i (r != 0)))
  | ["conn", "cancel", k] => do
    let k ← k.toNat?
    connStep st ((st.cst.live[k]?).map (fun id => .disc id true))
  | ["conn", "dump"] => some (st, connLine st.cst)
  | _ => none

end Driver.Ops.Peers
