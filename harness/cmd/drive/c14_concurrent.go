package main

// C14, concurrent stream (oracle only — the Lean model has no interleavings).
//
// Clause checked (the property's own): every well-formed message round-trips — decode(encode(m)) = m, the frame
// is magic|command|length|checksum|payload, re-reading it gives m — WHATEVER ELSE THE PROCESS DECODED BEFORE OR IS
// DECODING AT THE SAME TIME. "Hostile bytes are rejected without harm" includes harm that shows only later:
// internal/wire keeps process-wide state (the binarySerializer free list of scratch buffers), so a hostile frame
// can leave it in a condition in which concurrent users of the codec corrupt each other's integers.
//
//	phase 1  the hostile corpus: everything the mutation stream fed the decoder before this op, plus the directed
//	         frames of c14TruncationOps — payloads cut inside EVERY fixed-width integer read (uint8, uint16 of a 0xfd
//	         var-int and of a net-address port, uint32, uint64), each with consistent length and checksum
//	phase 2  op `wconcurrent <goroutines> <millis> <seed>`: N goroutines at once, each looping over its own random
//	         well-formed messages (ping/pong nonces, headers, addr with ports, inv, getheaders, version, feefilter,
//	         reject): BsvEncode through a writer that yields the processor inside Write, Bsvdecode through a reader
//	         that yields inside Read (legitimate io.Writer / io.Reader; they widen the window in which a scratch
//	         buffer is held), wire.WriteMessage and wire.ReadMessage on in-memory buffers; every result is compared
//	         with the goroutine's own expectation, which was computed single-threaded beforehand and whose frame
//	         layout was recomputed with encoding/binary + crypto/sha256.
//
// Any difference is a Failure with signature `c14-concurrent-roundtrip-mismatch`; its ops are the directed phase-1
// frames followed by the wconcurrent op, so a replay feeds the hostile frames and then runs the concurrent phase.

import (
	"bytes"
	"crypto/sha256"
	"encoding/binary"
	"fmt"
	"io"
	"runtime"
	"strconv"
	"sync"
	"time"

	"github.com/bitcoin-sv/block-headers-service/internal/wire"
	"github.com/bitcoin-sv/block-headers-service/verifharness/lib"
)

// c14TruncationOps: valid payloads cut inside each fixed-width integer read, framed with consistent length/checksum.
func c14TruncationOps() []string {
	net := wire.MainNet
	var ops []string
	add := func(cmd string, payload []byte) {
		ops = append(ops, fmt.Sprintf("wframe 70013 %d %s", uint32(net), c14Hex(c14Frame(net, cmd, payload))))
		ops = append(ops, fmt.Sprintf("wdec 70013 %s %s", cmd, c14Hex(payload)))
	}
	hash := bytes.Repeat([]byte{0xab}, 32)
	// uint8: the var-int discriminant / reject code missing
	add("inv", nil)
	add("reject", []byte{0x01, 'x'})
	// uint16 of a 0xfd var-int: 0 and 1 of its 2 bytes present
	add("headers", []byte{0xfd})
	add("headers", []byte{0xfd, 0x2c})
	add("inv", []byte{0xfd, 0x01})
	add("getheaders", []byte{1, 0, 0, 0, 0xfd, 0x01})
	add("reject", []byte{0xfd, 0x10})
	// uint16 of a net-address port (big endian): addr entry = time 4 + services 8 + ip 16 + port 2
	entry := append(append(append([]byte{1, 2, 3, 4}, bytes.Repeat([]byte{1}, 8)...), bytes.Repeat([]byte{2}, 16)...), 0x20, 0x8d)
	add("addr", append([]byte{1}, entry[:28]...))
	add("addr", append([]byte{1}, entry[:29]...))
	add("addr", append(append([]byte{2}, entry...), entry[:29]...))
	// version: AddrYou's port (4+8+8 + services 8 + ip 16 + 1 byte of the port)
	add("version", append(make([]byte, 20+24), 0x20))
	// uint32: var-int 0xfe, getheaders' version, header fields, inv type
	add("inv", []byte{0xfe, 0x01, 0x00})
	add("getheaders", []byte{1, 0})
	add("headers", append([]byte{1}, make([]byte, 2)...))
	add("headers", append([]byte{1}, make([]byte, 4+32+32+3)...))
	add("inv", []byte{1, 2, 0})
	add("version", []byte{1, 0, 0})
	// uint64: var-int 0xff, ping/pong nonce, feefilter, version services / timestamp / nonce, addr services
	add("inv", []byte{0xff, 1, 2, 3, 4})
	add("ping", []byte{1, 2, 3, 4})
	add("pong", []byte{1, 2, 3, 4, 5, 6, 7})
	add("feefilter", []byte{1})
	add("version", []byte{1, 0, 0, 0, 9, 9, 9})
	add("version", append(make([]byte, 20+26+26), 1, 2, 3))
	add("addr", append([]byte{1}, entry[:7]...))
	// hashes and byte arrays cut short (io.ReadFull into a caller buffer, for completeness)
	add("getheaders", append([]byte{1, 0, 0, 0, 1}, hash[:31]...))
	add("inv", append([]byte{1, 2, 0, 0, 0}, hash[:5]...))
	return ops
}

// a writer / reader that yield the processor while the caller still holds its scratch buffer
type c14YieldWriter struct{ b []byte }

func (w *c14YieldWriter) Write(p []byte) (int, error) {
	runtime.Gosched()
	w.b = append(w.b, p...)
	return len(p), nil
}

type c14YieldReader struct{ b []byte }

func (r *c14YieldReader) Read(p []byte) (int, error) {
	if len(p) == 0 {
		return 0, nil
	}
	if len(r.b) == 0 {
		return 0, io.EOF
	}
	n := copy(p, r.b)
	r.b = r.b[n:]
	runtime.Gosched()
	return n, nil
}

type c14Expect struct {
	m       wire.Message
	cmd     string
	render  string
	payload []byte
	frame   []byte
}

// execConcurrent: phase 2. Answers "ok <round trips>" or "mismatch …"; records at most one Failure per call.
func (x *c14Exec) execConcurrent(op string, workers int, millis int, seed int64) string {
	const pver = uint32(70013)
	net := wire.MainNet
	g := &c14Gen{rng: lib.Rng(seed, "c14-concurrent"), c: x.c}
	kinds := []string{"ping", "pong", "headers", "addr", "inv", "getheaders", "version", "feefilter", "reject", "getdata", "ping", "pong"}
	// expectations, computed single-threaded (one borrower of the free list at a time) and checked against an
	// independent layout of the frame
	sets := make([][]c14Expect, workers)
	for w := range sets {
		for i := 0; i < 24; i++ {
			kind := kinds[(w+i)%len(kinds)]
			m := g.wf(kind, pver, false)
			if !c14WF(m, pver) {
				continue
			}
			payload, err := c14Encode(m, pver, wire.BaseEncoding)
			if err != nil || len(payload) > 20000 {
				continue
			}
			h1 := sha256.Sum256(payload)
			h2 := sha256.Sum256(h1[:])
			var hdr [24]byte
			binary.LittleEndian.PutUint32(hdr[0:], uint32(net))
			copy(hdr[4:16], m.Command())
			binary.LittleEndian.PutUint32(hdr[16:], uint32(len(payload)))
			copy(hdr[20:], h2[:4])
			sets[w] = append(sets[w], c14Expect{m: m, cmd: m.Command(), render: c14Render(m), payload: payload, frame: append(hdr[:], payload...)})
		}
	}
	var mu sync.Mutex
	first := ""
	mismatches, trips := 0, 0
	report := func(w int, e *c14Expect, what, want, got string) {
		mu.Lock()
		mismatches++
		if first == "" {
			first = fmt.Sprintf("worker %d, %s: %s (want %s, got %s)", w, c14Short(e.render), what, c14Short(want), c14Short(got))
		}
		mu.Unlock()
	}
	deadline := time.Now().Add(time.Duration(millis) * time.Millisecond)
	var wg sync.WaitGroup
	done := make(chan struct{})
	for w := 0; w < workers; w++ {
		wg.Add(1)
		go func(w int) {
			defer wg.Done()
			defer func() {
				if p := recover(); p != nil {
					mu.Lock()
					mismatches++
					if first == "" {
						first = fmt.Sprintf("worker %d: panic: %v", w, p)
					}
					mu.Unlock()
				}
			}()
			n := 0
			for it := 0; time.Now().Before(deadline); it++ {
				e := &sets[w][it%len(sets[w])]
				// 1 BsvEncode through a yielding writer
				yw := &c14YieldWriter{}
				if err := e.m.BsvEncode(yw, pver, wire.BaseEncoding); err != nil {
					report(w, e, "BsvEncode failed: "+err.Error(), "ok", "error")
				} else if !bytes.Equal(yw.b, e.payload) {
					report(w, e, "encode(m) differs from the bytes m encodes to", c14Hex(e.payload), c14Hex(yw.b))
				}
				// 2 Bsvdecode through a yielding reader (MsgVersion insists on a *bytes.Buffer)
				if e.cmd != "version" {
					back := c14New(e.cmd)
					if err := back.Bsvdecode(&c14YieldReader{b: e.payload}, pver, wire.BaseEncoding); err != nil {
						report(w, e, "Bsvdecode of m's own encoding failed: "+err.Error(), "ok", "error")
					} else if s := c14Render(back); s != e.render {
						report(w, e, "decode(encode(m)) differs from m", e.render, s)
					}
				}
				// 3 WriteMessage
				var fb bytes.Buffer
				if err := wire.WriteMessage(&fb, e.m, pver, net); err != nil {
					report(w, e, "WriteMessage failed: "+err.Error(), "ok", "error")
				} else if !bytes.Equal(fb.Bytes(), e.frame) {
					report(w, e, "the written frame is not magic|command|length|checksum|payload of m", c14Hex(e.frame), c14Hex(fb.Bytes()))
				}
				// 4 ReadMessage of m's own frame
				back, raw, err := wire.ReadMessage(bytes.NewReader(e.frame), pver, net)
				if err != nil {
					report(w, e, "the message's own frame is rejected: "+err.Error(), "ok", "error")
				} else if s := c14Render(back); s != e.render || !bytes.Equal(raw, e.payload) {
					report(w, e, "ReadMessage(WriteMessage(m)) differs from m", e.render, s)
				}
				n++
			}
			mu.Lock()
			trips += n
			mu.Unlock()
		}(w)
	}
	go func() { wg.Wait(); close(done) }()
	select {
	case <-done:
	case <-time.After(time.Duration(millis)*time.Millisecond + c14Timeout):
		x.failure(op, "the concurrent round-trip phase did not finish", "all workers return", "hang", "c14-hang-concurrent")
		return "hang"
	}
	x.nOracle += 4 * trips
	x.c.R.Count("concurrent round trips (4 checks each)", trips)
	if mismatches > 0 {
		ops := append(c14TruncationOps(), op)
		x.fail(lib.Failure{Case: op, Ops: ops,
			What: fmt.Sprintf("after the hostile corpus (phase 1: the mutation stream incl. payloads cut inside every fixed-width integer read — the ops before the last one), %d of %d round trips made by %d goroutines AT THE SAME TIME (phase 2: the last op; concurrent, so counts vary from run to run) did not come back equal; first: %s",
				mismatches, trips, workers, first),
			Expected: "every well-formed message round-trips whatever else the process decoded before or is decoding at the same time", Observed: first,
			Signature: "c14-concurrent-roundtrip-mismatch"})
		return fmt.Sprintf("mismatch %d of %d", mismatches, trips)
	}
	return "ok"
}

func (x *c14Exec) parseConcurrent(op string, w []string) string {
	if len(w) != 4 {
		return "bad-args"
	}
	n, err := strconv.Atoi(w[1])
	ms, err2 := strconv.Atoi(w[2])
	seed, err3 := strconv.ParseInt(w[3], 10, 64)
	if err != nil || err2 != nil || err3 != nil || n < 1 || n > 64 || ms < 1 || ms > 120000 {
		return "bad-args"
	}
	return x.execConcurrent(op, n, ms, seed)
}
