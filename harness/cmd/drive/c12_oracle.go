package main

// C12 — Go oracle: an independent, direct statement of the property over what
// the implementation shows (HTTP replies, deliveries seen by the client / the
// target server, the rows of the table). It keeps, per URL, a reference record
// built from the HISTORY (registrations and scripted outcomes of deliveries):
//
//   trail   = length of the trailing run of failed deliveries since the last
//             success or (re)registration
//   active  = trail < max_tries
//   last    = status and event number of the last delivery
//
// and demands: one POST per active hook per event carrying exactly the configured
// authorisation header, none for inactive/deleted ones, counters as above,
// re-registration rules, and the query endpoint reporting this record.
//
// It does not use the Lean model and does not read the service's source.

import (
	"fmt"
	"sort"
	"strings"
)

const (
	c12SigMaxTries = "c12-maxtries-not-restored"
	c12SigNoAuth   = "c12-noauth-empty-header-name"
	c12SigLastEmit = "c12-last-emit-not-reported"
	// a readable 200 reply (of whatever size, however transmitted) reached the service as an error
	c12Sig200Failed = "c12-200-reply-counted-as-failure"
)

type c12RefHook struct {
	Name, Value string // configured authorisation header ("" name: none)
	Trail       int
	Active      bool
	LastStatus  string // "-" when never attempted
	LastK       int    // event number of the last attempt, 0 = none
}

func (h *c12RefHook) auth() string {
	if h.Name == "" {
		return "-"
	}
	return h.Name + "=" + h.Value
}

// credentials is the authorisation-relevant part of an observed POST: the Authorization header, every header whose
// name some webhook of this run was registered with, and every header (under whatever name) whose value contains a
// configured credential. Other headers the client may add (tracing, idempotency keys, versions) are not the
// property's business and are left out — the correspondence with the model still sees them.
func (r *c12Ref) credentials(k c12Call) string {
	var hs []string
	for n, v := range k.Headers {
		switch n {
		case "", "Content-Type", "User-Agent", "Accept-Encoding", "Content-Length", "Host":
			continue
		}
		rel := strings.EqualFold(n, "Authorization")
		for _, h := range r.hooks {
			if h.Name != "" && (strings.EqualFold(h.Name, n) || (h.Value != "" && strings.Contains(v, strings.TrimPrefix(h.Value, "Bearer ")) && strings.TrimPrefix(h.Value, "Bearer ") != "")) {
				rel = true
			}
		}
		if rel {
			hs = append(hs, n+"="+v)
		}
	}
	sort.Strings(hs)
	if len(hs) == 0 {
		return "-"
	}
	return strings.Join(hs, "&")
}

type c12Ref struct {
	max   int
	prod  bool
	k     int
	hooks map[string]*c12RefHook
}

// c12Fail is one oracle finding for the current operation.
type c12Fail struct {
	Sig, What, Expected, Observed string
}

func newC12Ref(max int, prod bool) *c12Ref {
	return &c12Ref{max: max, prod: prod, hooks: map[string]*c12RefHook{}}
}

func (r *c12Ref) expectedStamp(h *c12RefHook) string {
	if h.LastK == 0 {
		return "none"
	}
	return fmt.Sprintf("n%d", h.LastK)
}

// checkReport compares a webhook document returned by an endpoint with the reference.
func (r *c12Ref) checkReport(sym string, h *c12RefHook, rep *c12Report, where string) []c12Fail {
	var fs []c12Fail
	if rep == nil {
		return []c12Fail{{Sig: "c12-other:" + where + "-no-document", What: where + " of a registered webhook did not return a webhook document", Expected: "200 + webhook", Observed: "no document"}}
	}
	if rep.Active != h.Active || rep.Errors != h.Trail {
		fs = append(fs, c12Fail{Sig: "c12-other:" + where + "-state", What: where + " reports an active flag / error count different from the history",
			Expected: fmt.Sprintf("%s active=%v errors=%d", sym, h.Active, h.Trail), Observed: fmt.Sprintf("active=%v errors=%d", rep.Active, rep.Errors)})
	}
	gotStamp := rep.Stamp
	if gotStamp == "zero" || gotStamp == "never" {
		gotStamp = "none"
	}
	if rep.Status != h.LastStatus || gotStamp != r.expectedStamp(h) {
		sig := "c12-other:" + where + "-last-attempt"
		if h.LastK > 0 && rep.Status == "-" && gotStamp == "none" {
			// the endpoint shows no last attempt at all although one was made
			sig = c12SigLastEmit
		}
		fs = append(fs, c12Fail{Sig: sig, What: where + " does not report time and status of the last delivery attempt",
			Expected: fmt.Sprintf("%s last=%s at=%s", sym, h.LastStatus, r.expectedStamp(h)), Observed: fmt.Sprintf("last=%s at=%s", rep.Status, rep.Stamp)})
	}
	return fs
}

// check evaluates one operation: `line` as sent, `obs` as observed.
func (r *c12Ref) check(line string, obs c12Obs) []c12Fail {
	w := strings.Fields(line)
	var fs []c12Fail
	if obs.Panic != "" {
		return []c12Fail{{Sig: "c12-other:panic", What: "the operation panicked", Observed: obs.Panic}}
	}
	switch w[1] {
	case "register":
		auth, header, token, sym := w[2], c12Unesc(w[3]), c12Unesc(w[4]), c12Unesc(w[5])
		h, have := r.hooks[sym]
		switch {
		case sym == "":
			if obs.Refused == "" {
				fs = append(fs, c12Fail{Sig: "c12-other:register-empty-url", What: "registration without url accepted", Expected: "refused", Observed: obs.Line})
			}
		case have && h.Active:
			if obs.Refused != "ErrRefreshWebhook" {
				fs = append(fs, c12Fail{Sig: "c12-other:reregister-active", What: "re-registering an active URL is not refused", Expected: "refused:ErrRefreshWebhook", Observed: obs.Line})
			}
		case have:
			h.Active, h.Trail = true, 0
			if obs.Report == nil || !obs.Report.Active || obs.Report.Errors != 0 {
				fs = append(fs, c12Fail{Sig: "c12-other:reregister-inactive", What: "re-registering an inactive URL does not reactivate it with a zero count", Expected: "ok active=true errors=0", Observed: obs.Line})
			}
		default:
			n, v := header, token
			if strings.EqualFold(auth, "bearer") {
				n, v = "Authorization", "Bearer "+token
			}
			r.hooks[sym] = &c12RefHook{Name: n, Value: v, Active: true, LastStatus: "-"}
			if obs.Report == nil || !obs.Report.Active || obs.Report.Errors != 0 {
				fs = append(fs, c12Fail{Sig: "c12-other:register-new", What: "registering a new URL does not answer an active webhook with a zero count", Expected: "ok active=true errors=0", Observed: obs.Line})
			}
		}
	case "delete":
		sym := c12Unesc(w[2])
		if _, have := r.hooks[sym]; have {
			delete(r.hooks, sym)
			if obs.Line != "ok" {
				fs = append(fs, c12Fail{Sig: "c12-other:delete", What: "deleting a registered webhook failed", Expected: "ok", Observed: obs.Line})
			}
		} else if obs.Refused == "" {
			fs = append(fs, c12Fail{Sig: "c12-other:delete-unknown", What: "deleting an unknown webhook is not refused", Expected: "refused", Observed: obs.Line})
		}
	case "get":
		sym := c12Unesc(w[2])
		h, have := r.hooks[sym]
		if !have {
			if obs.Refused == "" {
				fs = append(fs, c12Fail{Sig: "c12-other:get-unknown", What: "querying an unknown (or deleted) webhook is not refused", Expected: "refused", Observed: obs.Line})
			}
			break
		}
		fs = append(fs, r.checkReport(sym, h, obs.Report, "get")...)
	case "notify":
		r.k++
		outs := map[string]c12Out{}
		for _, p := range w[2:] {
			kv := strings.SplitN(p, "=", 2)
			o, _ := c12ParseOutcome(kv[1])
			outs[kv[0]] = o
		}
		// deliveries: one POST per active hook with exactly its header; nobody else is called
		got := map[string][]c12Call{}
		for _, p := range obs.Posts {
			got[p.Sym] = append(got[p.Sym], p)
		}
		missingNoAuth := map[string]bool{}
		posted := map[string]bool{}
		for _, p := range obs.Posts {
			posted[p.Sym] = true
		}
		for sym, h := range r.hooks {
			ps := got[sym]
			delete(got, sym)
			if !h.Active {
				if len(ps) != 0 {
					fs = append(fs, c12Fail{Sig: "c12-other:inactive-called", What: "an inactive webhook was called", Expected: sym + ": no POST", Observed: c12Calls(ps)})
				}
				continue
			}
			switch {
			case len(ps) == 0 && r.prod && h.Name == "":
				missingNoAuth[sym] = true
				fs = append(fs, c12Fail{Sig: c12SigNoAuth, What: "an active webhook registered without authorisation header name receives no HTTP POST (production client)",
					Expected: sym + "(-): one POST", Observed: fmt.Sprintf("no POST; client.Call invocations %s", c12Calls(obs.Calls))})
			case len(ps) != 1:
				fs = append(fs, c12Fail{Sig: "c12-other:post-count", What: "an active webhook did not receive exactly one POST for the event", Expected: sym + ": one POST", Observed: c12Calls(ps)})
			default:
				p := ps[0]
				if r.credentials(p) != h.auth() {
					fs = append(fs, c12Fail{Sig: "c12-other:header", What: "the POST does not carry exactly the configured authorisation header", Expected: sym + "(" + h.auth() + ")", Observed: p.canon()})
				}
				wantBody := fmt.Sprintf(`{"operation":"ADD","seq":%d}`, r.k)
				if p.Method != "POST" || p.Headers["Content-Type"] != "application/json" || p.Body != wantBody {
					fs = append(fs, c12Fail{Sig: "c12-other:post-shape", What: "delivery is not a JSON POST of the event", Expected: "POST application/json " + wantBody,
						Observed: fmt.Sprintf("%s %s %s", p.Method, p.Headers["Content-Type"], p.Body)})
				}
			}
		}
		for sym, ps := range got {
			fs = append(fs, c12Fail{Sig: "c12-other:unregistered-called", What: "a deleted / never registered webhook was called", Expected: sym + ": no POST", Observed: c12Calls(ps)})
		}
		// counters
		rows := map[string]c12Row{}
		for _, row := range obs.Table {
			rows[row.Sym] = row
		}
		for sym, h := range r.hooks {
			row, have := rows[sym]
			delete(rows, sym)
			if !have {
				fs = append(fs, c12Fail{Sig: "c12-other:row-missing", What: "a registered webhook has no row", Expected: sym, Observed: c12Table(obs.Table)})
				continue
			}
			if h.Active {
				o := outs[sym]
				if o.ok() {
					h.Trail, h.Active = 0, true
				} else {
					h.Trail++
					h.Active = h.Trail < r.max
				}
				h.LastStatus, h.LastK = o.status(), r.k
			}
			if row.Errors != h.Trail || row.Active != h.Active {
				sig := "c12-other:counter"
				switch {
				case outs[sym].ok() && row.Status == "err" && !missingNoAuth[sym] && posted[sym]:
					// the target received the POST and answered a readable 200, yet the row records an error
					sig = c12Sig200Failed
				case missingNoAuth[sym]:
					// consequence of the delivery that never left the client
					sig = c12SigNoAuth
				case r.max >= 2 && h.Active && !row.Active && row.Errors == h.Trail && h.Trail < r.max:
					// deactivated although fewer than max_tries consecutive failures were counted
					sig = c12SigMaxTries
				}
				what := "error count / active flag after the event differ from: count = trailing failures, active iff count < max_tries"
				if sig == c12Sig200Failed {
					what = "a readable 200 reply was counted as a failed delivery (" + outs[sym].describe() + ")"
					h.LastStatus = row.Status
				}
				fs = append(fs, c12Fail{Sig: sig, What: what,
					Expected: fmt.Sprintf("%s errors=%d active=%v last=%s (max_tries=%d; target answered: %s)", sym, h.Trail, h.Active, outs[sym].status(), r.max, outs[sym].describe()),
					Observed: fmt.Sprintf("errors=%d active=%v last=%s", row.Errors, row.Active, row.Status)})
				// continue from what the implementation holds, so that one deviation is reported once
				h.Trail, h.Active = row.Errors, row.Active
			}
			if missingNoAuth[sym] {
				h.LastStatus = row.Status
			}
		}
		for sym := range rows {
			fs = append(fs, c12Fail{Sig: "c12-other:row-extra", What: "the table holds a row of a deleted / never registered webhook", Expected: "no row " + sym, Observed: c12Table(obs.Table)})
		}
	}
	return fs
}
