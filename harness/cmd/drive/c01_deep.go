package main

// C01, reorganisations of a size at which statement-level limits sit: both branches have EXACTLY n headers for n around
// the bound-parameter limits of the database engines (999 for older SQLite builds, so 998 / 999 / 1000; batches of 500).
// The submissions go to the implementation and to the Lean model (K on every answer); the oracle checks the
// reorganising submission and the final table.

import (
	"fmt"
	"go/scanner"
	"go/token"
	"os"
	"path/filepath"
	"sort"
	"strconv"
	"strings"

	"github.com/bitcoin-sv/block-headers-service/verifharness/lib"
)

func c01DeepReorgs(c *Ctx, l *lib.Lean) error {
	sizes := []int{998, 999, 1000}
	if c.Thorough {
		sizes = []int{499, 500, 501, 997, 998, 999, 1000, 1001, 1996, 1998, 2000}
	}
	if c.Thorough {
		// depths derived from the source under check: every integer literal between 50 and 16000 in the files of the
		// write path is a candidate for a limit somebody built in; the reorganisation is tried at the literal and just
		// beyond it (oracle only above 2500 headers per side: the list-based model is quadratic)
		have := map[int]bool{}
		for _, n := range sizes {
			have[n] = true
		}
		for _, v := range sourceIntLiterals([]string{"database/sql/headers.go", "database/repository/header_repository.go", "service/chain_service.go"}, 50, 16000) {
			for _, n := range []int{v, v + 1, v + 2} {
				if !have[n] {
					have[n] = true
					sizes = append(sizes, n)
					c.R.Count("reorganisation depth taken from an integer literal of the source", 1)
				}
			}
		}
	}
	for _, n := range sizes {
		var nodes []Node
		for i := 0; i < n; i++ {
			nodes = append(nodes, Node{Parent: i - 1, Bits: bitsSmall[1]})
		}
		for i := 0; i < n; i++ {
			par := n + i - 1
			if i == 0 {
				par = -1
			}
			nodes = append(nodes, Node{Parent: par, Bits: bitsSmall[1]})
		}
		nodes = append(nodes, Node{Parent: 2*n - 1, Bits: bitsSmall[1]})
		buildTree(nodes, 4400+uint32(n)+uint32(c.Seed)*3, nil, false)
		ci, err := newChainImpl("c01-deep.db", lib.StackOpts{NoEngine: true})
		if err != nil {
			return err
		}
		name := fmt.Sprintf("reorganisation of exactly %d + %d headers", n, n)
		lines := []string{"reset", "forbid"}
		impl := []string{ci.Op("reset"), ci.Op("forbid")}
		for i := range nodes {
			op := "add " + nodes[i].Hdr.Hex()
			lines = append(lines, op)
			impl = append(impl, ci.Op(op))
		}
		lines = append(lines, "tip")
		impl = append(impl, ci.Op("tip"))
		ans := impl
		if n <= 2500 {
			if ans, err = l.AskBatch(lines); err != nil {
				ci.Close()
				return err
			}
		}
		ctx := []string{fmt.Sprintf("# c01 deep: A1..A%d longest, B1..B%d stale (same work, seen later), then B%d (seed %d)", n, n, n+1, c.Seed)}
		for i := range lines {
			c.R.TracesValidated++
			if ans[i] != impl[i] && c.Driver != "none" {
				c.R.Disagree(lib.Disagreement{Case: name, Ops: append(append([]string{}, ctx...), abbrevMid(lines[i])), Op: abbrevMid(lines[i]), Impl: abbrevMid(impl[i]), Model: abbrevMid(ans[i])})
				break
			}
		}
		rows, err := ci.Dump()
		ci.Close()
		if err != nil {
			return err
		}
		c.R.OracleChecked++
		c.R.Case(name, true)
		c.R.Count("reorganisation of exactly n+n headers (n at a statement-level limit)", 1)
		last := impl[len(impl)-2]
		lc, stale := 0, 0
		for _, r := range rows {
			switch r.State {
			case "LONGEST_CHAIN":
				lc++
			case "STALE":
				stale++
			}
		}
		// label by label: every B header (and genesis) is on the longest chain, every A header is stale
		wrong, firstWrong := 0, ""
		want := map[string]string{}
		for i := range nodes {
			if i < n {
				want[nodes[i].Hdr.HashStr()] = "STALE"
			} else {
				want[nodes[i].Hdr.HashStr()] = "LONGEST_CHAIN"
			}
		}
		for _, r := range rows {
			if w, ok := want[r.Hash]; ok && r.State != w {
				wrong++
				if firstWrong == "" {
					firstWrong = fmt.Sprintf("height %d %s… is %s, expected %s", r.Height, r.Hash[:12], r.State, w)
				}
			}
		}
		if wrong > 0 {
			c.R.Fail(lib.Failure{Case: name, Ops: ctx,
				What:     fmt.Sprintf("after the submission that makes a branch of exactly n headers overtake a longest chain of exactly n headers, %d headers carry the wrong chain-state label: the longest-chain labels are not the parent-linked path from genesis to the greatest-work header", wrong),
				Expected: "every header of the overtaking branch LONGEST_CHAIN, every header of the overtaken one STALE", Observed: firstWrong, Signature: "c01-exact-size-reorganisation-labels"})
		}
		tipWant := nodes[len(nodes)-1].Hdr.HashStr()
		if !strings.HasPrefix(last, "stored") || len(rows) != 2*n+2 || lc != n+2 || stale != n || !strings.Contains(impl[len(impl)-1], tipWant) {
			c.R.Fail(lib.Failure{Case: name, Ops: ctx,
				What:     "after the submission that makes a branch of exactly n headers overtake a longest chain of exactly n headers, the table is not the greatest-work chain: answer / row count / labels / tip",
				Expected: fmt.Sprintf("stored; %d rows, %d longest / %d stale; tip %s", 2*n+2, n+2, n, tipWant),
				Observed: fmt.Sprintf("%s; %d rows, %d longest / %d stale; tip %s", strings.Fields(last + " -")[0], len(rows), lc, stale, abbrevMid(impl[len(impl)-1])), Signature: "c01-exact-size-reorganisation"})
		}
	}
	return nil
}

// sourceIntLiterals returns the distinct decimal integer literals v (lo <= v <= hi) of the given files of the tree
// under check, ascending.
func sourceIntLiterals(files []string, lo, hi int) []int {
	seen := map[int]bool{}
	for _, f := range files {
		src, err := os.ReadFile(filepath.Join(lib.RepoRoot(), f))
		if err != nil {
			continue
		}
		var sc scanner.Scanner
		fs := token.NewFileSet()
		sc.Init(fs.AddFile(f, fs.Base(), len(src)), src, nil, 0)
		for {
			_, tok, lit := sc.Scan()
			if tok == token.EOF {
				break
			}
			if tok == token.INT || tok == token.STRING {
				// numbers inside SQL text count too
				for _, w := range strings.FieldsFunc(lit, func(r rune) bool { return r < '0' || r > '9' }) {
					if v, err := strconv.Atoi(w); err == nil && v >= lo && v <= hi {
						seen[v] = true
					}
				}
			}
		}
	}
	var out []int
	for v := range seen {
		out = append(out, v)
	}
	sort.Ints(out)
	return out
}
