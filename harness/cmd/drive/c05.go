package main

import (
	"fmt"
	"strings"

	"github.com/bitcoin-sv/block-headers-service/verifharness/lib"
)

func init() { runners["C05"] = runC05 }

// structValid is the oracle's statement of the crash-time invariant over the dumped table:
// exactly one longest-chain header at every height 0..tip, parent-linked, and the reported tip is the highest.
func structValid(rows []DbRow, tip string) []string {
	var mism []string
	byH := map[int64][]*DbRow{}
	by := map[string]*DbRow{}
	maxH := int64(-1)
	for i := range rows {
		r := &rows[i]
		by[r.Hash] = r
		if r.State == "LONGEST_CHAIN" {
			byH[r.Height] = append(byH[r.Height], r)
			if r.Height > maxH {
				maxH = r.Height
			}
		}
	}
	if maxH < 0 {
		return []string{"no longest-chain header at all"}
	}
	for h := int64(0); h <= maxH; h++ {
		switch len(byH[h]) {
		case 1:
			r := byH[h][0]
			if h > 0 {
				p, ok := by[r.Prev]
				if !ok || p.State != "LONGEST_CHAIN" || p.Height != h-1 {
					mism = append(mism, fmt.Sprintf("longest-chain header at height %d is not linked to the longest-chain header at height %d", h, h-1))
				}
			}
		case 0:
			mism = append(mism, fmt.Sprintf("no longest-chain header at height %d (tip height %d)", h, maxH))
		default:
			mism = append(mism, fmt.Sprintf("%d longest-chain headers at height %d", len(byH[h]), h))
		}
	}
	if len(byH[maxH]) == 1 && byH[maxH][0].Hash != tip {
		mism = append(mism, fmt.Sprintf("reported tip %.12s is not the highest longest-chain header %.12s", tip, byH[maxH][0].Hash))
	}
	return mism
}

// preserved: every row of `before` is in `after` with the same rowid and fields (state may differ).
func preserved(before, after []DbRow) []string {
	var mism []string
	idx := map[string]*DbRow{}
	for i := range after {
		idx[after[i].Hash] = &after[i]
	}
	for _, b := range before {
		a, ok := idx[b.Hash]
		switch {
		case !ok:
			mism = append(mism, "acknowledged header "+b.Hash[:12]+" disappeared")
		case immutablePart(*a) != immutablePart(b):
			mism = append(mism, "acknowledged header "+b.Hash[:12]+" was altered")
		}
	}
	return mism
}

// c05Scenario: deliver hist[:i] normally, then hist[i] with a fault at write boundary k, restart, redeliver everything.
//   fault "kill":  the process dies before write k+1 (k = number of completed writes)
//   fault "fail":  write k+1 returns an error; Add returns; the process is restarted
// The final table must equal the uninterrupted run's.
func c05Scenario(c *Ctx, ci *ChainImpl, l *lib.Lean, name string, headers []string, i int, k int, fault string, wantFinal string) (nWrites int, err error) {
	var ops []string
	run := func(op string, compare bool) (string, error) {
		ops = append(ops, op)
		impl := ci.Op(op)
		if compare {
			model, err := l.Ask(op)
			if err != nil {
				return "", err
			}
			c.R.TracesValidated++
			if impl != model && c.Driver != "none" {
				c.R.Disagree(lib.Disagreement{Case: name, Ops: append([]string{}, ops...), Op: op, Impl: impl, Model: model})
			}
		}
		return impl, nil
	}
	fail := func(what, exp, obs, sig string) {
		c.R.Fail(lib.Failure{Case: name, Ops: append([]string{}, ops...), What: what, Expected: exp, Observed: obs, Signature: sig})
	}
	if _, err := run("reset", true); err != nil {
		return 0, err
	}
	if _, err := run("forbid", true); err != nil {
		return 0, err
	}
	for _, h := range headers[:i] {
		if _, err := run("add "+h, true); err != nil {
			return 0, err
		}
	}
	before, err := ci.Dump()
	if err != nil {
		return 0, err
	}
	// the fault
	switch fault {
	case "kill":
		out, err := run(fmt.Sprintf("crash %d %s", k, headers[i]), true)
		if err != nil {
			return 0, err
		}
		fmt.Sscanf(out, "crashed %d", &nWrites)
	case "fail":
		// write k+1 returns an error: on the model side this is the same store as a kill at boundary k
		hd, _ := hdrFromHex(headers[i])
		ci.Rec.FailAt, ci.Rec.KillAt = k+1, -1
		out, _ := ci.Add(hd)
		ci.Rec.FailAt = 0
		ops = append(ops, fmt.Sprintf("# failwrite %d %s -> %s", k+1, headers[i][:16], strings.Fields(out)[0]))
		if _, err := l.Ask(fmt.Sprintf("crash %d %s", k, headers[i])); err != nil {
			return 0, err
		}
		if !strings.HasPrefix(out, "error:") && !strings.HasPrefix(out, "stored") && !strings.HasPrefix(out, "duplicate") {
			fail("a failed storage write is answered with "+out, "an error code", out, "c05-fault-answer")
		}
	}
	if _, err := run("restart", true); err != nil {
		return nWrites, err
	}
	if _, err := run("dump", true); err != nil {
		return nWrites, err
	}
	after, err := ci.Dump()
	if err != nil {
		return nWrites, err
	}
	c.R.OracleChecked++
	tip := tipHashOf(ci.Op("tip"))
	if m := structValid(after, tip); len(m) > 0 {
		fail("after the fault and a restart the store is not structurally valid: "+strings.Join(m, "; "), "", dumpStr(after), "c05-struct")
	}
	if m := preserved(before, after); len(m) > 0 {
		fail("after the fault and a restart: "+strings.Join(m, "; "), "", "", "c05-ack-lost")
	}
	// full redelivery
	for j, h := range headers {
		out, err := run("add "+h, true)
		if err != nil {
			return nWrites, err
		}
		if strings.HasPrefix(out, "error:") || strings.HasPrefix(out, "panic") {
			fail(fmt.Sprintf("redelivery of header %d is answered %s: stuck", j, strings.Fields(out)[0]), "stored or duplicate", out, "c05-stuck")
		}
	}
	final, err := ci.Dump()
	if err != nil {
		return nWrites, err
	}
	if _, err := run("dump", true); err != nil {
		return nWrites, err
	}
	if dumpStr(final) != wantFinal {
		fail("after redelivery the store differs from an uninterrupted run", wantFinal, dumpStr(final), "c05-final-differs")
	}
	return nWrites, nil
}

func runC05(c *Ctx) error {
	rng := lib.Rng(c.Seed, "c05")
	c.R.Rule = "histories with reorganisations (C01 generator, positive work) x every submission index x every write boundary k (kill before write k+1; or write k+1 returning an error), then restart (database.Init on the same file) and redelivery of the whole history; compared with the Lean model (addPrefix / restart / run) and with an uninterrupted run on a fresh file. Non-trivial = the faulted submission is a reorganisation (>= 2 writes) and the fault falls strictly inside it; distinct by (history, index, boundary, fault kind)."
	ci, err := newChainImpl("c05.db", lib.StackOpts{NoEngine: true})
	if err != nil {
		return err
	}
	defer ci.Close()
	l := c.lean()
	defer l.Close()
	nHist, maxLen := 14, 9
	if c.Thorough {
		nHist, maxLen = 120, 14
	}
	type hist struct {
		name string
		hs   []string
	}
	var hists []hist
	for _, cs := range loadCorpus("C05") {
		var hs []string
		for _, op := range cs.ops {
			if strings.HasPrefix(op, "add ") {
				hs = append(hs, strings.Fields(op)[1])
			}
		}
		hists = append(hists, hist{cs.name, hs})
	}
	// the two reorganisation shapes explicitly: sibling of a longest-chain header overtaking the tip (no stale part),
	// and a stale branch overtaking (both updates), of depth 1..3
	for depth := 1; depth <= 3; depth++ {
		var nodes []Node
		for i := 0; i < depth+1; i++ { // main chain G-a0-a1..
			nodes = append(nodes, Node{Parent: i - 1, Bits: bitsSmall[0]})
		}
		// stale branch from genesis of the same length, then one more that overtakes
		par := -1
		for i := 0; i < depth+1; i++ {
			nodes = append(nodes, Node{Parent: par, Bits: bitsSmall[0]})
			par = len(nodes) - 1
		}
		nodes = append(nodes, Node{Parent: par, Bits: bitsSmall[1]})
		// a heavy sibling of a0 (child of genesis) overtaking everything: empty stale part
		nodes = append(nodes, Node{Parent: -1, Bits: bitsBig})
		buildTree(nodes, 5000+uint32(depth), nil, false)
		var hs []string
		for _, n := range nodes {
			hs = append(hs, n.Hdr.Hex())
		}
		hists = append(hists, hist{fmt.Sprintf("reorg shapes depth=%d", depth), hs})
	}
	for k := 0; k < nHist; k++ {
		n := 4 + rng.Intn(maxLen-3)
		nodes, order := randomHistory(rng, n, uint32(k)+uint32(c.Seed)*2221, false, false)
		var hs []string
		for _, i := range order {
			hs = append(hs, nodes[i].Hdr.Hex())
		}
		hists = append(hists, hist{fmt.Sprintf("random #%d n=%d", k, n), hs})
	}
	for hi, h := range hists {
		// uninterrupted run on a fresh file: the reference final table, and the number of writes per submission
		if out := ci.Op("reset"); out != "ok" {
			return fmt.Errorf("reset: %s", out)
		}
		ci.Op("forbid")
		writes := make([]int, len(h.hs))
		for i, x := range h.hs {
			out := ci.Op("add " + x)
			writes[i] = strings.Count(out, " | W ")
		}
		ref, err := ci.Dump()
		if err != nil {
			return err
		}
		wantFinal := dumpStr(ref)
		for i := range h.hs {
			if writes[i] == 0 {
				continue
			}
			if !c.Thorough && writes[i] == 1 && rng.Intn(3) != 0 {
				continue // plain inserts are sampled in the quick tier; reorganisations are always enumerated
			}
			for k := 0; k <= writes[i]; k++ {
				for _, fault := range []string{"kill", "fail"} {
					if fault == "fail" && k == writes[i] {
						continue // there is no write k+1
					}
					name := fmt.Sprintf("%s / submission %d (%d writes) / %s at boundary %d", h.name, i, writes[i], fault, k)
					if _, err := c05Scenario(c, ci, l, name, h.hs, i, k, fault, wantFinal); err != nil {
						return err
					}
					c.R.Case(name, writes[i] >= 2 && k > 0 && k < writes[i])
					c.R.Count(fmt.Sprintf("fault:%s writes=%d", fault, writes[i]), 1)
					if hi < 4 && i == len(h.hs)-2 && k == 1 {
						c.R.Sample(map[string]any{"scenario": name, "history_len": len(h.hs)}, 6)
					}
				}
			}
		}
	}
	if c.Replay == "" {
		if err := c05DeepReorg(c); err != nil {
			return err
		}
	}
	c.R.ModelOps = l.Ops
	return nil
}
