package main

// C03, second way into the store: headers that got there through the prepared-database import
// (database.Init with prepared_db=true) are "stored headers" as well — identity, height, work and
// cumulative work must hold for every one of them. Oracle only (the import itself is C17's model): a
// chain long enough to span several of the import's insert batches is ingested, exported, imported into
// an empty database, and every imported row is recomputed from its own fields and its parent's row.

import (
	"encoding/hex"
	"fmt"
	"math/big"
	"math/rand"
	"os"
	"path/filepath"
	"strconv"

	"github.com/bitcoin-sv/block-headers-service/internal/chaincfg"
	"github.com/bitcoin-sv/block-headers-service/internal/chaincfg/chainhash"
	"github.com/bitcoin-sv/block-headers-service/verifharness/lib"
)

func undisplay(s string) (h [32]byte, ok bool) {
	b, err := hex.DecodeString(s)
	if err != nil || len(b) != 32 {
		return h, false
	}
	for i := range b {
		h[i] = b[31-i]
	}
	return h, true
}

func c03ImportedStore(c *Ctx, rng *rand.Rand, length int) error {
	name := fmt.Sprintf("imported store of %d headers", length)
	fail := func(what, exp, obs, sig string) {
		c.R.Fail(lib.Failure{Case: name, Ops: []string{fmt.Sprintf("# c03 import: chain of %d headers (seed %d) ingested, exported, imported into an empty database", length, c.Seed)},
			What: what, Expected: exp, Observed: obs, Signature: sig})
	}
	src, err := newChainImpl("c03-src.db", lib.StackOpts{})
	if err != nil {
		return err
	}
	nodes := make([]Node, 0, length+2)
	for i := 0; i < length; i++ {
		b := bitsSmall[rng.Intn(len(bitsSmall))]
		if rng.Intn(10) == 0 {
			b = bitsBig
		}
		nodes = append(nodes, Node{Parent: i - 1, Bits: b})
	}
	nodes = append(nodes, Node{Parent: length / 2, Bits: bitsSmall[0]}, Node{Parent: -2, Bits: bitsSmall[0]}) // a stale and an orphan header
	buildTree(nodes, 3300+uint32(c.Seed)*7+uint32(length), rng, true)
	for i := range nodes {
		src.Op("add " + nodes[i].Hdr.Hex())
	}
	rows, err := src.Dump()
	srcFile := src.file
	src.Close()
	if err != nil {
		return err
	}
	var tip *DbRow
	for i := range rows {
		if rows[i].State == "LONGEST_CHAIN" && (tip == nil || rows[i].Height > tip.Height) {
			tip = &rows[i]
		}
	}
	if tip == nil {
		return fmt.Errorf("c03 import: no longest chain in the source store")
	}
	out := filepath.Join(lib.WorkDir(), "c03-export.csv.gz")
	_ = os.Remove(out)
	if err := c17Export(srcFile, out); err != nil {
		fail("export of the source store failed", "a file", err.Error(), "c03-import-export-failed")
		return nil
	}
	th, err := chainhash.NewHashFromStr(tip.Hash)
	if err != nil {
		return err
	}
	dst := lib.TempDB("c03-imported.db")
	if class, msg := c17Start(dst, out, []chaincfg.Checkpoint{{Height: int32(tip.Height), Hash: th}}); class != "" {
		fail("start-up with the exported file as prepared database refused", "started", class+": "+msg, "c03-import-refused")
		return nil
	}
	imp, err := c17DumpFile(dst)
	if err != nil {
		return err
	}
	by := map[string]*DbRow{}
	for i := range imp {
		by[imp[i].Hash] = &imp[i]
	}
	c.R.Count("imported rows checked", len(imp))
	c.R.Case(name, len(imp) > 500)
	if int64(len(imp)) != tip.Height+1 {
		fail("imported row count differs from the exported longest chain", fmt.Sprint(tip.Height+1), fmt.Sprint(len(imp)), "c03-imported-count")
	}
	bad := 0
	for i := range imp {
		r := &imp[i]
		if r.Height == 0 {
			continue // the genesis row: database/genesis.go, checked by the ordinary stream
		}
		c.R.OracleChecked++
		prev, okP := undisplay(r.Prev)
		mk, okM := undisplay(r.Merkle)
		tm, e1 := strconv.ParseUint(r.Time, 10, 32)
		bits, e2 := strconv.ParseUint(r.Bits, 10, 32)
		if !okP || !okM || e1 != nil || e2 != nil {
			fail("imported row has unparsable fields", "", r.String(), "c03-imported-fields")
			continue
		}
		h := Hdr{Version: int32(r.Version), Prev: prev, Merkle: mk, Time: uint32(tm), Bits: uint32(bits), Nonce: uint32(r.Nonce)}
		w := refWorkBits(h.Bits)
		wantH, wantCum := int64(1), new(big.Int).Set(w)
		if p, ok := by[r.Prev]; ok {
			wantH = p.Height + 1
			wantCum = new(big.Int).Add(parseBig(p.Cum), w)
		}
		want := fmt.Sprintf("%s,%d,%s,%s", h.HashStr(), wantH, w.String(), wantCum.String())
		got := fmt.Sprintf("%s,%d,%s,%s", r.Hash, r.Height, r.Work, r.Cum)
		if got != want && bad < 4 {
			bad++
			fail(fmt.Sprintf("imported header at height %d: hash / height / work / cumulative work differ from sha256d(80 bytes), parent+1, floor(2^256/(target+1)), parent.cum+work", r.Height), want, got, "c03-imported-fields")
		}
	}
	return c03LaterStartWithFile(c, nodes, length, out, tip, th)
}

// c03LaterStartWithFile: a store that was filled over the network only up to the middle of the chain (plus a stale
// and an orphan header the file does not contain) is stopped and started again with the prepared file configured and
// the newest checkpoint at the file's tip — the operator switches db.prepared_db on later. Whatever the start-up does
// with the file, every header stored before must still be there with every field unchanged.
func c03LaterStartWithFile(c *Ctx, nodes []Node, length int, prepared string, tip *DbRow, th *chainhash.Hash) error {
	name := fmt.Sprintf("store behind the newest checkpoint restarted with the prepared file (%d headers)", length)
	ci, err := newChainImpl("c03-behind.db", lib.StackOpts{})
	if err != nil {
		return err
	}
	for i := 0; i <= length/2; i++ {
		ci.Op("add " + nodes[i].Hdr.Hex())
	}
	ci.Op("add " + nodes[length].Hdr.Hex())   // the stale header (child of length/2)
	ci.Op("add " + nodes[length+1].Hdr.Hex()) // the orphan
	before, err := ci.Dump()
	file := ci.file
	ci.Close()
	if err != nil {
		return err
	}
	class, msg := c17Start(file, prepared, []chaincfg.Checkpoint{{Height: int32(tip.Height), Hash: th}})
	after, err := c17DumpFile(file)
	if err != nil {
		return err
	}
	by := map[string]*DbRow{}
	for i := range after {
		by[after[i].Hash] = &after[i]
	}
	c.R.Case(name, true)
	c.R.Count("later start with the prepared file on a store behind the checkpoint", 1)
	ops := []string{fmt.Sprintf("# c03 later start: headers 0..%d of a chain of %d (seed %d) plus one stale and one orphan header stored; service stopped; started again on the same database with prepared_db=true, the exported file of the whole chain and the newest checkpoint at its tip (start-up answered %q %s)", length/2, length, c.Seed, class, msg)}
	gone, changed := 0, 0
	for i := range before {
		b := &before[i]
		c.R.OracleChecked++
		a, ok := by[b.Hash]
		if !ok {
			if gone < 3 {
				c.R.Fail(lib.Failure{Case: name, Ops: ops, What: "a header stored before the restart has disappeared", Expected: b.String(), Observed: fmt.Sprintf("absent; table had %d rows before, %d after", len(before), len(after)), Signature: "c03-later-start-header-disappeared"})
			}
			gone++
			continue
		}
		x, y := *b, *a
		x.State, y.State, x.ID, y.ID = "", "", 0, 0
		if x != y && changed < 3 {
			changed++
			c.R.Fail(lib.Failure{Case: name, Ops: ops, What: "a field other than the chain-state label of a stored header changed over the restart", Expected: b.String(), Observed: a.String(), Signature: "c03-later-start-field-changed"})
		}
	}
	return nil
}
