package main

// C10, "across restarts": the restart of the ordinary stream keeps the whole configuration. Here the service is
// stopped, the operator changes http.auth_token (the configured admin token) and starts it again on the same database.
// Issued tokens are not the admin token's business: the ones not revoked still authenticate as non-admin on HTTP and
// on the websocket handshake, the revoked one does not, the NEW admin token is admin and can revoke a token issued
// under the old one — after which that token is refused. Oracle only (the model's admin token is a constant).

import (
	"encoding/json"
	"fmt"
	"math/rand"

	"github.com/bitcoin-sv/block-headers-service/verifharness/lib"
)

func c10RotatedRestart(c *Ctx, l *lib.Lean, rng *rand.Rand) error {
	if c.Replay != "" {
		return nil
	}
	oldAdmin, newAdmin := "adm"+c09RandToken(rng, 20), "adm"+c09RandToken(rng, 21)
	r := &c10Run{c: c, l: l, file: lib.TempDB("c10-rotate.db"), admin: oldAdmin, live: map[string]bool{}, kinds: map[string]bool{}}
	if err := r.open(); err != nil {
		return err
	}
	defer r.close()
	var toks []string
	for i := 0; i < 3; i++ {
		_, resp := r.httpDo("POST", c09Prefix+"/access", "Bearer "+oldAdmin, true)
		var tok struct {
			Token string `json:"token"`
		}
		if resp.Status != 200 || json.Unmarshal([]byte(resp.Body), &tok) != nil || tok.Token == "" {
			return nil // the ordinary stream reports a creation endpoint that does not work
		}
		toks = append(toks, tok.Token)
	}
	if _, del := r.httpDo("DELETE", c09Prefix+"/access/"+toks[2], "Bearer "+oldAdmin, true); del.Status < 200 || del.Status >= 300 {
		return nil
	}
	r.ops = []string{fmt.Sprintf("# c10 rotated restart: three tokens created and the third revoked under admin token A; service stopped; started again on the same database with http.auth_token = B (seed %d)", c.Seed)}
	r.close()
	r.admin = newAdmin
	if err := r.open(); err != nil {
		return err
	}
	c.R.Count("restart with a changed admin token", 1)
	check := func(what, tok, wantHTTP, wantWS, sig string) {
		c.R.OracleChecked += 2
		if got := r.authGet("Bearer " + tok); got != wantHTTP {
			r.fail(what+" (HTTP)", wantHTTP, got, sig+":http")
		}
		if got := r.wsConnect(tok); got != wantWS {
			r.fail(what+" (websocket handshake)", wantWS, got, sig+":ws")
		}
	}
	for _, t := range toks[:2] {
		check("a token issued and never revoked does not authenticate as non-admin after a restart with a changed admin token", t, "pass user", "connected", "c10-valid-token-refused-after-admin-rotation")
	}
	c.R.OracleChecked++
	if got := r.authGet("Bearer " + toks[2]); got == "pass user" || got == "pass admin" {
		r.fail("a revoked token authenticates after a restart with a changed admin token", "401", got, "c10-invalid-token-accepted:http")
	}
	c.R.OracleChecked++
	if got := r.authGet("Bearer " + newAdmin); got != "pass admin" {
		r.fail("the configured admin token does not authenticate as admin after it was changed", "pass admin", got, "c10-admin-not-admin")
	}
	// the new admin revokes a token issued under the old one
	_, del := r.httpDo("DELETE", c09Prefix+"/access/"+toks[0], "Bearer "+newAdmin, true)
	c.R.OracleChecked++
	if del.Status >= 200 && del.Status < 300 {
		if got := r.authGet("Bearer " + toks[0]); got == "pass user" {
			r.fail("a token revoked (answered with success) after a restart with a changed admin token still authenticates", "401", got, "c10-revocation-reported-but-not-effective")
		}
	}
	check("revoking one token changed the validity of another (after a restart with a changed admin token)", toks[1], "pass user", "connected", "c10-valid-token-refused-after-admin-rotation")
	return nil
}

// c10RawRevoke (oracle only; the model's strings are valid UTF-8): revoke(unknown) where the unknown value is an issued
// token plus a byte that is not valid UTF-8 — "creating or revoking one token never changes the validity of any
// other": the issued token still authenticates afterwards (HTTP and websocket), and the value itself never does.
func c10RawRevoke(c *Ctx, l *lib.Lean, rng *rand.Rand) error {
	if c.Replay != "" {
		return nil
	}
	admin := "adm" + c09RandToken(rng, 22)
	r := &c10Run{c: c, l: l, file: lib.TempDB("c10-raw.db"), admin: admin, live: map[string]bool{}, kinds: map[string]bool{}}
	if err := r.open(); err != nil {
		return err
	}
	defer r.close()
	_, resp := r.httpDo("POST", c09Prefix+"/access", "Bearer "+admin, true)
	var tok struct {
		Token string `json:"token"`
	}
	if resp.Status != 200 || json.Unmarshal([]byte(resp.Body), &tok) != nil || tok.Token == "" {
		return nil
	}
	for _, v := range []struct{ name, val string }{{"token + 0xff", tok.Token + "\xff"}, {"0xc3 + token", "\xc3" + tok.Token}, {"token with 0xfe inside", tok.Token[:7] + "\xfe" + tok.Token[7:]}} {
		esc := ""
		for i := 0; i < len(v.val); i++ {
			esc += fmt.Sprintf("%%%02X", v.val[i])
		}
		r.ops = []string{fmt.Sprintf("# c10 raw revoke: token T issued; DELETE %s/access/<%s> (%s) by the admin; then T and the raw value are presented", c09Prefix, v.name, esc)}
		c.R.OracleChecked++
		c.R.Count("credential / revocation value that is not valid UTF-8", 1)
		if got := r.authGet("Bearer " + v.val); got == "pass user" || got == "pass admin" {
			r.fail("a never-issued value ("+v.name+") authenticates", "401", got, "c10-invalid-token-accepted:http")
		}
		_, del := r.httpDo("DELETE", c09Prefix+"/access/"+esc, "Bearer "+admin, true)
		c.R.OracleChecked += 2
		if got := r.authGet("Bearer " + tok.Token); got != "pass user" {
			r.fail(fmt.Sprintf("revoking a never-issued value (%s; answered %d) changed the validity of an issued token (HTTP)", v.name, del.Status), "pass user", got, "c10-revoke-of-unknown-hits-issued-token:http")
			return nil
		}
		if got := r.wsConnect(tok.Token); got != "connected" {
			r.fail(fmt.Sprintf("revoking a never-issued value (%s; answered %d) changed the validity of an issued token (websocket handshake)", v.name, del.Status), "connected", got, "c10-revoke-of-unknown-hits-issued-token:ws")
			return nil
		}
	}
	return nil
}
