package main

// C18 — peer management. See c18_peers.go (admission handlers on a real peerState) and
// c18_conn.go (the real connection manager). Lean side: BHS/Model/Peers.lean,
// BHS/Model/ConnMgr.lean, BHS/Props/C18.lean, Driver/Ops/Peers.lean.

import (
	"fmt"
	"os"
	"path/filepath"
	"sort"
	"strings"

	"github.com/bitcoin-sv/block-headers-service/transports/p2p"
	"github.com/bitcoin-sv/block-headers-service/verifharness/lib"
)

func init() { runners["C18"] = runC18 }

const (
	c18SigSlotLost      = "c18-slot-lost-after-banaddress"
	c18SigDoubleVersion = "c18-double-version-leaks-peer-slot"
)

// c18DoubleVersion: an outbound connection whose remote end answers our version with TWO
// version messages (peer.negotiateOutboundProtocol accepts "version or verack" twice).
// The real peer code then runs handleVersionMessage twice: a second id is taken from
// nodeCount and OnVersion fires twice; serverPeer.OnVersion ends in server.AddPeer(sp)
// each time. The harness' listener does what AddPeer + peerHandler do: it hands the same
// serverPeer to the real handleAddPeerMsg at each OnVersion.
func c18DoubleVersion(c *Ctx) (reproduced bool, observed string, err error) {
	r := c18NewPeerRig(2, 2)
	defer r.closeAll()
	var holder *c18RigPeer
	var adds []string
	onVersion := func(rp *c18RigPeer) {
		holder = rp
		ok := p2p.VerifAddPeer(r.srv, r.st, rp.sp)
		adds = append(adds, fmt.Sprintf("id=%d admitted=%v", rp.sp.ID(), ok))
	}
	rp, err := r.newPeerWith("#dv", "out", 0, true, r.hsDouble, onVersion, 2)
	if err != nil {
		return false, "", err
	}
	_ = holder
	rp.sp.Disconnect()
	p2p.VerifDonePeer(r.srv, r.st, rp.sp)
	s := p2p.VerifSnap(r.st)
	observed = fmt.Sprintf("adds=[%s]; after the peer has left: %s", strings.Join(adds, ", "), r.dump())
	left := s.Count != 0
	for _, v := range s.ConnectionCount {
		if v != 0 {
			left = true
		}
	}
	for _, v := range s.OutboundGroups {
		if v != 0 {
			left = true
		}
	}
	return left, observed, nil
}

func c18RunOps(c *Ctx, l *lib.Lean, name string, ops []string) error {
	if len(ops) == 0 {
		return nil
	}
	switch {
	case strings.HasPrefix(ops[0], "peer "):
		nh, ng := len(c18FamilySpecs), 2
		for _, op := range ops {
			w := strings.Fields(op)
			if len(w) >= 4 && w[1] == "add" {
				var h int
				fmt.Sscan(w[3], &h)
				if h >= len(c18FamilySpecs) {
					nh, ng = 30, 7
				}
			}
			if op == "peer universe wide" {
				nh, ng = 30, 7
			}
		}
		return c18RunPeerHistory(c, l, c18PeerHistory{name: name, nhosts: nh, ngroups: ng, ops: ops})
	case strings.HasPrefix(ops[0], "am "):
		_, err := c18AmRun(c, l, "addrmgr/"+name, ops)
		return err
	case strings.HasPrefix(ops[0], "scenario addrmgr-connmgr"):
		return c18AmConnScenario(c, "addrmgr/"+name, ops)
	case strings.HasPrefix(ops[0], "wire "):
		_, _, err := c18WiredSession(c, l, "wire/"+name, ops, nil, 0)
		return err
	case strings.HasPrefix(ops[0], "conn "):
		_, err := c18Lockstep(c, l, ops, "conn/"+name)
		return err
	case strings.HasPrefix(ops[0], "scenario double-version"):
		rep, obs, err := c18DoubleVersion(c)
		if err != nil {
			return err
		}
		c.R.OracleChecked++
		if rep {
			c.R.Fail(lib.Failure{Case: "peers/double-version", Ops: ops, What: c18DoubleVersionWhat, Expected: "in=[] out=[] pers=[] cc=[] og=[]", Observed: obs, Signature: c18SigDoubleVersion})
		}
		return nil
	case strings.HasPrefix(ops[0], "scenario real-time-ban"):
		return c18RealTimeBan(c)
	}
	return fmt.Errorf("unknown replay ops: %q", ops[0])
}

const c18DoubleVersionWhat = "an outbound peer whose remote sends two version messages is added twice under two ids; after it has left one entry, one per-host slot and one group slot stay behind for ever"

func runC18(c *Ctx) error {
	rng := lib.Rng(c.Seed, "c18")
	c.R.Rule = "peers: seeded histories of add(in|out|pers, host, version-known)/done/ban/clock/addbad/shutdown/dump over 9 address texts of several families (IPv4 incl. two in one /16 and one RFC1918, IPv6 lower and upper case, link-local with zones %eth0 and %lo, IPv4-mapped IPv6; the model's host is the text SplitHostPort(sp.Addr()) yields, so an inbound and an outbound peer of one machine can be different hosts) (styles mix, fill = persistent peers up to MaxPeers, accident = peers without version/id 0) and 30 hosts x 7 groups (wide), each executed on the real handlers with real peer.Peer objects after a real version handshake over an in-memory connection, compared per op with the Lean model; non-trivial = at least one refusal for per-host limit, total limit or ban. " +
		"connmgr lock-step: seeded scripts of dial ok/fail/address error/Disconnect/Remove/cancel on the real ConnManager (target 0..8, 1 ms retry, with and without BanAddress), counts compared with the Lean counter machine after every event; non-trivial = at least one failure and one disconnect. " +
		"wired: the real server handlers own the real ConnManager (sp.connReq set as in outboundPeerConnected); seeded online scripts of dial ok (-> handshake -> admission; a refused outbound peer goes through handleDonePeerMsg) / fail / address error / peer done / inbound arrivals / ban / clock, target 1..4, compared per event with the composed Lean model (Model/PeerWire) and the oracle established + in flight = target; non-trivial = an outbound or inbound peer refused for ban, per-host or total limit. " +
		"addrmgr: seeded histories of AddAddresses/Good/Attempt/Connected/BanAddress/GetAddress/clock on the real AddrManager over 1..5 addresses x 3 sources, every GetAddress under a watchdog, bookkeeping compared per op with the Lean model (Model/AddrMgr) through an in-package overlay; oracle: GetAddress returns, nil iff no unbanned address known, never a banned address, counters = bucket contents; plus the real connmgr wired to the real addrmgr; non-trivial = a ban and a Good in the history. " +
		"connmgr free-running: real interleavings, oracle only. The witnesses of the two repaired defects (corpus/C18: 25 refusals of one address with BanAddress; outbound peer answered with two version messages) run first."
	l := c.lean()
	defer l.Close()

	if c.Replay != "" {
		ops, err := lib.ReadReplayOps(c.Replay)
		if err != nil {
			return err
		}
		err = c18RunOps(c, l, "replay", ops)
		c.R.ModelOps = l.Ops
		return err
	}

	// known findings: replay the recorded witnesses on the implementation
	for _, k := range lib.KnownFor(c.Known, "C18") {
		st := "not-reproduced"
		switch k.Signature {
		case c18SigSlotLost:
			ops := k.Witness.Ops
			if len(ops) == 0 {
				ops = c18WitnessOps()
			}
			ok, line, err := c18SilenceAfterBan(ops)
			if err != nil {
				c.R.Notes = append(c.R.Notes, "known finding "+k.ID+": "+err.Error())
			} else if ok {
				st = "reproduced"
			}
			c.R.Notes = append(c.R.Notes, "known finding "+k.ID+" witness replay: "+line)
		case c18SigDoubleVersion:
			ok, obs, err := c18DoubleVersion(c)
			if err != nil {
				c.R.Notes = append(c.R.Notes, "known finding "+k.ID+": "+err.Error())
			} else if ok {
				st = "reproduced"
			}
			c.R.Notes = append(c.R.Notes, "known finding "+k.ID+" witness replay: "+obs)
		}
		c.R.KnownReplayed[k.ID] = st
	}

	// corpus first: the witnesses of the repaired defects R-C18 and R-C18-b are ordinary
	// regression cases (a `fixed` entry of KNOWN_FINDINGS.json suppresses nothing)
	files, _ := filepath.Glob("/verif/corpus/C18/*.ops")
	sort.Strings(files)
	for _, f := range files {
		b, err := os.ReadFile(f)
		if err != nil {
			return err
		}
		var ops []string
		for _, ln := range strings.Split(string(b), "\n") {
			ln = strings.TrimSpace(ln)
			if ln != "" && !strings.HasPrefix(ln, "#") {
				ops = append(ops, ln)
			}
		}
		if err := c18RunOps(c, l, "corpus/"+filepath.Base(f), ops); err != nil {
			return err
		}
		c.R.Count("corpus", 1)
	}
	// the R-C18 witness once more on a free-standing manager, watched for 300 retry intervals:
	// it must keep a request in flight after the ban
	{
		silent, line, err := c18SilenceAfterBan(c18WitnessOps())
		if err != nil {
			return err
		}
		c.R.OracleChecked++
		if silent {
			c.R.Fail(lib.Failure{Case: "conn/witness-R-C18", Ops: c18WitnessOps(), What: "with BanAddress configured the connection manager stops dialling for a slot after banning an address",
				Expected: "established + in flight = 1", Observed: line, Signature: c18SigSlotLost})
		}
	}

	// (a) peers
	type plan struct {
		style string
		n     int
		count int
	}
	plans := []plan{{"mix", 160, 36}, {"accident", 120, 8}, {"fill", 260, 3}, {"wide", 300, 3}}
	if c.Thorough {
		plans = []plan{{"mix", 400, 300}, {"accident", 300, 60}, {"fill", 500, 20}, {"wide", 600, 20}}
	}
	for _, p := range plans {
		for i := 0; i < p.count; i++ {
			h := c18GenPeerHistory(rng, p.n, p.style)
			h.name = "gen:" + p.style
			if err := c18RunPeerHistory(c, l, h); err != nil {
				return err
			}
		}
	}
	if err := c18RealTimeBan(c); err != nil {
		return err
	}
	// (b) connection manager, lock-step
	type cplan struct {
		style string
		n     int
		count int
	}
	cplans := []cplan{{"noban", 220, 24}, {"ban", 220, 16}, {"cancel", 160, 10}, {"banheavy", 400, 6}}
	if c.Thorough {
		cplans = []cplan{{"noban", 600, 150}, {"ban", 600, 100}, {"cancel", 400, 60}, {"banheavy", 800, 30}}
	}
	connBad := func() int { return len(c.R.Failures) + len(c.R.Disagreements) }
	bad0 := connBad()
	// duplicate / late Disconnect(id) while the replacement dial is held, targets 1..8
	for t := 1; t <= 8 && connBad() == bad0; t++ {
		ops := c18GenDupDisc(rng, t)
		if _, err := c18Lockstep(c, l, ops, "conn/dupdisc"); err != nil {
			return err
		}
		c.R.Case("conn|"+strings.Join(ops, ";"), true)
		c.R.Count("conn:history:dupdisc", 1)
		c.R.Count("conn:ops", len(ops))
	}
connPlans:
	for _, p := range cplans {
		for i := 0; i < p.count; i++ {
			if connBad() != bad0 {
				break connPlans // every further failing history would wait out the settle time again
			}
			ops := c18GenConnHistory(rng, p.n, p.style)
			done, err := c18Lockstep(c, l, ops, "conn/"+p.style)
			if err != nil {
				return err
			}
			nf, nd := 0, 0
			for _, op := range ops[:done] {
				if strings.HasPrefix(op, "conn fail") {
					nf++
				}
				if strings.HasPrefix(op, "conn disc ") {
					nd++
				}
			}
			c.R.Case("conn|"+strings.Join(ops, ";"), nf > 0 && nd > 0)
			c.R.Count("conn:history:"+p.style, 1)
			c.R.Count("conn:ops", done)
			if len(c.R.Samples) < 10 && i == 0 {
				k := len(ops)
				if k > 12 {
					k = 12
				}
				c.R.Sample(map[string]any{"history": "conn/" + p.style, "first_ops": ops[:k]}, 10)
			}
		}
	}

	// (c) admission handlers + connection manager wired together as in server.go, lock-step
	type wplan struct {
		style string
		n     int
		count int
	}
	wplans := []wplan{{"mix", 140, 40}, {"fill", 260, 1}}
	if c.Thorough {
		wplans = []wplan{{"mix", 400, 250}, {"fill", 500, 8}}
	}
wired:
	for _, p := range wplans {
		for i := 0; i < p.count; i++ {
			ops, failed, err := c18WiredSession(c, l, "wire/"+p.style, nil, c18WiredGen(rng, p.style), p.n)
			if err != nil {
				return err
			}
			c.R.Count("wire:history:"+p.style, 1)
			c.R.Count("wire:ops", len(ops))
			if i == 0 {
				k := len(ops)
				if k > 12 {
					k = 12
				}
				c.R.Sample(map[string]any{"history": "wire/" + p.style, "first_ops": ops[:k]}, 12)
			}
			if failed {
				break wired // one failing history is enough; every further one would wait out the settle time
			}
		}
	}

	// (e) the real address manager (the connection manager's source of addresses), per op against the model
	nam, lam := 120, 70
	if c.Thorough {
		nam, lam = 1500, 120
	}
	for i := 0; i < nam; i++ {
		ops := c18AmGen(rng, lam)
		ok, err := c18AmRun(c, l, "addrmgr/gen", ops)
		if err != nil {
			return err
		}
		nb, ng := 0, 0
		for _, op := range ops {
			if strings.HasPrefix(op, "am ban") {
				nb++
			}
			if strings.HasPrefix(op, "am good") {
				ng++
			}
		}
		c.R.Case("am|"+strings.Join(ops, ";"), nb > 0 && ng > 0)
		c.R.Count("addrmgr:history", 1)
		c.R.Count("addrmgr:ops", len(ops))
		if i == 0 {
			c.R.Sample(map[string]any{"history": "addrmgr/gen", "first_ops": ops[:12]}, 14)
		}
		if !ok {
			break // a hung GetAddress keeps a CPU busy for the rest of the run: one failing history is enough
		}
	}

	// (d) connection manager, free-running
	nfree := 10
	if c.Thorough {
		nfree = 80
	}
	for i := 0; i < nfree && connBad() == bad0; i++ {
		c18FreeRun(c, rng, 1+rng.Intn(8), i%2 == 1, 3+rng.Intn(4))
	}
	c.R.ModelOps = l.Ops
	return nil
}
