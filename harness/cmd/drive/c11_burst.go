package main

// C11, a burst of ingestion behind a target that never answers: a webhook whose receiver accepts every POST and
// then says nothing (for longer than the burst lasts), a healthy webhook next to it and a plain recording channel.
// A linear chain longer than any plausible bound on pending deliveries is submitted back to back — what the sync of
// one `headers` message does. Oracle, the property's last clause: ingestion never stops making progress while
// deliveries to the silent target are pending (no submission may take seconds), every submission is stored, and the
// other two channels receive exactly one event per stored header while the silent deliveries are STILL pending.

import (
	"fmt"
	"io"
	"net/http"
	"net/http/httptest"
	"strings"
	"sync/atomic"
	"time"

	"github.com/bitcoin-sv/block-headers-service/verifharness/lib"
)

func c11Burst(c *Ctx) error {
	n := 1300
	if c.Thorough {
		n = 2600
	}
	var pending, gaveUp, okPosts atomic.Int64
	release := make(chan struct{})
	srv := httptest.NewServer(http.HandlerFunc(func(w http.ResponseWriter, r *http.Request) {
		_, _ = io.Copy(io.Discard, r.Body)
		if strings.HasPrefix(r.URL.Path, "/hang") {
			pending.Add(1)
			select {
			case <-release:
			case <-r.Context().Done():
				gaveUp.Add(1)
			}
			pending.Add(-1)
		} else {
			okPosts.Add(1)
		}
		w.WriteHeader(200)
	}))
	defer func() {
		close(release)
		srv.CloseClientConnections()
		srv.Close()
	}()
	ci, err := newChainImpl("c11-burst.db", lib.StackOpts{MaxTries: 1000000})
	if err != nil {
		return err
	}
	defer ci.Close()
	rec := &behavChannel{}
	ci.Svc.Notifier.AddChannel(rec)
	ci.Svc.Notifier.AddChannel(ci.Svc.Webhooks)
	for _, path := range []string{"/ok", "/hang"} { // table order: the healthy one is served first within one event
		if _, err := ci.Svc.Webhooks.CreateWebhook("BEARER", "", "t", srv.URL+path); err != nil {
			return fmt.Errorf("create webhook: %v", err)
		}
	}
	nodes := make([]Node, n)
	for i := range nodes {
		nodes[i] = Node{Parent: i - 1, Bits: bitsSmall[0]}
	}
	buildTree(nodes, 11700+uint32(c.Seed), nil, false)
	var done atomic.Int64
	finished := make(chan struct{})
	stored := 0
	go func() {
		defer close(finished)
		for i := range nodes {
			if strings.HasPrefix(ci.Op("add "+nodes[i].Hdr.Hex()), "stored") {
				stored++
			}
			done.Add(1)
		}
	}()
	// watcher: the longest time without a single submission being answered
	var worst time.Duration
	var worstAt, worstPending int64
	last, lastT := int64(0), time.Now()
	start := time.Now()
	stuck := false
loop:
	for {
		select {
		case <-finished:
			break loop
		case <-time.After(50 * time.Millisecond):
		}
		if d := done.Load(); d != last {
			last, lastT = d, time.Now()
		} else if idle := time.Since(lastT); idle > worst {
			worst, worstAt, worstPending = idle, d, pending.Load()
		}
		if time.Since(start) > 90*time.Second {
			stuck = true
			break loop
		}
	}
	took := time.Since(start)
	name := fmt.Sprintf("burst of %d headers behind a silent webhook target", n)
	ops := []string{fmt.Sprintf("# c11 burst: production webhook client; webhooks <loopback>/ok and, registered after it, <loopback>/hang (accepts the POST, never answers), plus a recording channel; a linear chain of %d headers (seed %d) submitted back to back", n, c.Seed)}
	c.R.Case(name, true)
	c.R.Count("burst ingestion behind a silent webhook target (headers)", n)
	c.R.Count("burst-ingest-ms", int(took.Milliseconds()))
	c.R.OracleChecked++
	if stuck || worst >= 4*time.Second {
		c.R.Fail(lib.Failure{Case: name, Ops: ops,
			What:      "ingestion stopped making progress while deliveries to a silent webhook target were pending: a slow channel blocks ingestion",
			Expected:  "every submission answered promptly (the longest gap between two answers well under a second)",
			Observed:  fmt.Sprintf("no submission answered for %s after %d of %d submissions, %d deliveries pending at the silent target at that time (whole burst: %s, finished=%v, deliveries the client gave up during the burst: %d)", worst.Round(100*time.Millisecond), worstAt, n, worstPending, took.Round(100*time.Millisecond), !stuck, gaveUp.Load()),
			Signature: "c11-ingestion-stalls-behind-slow-channel"})
		if stuck {
			return nil
		}
	}
	c.R.OracleChecked++
	if stored != n {
		c.R.Fail(lib.Failure{Case: name, Ops: ops, What: "not every header of the burst was stored", Expected: fmt.Sprint(n), Observed: fmt.Sprint(stored), Signature: "c11-burst-not-stored"})
		return nil
	}
	// the other channels: every event, with the silent deliveries still pending (nothing has been released)
	okRec := waitFor(func() bool { return len(rec.snapshot()) >= n }, 5*time.Second)
	okHook := waitFor(func() bool { return okPosts.Load() >= int64(n) }, 20*time.Second)
	time.Sleep(20 * time.Millisecond)
	c.R.OracleChecked++
	if !okRec || !okHook || len(rec.snapshot()) != n || okPosts.Load() != int64(n) {
		c.R.Fail(lib.Failure{Case: name, Ops: ops,
			What:      "while deliveries to a silent webhook target are pending, the other channels did not receive exactly one event per stored header",
			Expected:  fmt.Sprintf("%d events on the recording channel, %d POSTs at the healthy webhook", n, n),
			Observed:  fmt.Sprintf("%d events, %d POSTs (pending at the silent target: %d, given up: %d)", len(rec.snapshot()), okPosts.Load(), pending.Load(), gaveUp.Load()),
			Signature: "c11-events:burst-other-channels"})
	}
	return nil
}
