package main

// C18 part (c): admission handlers and connection manager WIRED TOGETHER as in server.go.
//
// The real server (handleAddPeerMsg / handleDonePeerMsg / handleBanPeerMsg, through the build
// overlay) owns the real connmgr.ConnManager (`s.connManager`); every outbound serverPeer
// carries the real *connmgr.ConnReq (`sp.connReq`) of the connection it was built for, the way
// outboundPeerConnected does it. The connection manager runs in lock-step (requests block in
// GetNewAddress until the script hands them an address and a dial result). One event at a time:
//
//   wire ok <k> <host> <group>   k-th request in flight dials <host> successfully → OnConnection →
//                                real outbound peer.Peer, version handshake → handleAddPeerMsg;
//                                a refused peer is disconnected by the handler and then — like
//                                peerDoneHandler does — handed to handleDonePeerMsg
//   wire fail <k> <host> | wire addrfail <k>
//   wire done <j>                j-th admitted outbound peer disconnects → handleDonePeerMsg
//   wire in <host> <group> | wire indone <j>      inbound peers (to reach the per-host / total limit)
//   wire ban <host> | wire clock <ticks> | wire dump
//
// After every event the observable state is compared with the composed Lean model
// (BHS.Model.PeerWire) and the oracle demands: established + in-flight requests = target.

import (
	"fmt"
	"math/rand"
	"net"
	"strconv"
	"strings"
	"time"

	"github.com/bitcoin-sv/block-headers-service/internal/chaincfg"
	"github.com/bitcoin-sv/block-headers-service/internal/wire"
	"github.com/bitcoin-sv/block-headers-service/transports/p2p"
	"github.com/bitcoin-sv/block-headers-service/transports/p2p/addrmgr"
	"github.com/bitcoin-sv/block-headers-service/transports/p2p/peer"
	"github.com/bitcoin-sv/block-headers-service/verifharness/lib"
)

const (
	c18SigWiredSlot = "c18-wired-outbound-slot-not-refilled"
	c18WireHosts    = 32
	c18WireSettle   = 20 * time.Second // only ever waited out when something is wrong
)

type c18WireRig struct {
	pr     *c18PeerRig
	cr     *c18CmRig
	target int
	out    []*c18RigPeer
	inb    []*c18RigPeer
	npeers int
}

// address universes of the wired stream: what GetNewAddress hands out (and what inbound peers
// come from). Several textual families, see c18FamilySpecs.
var c18WireSpecs = []string{"50.1.1.7", "2a01:4f8::1", "2A01:4F8::1", "fe80::1%eth0", "::ffff:52.1.1.7", "10.0.0.9"}

func c18NewWireRig(target int, fill bool) (*c18WireRig, error) {
	specs := c18WireSpecs
	if fill {
		specs = nil
		for i := 0; i < c18WireHosts; i++ {
			specs = append(specs, fmt.Sprintf("10.7.%d.1", i))
		}
	}
	pr := c18NewPeerRigSpecs(specs)
	if len(pr.hostIPs) > c18WireHosts || len(pr.groups) > 8 {
		return nil, fmt.Errorf("wired universe too large for the model's state line: %d hosts, %d groups", len(pr.hostIPs), len(pr.groups))
	}
	cr, err := c18NewCmRig(target, true, true, time.Millisecond)
	if err != nil {
		return nil, err
	}
	for _, sp := range specs {
		cr.addrText = append(cr.addrText, net.JoinHostPort(sp, "8333"))
	}
	p2p.VerifSetConnManager(pr.srv, cr.cm)
	return &c18WireRig{pr: pr, cr: cr, target: target}, nil
}

// inKey: the admission key of an inbound peer coming from address `spec`.
func (w *c18WireRig) inKey(spec int) int {
	h, _, _ := net.SplitHostPort(c18SpecTCP(w.pr.specs[spec], 1).String())
	return w.pr.keyIdx[h]
}

// groupOf: the outbound-group index of a peer of address `spec`.
func (w *c18WireRig) groupOf(spec int, inbound bool) int {
	ip := net.ParseIP(w.pr.specs[spec])
	if inbound {
		ip = c18SpecTCP(w.pr.specs[spec], 1).IP
	}
	return w.pr.groupIdx[addrmgr.GroupKey(wire.NewNetAddressIPPort(ip, 8333, 0))]
}

func (w *c18WireRig) stop() {
	w.cr.stop()
	w.pr.closeAll()
}

// line renders the observable state like the Lean driver's `wireLine`.
func (w *c18WireRig) line(res string) string {
	s := p2p.VerifSnap(w.pr.st)
	var cc, og []string
	for i, ip := range w.pr.hostIPs {
		if v := s.ConnectionCount[ip]; v != 0 {
			cc = append(cc, fmt.Sprintf("%d:%d", i, v))
		}
	}
	for i, g := range w.pr.groups {
		if v := s.OutboundGroups[g]; v != 0 {
			og = append(og, fmt.Sprintf("%d:%d", i, v))
		}
	}
	w.cr.mu.Lock()
	defer w.cr.mu.Unlock()
	return fmt.Sprintf("%s conns=%d live=%d closed=%d dials=%d asks=%d out=%d inb=%d n=%d cc=[%s] og=[%s]", res, len(w.cr.est), len(w.cr.waiting),
		len(w.cr.closed), w.cr.dials, w.cr.asks, len(w.out), len(w.inb), s.Count, strings.Join(cc, ","), strings.Join(og, ","))
}

func (w *c18WireRig) slots() (est, waiting int) {
	w.cr.mu.Lock()
	defer w.cr.mu.Unlock()
	return len(w.cr.est), len(w.cr.waiting)
}

// release hands the k-th waiting request its address and dial result.
func (w *c18WireRig) release(k int, resp c18CmGateResp) bool {
	w.cr.mu.Lock()
	defer w.cr.mu.Unlock()
	if k >= len(w.cr.waiting) {
		return false
	}
	g := w.cr.waiting[k]
	w.cr.waiting = append(w.cr.waiting[:k:k], w.cr.waiting[k+1:]...)
	g.ch <- resp
	return true
}

// exec runs one op on the implementation; returns the result word ("-" when the op has none).
func (w *c18WireRig) exec(op string) (res string, badIndex bool, err error) {
	f := strings.Fields(op)
	num := func(k int) int { n, _ := strconv.Atoi(f[k]); return n }
	res = "-"
	admit := func(rp *c18RigPeer) string {
		if p2p.VerifAddPeer(w.pr.srv, w.pr.st, rp.sp) {
			return "admitted"
		}
		// the handler has called sp.Disconnect(); peerDoneHandler now reports the peer as done
		r := "rejected:" + c18Reason(rp.logbuf.String())
		p2p.VerifDonePeer(w.pr.srv, w.pr.st, rp.sp)
		return r
	}
	switch f[1] {
	case "new", "dump":
	case "ok":
		w.cr.mu.Lock()
		before := len(w.cr.est)
		seen := map[uint64]bool{}
		for _, e := range w.cr.est {
			seen[e.id] = true
		}
		w.cr.mu.Unlock()
		if !w.release(num(2), c18CmGateResp{addr: num(3), ok: true}) {
			return res, true, nil
		}
		if ok, line := w.cr.waitFor(c18CmQuiesce, func() bool { return len(w.cr.est) == before+1 }); !ok {
			return res, false, fmt.Errorf("OnConnection did not arrive after %q: %s", op, line)
		}
		var req c18CmEst
		w.cr.mu.Lock()
		for _, e := range w.cr.est {
			if !seen[e.id] {
				req = e
			}
		}
		w.cr.mu.Unlock()
		w.npeers++
		rp, err := w.pr.newPeer(fmt.Sprintf("#w%d", w.npeers), "out", num(3), true, w.pr.hsVerack, nil)
		if err != nil {
			return res, false, err
		}
		if rp.group != num(4) || rp.host != num(3) {
			return res, false, fmt.Errorf("host/group of address %d are %d/%d, op says %d/%d", num(3), rp.host, rp.group, num(3), num(4))
		}
		p2p.VerifSetConnReq(rp.sp, req.req) // outboundPeerConnected: sp.connReq = c
		res = admit(rp)
		if res == "admitted" {
			w.out = append(w.out, rp)
		}
	case "fail":
		if !w.release(num(2), c18CmGateResp{addr: num(3), ok: false}) {
			return res, true, nil
		}
	case "addrfail":
		if !w.release(num(2), c18CmGateResp{addrErr: true}) {
			return res, true, nil
		}
	case "done":
		j := num(2)
		if j >= len(w.out) {
			return res, true, nil
		}
		rp := w.out[j]
		w.out = append(w.out[:j:j], w.out[j+1:]...)
		rp.sp.Disconnect()
		p2p.VerifDonePeer(w.pr.srv, w.pr.st, rp.sp)
	case "in":
		spec := -1
		for i := range w.pr.specs {
			if w.inKey(i) == num(2) {
				spec = i
				break
			}
		}
		if spec < 0 {
			return res, false, fmt.Errorf("no address whose inbound key is host %d: %q", num(2), op)
		}
		w.npeers++
		rp, err := w.pr.newPeer(fmt.Sprintf("#w%d", w.npeers), "in", spec, true, w.pr.hsVerack, nil)
		if err != nil {
			return res, false, err
		}
		if rp.host != num(2) {
			return res, false, fmt.Errorf("inbound key of %q is host %d, op says %d", op, rp.host, num(2))
		}
		res = admit(rp)
		if res == "admitted" {
			w.inb = append(w.inb, rp)
		}
	case "indone":
		j := num(2)
		if j >= len(w.inb) {
			return res, true, nil
		}
		rp := w.inb[j]
		w.inb = append(w.inb[:j:j], w.inb[j+1:]...)
		rp.sp.Disconnect()
		p2p.VerifDonePeer(w.pr.srv, w.pr.st, rp.sp)
	case "ban":
		nop := lib.DiscardLog()
		bp, err := peer.NewOutboundPeer(&peer.Config{Log: &nop, ChainParams: &chaincfg.MainNetParams}, net.JoinHostPort(w.pr.hostIPs[num(2)], "8333"))
		if err != nil {
			return res, false, err
		}
		p2p.VerifBanPeer(w.pr.srv, w.pr.st, bp)
	case "clock":
		p2p.VerifAdvanceClock(w.pr.st, time.Duration(num(2))*c18Tick)
	default:
		return res, false, fmt.Errorf("bad wire op %q", op)
	}
	return res, false, nil
}

// c18WiredSession: one wired history. `next` produces the following op from the observable
// state (nil = replay of `fixed` ops). Returns the ops executed and whether the property failed.
func c18WiredSession(c *Ctx, l *lib.Lean, name string, fixed []string, next func(w *c18WireRig) string, n int) (ops []string, failed bool, err error) {
	first := ""
	if fixed != nil {
		first = fixed[0]
	} else {
		first = next(nil)
	}
	f := strings.Fields(first)
	if (len(f) != 4 && len(f) != 5) || f[0] != "wire" || f[1] != "new" {
		return nil, false, fmt.Errorf("wired history must start with `wire new <target> <banTicks>`: %q", first)
	}
	target, _ := strconv.Atoi(f[2])
	eff := target
	if eff == 0 {
		eff = 8
	}
	w, err := c18NewWireRig(target, len(f) == 5 && f[4] == "fill")
	if err != nil {
		return nil, false, err
	}
	defer w.stop()
	w.cr.cm.Start()
	refused := map[string]bool{}
	for i := 0; ; i++ {
		var op string
		switch {
		case i == 0:
			op = first
		case fixed != nil:
			if i >= len(fixed) {
				return ops, false, nil
			}
			op = fixed[i]
		default:
			if i >= n {
				c.R.Case("wire|"+strings.Join(ops, ";"), refused["rejected:banned"] || refused["rejected:perhost"] || refused["rejected:total"])
				for k := range refused {
					c.R.Count("wire:"+k, 1)
				}
				return ops, false, nil
			}
			op = next(w)
		}
		ops = append(ops, op)
		mop := op
		if i == 0 && len(f) == 5 {
			mop = strings.Join(f[:4], " ") // the universe is the harness' business
		}
		model, err := l.Ask(mop)
		if err != nil {
			return ops, false, err
		}
		res, bad, err := w.exec(op)
		if err != nil {
			return ops, false, err
		}
		if bad {
			if !strings.HasPrefix(model, "- ") && !strings.HasPrefix(model, "bad") {
				c.R.Disagree(lib.Disagreement{Case: name, Ops: ops, Op: op, Impl: "bad-index", Model: model})
				return ops, true, nil
			}
			continue
		}
		if strings.HasPrefix(res, "rejected:") {
			refused[res] = true
		}
		mline := model
		if strings.HasPrefix(res, "rejected:? ") || res == "rejected:?" {
			if j := strings.Index(model, " "); j > 0 && strings.HasPrefix(model, "rejected:") {
				mline = "rejected:?" + model[j:]
			}
		}
		// quiescence: the observable state reaches the model's; the oracle is judged on its own
		deadline := time.Now().Add(c18WireSettle)
		line := ""
		for spin := 0; ; spin++ {
			line = w.line(res)
			if line == mline || time.Now().After(deadline) {
				break
			}
			switch {
			case spin < 200:
				time.Sleep(50 * time.Microsecond)
			case spin < 400:
				time.Sleep(time.Millisecond)
			default:
				time.Sleep(10 * time.Millisecond)
			}
		}
		c.R.TracesValidated++
		c.R.OracleChecked++
		est, waiting := w.slots()
		w.cr.mu.Lock()
		maxOpen := w.cr.maxOpen
		w.cr.mu.Unlock()
		if maxOpen > eff {
			c.R.Fail(lib.Failure{Case: name, Ops: ops, What: "more outbound connections open at once than TargetOutbound", Expected: fmt.Sprint("<= ", eff), Observed: fmt.Sprint(maxOpen), Signature: "c18-target-exceeded"})
			failed = true
		}
		if est+waiting != eff {
			c.R.Fail(lib.Failure{Case: name, Ops: ops,
				What:     "server and connection manager wired together: after this event the number of established outbound connections plus connection requests in flight stays below the target — the connection manager has stopped asking for addresses for a slot",
				Expected: fmt.Sprintf("established + in flight = %d", eff), Observed: fmt.Sprintf("established=%d in flight=%d after %q (%s); state: %s", est, waiting, op, res, line), Signature: c18SigWiredSlot})
			failed = true
		}
		if line != mline {
			c.R.Disagree(lib.Disagreement{Case: name, Ops: ops, Op: op, Impl: line, Model: model})
			failed = true
		}
		if failed {
			return ops, true, nil
		}
	}
}

// c18WiredGen: seeded online generator (indices are drawn from the observable state).
func c18WiredGen(rng *rand.Rand, style string) func(w *c18WireRig) string {
	target := 1 + rng.Intn(4)
	var lastBanned []int
	filled := 0
	return func(w *c18WireRig) string {
		if w == nil {
			if style == "fill" {
				return fmt.Sprintf("wire new %d %d fill", target, c18BanTicks)
			}
			return fmt.Sprintf("wire new %d %d", target, c18BanTicks)
		}
		nhosts := len(w.pr.specs)
		_, live := w.slots()
		host := func() int {
			if len(lastBanned) > 0 && rng.Intn(2) == 0 {
				return lastBanned[rng.Intn(len(lastBanned))] // the address book knows nothing about server-side bans
			}
			return rng.Intn(nhosts)
		}
		in := func(spec int) string { return fmt.Sprintf("wire in %d %d", w.inKey(spec), w.groupOf(spec, true)) }
		if style == "fill" && filled < 135 {
			filled++
			return in((filled * 7) % nhosts)
		}
		for {
			x := rng.Intn(100)
			switch {
			case x < 36 && live > 0:
				h := host()
				return fmt.Sprintf("wire ok %d %d %d", rng.Intn(live), h, w.groupOf(h, false))
			case x < 46 && live > 0:
				return fmt.Sprintf("wire fail %d %d", rng.Intn(live), host())
			case x < 49 && live > 0:
				return fmt.Sprintf("wire addrfail %d", rng.Intn(live))
			case x < 62 && len(w.out) > 0:
				return fmt.Sprintf("wire done %d", rng.Intn(len(w.out)))
			case x < 74:
				return in(host())
			case x < 80 && len(w.inb) > 0:
				return fmt.Sprintf("wire indone %d", rng.Intn(len(w.inb)))
			case x < 90:
				h := rng.Intn(nhosts)
				lastBanned = append(lastBanned, h)
				if len(lastBanned) > 2 {
					lastBanned = lastBanned[1:]
				}
				return fmt.Sprintf("wire ban %d", h)
			case x < 96:
				dts := []int{1, 5, 12, 23, 24, 25}
				return fmt.Sprintf("wire clock %d", dts[rng.Intn(len(dts))])
			case x < 100:
				return "wire dump"
			}
		}
	}
}
