package main

// C01 on a store that was started from a prepared file: everything the other streams do begins on an empty database
// filled header by header; a production database usually begins with the start-up import. Here a chain is exported,
// imported into a fresh database by database.Init (prepared_db = true, checkpoint at its tip), and THEN a heavier
// branch forking off near genesis, an orphan and a duplicate are submitted. Oracle only (the Lean model starts from the
// table the import left, which C17 checks): every submission is stored, the heavier branch becomes the longest chain,
// the imported branch goes STALE, a re-submission is a duplicate.

import (
	"fmt"
	"os"
	"path/filepath"
	"strings"

	"github.com/bitcoin-sv/block-headers-service/internal/chaincfg"
	"github.com/bitcoin-sv/block-headers-service/internal/chaincfg/chainhash"
	"github.com/bitcoin-sv/block-headers-service/verifharness/lib"
)

func c01ImportedThenFork(c *Ctx) error {
	const nA, nB = 6, 7
	var nodes []Node
	for i := 0; i < nA; i++ { // A1..A6
		nodes = append(nodes, Node{Parent: i - 1, Bits: bitsSmall[1]})
	}
	for i := 0; i < nB; i++ { // B2..B8 on A1: one header more than what remains of A, same work each
		par := nA + i - 1
		if i == 0 {
			par = 0
		}
		nodes = append(nodes, Node{Parent: par, Bits: bitsSmall[1]})
	}
	nodes = append(nodes, Node{Parent: -2, Bits: bitsSmall[1]}) // an orphan
	buildTree(nodes, 5150+uint32(c.Seed), nil, false)
	src, err := newChainImpl("c01-imp-src.db", lib.StackOpts{NoEngine: true})
	if err != nil {
		return err
	}
	for i := 0; i < nA; i++ {
		src.Op("add " + nodes[i].Hdr.Hex())
	}
	srcFile := src.file
	src.Close()
	out := filepath.Join(lib.WorkDir(), "c01-imp.csv.gz")
	_ = os.Remove(out)
	name := "store started from a prepared file, then a heavier fork"
	ops := []string{fmt.Sprintf("# c01 imported: A1..A%d exported and imported by database.Init (prepared_db=true, checkpoint at A%d); then B2..B%d on A1, an orphan, and B2 again are submitted (seed %d)", nA, nA, nB+1, c.Seed)}
	fail := func(what, exp, obs, sig string) {
		c.R.Fail(lib.Failure{Case: name, Ops: ops, What: what, Expected: exp, Observed: obs, Signature: sig})
	}
	c.R.Case(name, true)
	c.R.Count("store started from a prepared file, then forks", 1)
	if err := c17Export(srcFile, out); err != nil {
		return nil // export is C17's business
	}
	th, err := chainhash.NewHashFromStr(nodes[nA-1].Hdr.HashStr())
	if err != nil {
		return err
	}
	dst := lib.TempDB("c01-imp-dst.db")
	if class, _ := c17Start(dst, out, []chaincfg.Checkpoint{{Height: int32(nA), Hash: th}}); class != "" {
		return nil // a refused import is C17's business
	}
	ci := &ChainImpl{file: dst}
	ci.opts = lib.StackOpts{File: dst, NoEngine: true}
	if err := ci.open(); err != nil {
		return err
	}
	defer ci.Close()
	for i := nA; i < len(nodes); i++ {
		out := ci.Op("add " + nodes[i].Hdr.Hex())
		c.R.OracleChecked++
		if !strings.HasPrefix(out, "stored") {
			fail(fmt.Sprintf("submission %d after the import (a header at a height the imported chain already occupies / an orphan) was not stored", i-nA+1), "stored …", out, "c01-imported-then-fork:not-stored")
		}
	}
	again := ci.Op("add " + nodes[nA].Hdr.Hex())
	c.R.OracleChecked++
	if strings.HasPrefix(again, "stored") {
		fail("a header submitted a second time was answered 'stored' again", "duplicate", again, "c01-imported-then-fork:duplicate-stored")
	}
	rows, err := ci.Dump()
	if err != nil {
		return err
	}
	by := map[string]string{}
	for _, r := range rows {
		by[r.Hash] = r.State
	}
	c.R.OracleChecked++
	var wrong []string
	for i := range nodes {
		want := "LONGEST_CHAIN"
		switch {
		case i >= 1 && i < nA:
			want = "STALE"
		case i == len(nodes)-1:
			want = "ORPHAN"
		}
		if got := by[nodes[i].Hdr.HashStr()]; got != want {
			if got == "" {
				got = "absent"
			}
			wrong = append(wrong, fmt.Sprintf("node %d: %s (expected %s)", i, got, want))
		}
	}
	if len(wrong) > 0 {
		fail("after a heavier branch was submitted to a store that began with the start-up import, the labels are not the greatest-work chain", "A1 + B2.. LONGEST_CHAIN, A2.. STALE, the orphan ORPHAN", strings.Join(wrong, "; "), "c01-imported-then-fork:labels")
	}
	if tip := ci.Op("tip"); !strings.Contains(tip, nodes[nA+nB-1].Hdr.HashStr()) {
		fail("the reported tip is not the greatest-work header", nodes[nA+nB-1].Hdr.HashStr(), abbrevMid(tip), "c01-imported-then-fork:tip")
	}
	return nil
}
