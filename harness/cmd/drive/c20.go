package main

// C20 — configuration precedence (environment over file over defaults, for every key)
// and refusal of invalid database sections at validation.
//
// The runner is single-threaded: it mutates the process environment, os.Args, the
// working directory and viper's global instance, exactly as a start of the service does,
// and restores all of them afterwards.
//
// Runner-level operation lines (Failure.Ops, replay files, known-finding witnesses);
// strings travel as x<hex of the bytes>, an absent source as `-`:
//
//   load <select> (<key> <envLiteral|-> <envCanon|-> <yamlScalar|-> <fileCanon|->)+
//       select  = flag | longflag | envvar | cwd | none   (how the config file is selected;
//                 `none` = no file at all).  envLiteral is the content of BHS_<KEY>,
//                 yamlScalar the scalar text written in the YAML file; the *Canon fields
//                 are the canonical renderings of the typed values they denote.
//   validate <engine> <sqlitePath> <pgHost> <pgPort> <pgUser> <pgDb> <prepared:0|1> <preparedPath:empty|exists|missing|dir|notdir|toolong>
//   badload <key> <env|file> <literal>      (a value that is NOT of the key's type; oracle only)

import (
	"encoding/hex"
	"encoding/json"
	"fmt"
	"math/rand"
	"os"
	"path/filepath"
	"reflect"
	"regexp"
	"sort"
	"strconv"
	"strings"
	"time"

	"github.com/bitcoin-sv/block-headers-service/cli"
	"github.com/bitcoin-sv/block-headers-service/config"
	"github.com/bitcoin-sv/block-headers-service/verifharness/lib"
	"github.com/rs/zerolog"
	"github.com/spf13/viper"
)

func init() { runners["C20"] = runC20 }

// c20DefaultsVersion is what cmd/main.go passes to SetDefaults without -ldflags (same constant as the extractor).
const c20DefaultsVersion = "development"

// ---------------------------------------------------------------------------
// key table by reflection at run time

type c20Key struct {
	Key, Kind, GoType, Default string
	Path                       []int
	Type                       reflect.Type
}

var c20DurationType = reflect.TypeOf(time.Duration(0))

func c20Kind(t reflect.Type) string {
	if t == c20DurationType {
		return "duration"
	}
	switch t.Kind() {
	case reflect.String:
		if t.PkgPath() != "" {
			return "enum"
		}
		return "string"
	case reflect.Bool:
		return "bool"
	case reflect.Int, reflect.Int8, reflect.Int16, reflect.Int32, reflect.Int64:
		return fmt.Sprintf("int%d", t.Bits())
	case reflect.Uint, reflect.Uint8, reflect.Uint16, reflect.Uint32, reflect.Uint64:
		return fmt.Sprintf("uint%d", t.Bits())
	}
	return "other"
}

func c20Canon(v reflect.Value) string {
	for v.IsValid() && (v.Kind() == reflect.Ptr || v.Kind() == reflect.Interface) {
		if v.IsNil() {
			return "<nil>"
		}
		v = v.Elem()
	}
	if !v.IsValid() {
		return "<nil>"
	}
	switch v.Kind() {
	case reflect.String:
		return v.String()
	case reflect.Bool:
		return fmt.Sprint(v.Bool())
	case reflect.Int, reflect.Int8, reflect.Int16, reflect.Int32, reflect.Int64:
		return fmt.Sprint(v.Int())
	case reflect.Uint, reflect.Uint8, reflect.Uint16, reflect.Uint32, reflect.Uint64:
		return fmt.Sprint(v.Uint())
	}
	return fmt.Sprintf("%v", v.Interface())
}

func c20Walk(v reflect.Value, prefix string, path []int, out *[]c20Key) {
	for v.Kind() == reflect.Ptr {
		if v.IsNil() {
			v = reflect.New(v.Type().Elem())
		}
		v = v.Elem()
	}
	t := v.Type()
	for i := 0; i < t.NumField(); i++ {
		f := t.Field(i)
		if !f.IsExported() {
			continue
		}
		name, opts, _ := strings.Cut(f.Tag.Get("mapstructure"), ",")
		if name == "-" {
			continue
		}
		if name == "" {
			name = f.Name
		}
		ft := f.Type
		for ft.Kind() == reflect.Ptr {
			ft = ft.Elem()
		}
		p := append(append([]int{}, path...), i)
		if ft.Kind() == reflect.Struct {
			np := prefix + strings.ToLower(name) + "."
			if strings.Contains(opts, "squash") {
				np = prefix
			}
			c20Walk(v.Field(i), np, p, out)
			continue
		}
		*out = append(*out, c20Key{Key: prefix + strings.ToLower(name), Kind: c20Kind(ft), GoType: ft.String(), Default: c20Canon(v.Field(i)), Path: p, Type: ft})
	}
}

func c20Keys() []c20Key {
	var ks []c20Key
	c20Walk(reflect.ValueOf(config.GetDefaultAppConfig()), "", nil, &ks)
	sort.Slice(ks, func(i, j int) bool { return ks[i].Key < ks[j].Key })
	return ks
}

// c20Get reads the field of key k out of a loaded configuration.
func c20Get(cfg *config.AppConfig, k c20Key) string {
	v := reflect.ValueOf(cfg)
	for _, i := range k.Path {
		for v.Kind() == reflect.Ptr {
			if v.IsNil() {
				return "<nil>"
			}
			v = v.Elem()
		}
		v = v.Field(i)
	}
	return c20Canon(v)
}

func c20EnvName(key string) string {
	return strings.ToUpper(config.ConfigEnvPrefix + "_" + strings.ReplaceAll(key, ".", "_"))
}

func c20Enc(s string) string { return "x" + hex.EncodeToString([]byte(s)) }

func c20Dec(s string) (string, bool) {
	if !strings.HasPrefix(s, "x") {
		return "", false
	}
	b, err := hex.DecodeString(s[1:])
	return string(b), err == nil
}

func c20Opt(p *string) string {
	if p == nil {
		return "-"
	}
	return c20Enc(*p)
}

// ---------------------------------------------------------------------------
// values of a key's type: typed value -> (canonical, env literal, YAML scalar)

type c20Val struct {
	Canon string // canonical rendering of the typed value
	Env   string // content of the environment variable
	Yaml  string // scalar text in the YAML file
}

var c20PlainRe = regexp.MustCompile(`^[A-Za-z][A-Za-z0-9_./-]*$`)
var c20YamlWords = map[string]bool{"true": true, "false": true, "null": true, "yes": true, "no": true, "on": true, "off": true, "y": true, "n": true}

// c20YamlString renders a string as a YAML double-quoted scalar (JSON escapes are valid
// YAML escapes) or, when harmless and `plain` is asked for, as a plain scalar.
func c20YamlString(s string, plain bool) string {
	if plain && c20PlainRe.MatchString(s) && !c20YamlWords[strings.ToLower(s)] {
		return s
	}
	var b strings.Builder
	b.WriteByte('"')
	for _, r := range s {
		switch {
		case r == '"':
			b.WriteString(`\"`)
		case r == '\\':
			b.WriteString(`\\`)
		case r == '\n':
			b.WriteString(`\n`)
		case r == '\t':
			b.WriteString(`\t`)
		case r == '\r':
			b.WriteString(`\r`)
		case r < 0x20 || r == 0x7f || r == 0x85 || r == 0x2028 || r == 0x2029 || r == 0xfeff:
			fmt.Fprintf(&b, `\u%04x`, r)
		default:
			b.WriteRune(r)
		}
	}
	b.WriteByte('"')
	return b.String()
}

var c20OddStrings = []string{
	"x", "some-value", "with space", " lead", "trail ", "a#b", " # not a comment", "k: v", `quo"te`, "single'q", "üñí✓→", "日本語",
	"tab\there", "multi\nline", "123", "0", "-7", "1e3", "true", "false", "null", "~", "0x1f", "010", "a,b,c", "${HOME}", "$HOME", "%41%20",
	"-", "--flag", "[1, 2]", "{a: b}", "back\\slash", "a=b", "!tag", "&anchor", "*alias", "|", ">", "@at", "`tick`", "/abs/path/to/file.db",
	"postgres://u:p@h:5/db?sslmode=disable", "very" + strings.Repeat("-long", 60),
}

func c20RandString(rng *rand.Rand) string {
	const al = "abcdefghijklmnopqrstuvwxyzABCDEFGHIJKLMNOPQRSTUVWXYZ0123456789_-./: #'\"\\,[]{}!&*%$@=ü✓"
	rs := []rune(al)
	n := 1 + rng.Intn(24)
	var b strings.Builder
	for i := 0; i < n; i++ {
		b.WriteRune(rs[rng.Intn(len(rs))])
	}
	return b.String()
}

func c20StrVal(rng *rand.Rand, s string) c20Val {
	return c20Val{Canon: s, Env: s, Yaml: c20YamlString(s, rng.Intn(2) == 0)}
}

var c20LogLevels = []string{"trace", "debug", "info", "warn", "error", "fatal", "panic", "disabled", "INFO", "Warn"}
var c20EnumValues = map[string][]string{
	"config.DbEngine":    {"sqlite", "postgres", "mysql", "SQLITE", "postgresql"},
	"config.NetworkType": {"mainnet", "testnet", "regtest", "simnet", "foonet", "MainNet"},
}

func c20DurVal(rng *rand.Rand, d time.Duration) c20Val {
	spell := d.String()
	if d%time.Second == 0 && rng.Intn(2) == 0 {
		spell = fmt.Sprintf("%ds", int64(d/time.Second))
	}
	y := spell
	if rng.Intn(2) == 0 {
		y = `"` + spell + `"`
	}
	return c20Val{Canon: fmt.Sprint(int64(d)), Env: spell, Yaml: y}
}

// c20Pool returns values of key k's type: a fixed lattice plus n random ones.
func c20Pool(rng *rand.Rand, k c20Key, n int) []c20Val {
	var vs []c20Val
	switch {
	case k.Key == "logging.level":
		// config.Load builds the logger: the level must be one zerolog.ParseLevel accepts
		for _, s := range c20LogLevels {
			vs = append(vs, c20StrVal(rng, s))
		}
	case k.Kind == "string":
		for _, s := range c20OddStrings {
			vs = append(vs, c20StrVal(rng, s))
		}
		for i := 0; i < n; i++ {
			vs = append(vs, c20StrVal(rng, c20RandString(rng)))
		}
	case k.Kind == "enum":
		for _, s := range c20EnumValues[k.GoType] {
			vs = append(vs, c20StrVal(rng, s))
		}
		for _, s := range c20OddStrings[:8] {
			vs = append(vs, c20StrVal(rng, s))
		}
		for i := 0; i < n/2; i++ {
			vs = append(vs, c20StrVal(rng, c20RandString(rng)))
		}
	case k.Kind == "bool":
		for _, e := range []string{"true", "false", "1", "0", "TRUE", "FALSE", "True", "False", "t", "f", "T", "F"} {
			b, _ := strconv.ParseBool(e)
			y := fmt.Sprint(b)
			if rng.Intn(2) == 0 {
				y = `"` + e + `"` // a quoted spelling: weakly decoded like the environment's strings
			}
			vs = append(vs, c20Val{Canon: fmt.Sprint(b), Env: e, Yaml: y})
		}
	case strings.HasPrefix(k.Kind, "int"):
		bits := k.Type.Bits()
		max := int64(1)<<(bits-1) - 1
		for _, x := range []int64{0, 1, -1, -5, 7, 80, 255, 65535, 65536, 1000000, max, -max - 1} {
			if x > max || x < -max-1 {
				continue
			}
			vs = append(vs, c20Val{Canon: fmt.Sprint(x), Env: fmt.Sprint(x), Yaml: fmt.Sprint(x)})
		}
		for i := 0; i < n; i++ {
			x := rng.Int63n(max) - rng.Int63n(max)
			if rng.Intn(2) == 0 {
				x = int64(rng.Intn(100000)) - 1000
			}
			vs = append(vs, c20Val{Canon: fmt.Sprint(x), Env: fmt.Sprint(x), Yaml: fmt.Sprint(x)})
		}
	case strings.HasPrefix(k.Kind, "uint"):
		bits := k.Type.Bits()
		max := uint64(1)<<bits - 1
		if bits == 64 {
			max = ^uint64(0)
		}
		for _, x := range []uint64{0, 1, 80, 255, 5432, 65535, 65536, max} {
			if x > max {
				continue
			}
			vs = append(vs, c20Val{Canon: fmt.Sprint(x), Env: fmt.Sprint(x), Yaml: fmt.Sprint(x)})
		}
		for i := 0; i < n; i++ {
			x := rng.Uint64() % (max + 1)
			if max == ^uint64(0) {
				x = rng.Uint64()
			}
			vs = append(vs, c20Val{Canon: fmt.Sprint(x), Env: fmt.Sprint(x), Yaml: fmt.Sprint(x)})
		}
	case k.Kind == "duration":
		for _, d := range []time.Duration{0, 1, 90 * time.Second, 24 * time.Hour, 90 * time.Minute, 1500 * time.Millisecond, -5 * time.Second, 250 * time.Microsecond, 1000 * time.Hour} {
			vs = append(vs, c20DurVal(rng, d))
		}
		for i := 0; i < n; i++ {
			vs = append(vs, c20DurVal(rng, time.Duration(rng.Int63n(int64(72*time.Hour)))))
		}
	}
	return vs
}

// ---------------------------------------------------------------------------
// cases

type c20Item struct {
	Key       string
	Env       *string // literal content of BHS_<KEY>
	EnvCanon  string
	Yaml      *string // scalar text in the file
	FileCanon string
}

type c20Case struct {
	Op    string
	Kind  string // load | validate | badload
	Sel   string
	Items []c20Item
	Db    c20Db
	Bad   [3]string // key, source, literal
}

type c20Db struct {
	Engine, SqlitePath, Host string
	Port                     uint16
	User, DbName             string
	Prepared                 bool
	PrepKind                 string
}

func c20LoadOp(sel string, items []c20Item) string {
	w := []string{"load", sel}
	for _, it := range items {
		ec, fc := "-", "-"
		if it.Env != nil {
			ec = c20Enc(it.EnvCanon)
		}
		if it.Yaml != nil {
			fc = c20Enc(it.FileCanon)
		}
		w = append(w, it.Key, c20Opt(it.Env), ec, c20Opt(it.Yaml), fc)
	}
	return strings.Join(w, " ")
}

func c20ValidateOp(d c20Db) string {
	p := "0"
	if d.Prepared {
		p = "1"
	}
	return strings.Join([]string{"validate", c20Enc(d.Engine), c20Enc(d.SqlitePath), c20Enc(d.Host), fmt.Sprint(d.Port), c20Enc(d.User), c20Enc(d.DbName), p, d.PrepKind}, " ")
}

func c20ParseOp(op string) (c20Case, error) {
	w := strings.Fields(op)
	cs := c20Case{Op: op}
	bad := fmt.Errorf("c20: cannot parse op %q", op)
	if len(w) == 0 {
		return cs, bad
	}
	switch w[0] {
	case "load":
		if len(w) < 2 || (len(w)-2)%5 != 0 {
			return cs, bad
		}
		cs.Kind, cs.Sel = "load", w[1]
		for i := 2; i < len(w); i += 5 {
			it := c20Item{Key: w[i]}
			if w[i+1] != "-" {
				s, ok := c20Dec(w[i+1])
				c, ok2 := c20Dec(w[i+2])
				if !ok || !ok2 {
					return cs, bad
				}
				it.Env, it.EnvCanon = &s, c
			}
			if w[i+3] != "-" {
				s, ok := c20Dec(w[i+3])
				c, ok2 := c20Dec(w[i+4])
				if !ok || !ok2 {
					return cs, bad
				}
				it.Yaml, it.FileCanon = &s, c
			}
			cs.Items = append(cs.Items, it)
		}
	case "validate":
		if len(w) != 9 {
			return cs, bad
		}
		cs.Kind = "validate"
		var ok [5]bool
		cs.Db.Engine, ok[0] = c20Dec(w[1])
		cs.Db.SqlitePath, ok[1] = c20Dec(w[2])
		cs.Db.Host, ok[2] = c20Dec(w[3])
		p, err := strconv.ParseUint(w[4], 10, 16)
		cs.Db.Port = uint16(p)
		cs.Db.User, ok[3] = c20Dec(w[5])
		cs.Db.DbName, ok[4] = c20Dec(w[6])
		cs.Db.Prepared = w[7] == "1"
		cs.Db.PrepKind = w[8]
		if err != nil || !(ok[0] && ok[1] && ok[2] && ok[3] && ok[4]) {
			return cs, bad
		}
	case "badload":
		if len(w) != 4 {
			return cs, bad
		}
		lit, ok := c20Dec(w[3])
		if !ok {
			return cs, bad
		}
		cs.Kind = "badload"
		cs.Bad = [3]string{w[1], w[2], lit}
	default:
		return cs, bad
	}
	return cs, nil
}

// ---------------------------------------------------------------------------
// running the real configuration loading

type c20Rig struct {
	c       *Ctx
	keys    []c20Key
	byKey   map[string]c20Key
	dir     string // scratch directory (cwd of the runner while it works)
	existsF string // a file that exists
	notdir  string
	savedWd string
	saved   map[string]string // pre-existing BHS_* variables
	args    []string
	n       int
}

func c20NewRig(c *Ctx) (*c20Rig, error) {
	// GetDefaultAppConfig() reads the version SetDefaults stores: register it first, as main() does
	viper.Reset()
	nop := zerolog.Nop()
	if err := config.SetDefaults(c20DefaultsVersion, &nop); err != nil {
		return nil, err
	}
	r := &c20Rig{c: c, keys: c20Keys(), byKey: map[string]c20Key{}, saved: map[string]string{}, args: os.Args}
	for _, k := range r.keys {
		r.byKey[k.Key] = k
	}
	r.dir = filepath.Join(lib.WorkDir(), "c20")
	if err := os.MkdirAll(r.dir, 0o755); err != nil {
		return nil, err
	}
	r.existsF = filepath.Join(r.dir, "prepared.csv.gz")
	if err := os.WriteFile(r.existsF, []byte("x"), 0o644); err != nil {
		return nil, err
	}
	r.notdir = filepath.Join(r.existsF, "sub.csv.gz")
	wd, err := os.Getwd()
	if err != nil {
		return nil, err
	}
	r.savedWd = wd
	if err := os.Chdir(r.dir); err != nil {
		return nil, err
	}
	up := strings.ToUpper(config.ConfigEnvPrefix) + "_"
	for _, kv := range os.Environ() {
		name, val, _ := strings.Cut(kv, "=")
		if strings.HasPrefix(name, up) {
			r.saved[name] = val
			os.Unsetenv(name)
		}
	}
	return r, nil
}

func (r *c20Rig) close() {
	for n, v := range r.saved {
		os.Setenv(n, v)
	}
	os.Args = r.args
	_ = os.Chdir(r.savedWd)
	viper.Reset()
}

func c20FileTree(items []c20Item) string {
	type node struct {
		kids  map[string]*node
		value *string
	}
	root := &node{kids: map[string]*node{}}
	any := false
	for _, it := range items {
		if it.Yaml == nil {
			continue
		}
		any = true
		n := root
		for _, seg := range strings.Split(it.Key, ".") {
			if n.kids == nil {
				n.kids = map[string]*node{}
			}
			if n.kids[seg] == nil {
				n.kids[seg] = &node{}
			}
			n = n.kids[seg]
		}
		n.value = it.Yaml
	}
	if !any {
		return "{}\n"
	}
	var b strings.Builder
	var emit func(n *node, ind string)
	emit = func(n *node, ind string) {
		var names []string
		for s := range n.kids {
			names = append(names, s)
		}
		sort.Strings(names)
		for _, s := range names {
			k := n.kids[s]
			if k.value != nil {
				fmt.Fprintf(&b, "%s%s: %s\n", ind, s, *k.value)
			} else {
				fmt.Fprintf(&b, "%s%s:\n", ind, s)
				emit(k, ind+"  ")
			}
		}
	}
	emit(root, "")
	return b.String()
}

type c20Obs struct {
	Outcome  string // ok | load-error | panic
	Err      string
	Values   map[string]string
	Validate string
}

// load performs one start-up: viper.Reset, environment, file, SetDefaults, CLI flags, Load.
func (r *c20Rig) load(sel string, env map[string]string, file *string) (obs c20Obs) {
	r.n++
	viper.Reset()
	var set []string
	defer func() {
		for _, n := range set {
			os.Unsetenv(n)
		}
		os.Args = r.args
		_ = os.Remove(filepath.Join(r.dir, config.DefaultConfigFilePath))
		if p := recover(); p != nil {
			obs = c20Obs{Outcome: "panic", Err: fmt.Sprint(p)}
		}
	}()
	for n, v := range env {
		if err := os.Setenv(n, v); err != nil {
			return c20Obs{Outcome: "setenv-error", Err: err.Error()}
		}
		set = append(set, n)
	}
	path := filepath.Join(r.dir, fmt.Sprintf("cfg-%d.yaml", r.n%8))
	if sel == "cwd" {
		path = filepath.Join(r.dir, config.DefaultConfigFilePath)
	}
	if sel != "none" {
		if file == nil {
			_ = os.Remove(path) // the selected file does not exist
		} else if err := os.WriteFile(path, []byte(*file), 0o644); err != nil {
			return c20Obs{Outcome: "write-error", Err: err.Error()}
		}
		// every second start-up: files with the SAME base name and another extension lie next to the selected one (an
		// old json/toml export of the configuration); only the selected file may be read
		stem := strings.TrimSuffix(path, filepath.Ext(path))
		decoys := []string{stem + ".json", stem + ".toml"}
		if file != nil && (r.n%2 == 0 || r.c.Replay != "") {
			_ = os.WriteFile(decoys[0], []byte(`{"http":{"port":1,"auth_token":"decoy-from-json","use_auth":false},"db":{"engine":"decoy"},"p2p":{"max_peers":1},"webhook":{"max_tries":1},"merkleroot":{"max_block_height_excess":1}}`), 0o644)
			_ = os.WriteFile(decoys[1], []byte("[http]\nport = 2\nauth_token = \"decoy-from-toml\"\n[db]\nengine = \"decoy\"\n"), 0o644)
			r.c.R.Count("start-up with same-stem decoy files (.json, .toml) next to the selected file", 1)
			defer func() {
				for _, d := range decoys {
					_ = os.Remove(d)
				}
			}()
		}
	}
	nop := zerolog.Nop()
	if err := config.SetDefaults(c20DefaultsVersion, &nop); err != nil {
		return c20Obs{Outcome: "setdefaults-error", Err: err.Error()}
	}
	d := config.GetDefaultAppConfig()
	os.Args = []string{"block-headers-service"}
	switch sel {
	case "flag":
		os.Args = append(os.Args, "-C", path)
	case "longflag":
		os.Args = append(os.Args, "--"+config.ConfigFilePathKey+"="+path)
	case "envvar":
		n := c20EnvName(config.ConfigFilePathKey)
		os.Setenv(n, path)
		set = append(set, n)
	case "flag-over-envvar":
		n := c20EnvName(config.ConfigFilePathKey)
		os.Setenv(n, filepath.Join(r.dir, "does-not-exist.yaml"))
		set = append(set, n)
		os.Args = append(os.Args, "-C", path)
	}
	if err := cli.LoadFlags(d); err != nil {
		return c20Obs{Outcome: "flags-error", Err: err.Error()}
	}
	cfg, _, err := config.Load(d)
	if err != nil {
		return c20Obs{Outcome: "load-error", Err: err.Error()}
	}
	obs = c20Obs{Outcome: "ok", Values: map[string]string{}}
	for _, k := range r.keys {
		obs.Values[k.Key] = c20Get(cfg, k)
	}
	obs.Validate = c20Verdict(cfg.Validate())
	return obs
}

func c20Verdict(err error) string {
	if err == nil {
		return "ok"
	}
	m := err.Error()
	switch {
	case strings.Contains(m, "configuration cannot be empty") && strings.HasPrefix(m, "db: configuration"):
		return "refused:nil-db"
	case strings.Contains(m, "file path cannot be empty"):
		return "refused:prepared-path-empty"
	case strings.Contains(m, "prepared database file does not exist"):
		return "refused:prepared-missing"
	case strings.Contains(m, "sqlite configuration cannot be empty"):
		return "refused:sqlite-path-empty"
	case strings.Contains(m, "postgres configuration should be filled"):
		return "refused:postgres-incomplete"
	case strings.Contains(m, "unsupported type"):
		return "refused:unsupported-engine"
	}
	return "refused:other:" + m
}

func c20SafeValidate(cfg *config.AppConfig) (v string) {
	defer func() {
		if p := recover(); p != nil {
			v = "panic:" + fmt.Sprint(p)
		}
	}()
	return c20Verdict(cfg.Validate())
}

// implFileExists measures config.fileExists (unexported) through Validate itself: with a
// prepared database on, a non-empty path, engine sqlite and a non-empty sqlite path, the
// verdict is ok exactly when fileExists(path).
func c20ImplFileExists(path string) bool {
	d := &config.DbConfig{Engine: config.DBSQLite, PreparedDb: true, PreparedDbFilePath: path, SQLite: config.SQLiteConfig{FilePath: "probe.db"}}
	return c20SafeValidate(&config.AppConfig{Db: d}) == "ok"
}

// reallyExists is the oracle's notion: something can be stat'ed at the path.
func c20ReallyExists(path string) bool {
	_, err := os.Lstat(path)
	return err == nil
}

func (r *c20Rig) prepPath(kind string) string {
	switch kind {
	case "empty":
		return ""
	case "exists":
		return r.existsF
	case "dir":
		return r.dir
	case "notdir":
		return r.notdir
	case "toolong":
		return filepath.Join(r.dir, strings.Repeat("n", 300))
	}
	return filepath.Join(r.dir, "no-such-file.csv.gz")
}

func c20Flag(b bool) string {
	if b {
		return "1"
	}
	return "0"
}

func c20ModelValidate(engine string, sqliteEmpty bool, host string, port uint64, user, db string, prepared, prepEmpty, prepExists bool) string {
	return strings.Join([]string{"cfg", "validate", c20Enc(engine), c20Flag(sqliteEmpty), c20Enc(host), fmt.Sprint(port), c20Enc(user), c20Enc(db),
		c20Flag(prepared), c20Flag(prepEmpty), c20Flag(prepExists)}, " ")
}

// ---------------------------------------------------------------------------
// executing cases: implementation, model lines, oracle

type c20Pending struct {
	cs    c20Case
	obs   c20Obs
	lines []string // model lines; the answer to compare is that of the LAST line
	want  string   // what the implementation showed, in the model's output form
	what  string
}

func (r *c20Rig) dflt(key string) string { return r.byKey[key].Default }

// runLoad executes a load case on the implementation and prepares the model lines.
func (r *c20Rig) runLoad(cs c20Case, res *lib.Result) []c20Pending {
	env := map[string]string{}
	for _, it := range cs.Items {
		if it.Env != nil {
			env[c20EnvName(it.Key)] = *it.Env
		}
	}
	var file *string
	if cs.Sel != "none" {
		f := c20FileTree(cs.Items)
		file = &f
	}
	obs := r.load(cs.Sel, env, file)
	res.Count("select:"+cs.Sel, 1)
	touched := map[string]c20Item{}
	for _, it := range cs.Items {
		touched[it.Key] = it
	}
	fail := func(what, exp, got, sig string) {
		res.Fail(lib.Failure{Case: cs.Op, Ops: []string{cs.Op}, What: what, Expected: exp, Observed: got, Signature: sig,
			Extra: map[string]any{"decoded": c20Describe(cs)}})
	}
	res.OracleChecked++
	if obs.Outcome != "ok" {
		k := ""
		if len(cs.Items) > 0 {
			k = cs.Items[0].Key
		}
		fail("loading a configuration whose values are all of their keys' types does not succeed: "+obs.Outcome+": "+obs.Err, "ok", obs.Outcome, "c20-load-error:"+k)
		return nil
	}
	// ORACLE: expected = env ?? file ?? default for the touched keys, default for every other key
	for _, k := range r.keys {
		got := obs.Values[k.Key]
		it, ok := touched[k.Key]
		switch {
		case !ok || (it.Env == nil && it.Yaml == nil):
			if got != k.Default {
				fail("a key that neither the environment nor the file mentions does not keep its default: "+k.Key, k.Default, got, "c20-other-key-changed:"+k.Key)
			}
		case it.Env != nil:
			if got == it.EnvCanon {
				break
			}
			fallback := k.Default
			if it.Yaml != nil {
				fallback = it.FileCanon
			}
			switch {
			case *it.Env == "" && got == fallback:
				fail("environment variable "+c20EnvName(k.Key)+" set to the empty string is treated as unset (the file/default value is used) although \"\" is a value of the key's type", it.EnvCanon, got, "c20-empty-env-ignored")
			case got == fallback:
				fail("environment variable "+c20EnvName(k.Key)+" does not override "+k.Key, it.EnvCanon, got, "c20-env-ignored:"+k.Key)
			default:
				fail("effective value of "+k.Key+" is neither the environment's nor the fallback", it.EnvCanon, got, "c20-wrong-value:"+k.Key)
			}
		default:
			if got != it.FileCanon {
				sig := "c20-wrong-value:" + k.Key
				if got == k.Default {
					sig = "c20-file-ignored:" + k.Key
				}
				fail("value of "+k.Key+" in the selected configuration file is not the effective value", it.FileCanon, got, sig)
			}
		}
	}
	// MODEL: whole table through setenv/setfile/dump (or the one-shot form for a single key), then validation
	var ps []c20Pending
	if len(cs.Items) == 1 {
		it := cs.Items[0]
		e, f := "-", "-"
		if it.Env != nil {
			e = c20Enc(it.EnvCanon)
			if *it.Env == "" {
				e = c20Enc("")
			}
		}
		if it.Yaml != nil {
			f = c20Enc(it.FileCanon)
		}
		ps = append(ps, c20Pending{cs: cs, obs: obs, lines: []string{fmt.Sprintf("cfg resolve %s %s %s", it.Key, e, f)}, want: c20Enc(obs.Values[it.Key]), what: "resolve"})
	}
	lines := []string{"cfg reset"}
	for _, it := range cs.Items {
		if it.Env != nil {
			v := it.EnvCanon
			if *it.Env == "" {
				v = ""
			}
			lines = append(lines, fmt.Sprintf("cfg setenv %s %s", it.Key, c20Enc(v)))
		}
		if it.Yaml != nil {
			lines = append(lines, fmt.Sprintf("cfg setfile %s %s", it.Key, c20Enc(it.FileCanon)))
		}
	}
	lines = append(lines, "cfg dump")
	var parts []string
	for _, k := range r.keys {
		parts = append(parts, k.Key+"="+c20Enc(obs.Values[k.Key]))
	}
	ps = append(ps, c20Pending{cs: cs, obs: obs, lines: lines, want: strings.Join(parts, ";"), what: "dump"})
	// validation of the loaded configuration (the decision, with the implementation's own fileExists)
	v := obs.Values
	port, _ := strconv.ParseUint(v["db.postgres.port"], 10, 64)
	pp := v["db.prepared_db_file_path"]
	ps = append(ps, c20Pending{cs: cs, obs: obs, what: "validate-after-load", want: obs.Validate,
		lines: []string{c20ModelValidate(v["db.engine"], v["db.sqlite.file_path"] == "", v["db.postgres.host"], port, v["db.postgres.user"], v["db.postgres.db_name"],
			v["db.prepared_db"] == "true", pp == "", pp != "" && c20ImplFileExists(pp))}})
	return ps
}

func c20Describe(cs c20Case) string {
	var b strings.Builder
	switch cs.Kind {
	case "load":
		fmt.Fprintf(&b, "file selected by %s;", cs.Sel)
		for _, it := range cs.Items {
			fmt.Fprintf(&b, " %s:", it.Key)
			if it.Env != nil {
				fmt.Fprintf(&b, " %s=%q", c20EnvName(it.Key), *it.Env)
			}
			if it.Yaml != nil {
				fmt.Fprintf(&b, " file: %s", *it.Yaml)
			}
		}
	case "validate":
		fmt.Fprintf(&b, "%+v", cs.Db)
	case "badload":
		fmt.Fprintf(&b, "%s via %s = %q", cs.Bad[0], cs.Bad[1], cs.Bad[2])
	}
	return b.String()
}

func (r *c20Rig) runValidate(cs c20Case, res *lib.Result) []c20Pending {
	d := cs.Db
	path := r.prepPath(d.PrepKind)
	db := &config.DbConfig{Engine: config.DbEngine(d.Engine), PreparedDb: d.Prepared, PreparedDbFilePath: path,
		SQLite:   config.SQLiteConfig{FilePath: d.SqlitePath},
		Postgres: config.PostgreSQLConfig{Host: d.Host, Port: d.Port, User: d.User, Password: "pw", DbName: d.DbName, Sslmode: "disable"}}
	got := c20SafeValidate(&config.AppConfig{Db: db})
	// ORACLE: refused exactly for the four bad shapes of the property
	res.OracleChecked++
	var bad []string
	switch d.Engine {
	case "sqlite":
		if d.SqlitePath == "" {
			bad = append(bad, "empty-sqlite-path")
		}
	case "postgres":
		if d.Host == "" || d.Port == 0 || d.User == "" || d.DbName == "" {
			bad = append(bad, "incomplete-postgres")
		}
	default:
		bad = append(bad, "unsupported-engine")
	}
	if d.Prepared && (path == "" || !c20ReallyExists(path)) {
		bad = append(bad, "missing-prepared-file")
	}
	fail := func(what, exp, sig string) {
		res.Fail(lib.Failure{Case: cs.Op, Ops: []string{cs.Op}, What: what, Expected: exp, Observed: got, Signature: sig, Extra: map[string]any{"decoded": c20Describe(cs), "prepared_path": path}})
	}
	switch {
	case strings.HasPrefix(got, "panic"):
		fail("Validate panics", "ok or refused", "c20-validate-panic")
	case len(bad) > 0 && got == "ok":
		if len(bad) == 1 && bad[0] == "missing-prepared-file" && path != "" && c20ImplFileExists(path) {
			fail("a prepared-database path at which nothing can exist or be stat'ed ("+d.PrepKind+") is accepted at validation: fileExists() only recognises ENOENT", "refused", "c20-prepared-unstatable-path-accepted")
		} else {
			fail("an invalid database section is accepted at validation: "+strings.Join(bad, ","), "refused", "c20-validate-accepts:"+strings.Join(bad, ","))
		}
	case len(bad) == 0 && got != "ok":
		fail("a valid database section is refused at validation", "ok", "c20-validate-refuses-valid")
	}
	return []c20Pending{{cs: cs, what: "validate", want: got, lines: []string{c20ModelValidate(d.Engine, d.SqlitePath == "", d.Host, uint64(d.Port), d.User, d.DbName,
		d.Prepared, path == "", path != "" && c20ImplFileExists(path))}}}
}

// runBad: a value that is not of the key's type. The property does not say what must
// happen; what is checked is only that the start is refused (Load error) rather than
// crashing or silently running with some other value, and the outcome is counted.
func (r *c20Rig) runBad(cs c20Case, res *lib.Result) {
	key, src, lit := cs.Bad[0], cs.Bad[1], cs.Bad[2]
	k, ok := r.byKey[key]
	if !ok {
		return
	}
	env := map[string]string{}
	var file *string
	sel := "none"
	if src == "env" {
		env[c20EnvName(key)] = lit
	} else {
		y := lit
		f := c20FileTree([]c20Item{{Key: key, Yaml: &y}})
		file, sel = &f, "flag"
	}
	obs := r.load(sel, env, file)
	res.OracleChecked++
	out := obs.Outcome
	if out == "ok" {
		out = "accepted-as:" + obs.Values[key]
		if obs.Values[key] == k.Default {
			out = "accepted-as-default"
		}
	}
	res.Count(fmt.Sprintf("ill-typed %s via %s %q -> %s", k.Kind, src, lit, out), 1)
	if obs.Outcome == "panic" {
		res.Fail(lib.Failure{Case: cs.Op, Ops: []string{cs.Op}, What: "loading a configuration with an ill-typed value panics: " + obs.Err, Expected: "load-error", Observed: "panic", Signature: "c20-load-panic:" + key,
			Extra: map[string]any{"decoded": c20Describe(cs)}})
	}
	res.Sample(map[string]string{"op": "badload", "case": c20Describe(cs), "impl": out + " " + obs.Err}, 14)
}

// exec runs cases on the implementation and the model and records everything in res.
func (r *c20Rig) exec(l *lib.Lean, cases []c20Case, res *lib.Result, sampleEvery int) error {
	var ps []c20Pending
	for _, cs := range cases {
		switch cs.Kind {
		case "load":
			p := r.runLoad(cs, res)
			ps = append(ps, p...)
			nontrivial := false
			for _, it := range cs.Items {
				d := r.dflt(it.Key)
				if (it.Env != nil && it.EnvCanon != d) || (it.Yaml != nil && it.FileCanon != d) {
					nontrivial = true
				}
				if it.Env != nil && it.Yaml != nil && it.EnvCanon == it.FileCanon {
					nontrivial = false
					break
				}
			}
			res.Case(cs.Op, nontrivial)
		case "validate":
			ps = append(ps, r.runValidate(cs, res)...)
			res.Case(cs.Op, true)
		case "badload":
			r.runBad(cs, res)
			res.Case(cs.Op, false)
		}
	}
	var lines []string
	for _, p := range ps {
		lines = append(lines, p.lines...)
	}
	ans, err := l.AskBatch(lines)
	if err != nil {
		return err
	}
	i := 0
	for n, p := range ps {
		i += len(p.lines)
		got := ans[i-1]
		res.TracesValidated++
		if got != p.want {
			res.Disagree(lib.Disagreement{Case: p.cs.Op, Ops: []string{p.cs.Op}, Op: "cfg " + p.what + " :: " + strings.Join(p.lines, " ; "), Impl: p.want, Model: got})
		}
		if sampleEvery > 0 && n%sampleEvery == 0 && p.what != "dump" {
			res.Sample(map[string]string{"op": p.lines[len(p.lines)-1], "case": c20Describe(p.cs), "impl": p.want, "model": got}, 14)
		}
	}
	return nil
}

// ---------------------------------------------------------------------------
// generation

func c20Ptr(s string) *string { return &s }

func c20Item1(k c20Key, env, file *c20Val) c20Item {
	it := c20Item{Key: k.Key}
	if env != nil {
		it.Env, it.EnvCanon = c20Ptr(env.Env), env.Canon
	}
	if file != nil {
		it.Yaml, it.FileCanon = c20Ptr(file.Yaml), file.Canon
	}
	return it
}

func (r *c20Rig) generate(rng *rand.Rand, thorough bool) []c20Case {
	var cases []c20Case
	res := r.c.R
	add := func(sel string, items ...c20Item) {
		cases = append(cases, c20Case{Op: c20LoadOp(sel, items), Kind: "load", Sel: sel, Items: items})
	}
	sels := []string{"flag", "flag", "flag", "longflag", "envvar", "cwd", "flag-over-envvar"}
	pick := func() string { return sels[rng.Intn(len(sels))] }
	// nothing set: no file at all, and an empty file through each way of selecting it
	add("none")
	for _, s := range []string{"flag", "longflag", "envvar", "cwd", "flag-over-envvar"} {
		add(s)
	}
	nrand := 16
	if thorough {
		nrand = 150
	}
	for _, k := range r.keys {
		pool := c20Pool(rng, k, nrand)
		if len(pool) == 0 {
			res.Notes = append(res.Notes, "no value generator for key "+k.Key+" of kind "+k.Kind+" ("+k.GoType+"): only the untouched-default clause is checked for it")
			res.Count("key-without-generator", 1)
			continue
		}
		res.Count("keys:"+k.Kind, 1)
		add("none", c20Item{Key: k.Key})
		for i := range pool {
			v := pool[i]
			w := pool[(i+1+rng.Intn(len(pool)-1))%len(pool)]
			add("none", c20Item1(k, &v, nil)) // env only, no file at all
			add(pick(), c20Item1(k, nil, &v)) // file only
			add(pick(), c20Item1(k, &v, &w))  // env and file
			res.Count("load:env", 1)
			res.Count("load:file", 1)
			res.Count("load:env+file", 1)
			if thorough {
				add(pick(), c20Item1(k, &w, &v))
				add(pick(), c20Item1(k, &v, nil)) // env only, file present but silent about the key
				res.Count("load:env+file", 1)
				res.Count("load:env", 1)
			}
		}
		// a variable set to the empty string (string-typed keys: "" is a value of the type, and the file can supply it)
		if k.Kind == "string" || k.Kind == "enum" {
			e := c20Val{Canon: "", Env: "", Yaml: `""`}
			f := pool[rng.Intn(len(pool))]
			if k.Key != "logging.level" {
				add(pick(), c20Item1(k, nil, &e))
				res.Count("load:file-empty-string", 1)
			}
			add(pick(), c20Item1(k, &e, &f))
			add("none", c20Item1(k, &e, nil))
			res.Count("load:env-empty-string", 2)
		}
	}
	// several keys at once (the rule lifted to the whole table)
	nmulti := 500
	if thorough {
		nmulti = 8000
	}
	pools := map[string][]c20Val{}
	for _, k := range r.keys {
		pools[k.Key] = c20Pool(rng, k, 4)
	}
	for n := 0; n < nmulti; n++ {
		var items []c20Item
		dens := 1 + rng.Intn(4)
		for _, k := range r.keys {
			p := pools[k.Key]
			if len(p) == 0 || rng.Intn(dens+1) != 0 {
				continue
			}
			v, w := p[rng.Intn(len(p))], p[rng.Intn(len(p))]
			switch rng.Intn(3) {
			case 0:
				items = append(items, c20Item1(k, &v, nil))
			case 1:
				items = append(items, c20Item1(k, nil, &v))
			default:
				items = append(items, c20Item1(k, &v, &w))
			}
		}
		if len(items) == 0 {
			continue
		}
		add(pick(), items...)
		res.Count("load:multi-key", 1)
	}
	// database sections through Validate
	engines := []string{"sqlite", "postgres", "sqlite", "postgres", "mysql", "", "SQLite", "postgresql", "sqlite3"}
	strs := []string{"", "h", "localhost", "user", " "}
	ports := []uint16{0, 1, 5432, 65535}
	preps := []string{"empty", "exists", "missing", "dir", "notdir", "toolong"}
	addV := func(d c20Db) {
		cases = append(cases, c20Case{Op: c20ValidateOp(d), Kind: "validate", Db: d})
		res.Count("validate:engine="+d.Engine, 1)
	}
	// bounded-exhaustive over the emptiness lattice
	for _, e := range []string{"sqlite", "postgres", "mysql"} {
		for m := 0; m < 32; m++ {
			bit := func(i int, s string) string {
				if m>>i&1 == 1 {
					return s
				}
				return ""
			}
			port := uint16(0)
			if m>>4&1 == 1 {
				port = 5432
			}
			for _, pk := range append([]string{"off"}, preps...) {
				addV(c20Db{Engine: e, SqlitePath: bit(0, "./x.db"), Host: bit(1, "h"), User: bit(2, "u"), DbName: bit(3, "d"), Port: port, Prepared: pk != "off", PrepKind: strings.Replace(pk, "off", "missing", 1)})
			}
		}
	}
	nv := 1000
	if thorough {
		nv = 30000
	}
	for n := 0; n < nv; n++ {
		ch := func() string {
			if rng.Intn(3) == 0 {
				return strs[rng.Intn(len(strs))]
			}
			return c20RandString(rng)
		}
		addV(c20Db{Engine: engines[rng.Intn(len(engines))], SqlitePath: ch(), Host: ch(), User: ch(), DbName: ch(), Port: ports[rng.Intn(len(ports))],
			Prepared: rng.Intn(2) == 0, PrepKind: preps[rng.Intn(len(preps))]})
	}
	// ill-typed values (oracle only)
	badLits := map[string][]string{
		"bool":     {"maybe", "2", "yes", "on", "-1", "tru"},
		"int":      {"abc", "1.5", "99999999999999999999", "0x10", "010", "1_000", "+5", " 7", "7 "},
		"uint":     {"abc", "-1", "65536", "99999999999999999999", "0x10", "010"},
		"duration": {"abc", "5", "5 s", "1d", "-", "1.5h"},
	}
	for _, k := range r.keys {
		fam := strings.TrimRight(k.Kind, "0123456789")
		for _, lit := range badLits[fam] {
			for _, src := range []string{"env", "file"} {
				y := lit
				if src == "file" && (strings.HasPrefix(lit, " ") || strings.HasSuffix(lit, " ") || lit == "-") {
					y = `"` + lit + `"`
				}
				cs := c20Case{Kind: "badload", Bad: [3]string{k.Key, src, y}}
				cs.Op = fmt.Sprintf("badload %s %s %s", k.Key, src, c20Enc(y))
				cases = append(cases, cs)
			}
		}
		if k.Key == "logging.level" {
			for _, src := range []string{"env", "file"} {
				cs := c20Case{Kind: "badload", Bad: [3]string{k.Key, src, "bogus"}}
				cs.Op = fmt.Sprintf("badload %s %s %s", k.Key, src, c20Enc("bogus"))
				cases = append(cases, cs)
			}
		}
	}
	return cases
}

// ---------------------------------------------------------------------------
// fixed checks: key table, environment names, example file, selection of the file,
// and the claim about viper on which C20_every_key_has_default rests

func (r *c20Rig) fixedChecks(l *lib.Lean) error {
	res := r.c.R
	// the key table seen by reflection now == the regenerated table the theorems are about
	var parts []string
	for _, k := range r.keys {
		parts = append(parts, k.Key+":"+k.Kind)
	}
	got, err := l.Ask("cfg keys")
	if err != nil {
		return err
	}
	res.TracesValidated++
	if want := strings.Join(parts, ","); got != want {
		res.Disagree(lib.Disagreement{Case: "cfg keys", Op: "cfg keys", Impl: want, Model: got})
	}
	for _, k := range r.keys {
		m, err := l.Ask("cfg envname " + k.Key)
		if err != nil {
			return err
		}
		res.TracesValidated++
		if m != c20EnvName(k.Key) {
			res.Disagree(lib.Disagreement{Case: "cfg envname " + k.Key, Op: "cfg envname " + k.Key, Impl: c20EnvName(k.Key), Model: m})
		}
		d, err := l.Ask("cfg resolve " + k.Key + " - -")
		if err != nil {
			return err
		}
		res.TracesValidated++
		if d != c20Enc(k.Default) {
			res.Disagree(lib.Disagreement{Case: "default " + k.Key, Op: "cfg resolve " + k.Key + " - -", Impl: c20Enc(k.Default), Model: d})
		}
	}
	// missing and malformed configuration files are refused by Load
	for _, t := range []struct{ name, content string }{{"absent", ""}, {"malformed", "db:\n  engine: [sqlite\n"}, {"tabs", "db:\n\tengine: sqlite\n"}} {
		var f *string
		if t.name != "absent" {
			f = c20Ptr(t.content)
		}
		for _, sel := range []string{"flag", "envvar"} {
			obs := r.load(sel, nil, f)
			res.OracleChecked++
			res.Count("file:"+t.name+":"+obs.Outcome, 1)
			if obs.Outcome != "load-error" {
				res.Fail(lib.Failure{Case: "file " + t.name, What: "a selected configuration file that is absent / not YAML is not refused by Load", Expected: "load-error", Observed: obs.Outcome, Signature: "c20-bad-file-accepted:" + t.name})
			}
		}
	}
	// the documented example file: every key it mentions resolves to the value written there
	if b, err := os.ReadFile("/repo/config.example.yaml"); err == nil {
		ex := c20ParseSimpleYaml(string(b))
		content := string(b)
		obs := r.load("flag", nil, &content)
		res.OracleChecked++
		if obs.Outcome != "ok" {
			res.Fail(lib.Failure{Case: "config.example.yaml", What: "the example configuration does not load: " + obs.Err, Expected: "ok", Observed: obs.Outcome, Signature: "c20-example-does-not-load"})
		} else {
			var diffs []string
			for _, k := range r.keys {
				raw, ok := ex[k.Key]
				if !ok {
					res.Notes = append(res.Notes, "config.example.yaml does not mention key "+k.Key)
					if obs.Values[k.Key] != k.Default {
						res.Fail(lib.Failure{Case: "config.example.yaml", What: "key absent from the example file does not keep its default: " + k.Key, Expected: k.Default, Observed: obs.Values[k.Key], Signature: "c20-other-key-changed:" + k.Key})
					}
					continue
				}
				want := c20CanonOfLiteral(k, raw)
				if obs.Values[k.Key] != want {
					res.Fail(lib.Failure{Case: "config.example.yaml", What: "value of " + k.Key + " in config.example.yaml is not the effective value", Expected: want, Observed: obs.Values[k.Key], Signature: "c20-file-ignored:" + k.Key})
				}
				if want != k.Default {
					diffs = append(diffs, fmt.Sprintf("%s (example %q, defaults.go %q)", k.Key, want, k.Default))
				}
			}
			for k := range ex {
				if _, ok := r.byKey[k]; !ok {
					res.Notes = append(res.Notes, "config.example.yaml mentions a key that is not a leaf of AppConfig: "+k)
				}
			}
			if len(diffs) > 0 {
				res.Notes = append(res.Notes, "documentation: config.example.yaml shows values that differ from the defaults of config/defaults.go: "+strings.Join(diffs, "; "))
			}
			res.Count("example-file", 1)
		}
	}
	// the claim behind C20_every_key_has_default: without a registered default (and absent
	// from the file) a key's environment variable is NOT consulted by viper.Unmarshal
	for _, k := range r.keys {
		pool := c20Pool(lib.Rng(r.c.Seed, "c20-claim-"+k.Key), k, 1)
		var ev, fv *c20Val
		for i := range pool {
			if ev == nil && pool[i].Canon != k.Default && pool[i].Env != "" {
				ev = &pool[i]
			}
		}
		for i := range pool {
			if ev != nil && fv == nil && pool[i].Canon != ev.Canon && pool[i].Env != "" {
				fv = &pool[i]
			}
		}
		if ev == nil || fv == nil {
			res.Notes = append(res.Notes, "viper-claim: no two non-default values for key "+k.Key)
			continue
		}
		for _, withFile := range []bool{false, true} {
			got := r.unregisteredLoad(k, *ev, *fv, withFile)
			f := "-"
			if withFile {
				f = c20Enc(fv.Canon)
			}
			line := fmt.Sprintf("cfg resolveu %s %s %s", k.Key, c20Enc(ev.Canon), f)
			m, err := l.Ask(line)
			if err != nil {
				return err
			}
			res.TracesValidated++
			res.Count("viper-claim", 1)
			if m != c20Enc(got) {
				res.Disagree(lib.Disagreement{Case: line, Op: line, Impl: c20Enc(got), Model: m})
			}
			// the claim itself, stated directly
			res.OracleChecked++
			if !withFile && got != k.Default {
				res.Notes = append(res.Notes, "viper-claim does not hold for "+k.Key+": without a registered default the environment variable was still applied ("+got+")")
			}
		}
	}
	return nil
}

// unregisteredLoad replays SetDefaults+Load by hand on viper with the default of ONE key
// left out (the situation of a new AppConfig key whose section is missing from
// GetDefaultAppConfig), to observe what the environment variable then does.
func (r *c20Rig) unregisteredLoad(k c20Key, v, fv c20Val, withFile bool) (got string) {
	viper.Reset()
	defer viper.Reset()
	defer func() {
		if p := recover(); p != nil {
			got = "panic:" + fmt.Sprint(p)
		}
	}()
	dv := reflect.ValueOf(config.GetDefaultAppConfig())
	for _, o := range r.keys {
		if o.Key == k.Key {
			continue
		}
		f := dv
		for _, i := range o.Path {
			for f.Kind() == reflect.Ptr {
				f = f.Elem()
			}
			f = f.Field(i)
		}
		viper.SetDefault(o.Key, f.Interface())
	}
	viper.SetEnvPrefix(config.ConfigEnvPrefix)
	viper.SetEnvKeyReplacer(strings.NewReplacer(".", "_"))
	viper.AutomaticEnv()
	n := c20EnvName(k.Key)
	os.Setenv(n, v.Env)
	defer os.Unsetenv(n)
	if withFile {
		y := fv.Yaml
		path := filepath.Join(r.dir, "claim.yaml")
		_ = os.WriteFile(path, []byte(c20FileTree([]c20Item{{Key: k.Key, Yaml: &y}})), 0o644)
		viper.SetConfigFile(path)
		if err := viper.ReadInConfig(); err != nil {
			return "read-error:" + err.Error()
		}
	}
	cfg := config.GetDefaultAppConfig()
	if err := viper.Unmarshal(cfg); err != nil {
		return "unmarshal-error:" + err.Error()
	}
	return c20Get(cfg, k)
}

// c20ParseSimpleYaml reads the block-style subset config.example.yaml is written in
// (nested maps by indentation, scalars plain or double-quoted, # comments) — written
// independently of the YAML library viper uses.
func c20ParseSimpleYaml(s string) map[string]string {
	out := map[string]string{}
	type lvl struct {
		indent int
		name   string
	}
	var stack []lvl
	for _, line := range strings.Split(s, "\n") {
		t := strings.TrimSpace(line)
		if t == "" || strings.HasPrefix(t, "#") {
			continue
		}
		ind := len(line) - len(strings.TrimLeft(line, " "))
		name, rest, ok := strings.Cut(t, ":")
		if !ok {
			continue
		}
		rest = strings.TrimSpace(rest)
		if strings.HasPrefix(rest, `"`) {
			if j := strings.Index(rest[1:], `"`); j >= 0 {
				rest = rest[:j+2]
			}
		} else if j := strings.Index(rest, " #"); j >= 0 {
			rest = strings.TrimSpace(rest[:j])
		} else if strings.HasPrefix(rest, "#") {
			rest = ""
		}
		for len(stack) > 0 && stack[len(stack)-1].indent >= ind {
			stack = stack[:len(stack)-1]
		}
		if rest == "" {
			stack = append(stack, lvl{ind, name})
			continue
		}
		var path []string
		for _, l := range stack {
			path = append(path, l.name)
		}
		path = append(path, name)
		out[strings.ToLower(strings.Join(path, "."))] = strings.Trim(rest, `"`)
	}
	return out
}

// c20CanonOfLiteral gives the canonical value a human-written literal denotes for key k.
func c20CanonOfLiteral(k c20Key, lit string) string {
	switch {
	case k.Kind == "duration":
		if d, err := time.ParseDuration(lit); err == nil {
			return fmt.Sprint(int64(d))
		}
	case k.Kind == "bool":
		if b, err := strconv.ParseBool(lit); err == nil {
			return fmt.Sprint(b)
		}
	}
	return lit
}

// c20ReadReplayOps reads only the `ops` of a replay file (tolerant of the other fields' shapes).
func c20ReadReplayOps(path string) ([]string, error) {
	b, err := os.ReadFile(path)
	if err != nil {
		return nil, err
	}
	var f struct {
		Ops []string `json:"ops"`
	}
	if err := json.Unmarshal(b, &f); err != nil {
		return nil, err
	}
	return f.Ops, nil
}

// ---------------------------------------------------------------------------

func runC20(c *Ctx) error {
	prev := zerolog.GlobalLevel()
	zerolog.SetGlobalLevel(zerolog.Disabled) // config.Load logs "Config file not specified" on every start
	defer zerolog.SetGlobalLevel(prev)
	// the runner changes its working directory: make the paths it was given absolute first
	for _, p := range []*string{&c.Replay, &c.Known, &c.Driver} {
		if *p != "" && !filepath.IsAbs(*p) && (p != &c.Driver || strings.Contains(*p, "/")) {
			if a, err := filepath.Abs(*p); err == nil {
				*p = a
			}
		}
	}
	r, err := c20NewRig(c)
	if err != nil {
		return err
	}
	defer r.close()
	l := c.lean()
	defer l.Close()
	c.R.Rule = "every leaf key of config.AppConfig (reflection at run time) x {nothing, env, file, env+file} x values of the key's type " +
		"(strings with characters YAML/env can carry, ints incl. 0/negative/extremes, bools in every strconv spelling, durations, enum and foreign enum values, uint16 ports); " +
		"the file is selected by -C, --config_file=, BHS_CONFIG_FILE, ./config.yaml or not at all; plus random multi-key assignments, config.example.yaml, " +
		"database sections (emptiness lattice x engine x prepared-file situation + random) through Validate, ill-typed values (outcome counted). " +
		"A load case is non-trivial when a source provides a value different from the default and, with both sources, env differs from file; every validate case is non-trivial; distinct by op line."
	start := time.Now()
	if c.Replay != "" {
		ops, err := c20ReadReplayOps(c.Replay)
		if err != nil {
			return err
		}
		var cases []c20Case
		for _, op := range ops {
			if strings.HasPrefix(op, "c20first") {
				if err := r.firstStartChecks(); err != nil {
					return err
				}
				continue
			}
			cs, err := c20ParseOp(op)
			if err != nil {
				return err
			}
			cases = append(cases, cs)
		}
		if err := r.exec(l, cases, c.R, 1); err != nil {
			return err
		}
		c.R.ModelOps = l.Ops
		return nil
	}
	// known findings: replay each witness on the implementation
	for _, k := range lib.KnownFor(c.Known, "C20") {
		scratch := lib.NewResult("C20", c.Tier, c.Seed)
		var cases []c20Case
		for _, op := range k.Witness.Ops {
			if cs, err := c20ParseOp(op); err == nil {
				cases = append(cases, cs)
			}
		}
		if err := r.exec(l, cases, scratch, 0); err != nil {
			return err
		}
		st := "not-reproduced"
		for _, f := range scratch.Failures {
			if f.Signature == k.Signature {
				st = "reproduced"
			}
		}
		c.R.KnownReplayed[k.ID] = st
	}
	if err := r.fixedChecks(l); err != nil {
		return err
	}
	if err := r.firstStartChecks(); err != nil {
		return err
	}
	cases := r.generate(lib.Rng(c.Seed, "c20"), c.Thorough)
	if err := r.exec(l, cases, c.R, 397); err != nil {
		return err
	}
	c.R.ModelOps = l.Ops
	c.R.Count("starts (viper.Reset+SetDefaults+flags+Load)", r.n)
	c.R.Notes = append(c.R.Notes, fmt.Sprintf("harness time %.1fs for %d start-ups", time.Since(start).Seconds(), r.n))
	return nil
}
