package main

// C18 part (b): the real connmgr.ConnManager (its goroutines, channels, timers) with
// scripted GetNewAddress / Dial / OnConnection / OnDisconnection / BanAddress callbacks.
//
// lock-step mode: every request blocks inside GetNewAddress until the harness hands it an
//   address and a dial outcome, so one event happens at a time; after each event the
//   harness waits (bounded) until the observable counts equal the Lean counter machine's
//   (established, requests in flight, BanAddress calls, Dial calls, GetNewAddress calls,
//   OnDisconnection calls, addresses of the established connections).
// free-running mode: no gate; outcomes come from a seeded script; only the oracle runs:
//   never more than target connections open at once, target reached, target restored
//   after disconnect requests.

import (
	"errors"
	"fmt"
	"math/rand"
	"net"
	"strconv"
	"strings"
	"sync"
	"sync/atomic"
	"time"

	"github.com/bitcoin-sv/block-headers-service/transports/p2p/connmgr"
	"github.com/bitcoin-sv/block-headers-service/verifharness/lib"
	"github.com/rs/zerolog"
)

type c18CmAddr struct {
	idx  int
	ok   bool
	text string // when set: the address text handed to the connection manager (wired stream)
}

func (a *c18CmAddr) Network() string { return "tcp" }
func (a *c18CmAddr) String() string {
	if a.text != "" {
		return a.text
	}
	return fmt.Sprintf("10.7.%d.1:8333", a.idx)
}

type c18CmConn struct {
	rig    *c18CmRig
	closed int32
}

func (c *c18CmConn) Read([]byte) (int, error)         { return 0, errors.New("not readable") }
func (c *c18CmConn) Write(b []byte) (int, error)      { return len(b), nil }
func (c *c18CmConn) LocalAddr() net.Addr              { return &net.TCPAddr{} }
func (c *c18CmConn) RemoteAddr() net.Addr             { return &net.TCPAddr{} }
func (c *c18CmConn) SetDeadline(time.Time) error      { return nil }
func (c *c18CmConn) SetReadDeadline(time.Time) error  { return nil }
func (c *c18CmConn) SetWriteDeadline(time.Time) error { return nil }
func (c *c18CmConn) Close() error {
	if atomic.CompareAndSwapInt32(&c.closed, 0, 1) {
		c.rig.mu.Lock()
		c.rig.nOpen--
		c.rig.cond.Broadcast()
		c.rig.mu.Unlock()
	}
	return nil
}

type c18CmGateResp struct {
	addr    int
	ok      bool
	addrErr bool
}

type c18CmGate struct {
	serial int
	ch     chan c18CmGateResp
}

type c18CmEst struct {
	id   uint64
	addr int
	req  *connmgr.ConnReq
}

type c18CmRig struct {
	mu   sync.Mutex
	cond *sync.Cond
	cm   *connmgr.ConnManager
	tgt  int
	ban  bool
	quit chan struct{}

	addrText []string // optional: address index -> "host:port" text
	lockstep bool
	waiting  []*c18CmGate // requests blocked in GetNewAddress, arrival order
	arrivals int
	est      []c18CmEst // OnConnection minus OnDisconnection, establishment order
	closed   []uint64   // OnDisconnection, call order
	banned   []int      // BanAddress calls
	dials    int
	asks     int
	nOpen    int // connections returned by Dial and not yet closed
	maxOpen  int

	// free-running script
	rng      *rand.Rand
	pSuccess int // percent
	pool     int // 0: every GetNewAddress returns a fresh address
	nextAddr int
}

func c18AddrIdx(s string) int {
	// "10.7.<idx>.1:8333"
	parts := strings.Split(s, ".")
	if len(parts) < 3 {
		return -1
	}
	n, err := strconv.Atoi(parts[2])
	if err != nil {
		return -1
	}
	return n
}

func c18NewCmRig(target int, ban bool, lockstep bool, retry time.Duration) (*c18CmRig, error) {
	r := &c18CmRig{tgt: target, ban: ban, lockstep: lockstep, quit: make(chan struct{})}
	r.cond = sync.NewCond(&r.mu)
	nop := lib.DiscardLog()
	cfg := &connmgr.Config{
		TargetOutbound: uint32(target),
		RetryDuration:  retry,
		Logger:         &nop,
		GetNewAddress: func() (net.Addr, error) {
			if r.lockstep {
				r.mu.Lock()
				r.arrivals++
				g := &c18CmGate{serial: r.arrivals, ch: make(chan c18CmGateResp, 1)}
				r.waiting = append(r.waiting, g)
				r.cond.Broadcast()
				r.mu.Unlock()
				select {
				case resp := <-g.ch:
					r.mu.Lock()
					r.asks++
					r.mu.Unlock()
					if resp.addrErr {
						return nil, errors.New("no valid connect address")
					}
					a := &c18CmAddr{idx: resp.addr, ok: resp.ok}
					if resp.addr < len(r.addrText) {
						a.text = r.addrText[resp.addr]
					}
					return a, nil
				case <-r.quit:
					return nil, errors.New("rig stopped")
				}
			}
			r.mu.Lock()
			defer r.mu.Unlock()
			r.asks++
			if r.rng.Intn(100) < 5 {
				return nil, errors.New("no valid connect address")
			}
			idx := r.nextAddr
			if r.pool > 0 {
				idx = r.rng.Intn(r.pool)
			} else {
				r.nextAddr++ // never the same address twice: no address can reach maxFailedAttempts
			}
			return &c18CmAddr{idx: idx, ok: r.rng.Intn(100) < r.pSuccess}, nil
		},
		Dial: func(a net.Addr) (net.Conn, error) {
			ca := a.(*c18CmAddr)
			r.mu.Lock()
			defer r.mu.Unlock()
			r.dials++
			if !ca.ok {
				return nil, errors.New("connection refused")
			}
			r.nOpen++
			if r.nOpen > r.maxOpen {
				r.maxOpen = r.nOpen
			}
			r.cond.Broadcast()
			return &c18CmConn{rig: r}, nil
		},
		OnConnection: func(c *connmgr.ConnReq, _ net.Conn, _ *zerolog.Logger) {
			r.mu.Lock()
			r.est = append(r.est, c18CmEst{id: c.ID(), addr: c.Addr.(*c18CmAddr).idx, req: c})
			r.cond.Broadcast()
			r.mu.Unlock()
		},
		OnDisconnection: func(c *connmgr.ConnReq) {
			r.mu.Lock()
			for i, e := range r.est {
				if e.id == c.ID() {
					r.est = append(r.est[:i:i], r.est[i+1:]...)
					break
				}
			}
			r.closed = append(r.closed, c.ID())
			r.cond.Broadcast()
			r.mu.Unlock()
		},
	}
	if ban {
		cfg.BanAddress = func(s string) {
			r.mu.Lock()
			idx := c18AddrIdx(s)
			for i, t := range r.addrText {
				if t == s {
					idx = i
				}
			}
			r.banned = append(r.banned, idx)
			r.cond.Broadcast()
			r.mu.Unlock()
		}
	}
	cm, err := connmgr.New(cfg)
	if err != nil {
		return nil, err
	}
	r.cm = cm
	return r, nil
}

func (r *c18CmRig) stop() {
	r.cm.Stop()
	close(r.quit)
	r.mu.Lock()
	r.cond.Broadcast()
	r.mu.Unlock()
}

func c18Ints(xs []int) string {
	var s []string
	for _, x := range xs {
		s = append(s, strconv.Itoa(x))
	}
	return "[" + strings.Join(s, ",") + "]"
}

// line renders the observable state like the Lean driver's state line (call with r.mu held).
func (r *c18CmRig) line() string {
	var addrs []int
	for _, e := range r.est {
		addrs = append(addrs, e.addr)
	}
	return fmt.Sprintf("conns=%d live=%d bans=%d dials=%d asks=%d closed=%d addrs=%s banned=%s", len(r.est), len(r.waiting), len(r.banned),
		r.dials, r.asks, len(r.closed), c18Ints(addrs), c18Ints(r.banned))
}

// waitFor blocks until pred holds or the timeout expires; returns the last rendered line.
func (r *c18CmRig) waitFor(timeout time.Duration, pred func() bool) (bool, string) {
	deadline := time.Now().Add(timeout)
	stopTimer := make(chan struct{})
	go func() {
		t := time.NewTicker(5 * time.Millisecond)
		defer t.Stop()
		for {
			select {
			case <-t.C:
				r.mu.Lock()
				r.cond.Broadcast()
				r.mu.Unlock()
			case <-stopTimer:
				return
			}
		}
	}()
	defer close(stopTimer)
	r.mu.Lock()
	defer r.mu.Unlock()
	for !pred() {
		if time.Now().After(deadline) {
			return false, r.line()
		}
		r.cond.Wait()
	}
	return true, r.line()
}

const c18CmQuiesce = 12 * time.Second // generous: only ever waited out when something is wrong (the stream stops after the first time)

// lockstepRun executes `conn …` op lines on the real manager and on the Lean machine.
// Returns the number of ops executed.
func c18Lockstep(c *Ctx, l *lib.Lean, ops []string, caseName string) (int, error) {
	if len(ops) == 0 {
		return 0, nil
	}
	w := strings.Fields(ops[0])
	if len(w) != 4 || w[0] != "conn" || w[1] != "new" {
		return 0, fmt.Errorf("conn history must start with `conn new <target> <banaddr>`: %q", ops[0])
	}
	target, _ := strconv.Atoi(w[2])
	ban := w[3] == "1"
	effTarget := target
	if effTarget == 0 {
		effTarget = 8
	}
	r, err := c18NewCmRig(target, ban, true, time.Millisecond)
	if err != nil {
		return 0, err
	}
	defer r.stop()
	r.cm.Start()
	fail := func(upto int, what, exp, obs, sig string) {
		c.R.Fail(lib.Failure{Case: caseName, Ops: append([]string(nil), ops[:upto+1]...), What: what, Expected: exp, Observed: obs, Signature: sig})
	}
	gaveUp := false // an event that gives a slot up on purpose happened (Remove, cancel of a dialling request)
	for i, op := range ops {
		w := strings.Fields(op)
		if len(w) < 2 || w[0] != "conn" {
			return i, fmt.Errorf("bad conn op %q", op)
		}
		model, err := l.Ask(op)
		if err != nil {
			return i, err
		}
		num := func(k int) int { n, _ := strconv.Atoi(w[k]); return n }
		skip := false
		r.mu.Lock()
		switch w[1] {
		case "new", "dump":
		case "ok", "fail", "addrfail":
			k := num(2)
			if k >= len(r.waiting) {
				skip = true
				break
			}
			g := r.waiting[k]
			r.waiting = append(r.waiting[:k:k], r.waiting[k+1:]...)
			resp := c18CmGateResp{ok: w[1] == "ok", addrErr: w[1] == "addrfail"}
			if w[1] != "addrfail" {
				resp.addr = num(3)
			}
			g.ch <- resp
		case "disc":
			k := num(2)
			if k >= len(r.est) {
				skip = true
				break
			}
			id := r.est[k].id
			retry := num(3) != 0
			if !retry {
				gaveUp = true
			}
			r.mu.Unlock()
			if retry {
				r.cm.Disconnect(id)
			} else {
				r.cm.Remove(id)
			}
			r.mu.Lock()
		case "discold":
			k := num(2)
			if k >= len(r.closed) {
				skip = true
				break
			}
			id := r.closed[k]
			r.mu.Unlock()
			if num(3) != 0 {
				r.cm.Disconnect(id)
			} else {
				r.cm.Remove(id)
			}
			r.mu.Lock()
		case "discid":
			id := uint64(num(2))
			r.mu.Unlock()
			if num(3) != 0 {
				r.cm.Disconnect(id)
			} else {
				r.cm.Remove(id)
			}
			r.mu.Lock()
		case "cancel":
			k := num(2)
			if k >= len(r.waiting) {
				skip = true
				break
			}
			g := r.waiting[k]
			// ids are handed out by one atomic counter; after Start's burst one request is
			// created at a time, so the n-th arrival (n > target) carries id n
			if g.serial <= effTarget && effTarget > 1 {
				r.mu.Unlock()
				return i, fmt.Errorf("cancel of a request of the initial burst (id unknown to the harness): %q", op)
			}
			gaveUp = true
			r.mu.Unlock()
			r.cm.Disconnect(uint64(g.serial))
			time.Sleep(2 * time.Millisecond) // let connHandler mark the request cancelled before it is released
			r.mu.Lock()
		default:
			r.mu.Unlock()
			return i, fmt.Errorf("bad conn op %q", op)
		}
		r.mu.Unlock()
		if skip {
			if model != "bad-index" {
				c.R.Disagree(lib.Disagreement{Case: caseName, Ops: ops[:i+1], Op: op, Impl: "bad-index", Model: model})
				return i, nil
			}
			continue
		}
		// quiescence = the observable counts have reached the model's; a Disconnect/Remove of an
		// id that changes nothing is followed by a short settle time so that a wrong reaction shows
		okq, line := r.waitFor(c18CmQuiesce, func() bool { return r.line() == model })
		c.R.TracesValidated++
		if !okq {
			// the property is judged on what IS observable before giving up: more connections and connection
			// requests than the target is never legitimate. Let every waiting request connect and count.
			r.mu.Lock()
			nest, nwait := len(r.est), len(r.waiting)
			var gates []*c18CmGate
			if nest+nwait > effTarget {
				gates = append(gates, r.waiting...)
				r.waiting = nil
			}
			r.mu.Unlock()
			if len(gates) > 0 {
				for j, g := range gates {
					g.ch <- c18CmGateResp{addr: 200 + j, ok: true}
				}
				r.waitFor(3*time.Second, func() bool { return r.nOpen >= nest+len(gates) })
				r.mu.Lock()
				held, dials := r.maxOpen, r.dials
				r.mu.Unlock()
				c.R.OracleChecked++
				fail(i, "the connection manager holds more outbound connections at once than its target (it started more connection requests than it has free slots)",
					fmt.Sprintf("at most %d connections", effTarget), fmt.Sprintf("%d connections open at once, %d dials; before the dials were released: %s", held, dials, line), "c18-target-exceeded")
			}
			c.R.Disagree(lib.Disagreement{Case: caseName, Ops: ops[:i+1], Op: op, Impl: line, Model: model})
			return i, nil
		}
		lostSlot := false
		r.mu.Lock()
		nb := len(r.banned)
		slots := len(r.est) + len(r.waiting)
		r.mu.Unlock()
		if slots < effTarget {
			lostSlot = true
		}
		if (lostSlot && !gaveUp) || w[1] == "discold" || w[1] == "discid" {
			if lostSlot {
				time.Sleep(40 * time.Millisecond) // 40 retry intervals
			} else {
				time.Sleep(3 * time.Millisecond)
			}
			r.mu.Lock()
			line = r.line()
			slots = len(r.est) + len(r.waiting)
			nb = len(r.banned)
			r.mu.Unlock()
			if line != model {
				c.R.Disagree(lib.Disagreement{Case: caseName, Ops: ops[:i+1], Op: op + " (after settle time)", Impl: line, Model: model})
				return i, nil
			}
		}
		// oracle (independent of the model): never above target; with the server's events every
		// slot is an established connection or a request in flight
		c.R.OracleChecked++
		r.mu.Lock()
		maxOpen := r.maxOpen
		r.mu.Unlock()
		if maxOpen > effTarget {
			fail(i, "more connections open at once than TargetOutbound", fmt.Sprint("<= ", effTarget), fmt.Sprint(maxOpen), "c18-target-exceeded")
			return i, nil
		}
		if !gaveUp && slots != effTarget {
			if ban && nb > 0 && effTarget-slots == nb {
				fail(i, "with BanAddress configured the connection manager stops dialling for a slot after banning an address: established + in flight < target for good",
					fmt.Sprintf("established + in flight = %d", effTarget), fmt.Sprintf("%d (BanAddress calls: %d)", slots, nb), "c18-slot-lost-after-banaddress")
			} else {
				fail(i, "established + in flight differs from the target", fmt.Sprint(effTarget), fmt.Sprintf("%d (BanAddress calls: %d)", slots, nb), "c18-target-not-kept")
			}
			return i, nil
		}
	}
	return len(ops), nil
}

// c18GenConnHistory: seeded lock-step script. style "noban" | "ban" | "banheavy" | "cancel".
// c18GenDupDisc: duplicate and late Disconnect(id) for an id whose connection was already closed, while the
// replacement dial is still held at the gate. One replacement per closed connection, never more than the target.
func c18GenDupDisc(rng *rand.Rand, target int) []string {
	ops := []string{fmt.Sprintf("conn new %d %d", target, rng.Intn(2))}
	for i := 0; i < target; i++ {
		ops = append(ops, fmt.Sprintf("conn ok 0 %d", rng.Intn(6)))
	}
	closed := 0
	for round := 0; round < 4; round++ {
		k := rng.Intn(target)
		ops = append(ops, fmt.Sprintf("conn disc %d 1", k)) // closed; its replacement waits for an address
		closed++
		ops = append(ops, fmt.Sprintf("conn discold %d 1", closed-1)) // the same id again (duplicate)
		if rng.Intn(2) == 0 {
			ops = append(ops, "conn dump")
		}
		ops = append(ops, fmt.Sprintf("conn discold %d 1", rng.Intn(closed))) // a late one for this or an older id
		ops = append(ops, fmt.Sprintf("conn ok 0 %d", rng.Intn(6)))           // the replacement connects
		ops = append(ops, fmt.Sprintf("conn discold %d 1", closed-1))         // and a stale one afterwards
	}
	return append(ops, "conn dump")
}

func c18GenConnHistory(rng *rand.Rand, n int, style string) []string {
	target := 1 + rng.Intn(8)
	if rng.Intn(12) == 0 {
		target = 0 // default target
	}
	eff := target
	if eff == 0 {
		eff = 8
	}
	ban := 0
	if style != "noban" {
		ban = 1
	}
	ops := []string{fmt.Sprintf("conn new %d %d", target, ban)}
	live, conns, closed := eff, 0, 0
	arrivals := eff
	liveSerial := make([]int, eff)
	for i := range liveSerial {
		liveSerial[i] = i + 1
	}
	naddr := 6
	fails := map[int]int{}
	cancelled := map[int]bool{}
	var connAddr []int // addresses of the established connections, establishment order
	for len(ops) < n {
		x := rng.Intn(100)
		switch {
		case x < 70 && live > 0:
			k := rng.Intn(live)
			a := rng.Intn(naddr)
			var kind string
			y := rng.Intn(100)
			switch {
			case style == "banheavy" && a < 2:
				kind = "fail" // addresses 0 and 1 always refuse
			case y < 40:
				kind = "ok"
			case y < 92:
				kind = "fail"
			default:
				kind = "addrfail"
			}
			if style == "ban" && kind == "fail" && fails[a] >= 22 {
				kind = "ok" // style "ban": BanAddress configured but never invoked
			}
			serial := liveSerial[k]
			liveSerial = append(liveSerial[:k:k], liveSerial[k+1:]...)
			live--
			respawn := !cancelled[serial]
			switch kind {
			case "ok":
				ops = append(ops, fmt.Sprintf("conn ok %d %d", k, a))
				if !cancelled[serial] {
					conns++
					connAddr = append(connAddr, a)
					fails[a] = 0
				}
				respawn = false
			case "fail":
				ops = append(ops, fmt.Sprintf("conn fail %d %d", k, a))
				if !cancelled[serial] && ban == 1 {
					fails[a]++ // at 25 the address is banned; the request is replaced all the same
				}
			default:
				ops = append(ops, fmt.Sprintf("conn addrfail %d", k))
			}
			if respawn {
				arrivals++
				liveSerial = append(liveSerial, arrivals)
				live++
			}
		case x < 88 && conns > 0:
			k := rng.Intn(conns)
			retry := 1
			if style == "cancel" && rng.Intn(4) == 0 {
				retry = 0
			}
			ops = append(ops, fmt.Sprintf("conn disc %d %d", k, retry))
			a := connAddr[k]
			connAddr = append(connAddr[:k:k], connAddr[k+1:]...)
			conns--
			closed++
			if retry == 1 {
				// the reconnect counts as a failed attempt to the connection's address when BanAddress is set
				if ban == 1 {
					fails[a]++
				}
				arrivals++
				liveSerial = append(liveSerial, arrivals)
				live++
			}
		case x < 92 && closed > 0:
			ops = append(ops, fmt.Sprintf("conn discold %d %d", rng.Intn(closed), rng.Intn(2)))
		case x < 95:
			ops = append(ops, fmt.Sprintf("conn discid %d %d", 100000+rng.Intn(10), rng.Intn(2)))
		case x < 98 && style == "cancel" && live > 0:
			k := rng.Intn(live)
			if liveSerial[k] > eff || eff == 1 {
				ops = append(ops, fmt.Sprintf("conn cancel %d", k))
				cancelled[liveSerial[k]] = true
			}
		default:
			ops = append(ops, "conn dump")
		}
		if live == 0 && conns == 0 {
			break // dead (only reachable through cancels / Remove)
		}
	}
	return ops
}

// c18FreeRun: real goroutine interleavings, oracle only.
func c18FreeRun(c *Ctx, rng *rand.Rand, target int, ban bool, disconnects int) {
	name := fmt.Sprintf("conn/free target=%d ban=%v", target, ban)
	r, err := c18NewCmRig(target, ban, false, time.Millisecond)
	if err != nil {
		c.R.Notes = append(c.R.Notes, err.Error())
		return
	}
	r.rng = rand.New(rand.NewSource(rng.Int63()))
	r.pSuccess = 15 + rng.Intn(60)
	if !ban && rng.Intn(2) == 0 {
		r.pool = 3 // few addresses, repeated failures: only safe without BanAddress
	}
	desc := []string{fmt.Sprintf("scenario free-run target=%d banaddress=%v success=%d%% pool=%d disconnects=%d retry=1ms", target, ban, r.pSuccess, r.pool, disconnects)}
	defer r.stop()
	r.cm.Start()
	fail := func(what, exp, obs, sig string) {
		c.R.Fail(lib.Failure{Case: name, Ops: desc, What: what, Expected: exp, Observed: obs, Signature: sig})
	}
	reach := func(stage string) bool {
		ok, line := r.waitFor(60*time.Second, func() bool { return len(r.est) == target || r.maxOpen > target })
		r.mu.Lock()
		over := r.maxOpen > target
		r.mu.Unlock()
		if over {
			c.R.OracleChecked++
			fail("more connections open at once than TargetOutbound", fmt.Sprint("<= ", target), line, "c18-target-exceeded")
			return false
		}
		c.R.OracleChecked++
		if !ok {
			r.mu.Lock()
			nb := len(r.banned)
			r.mu.Unlock()
			sig := "c18-target-not-reached"
			if ban && nb > 0 {
				sig = "c18-slot-lost-after-banaddress"
			}
			fail("the connection manager did not (re)establish the target number of outbound connections within 60 s ("+stage+")", fmt.Sprintf("conns=%d", target), line, sig)
		}
		return ok
	}
	if !reach("start") {
		return
	}
	for d := 0; d < disconnects; d++ {
		r.mu.Lock()
		if len(r.est) == 0 {
			r.mu.Unlock()
			break
		}
		k := 1 + rng.Intn(len(r.est))
		var ids []uint64
		for _, j := range rng.Perm(len(r.est))[:k] {
			ids = append(ids, r.est[j].id)
		}
		r.mu.Unlock()
		for _, id := range ids {
			r.cm.Disconnect(id)
		}
		// the closed ones are gone …
		r.waitFor(60*time.Second, func() bool {
			for _, e := range r.est {
				for _, id := range ids {
					if e.id == id {
						return false
					}
				}
			}
			return true
		})
		// … and replaced
		if !reach(fmt.Sprintf("after disconnect round %d of %d connection(s)", d+1, k)) {
			return
		}
	}
	// stays at the target, never above
	time.Sleep(20 * time.Millisecond)
	r.mu.Lock()
	maxOpen, nest := r.maxOpen, len(r.est)
	dials := r.dials
	r.mu.Unlock()
	c.R.OracleChecked += 2
	c.R.Count("conn:free-run", 1)
	c.R.Count("conn:free-run:dials", dials)
	c.R.Case(strings.Join(desc, " ")+fmt.Sprint(" seed-derived ", r.pSuccess, r.pool), dials > target)
	if maxOpen > target {
		fail("more connections open at once than TargetOutbound", fmt.Sprint("<= ", target), fmt.Sprint(maxOpen), "c18-target-exceeded")
	}
	if nest != target {
		fail("established connections differ from the target at rest", fmt.Sprint(target), fmt.Sprint(nest), "c18-target-not-kept")
	}
}

// the witness of R-C18 as lock-step ops
func c18WitnessOps() []string {
	ops := []string{"conn new 1 1"}
	for i := 0; i < 25; i++ {
		ops = append(ops, "conn fail 0 0")
	}
	return ops
}

// c18SilenceAfterBan replays `ops` (lock-step) and then watches the real manager for a
// while: returns true when it holds fewer slots than the target and never dials again.
func c18SilenceAfterBan(ops []string) (bool, string, error) {
	w := strings.Fields(ops[0])
	if len(w) != 4 {
		return false, "", fmt.Errorf("bad witness")
	}
	target, _ := strconv.Atoi(w[2])
	if target == 0 {
		target = 8
	}
	r, err := c18NewCmRig(target, w[3] == "1", true, time.Millisecond)
	if err != nil {
		return false, "", err
	}
	defer r.stop()
	r.cm.Start()
	if ok, line := r.waitFor(c18CmQuiesce, func() bool { return len(r.waiting) == target }); !ok {
		return false, line, nil
	}
	for _, op := range ops[1:] {
		w := strings.Fields(op)
		if len(w) < 3 || (w[1] != "ok" && w[1] != "fail") {
			return false, "", fmt.Errorf("witness op %q not supported", op)
		}
		k, _ := strconv.Atoi(w[2])
		a, _ := strconv.Atoi(w[3])
		r.mu.Lock()
		if k >= len(r.waiting) {
			line := r.line()
			r.mu.Unlock()
			return false, "no request in flight before " + op + ": " + line, nil
		}
		g := r.waiting[k]
		r.waiting = append(r.waiting[:k:k], r.waiting[k+1:]...)
		before := r.dials
		r.mu.Unlock()
		g.ch <- c18CmGateResp{addr: a, ok: w[1] == "ok"}
		r.waitFor(c18CmQuiesce, func() bool { return r.dials > before })
		// give the follow-up request (if any) time to arrive
		r.waitFor(300*time.Millisecond, func() bool { return len(r.est)+len(r.waiting) == target })
	}
	time.Sleep(300 * time.Millisecond) // 300 retry intervals of silence
	r.mu.Lock()
	defer r.mu.Unlock()
	line := r.line()
	return len(r.est)+len(r.waiting) < target && len(r.banned) > 0, line, nil
}
