package main

// C09 — every API route is mediated by authentication; admin routes by admin token.
//
// For each configuration {metrics} x {use_auth} x {debug_profiling} the real stack
// (SQLite + services + gin engine wired as cmd/main.go does) is built, the routing
// table is enumerated AT RUN TIME (Engine.Routes()), and every route x credential
// variant is sent through Engine.ServeHTTP. Compared with the Lean model
// (`tok req`, `tok routes`, `tok wrapped`), and checked by an oracle that restates
// the property directly over the responses and the database contents.

import (
	"context"
	"encoding/json"
	"fmt"
	"math/rand"
	"net/http/httptest"
	"sort"
	"strings"
	"time"

	"github.com/bitcoin-sv/block-headers-service/internal/chaincfg"
	"github.com/bitcoin-sv/block-headers-service/metrics"
	"github.com/bitcoin-sv/block-headers-service/verifharness/lib"
)

func init() { runners["C09"] = runC09 }

const c09Prefix = "/api/v1"

type c09Cfg struct{ auth, prof, metr bool }

func c09b(v bool) string {
	if v {
		return "1"
	}
	return "0"
}
func (k c09Cfg) bits() string { return c09b(k.auth) + c09b(k.prof) + c09b(k.metr) }

// c09Cred is one credential variant. Tmpl uses {U} valid user token, {R} revoked
// token, {A} admin token, {X} unknown token; Set=false means no Authorization header.
type c09Cred struct {
	Class string
	Name  string
	Set   bool
	Tmpl  string
}

func c09FixedCreds() []c09Cred {
	return []c09Cred{
		{"none", "absent", false, ""},
		{"empty", "empty-value", true, ""},
		{"wrong-scheme", "basic", true, "Basic {U}"},
		{"wrong-scheme", "lowercase", true, "bearer {U}"},
		{"wrong-scheme", "uppercase-admin", true, "BEARER {A}"},
		{"wrong-scheme", "token-admin", true, "Token {A}"},
		{"wrong-scheme", "no-separator", true, "Bearer{U}"},
		{"wrong-scheme", "scheme-only", true, "Bearer"},
		{"wrong-scheme", "bare-token", true, "{A}"},
		{"extra-parts", "trailing-word", true, "Bearer {U} x"},
		{"extra-parts", "double-space", true, "Bearer  {U}"},
		{"extra-parts", "leading-space", true, " Bearer {U}"},
		{"extra-parts", "trailing-space", true, "Bearer {U} "},
		{"extra-parts", "admin-trailing-word", true, "Bearer {A} extra"},
		{"extra-parts", "tab-separator", true, "Bearer\t{U}"},
		{"extra-parts", "two-tokens", true, "Bearer {U} {A}"},
		{"unknown-token", "random", true, "Bearer {X}"},
		{"unknown-token", "empty-token", true, "Bearer "},
		{"unknown-token", "case-changed", true, "Bearer {u}"},
		{"unknown-token", "truncated", true, "Bearer {U-}"},
		{"unknown-token", "extended", true, "Bearer {U}x"},
		{"unknown-token", "non-ascii", true, "Bearer tökén"},
		// never-issued strings built from what a query language, a pattern match or a byte-oriented store might treat
		// specially (no spaces: the header has exactly two parts); they are unknown tokens like any other
		{"unknown-token", "quote-or", true, "Bearer x'OR'1'='1"},
		{"unknown-token", "quote-or-empty", true, "Bearer 'OR''='"},
		{"unknown-token", "quote-or-column", true, "Bearer 'OR(token)IS(token)OR'"},
		{"unknown-token", "quote", true, "Bearer '"},
		{"unknown-token", "valid-then-quote-comment", true, "Bearer {U}'--"},
		{"unknown-token", "valid-then-dquote", true, "Bearer {U}\""},
		{"unknown-token", "percent", true, "Bearer %"},
		{"unknown-token", "underscores", true, "Bearer ________________________________"},
		{"unknown-token", "valid-then-nul", true, "Bearer {U}\x00"},
		{"revoked-token", "revoked", true, "Bearer {R}"},
		{"valid-user-token", "user", true, "Bearer {U}"},
		{"admin-token", "admin", true, "Bearer {A}"},
	}
}

type c09Toks struct{ U, R, A, X string }

func c09SwapCase(s string) string {
	b := []byte(s)
	for i, c := range b {
		switch {
		case c >= 'a' && c <= 'z':
			b[i] = c - 32
		case c >= 'A' && c <= 'Z':
			b[i] = c + 32
		}
	}
	return string(b)
}

func (t c09Toks) expand(tmpl string) string {
	r := strings.NewReplacer("{U-}", t.U[:len(t.U)-1], "{u}", c09SwapCase(t.U), "{U}", t.U, "{R}", t.R, "{A}", t.A, "{X}", t.X)
	return r.Replace(tmpl)
}

// c09Mutate makes a random near-miss of a valid header (template level).
func c09Mutate(rng *rand.Rand) c09Cred {
	bases := []string{"Bearer {U}", "Bearer {A}", "Bearer {R}", "Bearer {X}"}
	s := bases[rng.Intn(len(bases))]
	// positions outside the {..} placeholders only
	edit := func(s string) string {
		var pos []int
		depth := 0
		for i := 0; i <= len(s); i++ {
			if i < len(s) && s[i] == '{' {
				pos = append(pos, i)
				depth++
				continue
			}
			if i < len(s) && s[i] == '}' {
				depth--
				continue
			}
			if i < len(s) && s[i]&0xC0 == 0x80 { // never split a multi-byte character
				continue
			}
			if depth == 0 {
				pos = append(pos, i)
			}
		}
		p := pos[rng.Intn(len(pos))]
		ins := []string{" ", "  ", "\t", "x", "B", ",", ":", "Bearer ", "é"}
		switch rng.Intn(4) {
		case 0, 1:
			return s[:p] + ins[rng.Intn(len(ins))] + s[p:]
		case 2: // delete one character of the scheme
			if p < len("Bearer ") && p < len(s) && s[p] != '{' && s[p] < 0x80 {
				return s[:p] + s[p+1:]
			}
			return s[:p] + " " + s[p:]
		default: // flip case of one scheme letter
			if p < len("Bearer") {
				return s[:p] + c09SwapCase(s[p:p+1]) + s[p+1:]
			}
			return s + " "
		}
	}
	s = edit(s)
	if rng.Intn(3) == 0 {
		s = edit(s)
	}
	return c09Cred{"mutated", "mut", true, s}
}

type c09Route struct{ Method, Path, Handler string }

func c09UnderPrefix(p string) bool { return p == c09Prefix || strings.HasPrefix(p, c09Prefix+"/") }

// c09Fill turns a route pattern into a concrete request target and body.
func c09Fill(r c09Route, rng *rand.Rand) (target string, body string) {
	gen := chaincfg.MainNetParams.GenesisHash.String()
	segs := strings.Split(r.Path, "/")
	for i, s := range segs {
		switch {
		case s == ":hash" || s == ":ancestorHash":
			segs[i] = gen
		case s == ":token":
			segs[i] = c09RandToken(rng, 32)
		case strings.HasPrefix(s, ":"):
			segs[i] = "1"
		case strings.HasPrefix(s, "*"):
			segs[i] = "index.html"
		}
	}
	target = strings.Join(segs, "/")
	switch {
	case strings.HasSuffix(r.Path, "/byHeight"):
		target += "?height=0&count=1"
	case strings.HasSuffix(r.Path, "/merkleroot") && r.Method == "GET":
		target += "?batchSize=1"
	case strings.HasSuffix(r.Path, "/webhook") && r.Method != "POST":
		target += "?url=http%3A%2F%2F127.0.0.1%3A1%2Fhook-" + c09RandToken(rng, 6)
	}
	if r.Method == "POST" || r.Method == "PUT" || r.Method == "PATCH" {
		switch {
		case strings.HasSuffix(r.Path, "/commonAncestor"):
			body = `["` + gen + `"]`
		case strings.HasSuffix(r.Path, "/verify"):
			body = `[{"merkleRoot":"4a5e1e4baab89f3a32518a88c31bc87f618f76673e2cc77ab2127b7afdeda33b","blockHeight":0}]`
		case strings.HasSuffix(r.Path, "/webhook"):
			body = `{"url":"http://127.0.0.1:1/hook-` + c09RandToken(rng, 6) + `","requiredAuth":{"type":"BEARER","token":"t","header":"Authorization"}}`
		default:
			body = `{}`
		}
	}
	return
}

type c09Resp struct {
	Status int
	Body   string
	CT     string
	Panic  string
}

func c09Do(rig *c09Rig, method, target, body string, set bool, hdr string) (res c09Resp) {
	defer func() {
		if p := recover(); p != nil {
			res.Panic = fmt.Sprint(p)
		}
	}()
	var rd *strings.Reader
	ctx := context.Background()
	if strings.Contains(target, "/pprof/") {
		// pprof profile/trace sleep for seconds unless the request context ends
		var cancel context.CancelFunc
		ctx, cancel = context.WithTimeout(ctx, 30*time.Millisecond)
		defer cancel()
	}
	rd = strings.NewReader(body)
	req := httptest.NewRequest(method, target, rd).WithContext(ctx)
	if body != "" {
		req.Header.Set("Content-Type", "application/json")
	}
	if set {
		req.Header["Authorization"] = []string{hdr}
	}
	w := httptest.NewRecorder()
	rig.Engine.ServeHTTP(w, req)
	b := w.Body.String()
	if len(b) > 400 {
		b = b[:400]
	}
	return c09Resp{Status: w.Code, Body: b, CT: w.Header().Get("Content-Type")}
}

var c09Codes401 = map[string]bool{"ErrMissingAuthHeader": true, "ErrInvalidAuthHeader": true, "ErrInvalidAccessToken": true,
	"ErrUnauthorized": true, "ErrAdminTokenNotFound": true}

// c09Structured checks the 401 body is the structured error {code, message}.
func c09Structured(r c09Resp) (code string, ok bool) {
	var m map[string]any
	if err := json.Unmarshal([]byte(r.Body), &m); err != nil {
		return "", false
	}
	c, _ := m["code"].(string)
	msg, _ := m["message"].(string)
	return c, c != "" && msg != "" && len(m) == 2 && strings.HasPrefix(r.CT, "application/json")
}

func c09IsAccessMgmt(r c09Route) bool {
	return (r.Method == "POST" && r.Path == c09Prefix+"/access") || (r.Method == "DELETE" && strings.HasPrefix(r.Path, c09Prefix+"/access/"))
}

// c09OutsideAllowed: the independent statement of which routes may live outside the prefix.
func c09OutsideAllowed(r c09Route, k c09Cfg) bool {
	if r.Method != "GET" {
		return false
	}
	switch {
	case r.Path == "/status":
		return true
	case strings.HasPrefix(r.Path, "/swagger/"):
		return true
	case r.Path == "/connection/websocket":
		return true
	case r.Path == "/metrics":
		return k.metr
	case strings.HasPrefix(r.Path, "/pprof/debug/"):
		return k.prof
	}
	return false
}

type c09Want struct{ method, pattern, tmpl string }

func runC09(c *Ctx) error {
	rng := lib.Rng(c.Seed, "c09")
	c.R.Rule = "every route of Engine.Routes() (enumerated at run time) x every registered method x credential variants " +
		"{absent, empty, wrong scheme (7), extra parts (7), unknown token (15), revoked, valid user, admin} + random near-miss mutations of valid headers " +
		"(routes outside the prefix: one variant per class), " +
		"for {metrics off/on} x {use_auth off/on} x {debug_profiling off/on}; requests through Engine.ServeHTTP on the real SQLite stack; " +
		"a case is non-trivial when use_auth is on and the route lies under /api/v1 (the middleware decides); distinct by (config, method, pattern, header template)"
	nmut := 4
	if c.Thorough {
		nmut = 400
	}
	var wants map[string][]c09Want // replay: cfg bits -> requests
	if c.Replay != "" {
		ops, err := lib.ReadReplayOps(c.Replay)
		if err != nil {
			return err
		}
		wants = c09ParseOps(ops)
	}
	l := c.lean()
	defer l.Close()
	if _, on := metrics.Get(); on {
		return fmt.Errorf("metrics already enabled at start")
	}
	for _, m := range []bool{false, true} {
		if m {
			metrics.EnableMetrics() // package global; cannot be switched off again: metrics-off configurations come first
		}
		for _, a := range []bool{false, true} {
			for _, p := range []bool{false, true} {
				k := c09Cfg{a, p, m}
				if wants != nil && wants[k.bits()] == nil {
					continue
				}
				if err := c09RunConfig(c, l, rng, k, nmut, wants[k.bits()]); err != nil {
					return fmt.Errorf("config %s: %w", k.bits(), err)
				}
			}
		}
	}
	c.R.ModelOps = l.Ops
	c.R.Exhaustive = c.Replay == "" // routes x fixed credential classes x configurations are enumerated completely
	for _, kn := range lib.KnownFor(c.Known, "C09") {
		st := "not-reproduced"
		for _, f := range c.R.Failures {
			if f.Signature == kn.Signature {
				st = "reproduced"
			}
		}
		c.R.KnownReplayed[kn.ID] = st
	}
	return nil
}

func c09ParseOps(ops []string) map[string][]c09Want {
	res := map[string][]c09Want{}
	for _, op := range ops {
		f := strings.Fields(op)
		// c09 <cfgbits> <METHOD> <pattern> <xTEMPLATE|none>
		if len(f) != 5 || f[0] != "c09" {
			continue
		}
		res[f[1]] = append(res[f[1]], c09Want{f[2], f[3], f[4]})
	}
	return res
}

func c09TmplWord(cr c09Cred) string {
	if !cr.Set {
		return "none"
	}
	return c09Hex(cr.Tmpl)
}

func c09RunConfig(c *Ctx, l *lib.Lean, rng *rand.Rand, k c09Cfg, nmut int, wants []c09Want) error {
	admin := "adm" + c09RandToken(rng, 20)
	dbFile := lib.TempDB("c09-" + k.bits() + ".db")
	rig, err := c09NewRig(lib.StackOpts{File: dbFile, UseAuth: k.auth, AdminToken: admin, Profiling: k.prof}, false)
	if err != nil {
		return err
	}
	defer rig.Close()
	// state: one live token, one revoked token, one webhook
	tu, err := rig.St.Svc.Tokens.GenerateToken()
	if err != nil {
		return err
	}
	tr, err := rig.St.Svc.Tokens.GenerateToken()
	if err != nil {
		return err
	}
	// the token to be revoked is presented (and, with auth on, accepted) a few times first, so that
	// anything remembering an earlier successful lookup is populated before the revocation
	for i := 0; i < 3; i++ {
		pre := c09Do(rig, "GET", c09Prefix+"/chain/tip/longest", "", true, "Bearer "+tr.Token)
		c.R.OracleChecked++
		if pre.Status != 200 {
			c.R.Fail(lib.Failure{Case: k.bits() + " live-token-before-revocation", Ops: []string{fmt.Sprintf("c09 %s GET %s/chain/tip/longest live", k.bits(), c09Prefix)},
				What:     "a freshly issued token is refused on an authenticated route",
				Expected: "200", Observed: fmt.Sprintf("%d %s", pre.Status, pre.Body),
				Signature: "c09-live-token-refused"})
		}
	}
	if err := rig.St.Svc.Tokens.DeleteToken(tr.Token); err != nil {
		return err
	}
	toks := c09Toks{U: tu.Token, R: tr.Token, A: admin, X: c09RandToken(rng, 32)}
	seed := c09Do(rig, "POST", c09Prefix+"/webhook", `{"url":"http://127.0.0.1:1/seeded","requiredAuth":{"type":"BEARER","token":"t","header":"Authorization"}}`, true, "Bearer "+admin)
	if seed.Status != 200 {
		c.R.Notes = append(c.R.Notes, fmt.Sprintf("config %s: seeding a webhook answered %d %s", k.bits(), seed.Status, seed.Body))
	}
	if _, err := l.Ask(fmt.Sprintf("tok cfg %s %s", c09Hex(admin), c09b(k.auth))); err != nil {
		return err
	}
	for _, op := range []string{"tok create " + c09Hex(toks.U), "tok create " + c09Hex(toks.R), "tok revoke " + c09Hex(toks.R)} {
		if _, err := l.Ask(op); err != nil {
			return err
		}
	}

	// routing table at run time
	var routes []c09Route
	for _, r := range rig.Engine.Routes() {
		routes = append(routes, c09Route{r.Method, r.Path, r.Handler})
	}
	sort.Slice(routes, func(i, j int) bool {
		if routes[i].Path != routes[j].Path {
			return routes[i].Path < routes[j].Path
		}
		return routes[i].Method < routes[j].Method
	})
	var rendered, wrapped []string
	for _, r := range routes {
		rendered = append(rendered, r.Method+" "+r.Path)
		if strings.Contains(r.Handler, "RequireAdmin.func") {
			wrapped = append(wrapped, r.Method+" "+r.Path)
		}
		c.R.OracleChecked++
		if !c09UnderPrefix(r.Path) && !c09OutsideAllowed(r, k) {
			c.R.Fail(lib.Failure{Case: k.bits() + " " + r.Method + " " + r.Path, Ops: []string{fmt.Sprintf("c09 %s %s %s none", k.bits(), r.Method, r.Path)},
				What:     "a route outside the authenticated prefix that is not status / swagger / websocket / metrics (enabled) / pprof (enabled)",
				Expected: "every route outside /api/v1 is one of the named kinds, optional ones only when enabled", Observed: r.Method + " " + r.Path + " handler " + r.Handler,
				Signature: "c09-route-outside-prefix:" + r.Method + " " + r.Path})
		}
	}
	if wants == nil {
		for _, q := range []struct{ op, impl string }{{"tok routes " + k.bits(), strings.Join(rendered, "|")}, {"tok wrapped " + k.bits(), strings.Join(wrapped, "|")}} {
			if q.impl == "" {
				q.impl = "-"
			}
			ans, err := l.Ask(q.op)
			if err != nil {
				return err
			}
			c.R.TracesValidated++
			if ans != q.impl {
				c.R.Disagree(lib.Disagreement{Case: q.op, Op: q.op, Impl: q.impl, Model: ans})
			}
		}
		c.R.Count("routes in table, config "+k.bits(), len(routes))
	}

	type sent struct {
		r     c09Route
		cr    c09Cred
		hdr   string
		resp  c09Resp
		impl  string
		exact bool
	}
	var all []sent
	var lines []string
	before, err := c09Digest(rig)
	if err != nil {
		return err
	}
	for _, r := range routes {
		creds := c09FixedCreds()
		if c09UnderPrefix(r.Path) {
			for i := 0; i < nmut; i++ {
				creds = append(creds, c09Mutate(rng))
			}
		} else {
			// no middleware is expected here: one representative per credential class
			// (the CPU-profile route costs ~200 ms per request: three classes)
			seen := map[string]bool{}
			var reps []c09Cred
			for _, cr := range creds {
				if strings.HasSuffix(r.Path, "/profile") && cr.Class != "none" && cr.Class != "unknown-token" && cr.Class != "admin-token" {
					continue
				}
				if !seen[cr.Class] {
					seen[cr.Class] = true
					reps = append(reps, cr)
				}
			}
			creds = reps
		}
		if wants != nil {
			creds = nil
			for _, w := range wants {
				if w.method == r.Method && w.pattern == r.Path {
					if w.tmpl == "none" {
						creds = append(creds, c09Cred{"replay", "replay", false, ""})
					} else if b, err := c09Unhex(w.tmpl); err == nil {
						creds = append(creds, c09Cred{"replay", "replay", true, b})
					}
				}
			}
		}
		for _, cr := range creds {
			hdr := toks.expand(cr.Tmpl)
			target, body := c09Fill(r, rng)
			resp := c09Do(rig, r.Method, target, body, cr.Set, hdr)
			after, err := c09Digest(rig)
			if err != nil {
				return err
			}
			op := fmt.Sprintf("c09 %s %s %s %s", k.bits(), r.Method, r.Path, c09TmplWord(cr))
			under := c09UnderPrefix(r.Path)
			c.R.Case(op, k.auth && under)
			c.R.Count("class:"+cr.Class, 1)
			if under {
				c.R.Count("requests to /api/v1 routes, use_auth="+c09b(k.auth), 1)
			} else {
				c.R.Count("requests to routes outside the prefix", 1)
			}

			// ---- oracle: the property, stated directly ----
			valid := cr.Set && (hdr == "Bearer "+toks.A || hdr == "Bearer "+toks.U)
			isAdmin := cr.Set && hdr == "Bearer "+toks.A
			want401 := k.auth && under && (!valid || (c09IsAccessMgmt(r) && !isAdmin))
			c.R.OracleChecked++
			fail := func(what, exp, obs, sig string) {
				c.R.Fail(lib.Failure{Case: op, Ops: []string{op}, What: what, Expected: exp, Observed: obs, Signature: sig,
					Extra: map[string]any{"header": hdr, "target": target, "status": resp.Status, "body": resp.Body}})
			}
			if resp.Panic != "" {
				fail("request panicked through Engine.ServeHTTP", "an HTTP answer", "panic: "+resp.Panic, "c09-panic:"+r.Method+" "+r.Path)
			}
			switch {
			case want401 && resp.Status != 401:
				fail("a request without a valid credential was not answered 401", "401", fmt.Sprint(resp.Status, " ", resp.Body),
					"c09-not-mediated:"+r.Method+" "+r.Path+":"+cr.Class)
			case !want401 && resp.Status == 401:
				fail("a request that needs no credential / carries a valid one was answered 401", "not 401", fmt.Sprint(resp.Status, " ", resp.Body),
					"c09-rejected-wrongly:"+r.Method+" "+r.Path+":"+cr.Class+":auth="+c09b(k.auth))
			}
			impl := "pass"
			exact := false
			if resp.Status == 401 {
				code, ok := c09Structured(resp)
				if !ok || !c09Codes401[code] {
					fail("401 answer is not the structured error {code, message}", `{"code":"Err…","message":"…"} application/json`, resp.CT+" "+resp.Body,
						"c09-401-unstructured:"+r.Method+" "+r.Path)
				}
				impl = "401 " + code
				if after != before {
					fail("a rejected request changed the tokens / webhooks / headers tables", "digest "+before, "digest "+after,
						"c09-state-changed-by-rejected:"+r.Method+" "+r.Path)
				}
			} else if r.Method == "GET" && r.Path == c09Prefix+"/access" {
				// the only handler that shows what the middleware put into the context
				exact = true
				var tok struct {
					Token   string `json:"token"`
					IsAdmin bool   `json:"isAdmin"`
				}
				switch {
				case resp.Status == 200 && json.Unmarshal([]byte(resp.Body), &tok) == nil && tok.IsAdmin:
					impl = "pass admin"
				case resp.Status == 200:
					impl = "pass user"
				default:
					impl = "pass open"
				}
				if k.auth && ((impl == "pass admin") != isAdmin || impl == "pass open") {
					fail("GET /access does not report the token class of the credential", fmt.Sprint("isAdmin=", isAdmin), impl, "c09-token-class")
				}
			}
			before = after
			all = append(all, sent{r, cr, hdr, resp, impl, exact})
			lines = append(lines, fmt.Sprintf("tok req %s %s %s %s", k.bits(), r.Method, c09Hex(r.Path), c09Hex(hdr)))
			if len(c.R.Samples) < 16 && (len(all)%97 == 1) {
				c.R.Sample(map[string]any{"config": k.bits(), "route": r.Method + " " + r.Path, "class": cr.Class, "header": hdr, "status": resp.Status, "impl": impl}, 16)
			}
		}
	}
	// ---- correspondence with the model ----
	ans, err := l.AskBatch(lines)
	if err != nil {
		return err
	}
	for i, s := range all {
		model := ans[i]
		cmp := model
		if !s.exact && (strings.HasPrefix(model, "pass") || strings.HasPrefix(model, "outside ")) {
			cmp = "pass"
		}
		if s.exact && strings.HasPrefix(model, "outside ") {
			cmp = "pass"
		}
		c.R.TracesValidated++
		if cmp != s.impl {
			c.R.Disagree(lib.Disagreement{Case: fmt.Sprintf("c09 %s %s %s %s", k.bits(), s.r.Method, s.r.Path, c09TmplWord(s.cr)),
				Ops: []string{fmt.Sprintf("c09 %s %s %s %s", k.bits(), s.r.Method, s.r.Path, c09TmplWord(s.cr))},
				Op:  lines[i] + "  # header " + fmt.Sprintf("%q", s.hdr), Impl: s.impl, Model: model})
		}
	}
	c09RawBytes(c, rig, k, toks)
	c09LockedStore(c, rig, dbFile, k, toks)
	c09Rotation(c, k, dbFile, admin)
	return nil
}

func c09Unhex(w string) (string, error) {
	if !strings.HasPrefix(w, "x") {
		return "", fmt.Errorf("not a hex word")
	}
	b := make([]byte, 0, len(w)/2)
	for i := 1; i+1 < len(w); i += 2 {
		var v byte
		if _, err := fmt.Sscanf(w[i:i+2], "%02x", &v); err != nil {
			return "", err
		}
		b = append(b, v)
	}
	return string(b), nil
}
