package main

// C06/C07 — scenario vocabulary of the sync rig.
//
// A scenario is structural (a block tree given by parent indices and bits, scripted nodes given by
// paths through that tree, a step list); the headers themselves are rebuilt at run time with FRESH
// timestamps, because HeaderService.IsCurrent compares the tip's timestamp with the wall clock.
// The textual form (one item per line) is what replay files and KNOWN_FINDINGS witnesses contain:
//
//   c06 engine=legacy|exp cpoff=0|1 cps=<idx,..> init=<idx,..> forbid=<idx,..> sched=serial|free seed=<n> salt=<n> [readers=<n>]
//        readers=n: n background goroutines read the store for the whole run the way the running service is read
//        (Headers.GetTip, Headers.LatestHeaderLocator, GET /api/v1/chain/tip/longest through the gin engine)
//   tree parents=<p0,p1,..> [bits=<hex,..>]          parent -1 = genesis; parent index < own index
//   node path=<idx,..> pos=<k> cap=<n> dir=out|in honest=0|1 [closeat=<k>] [stallat=<k>] [nostop=1]
//   step connect <node> | serve <node> | run | announce <node> inv|invx|invt|headers <k> | push <node> inv|headers <idx,..>
//        | close <node> | stall <node> | tick <seconds> | settle | hitrun <node> <idx,..>
//
// cps / init / forbid / path / push refer to tree indices. A node's best chain is path[:pos];
// `announce n inv k` moves pos forward by k and announces the new blocks; `invx` announces them in ONE inv message that
// also carries the (already announced) blocks before them and non-block (tx) entries before and after;
// `invt`: ONE inv that starts with two tx entries, then the new blocks, a tx entry after each of them.
// `nostop=1` makes a (misbehaving) node ignore the stop hash of getheaders.
// `hitrun n idx,..` (default engine, serial): while the manager is held busy, node n sends ONE headers message with these
// headers and closes its socket at once; the service-side peer has read the message (it is queued for the manager) and
// seen the end of the stream before the manager gets to it; the done message follows as its own event.

import (
	"crypto/sha256"
	"fmt"
	"math/big"
	"strconv"
	"strings"
	"time"
)

type scnNode struct {
	Path    []int
	Pos     int
	Cap     int
	Dir     string // "out": the service dials the node; "in": the node dials the service
	Honest  bool
	CloseAt int  // close the connection instead of answering the k-th getheaders (0-based); -1 = never
	StallAt int  // stop answering from the k-th getheaders on; -1 = never
	NoStop  bool // ignores the stop hash (misbehaving nodes only)
}

type scnStep struct {
	Kind string // connect serve run announce push close stall tick settle
	Node int
	How  string // inv | headers
	N    int    // announce: count; tick: seconds
	Idx  []int  // push: tree indices
}

type scn struct {
	Engine  string
	CpOff   bool
	Cps     []int
	Init    []int
	Forbid  []int
	Sched   string
	Seed    int64
	Salt    uint32
	Readers int // background goroutines that keep reading the store the way the service is read (tip, locator, GET tip)
	Parents []int
	Bits    []uint32
	Nodes   []scnNode
	Steps   []scnStep
}

func intsStr(a []int) string {
	s := make([]string, len(a))
	for i, v := range a {
		s[i] = strconv.Itoa(v)
	}
	return strings.Join(s, ",")
}

func parseInts(s string) ([]int, error) {
	if s == "" {
		return nil, nil
	}
	var r []int
	for _, f := range strings.Split(s, ",") {
		// a..b ranges keep long linear chains readable
		if i := strings.Index(f, ".."); i > 0 {
			a, err1 := strconv.Atoi(f[:i])
			b, err2 := strconv.Atoi(f[i+2:])
			if err1 != nil || err2 != nil || b < a {
				return nil, fmt.Errorf("bad range %q", f)
			}
			for v := a; v <= b; v++ {
				r = append(r, v)
			}
			continue
		}
		v, err := strconv.Atoi(f)
		if err != nil {
			return nil, err
		}
		r = append(r, v)
	}
	return r, nil
}

// compactInts renders runs of consecutive integers as a..b.
func compactInts(a []int) string {
	var parts []string
	for i := 0; i < len(a); {
		j := i
		for j+1 < len(a) && a[j+1] == a[j]+1 {
			j++
		}
		if j-i >= 2 {
			parts = append(parts, fmt.Sprintf("%d..%d", a[i], a[j]))
		} else {
			for k := i; k <= j; k++ {
				parts = append(parts, strconv.Itoa(a[k]))
			}
		}
		i = j + 1
	}
	return strings.Join(parts, ",")
}

func b01(b bool) string {
	if b {
		return "1"
	}
	return "0"
}

// Ops is the textual form.
func (s *scn) Ops() []string {
	ops := []string{fmt.Sprintf("c06 engine=%s cpoff=%s cps=%s init=%s forbid=%s sched=%s seed=%d salt=%d", s.Engine, b01(s.CpOff),
		compactInts(s.Cps), compactInts(s.Init), compactInts(s.Forbid), s.Sched, s.Seed, s.Salt)}
	if s.Readers > 0 {
		ops[0] += fmt.Sprintf(" readers=%d", s.Readers)
	}
	t := "tree parents=" + treeParentsStr(s.Parents)
	allDefault := true
	for _, b := range s.Bits {
		if b != defaultBits {
			allDefault = false
		}
	}
	if !allDefault {
		bs := make([]string, len(s.Bits))
		for i, b := range s.Bits {
			bs[i] = strconv.FormatUint(uint64(b), 16)
		}
		t += " bits=" + strings.Join(bs, ",")
	}
	ops = append(ops, t)
	for _, n := range s.Nodes {
		l := fmt.Sprintf("node path=%s pos=%d cap=%d dir=%s honest=%s", compactInts(n.Path), n.Pos, n.Cap, n.Dir, b01(n.Honest))
		if n.CloseAt >= 0 {
			l += fmt.Sprintf(" closeat=%d", n.CloseAt)
		}
		if n.StallAt >= 0 {
			l += fmt.Sprintf(" stallat=%d", n.StallAt)
		}
		if n.NoStop {
			l += " nostop=1"
		}
		ops = append(ops, l)
	}
	for _, st := range s.Steps {
		switch st.Kind {
		case "run", "settle":
			ops = append(ops, "step "+st.Kind)
		case "tick":
			ops = append(ops, fmt.Sprintf("step tick %d", st.N))
		case "announce":
			ops = append(ops, fmt.Sprintf("step announce %d %s %d", st.Node, st.How, st.N))
		case "push":
			ops = append(ops, fmt.Sprintf("step push %d %s %s", st.Node, st.How, compactInts(st.Idx)))
		case "hitrun":
			ops = append(ops, fmt.Sprintf("step hitrun %d %s", st.Node, compactInts(st.Idx)))
		default:
			ops = append(ops, fmt.Sprintf("step %s %d", st.Kind, st.Node))
		}
	}
	return ops
}

// treeParentsStr: parents of a linear stretch are written a~b (node i has parent i-1 for i in a..b).
func treeParentsStr(p []int) string {
	var parts []string
	for i := 0; i < len(p); {
		j := i
		for j+1 < len(p) && p[j+1] == j && p[j] == j-1 {
			j++
		}
		if j-i >= 2 && p[i] == i-1 {
			parts = append(parts, fmt.Sprintf("%d~%d", i, j))
			i = j + 1
			continue
		}
		parts = append(parts, strconv.Itoa(p[i]))
		i++
	}
	return strings.Join(parts, ",")
}

func parseTreeParents(s string) ([]int, error) {
	var r []int
	if s == "" {
		return r, nil
	}
	for _, f := range strings.Split(s, ",") {
		if i := strings.Index(f, "~"); i > 0 {
			a, err1 := strconv.Atoi(f[:i])
			b, err2 := strconv.Atoi(f[i+1:])
			if err1 != nil || err2 != nil || a != len(r) || b < a {
				return nil, fmt.Errorf("bad linear stretch %q", f)
			}
			for v := a; v <= b; v++ {
				r = append(r, v-1)
			}
			continue
		}
		v, err := strconv.Atoi(f)
		if err != nil {
			return nil, err
		}
		r = append(r, v)
	}
	return r, nil
}

func kv(fields []string) map[string]string {
	m := map[string]string{}
	for _, f := range fields {
		if i := strings.Index(f, "="); i > 0 {
			m[f[:i]] = f[i+1:]
		}
	}
	return m
}

const defaultBits = uint32(0x207fffff)

// parseScn reads the textual form.
func parseScn(ops []string) (*scn, error) {
	s := &scn{Engine: "legacy", Sched: "serial"}
	for _, line := range ops {
		ws := strings.Fields(line)
		if len(ws) == 0 {
			continue
		}
		m := kv(ws[1:])
		var err error
		switch ws[0] {
		case "c06":
			if v, ok := m["engine"]; ok {
				s.Engine = v
			}
			s.CpOff = m["cpoff"] == "1"
			if s.Cps, err = parseInts(m["cps"]); err != nil {
				return nil, err
			}
			if s.Init, err = parseInts(m["init"]); err != nil {
				return nil, err
			}
			if s.Forbid, err = parseInts(m["forbid"]); err != nil {
				return nil, err
			}
			if v, ok := m["sched"]; ok {
				s.Sched = v
			}
			s.Seed, _ = strconv.ParseInt(m["seed"], 10, 64)
			u, _ := strconv.ParseUint(m["salt"], 10, 32)
			s.Salt = uint32(u)
			s.Readers, _ = strconv.Atoi(m["readers"])
		case "tree":
			if s.Parents, err = parseTreeParents(m["parents"]); err != nil {
				return nil, err
			}
			s.Bits = make([]uint32, len(s.Parents))
			for i := range s.Bits {
				s.Bits[i] = defaultBits
			}
			if v, ok := m["bits"]; ok && v != "" {
				fs := strings.Split(v, ",")
				if len(fs) != len(s.Parents) {
					return nil, fmt.Errorf("bits: %d values for %d nodes", len(fs), len(s.Parents))
				}
				for i, f := range fs {
					u, err := strconv.ParseUint(f, 16, 32)
					if err != nil {
						return nil, err
					}
					s.Bits[i] = uint32(u)
				}
			}
		case "node":
			n := scnNode{Cap: 2000, Dir: "out", Honest: m["honest"] != "0", CloseAt: -1, StallAt: -1}
			if n.Path, err = parseInts(m["path"]); err != nil {
				return nil, err
			}
			n.Pos = len(n.Path)
			if v, ok := m["pos"]; ok {
				n.Pos, _ = strconv.Atoi(v)
			}
			if v, ok := m["cap"]; ok {
				n.Cap, _ = strconv.Atoi(v)
			}
			if v, ok := m["dir"]; ok {
				n.Dir = v
			}
			if v, ok := m["closeat"]; ok {
				n.CloseAt, _ = strconv.Atoi(v)
			}
			if v, ok := m["stallat"]; ok {
				n.StallAt, _ = strconv.Atoi(v)
			}
			n.NoStop = m["nostop"] == "1"
			s.Nodes = append(s.Nodes, n)
		case "step":
			if len(ws) < 2 {
				return nil, fmt.Errorf("bad step %q", line)
			}
			st := scnStep{Kind: ws[1]}
			switch ws[1] {
			case "run", "settle":
			case "tick":
				if len(ws) < 3 {
					return nil, fmt.Errorf("bad step %q", line)
				}
				st.N, _ = strconv.Atoi(ws[2])
			case "announce":
				if len(ws) < 5 {
					return nil, fmt.Errorf("bad step %q", line)
				}
				st.Node, _ = strconv.Atoi(ws[2])
				st.How = ws[3]
				st.N, _ = strconv.Atoi(ws[4])
			case "push":
				if len(ws) < 5 {
					return nil, fmt.Errorf("bad step %q", line)
				}
				st.Node, _ = strconv.Atoi(ws[2])
				st.How = ws[3]
				if st.Idx, err = parseInts(ws[4]); err != nil {
					return nil, err
				}
			case "hitrun":
				if len(ws) < 4 {
					return nil, fmt.Errorf("bad step %q", line)
				}
				st.Node, _ = strconv.Atoi(ws[2])
				if st.Idx, err = parseInts(ws[3]); err != nil {
					return nil, err
				}
			case "connect", "serve", "close", "stall":
				if len(ws) < 3 {
					return nil, fmt.Errorf("bad step %q", line)
				}
				st.Node, _ = strconv.Atoi(ws[2])
			default:
				return nil, fmt.Errorf("unknown step %q", line)
			}
			s.Steps = append(s.Steps, st)
		default:
			return nil, fmt.Errorf("unknown scenario line %q", line)
		}
	}
	// validation: indices in range, parents before children, nodes referenced exist
	n := len(s.Parents)
	for i, p := range s.Parents {
		if p < -1 || p >= i {
			return nil, fmt.Errorf("tree: node %d has parent %d", i, p)
		}
	}
	chk := func(what string, a []int) error {
		for _, v := range a {
			if v < 0 || v >= n {
				return fmt.Errorf("%s: index %d out of range", what, v)
			}
		}
		return nil
	}
	for _, e := range []struct {
		w string
		a []int
	}{{"cps", s.Cps}, {"init", s.Init}, {"forbid", s.Forbid}} {
		if err := chk(e.w, e.a); err != nil {
			return nil, err
		}
	}
	for k, nd := range s.Nodes {
		if err := chk("path", nd.Path); err != nil {
			return nil, err
		}
		if nd.Pos < 0 || nd.Pos > len(nd.Path) || nd.Cap < 1 {
			return nil, fmt.Errorf("node %d: bad pos/cap", k)
		}
		for h, idx := range nd.Path {
			want := -1
			if h > 0 {
				want = nd.Path[h-1]
			}
			if s.Parents[idx] != want {
				return nil, fmt.Errorf("node %d: path is not parent-linked at position %d", k, h)
			}
		}
	}
	for _, st := range s.Steps {
		if st.Node < 0 || (st.Node >= len(s.Nodes) && st.Kind != "run" && st.Kind != "settle" && st.Kind != "tick") {
			return nil, fmt.Errorf("step refers to node %d", st.Node)
		}
		if err := chk("push", st.Idx); err != nil {
			return nil, err
		}
	}
	return s, nil
}

// ---------------------------------------------------------------------------------------------
// the block tree with real headers

type blockTree struct {
	hdrs    []Hdr
	parent  []int
	height  []int
	cum     []*big.Int // cumulated work including genesis
	hash    [][32]byte
	disp    []string
	byHash  map[[32]byte]int
	genHash [32]byte
	genWork *big.Int
}

// buildBlockTree makes headers whose timestamps end shortly before `now` (fresh tips).
func buildBlockTree(parents []int, bits []uint32, salt uint32, now time.Time) *blockTree {
	n := len(parents)
	t := &blockTree{hdrs: make([]Hdr, n), parent: parents, height: make([]int, n), cum: make([]*big.Int, n), hash: make([][32]byte, n),
		disp: make([]string, n), byHash: map[[32]byte]int{}, genHash: genesisHdr.Hash(), genWork: refWorkBits(genesisHdr.Bits)}
	maxH := 0
	for i, p := range parents {
		if p < 0 {
			t.height[i] = 1
		} else {
			t.height[i] = t.height[p] + 1
		}
		if t.height[i] > maxH {
			maxH = t.height[i]
		}
	}
	base := now.Unix() - 1800
	for i, p := range parents {
		var h Hdr
		h.Version = int32(1 + i%3)
		if p < 0 {
			h.Prev = t.genHash
		} else {
			h.Prev = t.hash[p]
		}
		h.Merkle = sha256.Sum256([]byte(fmt.Sprintf("c06-merkle-%d-%d", salt, i)))
		h.Time = uint32(base - int64(maxH-t.height[i])*15 - int64(i%7))
		h.Bits = bits[i]
		h.Nonce = salt*2654435761 + uint32(i)
		t.hdrs[i] = h
		t.hash[i] = h.Hash()
		t.disp[i] = display(t.hash[i])
		t.byHash[t.hash[i]] = i
		w := refWorkBits(h.Bits)
		if p < 0 {
			t.cum[i] = new(big.Int).Add(t.genWork, w)
		} else {
			t.cum[i] = new(big.Int).Add(t.cum[p], w)
		}
	}
	return t
}

// pathTo lists the tree indices from height 1 to idx.
func (t *blockTree) pathTo(idx int) []int {
	var p []int
	for i := idx; i >= 0; i = t.parent[i] {
		p = append([]int{i}, p...)
	}
	return p
}

// name renders a display hash as its tree index (diagnostics).
func (t *blockTree) name(disp string) string {
	if disp == display(t.genHash) {
		return "G"
	}
	for i, d := range t.disp {
		if d == disp {
			return strconv.Itoa(i)
		}
	}
	if len(disp) > 8 {
		return "?" + disp[:8]
	}
	return "?" + disp
}
