package main

// C16 under overlap: API requests arrive while the P2P side stores headers. Whatever the timing, a request the server
// can validate is never answered 5xx, answers stay single JSON documents, and the API traffic does not change what
// ends up in the header store (every submission is stored). Oracle only — the model has no interleavings.

import (
	"bytes"
	"encoding/json"
	"fmt"
	"strings"
	"sync"
	"sync/atomic"

	"github.com/bitcoin-sv/block-headers-service/verifharness/lib"
)

func c16Concurrent(c *Ctx) error {
	ci, err := newChainImpl("c16-conc.db", lib.StackOpts{})
	if err != nil {
		return err
	}
	defer ci.Close()
	n := 260
	if c.Thorough {
		n = 1500
	}
	nodes := make([]Node, 0, n+8)
	for i := 0; i < n; i++ {
		nodes = append(nodes, Node{Parent: i - 1, Bits: bitsSmall[1]})
	}
	for i := 0; i < 8; i++ { // a few stale siblings on the way
		nodes = append(nodes, Node{Parent: 20 + i*25, Bits: bitsSmall[0]})
	}
	buildTree(nodes, 9900+uint32(c.Seed), nil, false)
	for i := 0; i < 30; i++ {
		ci.Op("add " + nodes[i].Hdr.Hex())
	}
	known := nodes[10].Hdr.HashStr()
	unknown := display(shaStr("c16-conc-unknown"))
	reqs := []struct{ method, path, body string }{
		{"GET", "/api/v1/chain/tip/longest", ""},
		{"GET", "/api/v1/chain/tip", ""},
		{"GET", "/api/v1/chain/merkleroot?batchSize=5", ""},
		{"GET", "/api/v1/chain/merkleroot?batchSize=5&lastEvaluatedKey=" + unknown, ""},
		{"GET", "/api/v1/chain/header/byHeight?height=3&count=4", ""},
		{"GET", "/api/v1/chain/header/" + known, ""},
		{"GET", "/api/v1/chain/header/state/" + unknown, ""},
		{"POST", "/api/v1/chain/header/commonAncestor", `["` + known + `","` + nodes[12].Hdr.HashStr() + `"]`},
		{"POST", "/api/v1/chain/merkleroot/verify", `[{"merkleRoot":"` + display(nodes[5].Hdr.Merkle) + `","blockHeight":6}]`},
	}
	var stop int32
	var sent, bad int64
	var firstBad atomic.Value
	var wg sync.WaitGroup
	for g := 0; g < 4; g++ {
		wg.Add(1)
		go func(g int) {
			defer wg.Done()
			for i := g; atomic.LoadInt32(&stop) == 0; i++ {
				rq := reqs[i%len(reqs)]
				var body []byte
				if rq.body != "" {
					body = []byte(rq.body)
				}
				hr := ci.http(rq.method, rq.path, body, nil)
				atomic.AddInt64(&sent, 1)
				okJSON := json.Valid(bytes.TrimSpace(hr.Body))
				if hr.Status >= 500 || !okJSON {
					if atomic.AddInt64(&bad, 1) == 1 {
						firstBad.Store(fmt.Sprintf("%s %s -> %d %q", rq.method, rq.path, hr.Status, string(hr.Body)))
					}
				}
			}
		}(g)
	}
	notStored := 0
	firstNot := ""
	for i := 30; i < len(nodes); i++ {
		out := ci.Op("add " + nodes[i].Hdr.Hex())
		if !strings.HasPrefix(out, "stored") {
			notStored++
			if firstNot == "" {
				firstNot = fmt.Sprintf("submission %d: %s", i, out)
			}
		}
	}
	atomic.StoreInt32(&stop, 1)
	wg.Wait()
	c.R.OracleChecked += int(sent)
	c.R.Case("API requests overlapping header ingestion", true)
	c.R.Count("concurrent phase: API requests while headers are being stored", int(sent))
	if bad > 0 {
		fb, _ := firstBad.Load().(string)
		c.R.Fail(lib.Failure{Case: "API requests overlapping header ingestion", Ops: []string{fmt.Sprintf("# c16 concurrent: %d headers stored through Chains.Add while 4 goroutines send valid and invalid-but-validatable requests", len(nodes)-30)},
			What: fmt.Sprintf("%d of %d requests sent while headers were being stored were answered 5xx or not with one JSON document", bad, sent), Expected: "2xx/4xx JSON documents", Observed: fb, Signature: "c16-5xx-while-ingesting"})
	}
	rows, _ := ci.Dump()
	if notStored > 0 || len(rows) != len(nodes)+1 {
		c.R.Fail(lib.Failure{Case: "API requests overlapping header ingestion", Ops: []string{"# c16 concurrent: API traffic must not change what is stored"},
			What: fmt.Sprintf("%d submissions were not stored while API requests were running (%d rows, %d expected)", notStored, len(rows), len(nodes)+1), Expected: "every submission stored", Observed: firstNot, Signature: "c16-api-traffic-changes-store"})
	}
	return nil
}
