package main

// C07 — forbidden headers and checkpoint-violating peers are contained.
// Same rig as C06 (c06_rig.go). A misbehaving peer is a scripted node whose best chain contains a header on the
// forbidden list, or contradicts a checkpoint; it is otherwise conformant, so the position of the offending header
// within a batch follows from where its branch forks, the reply cap and what the service already has. Descendants
// of a forbidden header can only be delivered unsolicited (`push`).

import (
	"fmt"
	"math/rand"
	"strings"
	"time"

	"github.com/bitcoin-sv/block-headers-service/verifharness/lib"
)

func init() { runners["C07"] = runC07 }

// first index (in the node's history) of a sent headers message containing the tree index x, -1 if none
func sentHeaderIdx(h []nodeEv, x int) int {
	for k, e := range h {
		if e.Sent && e.Kind == "headers" {
			for _, i := range e.Idx {
				if i == x {
					return k
				}
			}
		}
	}
	return -1
}

func requestsAfter(h []nodeEv, k int) int {
	n := 0
	for j := k + 1; j < len(h); j++ {
		if !h[j].Sent && h[j].Kind == "getheaders" {
			n++
		}
	}
	return n
}

// contradicts: index (on the node's path) of the first header at a checkpoint height that differs from the checkpoint
func contradicts(t *blockTree, s *scn, path []int) int {
	for _, c := range s.Cps {
		h := t.height[c]
		if h <= len(path) && path[h-1] != c {
			return path[h-1]
		}
	}
	return -1
}

func oracleC07(r *rig, res *scnResult) {
	s := r.s
	t := newTree(res.Rows)
	fs := r.finals()
	fail := func(sig, what, exp, obs string) {
		res.Failures = append(res.Failures, lib.Failure{Case: res.Name, Ops: s.Ops(), What: what, Expected: exp, Observed: obs, Signature: sig,
			Extra: map[string]any{"trace": r.traceStrings(), "notes": r.notes}})
	}
	forb := map[int]bool{}
	for _, x := range s.Forbid {
		forb[x] = true
	}
	// (1) a forbidden header is never stored, never served
	for _, x := range s.Forbid {
		hash := r.tree.disp[x]
		if row, ok := t.by[hash]; ok {
			fail("c07-forbidden-header-stored", "a header on the forbidden list is in the table", "absent", "stored as "+row.State)
		}
		for _, path := range []string{"/api/v1/chain/header/" + hash, "/api/v1/chain/header/state/" + hash} {
			hr := r.ci.http("GET", path, nil, nil)
			if hr.Status != 404 {
				fail("c07-forbidden-header-served", "GET "+strings.Replace(path, hash, "{forbidden hash}", 1)+" answers for a forbidden header", "404", fmt.Sprintf("%d %s", hr.Status, string(hr.Body)))
			}
		}
		if r.ci.Svc.Headers.GetTip() != nil && r.ci.Svc.Headers.GetTip().Hash.String() == hash {
			fail("c07-forbidden-header-served", "the tip is a forbidden header", "not the tip", "tip")
		}
	}
	// (1b) a refused submission leaves the table exactly as it was: store-level digests taken by the rig around every
	// headers message that STARTS with a forbidden header
	for _, d := range r.refusedChanged {
		fail("c07-refused-forbidden-submission-changed-table", "a headers message that starts with a forbidden header (refused as a whole) changed the table: "+d,
			"table unchanged", d)
	}
	// (2) descendants of a forbidden header can only ever be orphans
	for i, p := range r.tree.parent {
		anc := false
		for q := p; q >= 0; q = r.tree.parent[q] {
			if forb[q] {
				anc = true
			}
		}
		if !anc {
			continue
		}
		if row, ok := t.by[r.tree.disp[i]]; ok {
			res.Info["descendant-stored"] = true
			if row.State != "ORPHAN" {
				fail("c07-forbidden-descendant-connected", "a descendant of a forbidden header is stored with a state other than ORPHAN", "ORPHAN", row.State)
			}
		}
	}
	// (3) per misbehaving node
	for i, n := range r.nodes {
		hist := fs[i].Hist
		for _, x := range s.Forbid {
			k := sentHeaderIdx(hist, x)
			if k < 0 {
				continue
			}
			res.Info["forbidden-delivered"] = true
			// position within the batch, for the distribution
			for pos, idx := range hist[k].Idx {
				if idx == x {
					res.Info["forbidden-batch-position"] = pos
					res.Info["forbidden-batch-len"] = len(hist[k].Idx)
					// the headers before it are stored
					for _, before := range hist[k].Idx[:pos] {
						if _, ok := t.by[r.tree.disp[before]]; !ok {
							fail("c07-headers-before-forbidden-not-stored", "a header delivered before the forbidden one in the same batch is missing", "stored", fmt.Sprintf("#%d missing", before))
						}
					}
				}
			}
			// (a node that hung up right after sending is disconnected already; it must still be banned)
			if !n.closedByRemote() && !n.isClosed() {
				fail("c07-forbidden-sender-not-disconnected", fmt.Sprintf("node %d delivered a forbidden header and is still connected", i), "connection closed by the service", "open")
			}
			if n.isClosed() && !n.closedByRemote() {
				res.Info["forbidden-sender-hung-up"] = true
			}
			if s.Engine == "legacy" {
				banned := false
				if lp := r.lpeers[i]; lp != nil {
					r.notif.mu.Lock()
					for _, id := range r.notif.banned {
						if id == lp.p.ID() {
							banned = true
						}
					}
					r.notif.mu.Unlock()
				}
				if !banned {
					fail("c07-forbidden-sender-not-banned", fmt.Sprintf("node %d delivered a forbidden header and BanPeer was not called", i), "BanPeer(peer)", "no call")
				}
			}
			if q := requestsAfter(hist, k); q > 0 {
				fail("c07-request-after-forbidden", fmt.Sprintf("node %d received %d getheaders after it had delivered a forbidden header", i, q), "no further request", fmt.Sprint(q))
			}
		}
		// checkpoint contradiction (only when the service checks checkpoints). The header that differs from the
		// checkpoint at height hc was delivered in answer to a request whose locator starts at height h0 (the
		// service's tip then): h0 < hc means sync had not passed that checkpoint yet.
		if bad := contradicts(r.tree, s, n.spec.Path); bad >= 0 && !(s.Engine == "legacy" && s.CpOff) {
			k := sentHeaderIdx(hist, bad)
			if k < 0 {
				continue
			}
			h0 := -1
			for j := k - 1; j >= 0; j-- {
				if !hist[j].Sent && hist[j].Kind == "getheaders" && len(hist[j].GH.Loc) > 0 {
					h0 = 0
					if row, ok := t.by[display(hist[j].GH.Loc[0])]; ok {
						h0 = int(row.Height)
					}
					break
				}
			}
			hc := r.tree.height[bad]
			res.Info["contradiction-delivered"] = true
			sigDisc, sigReq, when := "c07-checkpoint-violator-not-disconnected", "c07-request-after-checkpoint-mismatch", "ahead of everything the service had stored and compared"
			// the same headers message brought, before it, the header of an EARLIER checkpoint that was still ahead: the
			// cursor stands on that earlier checkpoint for the whole message (it moves after the loop), so this one is
			// not compared — the cursor-only rule of finding R2
			earlierCpInSameMsg := false
			for _, idx := range hist[k].Idx {
				if idx == bad {
					break
				}
				for _, c := range s.Cps {
					if idx == c && r.tree.height[c] > h0 {
						earlierCpInSameMsg = true
					}
				}
			}
			if earlierCpInSameMsg && h0 >= 0 && h0 < hc {
				sigDisc, sigReq = "c07-passed-checkpoint-not-enforced", "c07-passed-checkpoint-not-enforced"
				when = "in the same headers message as the header matching the previous checkpoint (the sync cursor moves only after the message)"
				res.Info["contradiction-of-passed-checkpoint"] = true
			} else if h0 < 0 || (h0 >= hc && cpSeenBefore(r, fs, s, hc, hist[k].Seq)) {
				// the checkpoint lies at or below the service's tip AND its header had reached the service before (the sync
				// cursor can have moved past it): the implementation compares with the sync cursor only
				sigDisc, sigReq, when = "c07-passed-checkpoint-not-enforced", "c07-passed-checkpoint-not-enforced", "at or below the service's tip (already passed by sync)"
				res.Info["contradiction-of-passed-checkpoint"] = true
			} else if h0 >= hc {
				// the tip stands at or above the checkpoint height on a branch that itself contradicts the checkpoint (stored
				// before it was compared), the checkpoint's own header has never reached the service: the cursor still
				// stands on this checkpoint, the header is compared whatever state it is stored in
				when = "while that checkpoint was still pending (its header had not reached the service; the tip stands on another contradicting branch)"
				res.Info["contradiction-at-pending-checkpoint-above-tip"] = true
			}
			if !n.closedByRemote() && !n.isClosed() { // (a node that hung up by itself is gone as well)
				fail(sigDisc, fmt.Sprintf("node %d delivered a header that differs from the checkpoint at height %d, %s, and is still connected", i, hc, when), "connection closed by the service", "open")
			}
			if q := requestsAfter(hist, k); q > 0 {
				fail(sigReq, fmt.Sprintf("node %d received %d getheaders after it had delivered a header contradicting the checkpoint at height %d, %s", i, q, hc, when), "no further request", fmt.Sprint(q))
			}
		}
	}
	// (3b) the longest chain never contradicts a checkpoint
	if !(s.Engine == "legacy" && s.CpOff) {
		for _, c := range s.Cps {
			hc := int64(r.tree.height[c])
			if row, ok := t.chain[hc]; ok && row.Hash != r.tree.disp[c] {
				sig := "c07-longest-chain-contradicts-checkpoint"
				if res.Info["contradiction-of-passed-checkpoint"] == true {
					sig = "c07-passed-checkpoint-not-enforced"
				} else if storedContradiction(r, t) >= 0 {
					sig = "c07-checkpoint-contradiction-stored-before-check"
					if s2, why := r1Signature(r, res, t); why != "" {
						sig = s2
						fail(sig, fmt.Sprintf("the longest chain holds block #%s at checkpoint height %d: %s", r.tree.name(row.Hash), hc, why), "checkpoint #"+fmt.Sprint(c), "#"+r.tree.name(row.Hash))
						continue
					}
				}
				fail(sig, fmt.Sprintf("the longest chain holds block #%s at checkpoint height %d", r.tree.name(row.Hash), hc), "checkpoint #"+fmt.Sprint(c), "#"+r.tree.name(row.Hash))
			}
		}
	}
	// (4) a matching header advances sync to the next checkpoint and, after the last one, to unbounded requests:
	// every request to an honest node whose first locator hash is on that node's chain stops at the first checkpoint
	// above that block (zero hash when there is none or checkpoints are disabled)
	var zero [32]byte
	for i, n := range r.nodes {
		if !n.spec.Honest || contradicts(r.tree, s, n.spec.Path) >= 0 {
			continue
		}
		for _, e := range fs[i].Hist {
			if e.Sent || e.Kind != "getheaders" || len(e.GH.Loc) == 0 {
				continue
			}
			h0 := 0
			if e.GH.Loc[0] != r.tree.genHash {
				idx, ok := r.tree.byHash[e.GH.Loc[0]]
				if !ok || r.tree.height[idx] > len(n.spec.Path) || n.spec.Path[r.tree.height[idx]-1] != idx {
					continue
				}
				h0 = r.tree.height[idx]
			}
			want := zero
			if !(s.Engine == "legacy" && s.CpOff) {
				bestH := 1 << 30
				for _, c := range s.Cps {
					if ch := r.tree.height[c]; ch > h0 && ch < bestH {
						bestH, want = ch, r.tree.hash[c]
					}
				}
			}
			res.Info["stop-checked"] = true
			if e.GH.Stop != want {
				sig := "c07-stop-hash-not-next-checkpoint"
				if storedContradiction(r, t) >= 0 {
					sig = "c07-checkpoint-contradiction-stored-before-check"
				}
				fail(sig, fmt.Sprintf("a request to node %d starting at height %d does not stop at the next checkpoint", i, h0),
					"stop = "+r.tree.name(display(want)), "stop = "+r.tree.name(display(e.GH.Stop)))
			}
		}
	}
	// (4b) a matching checkpoint header advances the cursor: when a node answers a request that starts below checkpoint
	// c (first locator hash on the node's chain at height h0 < h(c)) with a message in which c's header is the first
	// checkpoint header, is consistent with all checkpoints and holds nothing forbidden, and c's header reaches the
	// service with this message for the first time, and the request itself stopped at c (the cursor stood on c), then the
	// NEXT request to that node must not stop at c or at any
	// checkpoint at or below it (it stops at a later checkpoint, or is unbounded)
	if !(s.Engine == "legacy" && s.CpOff) {
		cpAt := map[int]int{} // tree idx -> height, for checkpoint blocks
		for _, c := range s.Cps {
			cpAt[c] = r.tree.height[c]
		}
		forbSet := map[int]bool{}
		for _, x := range s.Forbid {
			forbSet[x] = true
		}
		firstSeq := map[int]int64{} // checkpoint block -> smallest Seq of a sent headers message holding it
		carriers := map[int]int{}   // … and how many nodes ever sent it
		for i := range r.nodes {
			sentIt := map[int]bool{}
			for _, e := range fs[i].Hist {
				if e.Sent && e.Kind == "headers" {
					for _, idx := range e.Idx {
						if _, ok := cpAt[idx]; ok {
							if q, seen := firstSeq[idx]; !seen || e.Seq < q {
								firstSeq[idx] = e.Seq
							}
							sentIt[idx] = true
						}
					}
				}
			}
			for idx := range sentIt {
				carriers[idx]++
			}
		}
		for i, n := range r.nodes {
			hist := fs[i].Hist
			for k := 1; k < len(hist); k++ {
				e := hist[k]
				if !e.Sent || e.Kind != "headers" || len(e.Idx) == 0 || hist[k-1].Sent || hist[k-1].Kind != "getheaders" {
					continue
				}
				g := hist[k-1].GH
				if len(g.Loc) == 0 {
					continue
				}
				h0 := 0
				if g.Loc[0] != r.tree.genHash {
					idx, ok := r.tree.byHash[g.Loc[0]]
					if !ok || r.tree.height[idx] > len(n.spec.Path) || n.spec.Path[r.tree.height[idx]-1] != idx {
						continue
					}
					h0 = r.tree.height[idx]
				}
				cp, clean := -1, true
				for _, idx := range e.Idx {
					if forbSet[idx] {
						clean = false
					}
					for _, c := range s.Cps { // a header at a checkpoint height that is not the checkpoint
						if r.tree.height[idx] == r.tree.height[c] && idx != c {
							clean = false
						}
					}
					if _, ok := cpAt[idx]; ok && cp < 0 && r.tree.height[idx] > h0 {
						cp = idx
					}
				}
				// … and the request itself stopped at c: the cursor stood on c when the request went out
				if cp < 0 || !clean || firstSeq[cp] != e.Seq || (!r.serial() && carriers[cp] > 1) || g.Stop != r.tree.hash[cp] {
					continue
				}
				for _, e2 := range hist[k+1:] {
					if e2.Sent || e2.Kind != "getheaders" {
						continue
					}
					res.Info["cursor-advance-checked"] = true
					for _, c := range s.Cps {
						if e2.GH.Stop == r.tree.hash[c] && r.tree.height[c] <= r.tree.height[cp] {
							fail("c07-cursor-not-advanced-after-matching-checkpoint",
								fmt.Sprintf("node %d delivered the header matching the checkpoint at height %d (first checkpoint of its answer to a request from height %d); the next request to it still stops at the checkpoint of height %d", i, r.tree.height[cp], h0, r.tree.height[c]),
								"stop = a later checkpoint, or 0 after the last one", "stop = #"+fmt.Sprint(c))
						}
					}
					break
				}
			}
		}
	}
	// (5) after either event the service still converges on an honest peer's chain
	before := len(res.Failures)
	oracleC06(r, res)
	for k := before; k < len(res.Failures); k++ {
		f := &res.Failures[k]
		// unclassified, or "the sync peer is kept": when that sync peer is the checkpoint-violating node that was not
		// dropped, the root cause is C07's
		if strings.HasPrefix(f.Signature, "c06-other") || f.Signature == "c06-exhausted-sync-peer-kept-while-better-candidate-connected" {
			if f.Signature == "c06-exhausted-sync-peer-kept-while-better-candidate-connected" {
				if sig, why := classifyC07(r, res, t); sig != "" {
					f.Signature = sig
					f.What += "; " + why
				}
				continue
			}
			f.Signature = "c07-other:no-convergence-" + scnKind(s)
			if sig, why := classifyC07(r, res, t); sig != "" {
				f.Signature = sig
				f.What += "; " + why
			}
		}
	}
}

// storedContradiction: tree index of a stored, connected header that differs from the checkpoint at its height (-1 = none)
func storedContradiction(r *rig, t *tree) int {
	for _, c := range r.s.Cps {
		hc := int64(r.tree.height[c])
		for i, d := range r.tree.disp {
			if row, ok := t.by[d]; ok && row.Height == hc && i != c && row.State != "ORPHAN" && r.tree.height[i] == int(hc) {
				return i
			}
		}
	}
	return -1
}



// cpSeenBefore: the header of the checkpoint at height hc was in the initial store or had been sent to the service by
// some node in a headers message before the message with sequence number seq
func cpSeenBefore(r *rig, fs []nodeFinal, s *scn, hc int, seq int64) bool {
	for _, c := range s.Cps {
		if r.tree.height[c] != hc {
			continue
		}
		for _, i := range s.Init {
			if i == c {
				return true
			}
		}
		for _, f := range fs {
			for _, e := range f.Hist {
				if e.Sent && e.Kind == "headers" && e.Seq < seq {
					for _, idx := range e.Idx {
						if idx == c {
							return true
						}
					}
				}
			}
		}
	}
	return false
}

// bestHonest: the honest reachable node with the most work (nil = none)
func bestHonest(fs []nodeFinal) *nodeFinal {
	var best *nodeFinal
	for i := range fs {
		f := &fs[i]
		if !f.Honest || !f.Reachable {
			continue
		}
		if best == nil || f.Cum.Cmp(best.Cum) > 0 {
			best = f
		}
	}
	return best
}

// locatorHeights: the heights LatestHeaderLocator lists for a tip at height h (tip, the ten before it, then doubling
// steps, genesis = 0 last)
func locatorHeights(h int) []int {
	var out []int
	step, n := 1, 0
	for h > 0 {
		out = append(out, h)
		n++
		if n > 10 {
			step *= 2
		}
		h -= step
	}
	return append(out, 0)
}

// oneReplyWouldSuffice: the service's tip stands on a branch that contradicts a checkpoint STILL PENDING (stored before
// it was compared: R1) and the best honest reachable node is a sync candidate. Would that node's FIRST answer to the
// request the code is specified to send after the violator is dropped — getheaders(locator(tip), stop), stop = the
// pending checkpoint's hash while the tip is BELOW its height, the zero hash once the tip has reached it — carry more
// work than the tip (C06_fork's OneReplySuffices: the reply outweighs every stored branch)? Computed from the node's
// chain, its cap and the table: the answer = the node's headers after the highest locator entry on its chain, at most
// cap, up to the stop hash.
func oneReplyWouldSuffice(r *rig, res *scnResult, t *tree, best *nodeFinal, bad int) (bool, string) {
	if r.s.Engine != "legacy" || best == nil || best.TipIdx < 0 || bad < 0 {
		return false, ""
	}
	tipIdx, ok := r.tree.byHashDisp(res.TipHash)
	if !ok {
		return false, ""
	}
	path := r.tree.pathTo(best.TipIdx)
	tipH := r.tree.height[tipIdx]
	if tipH <= len(path) && path[tipH-1] == tipIdx {
		return false, "" // the tip is on the honest chain
	}
	// the tip's branch holds the contradicting header
	onTipBranch := false
	for _, idx := range r.tree.pathTo(tipIdx) {
		if idx == bad {
			onTipBranch = true
		}
	}
	if !onTipBranch || len(path) < tipH { // a peer behind our height is no sync candidate
		return false, ""
	}
	hc := r.tree.height[bad]
	// fork point: the highest locator entry that is on the honest chain
	f := 0
	for _, h := range locatorHeights(tipH) {
		if h == 0 {
			break
		}
		row, ok := t.chain[int64(h)]
		if ok && h <= len(path) && row.Hash == r.tree.disp[path[h-1]] {
			f = h
			break
		}
	}
	cap := r.s.Nodes[best.ID].Cap
	last := f + cap
	if last > len(path) {
		last = len(path)
	}
	bounded := tipH < hc
	if bounded && last > hc {
		last = hc
	}
	if last <= f {
		return false, ""
	}
	if r.tree.cum[path[last-1]].Cmp(r.tree.cum[tipIdx]) <= 0 {
		return false, ""
	}
	stop := "no stop hash (the tip has reached the pending checkpoint's height)"
	if bounded {
		stop = fmt.Sprintf("stop = the pending checkpoint (height %d)", hc)
	}
	return true, fmt.Sprintf("node %d's first answer to getheaders(locator(tip #%d at height %d), %s) would be its headers of heights %d..%d, which carry more work than the tip", best.ID, tipIdx, tipH, stop, f+1, last)
}

// r1Signature: the label of a failure whose root is a stored checkpoint contradiction. Finding R1 is the right label
// only while the honest candidate's first answer to the correct request could NOT overtake the contradiction (it ties
// within one reply, or the overshoot stall: the tip is already on the honest chain). When one reply WOULD suffice and
// the service still sits on the violator's branch, the recovery itself is broken: a different, unlisted failure.
func r1Signature(r *rig, res *scnResult, t *tree) (string, string) {
	bad := storedContradiction(r, t)
	fs := r.finals()
	if ok, why := oneReplyWouldSuffice(r, res, t, bestHonest(fs), bad); ok {
		return "c07-no-recovery-after-checkpoint-violator-although-one-reply-suffices",
			"the service stays on the branch of the checkpoint-contradicting header #" + fmt.Sprint(bad) + " although " + why
	}
	return "c07-checkpoint-contradiction-stored-before-check", ""
}

// classifyC07: root causes of "does not converge after the event"
func classifyC07(r *rig, res *scnResult, t *tree) (string, string) {
	if res.Info["contradiction-of-passed-checkpoint"] == true {
		return "c07-passed-checkpoint-not-enforced", "a branch contradicting a checkpoint that sync had already passed was accepted"
	}
	// the contradicting header is stored (Chains.Add) BEFORE verifyCheckpointHeight / VerifyAndAdvance compares it with the
	// checkpoint. Afterwards the honest branch ties with it at the checkpoint height (first seen wins), or the tip already
	// stands at the checkpoint height so that startSync asks without a stop hash, the reply overshoots the next
	// checkpoints and the follow-up request goes backwards: the reply holds no new longest-chain header and the service
	// stops asking.
	if bad := storedContradiction(r, t); bad >= 0 {
		if sig, why := r1Signature(r, res, t); why != "" {
			return sig, why
		}
		return "c07-checkpoint-contradiction-stored-before-check",
			fmt.Sprintf("the checkpoint-contradicting header #%d was stored before the mismatch was noticed (state %s); the honest chain cannot be completed", bad, t.by[r.tree.disp[bad]].State)
	}
	return "", ""
}

// ---------------------------------------------------------------------------------------------
// generators

// genForbidden: an evil node whose chain contains a forbidden header at height hx, honest nodes on the main chain.
// evilFix pins the matrix dimensions of the C07 generators (-1 = drawn): chain length, height of the offending header
// (forbidden) / checkpoint height (mismatch), cap alphabet index of the misbehaving node, length of the initial prefix,
// who comes first (0 = the misbehaving node)
type evilFix struct {
	L, Hx, Cap, Init, First int
}

var evilPin *evilFix // set by the thorough matrix only

func genForbidden(rng *rand.Rand, o genOpts, engine string) *scn {
	fx := evilPin
	if fx == nil {
		fx = &evilFix{-1, -1, -1, -1, -1}
	}
	L := 5 + rng.Intn(o.MaxLen-4)
	if fx.L > 0 {
		L = fx.L
	}
	future := 0
	s := &scn{Engine: engine, Sched: "serial", Seed: rng.Int63n(1 << 30), Salt: rng.Uint32(), Parents: linearParents(L + future)}
	hx := 1 + rng.Intn(L) // height of the forbidden header: its parent is main[hx-2] (genesis for 1)
	if fx.Hx > 0 {
		hx = fx.Hx
	}
	x := len(s.Parents)
	s.Parents = append(s.Parents, hx-2)
	desc := 1 + rng.Intn(3)
	for j := 0; j < desc; j++ {
		s.Parents = append(s.Parents, len(s.Parents)-1)
	}
	s.Bits = make([]uint32, len(s.Parents))
	for i := range s.Bits {
		s.Bits[i] = defaultBits
	}
	s.Forbid = []int{x}
	if rng.Intn(4) == 0 {
		s.Sched = "free"
	}
	evilPath := append(seq(0, hx-1), seq(x, x+1+desc)...)
	// checkpoints on the main chain; consistent with the evil chain only below hx
	switch rng.Intn(3) {
	case 0:
		s.Cps = []int{rng.Intn(L)}
	case 1:
		s.Cps = pickCheckpoints(rng, L, 1)
	default:
		if hx >= 2 {
			s.Cps = []int{rng.Intn(hx - 1)}
		} else if engine != "exp" {
			s.Cps = []int{L - 1}
		}
	}
	if engine == "legacy" && len(s.Cps) == 0 {
		s.Cps = []int{L - 1}
	}
	if rng.Intn(3) == 0 && hx >= 2 {
		s.Init = seq(0, rng.Intn(hx-1)+1)
	}
	if fx.Init >= 0 {
		s.Init = seq(0, fx.Init)
	}
	evil := scnNode{Path: evilPath, Pos: len(evilPath), Cap: capAlphabet[rng.Intn(len(capAlphabet))], Dir: "out", Honest: false, CloseAt: -1, StallAt: -1}
	if fx.Cap >= 0 {
		evil.Cap = capAlphabet[fx.Cap]
	}
	if rng.Intn(3) == 0 {
		evil.Dir = "in"
	}
	nHonest := 1 + rng.Intn(2)
	s.Nodes = append(s.Nodes, evil)
	for i := 0; i < nHonest; i++ {
		n := scnNode{Path: seq(0, L+future), Pos: L, Cap: capAlphabet[rng.Intn(len(capAlphabet))], Dir: "out", Honest: true, CloseAt: -1, StallAt: -1}
		if rng.Intn(3) == 0 {
			n.Dir = "in"
		}
		s.Nodes = append(s.Nodes, n)
	}
	// a second misbehaving node that pushes descendants of the forbidden header unsolicited
	pusher := -1
	if rng.Intn(2) == 0 {
		pusher = len(s.Nodes)
		s.Nodes = append(s.Nodes, scnNode{Path: evilPath, Pos: len(evilPath), Cap: 2000, Dir: "out", Honest: false, CloseAt: -1, StallAt: 0})
	}
	evilSteps(rng, s, nHonest, evilPath)
	if pusher >= 0 {
		s.Steps = append(s.Steps, scnStep{Kind: "connect", Node: pusher}, scnStep{Kind: "run"},
			scnStep{Kind: "push", Node: pusher, How: "headers", Idx: seq(x+1, x+1+desc)}, scnStep{Kind: "run"})
	}
	timePasses(s)
	return s
}

// evilSteps: node 0 misbehaves, nodes 1..nHonest are honest. Either the misbehaving node comes first (it becomes the
// sync peer), or the honest nodes are synced first and the misbehaving node then announces its tip so that it is asked.
// The experimental engine is driven one peer at a time (its single-outbound-peer design).
func evilSteps(rng *rand.Rand, s *scn, nHonest int, evilPath []int) {
	honest := seq(1, 1+nHonest)
	if s.Engine == "exp" {
		honest = honest[:1]
	}
	first := rng.Intn(2)
	if evilPin != nil && evilPin.First >= 0 {
		first = evilPin.First
	}
	if first == 0 {
		s.Steps = append(s.Steps, scnStep{Kind: "connect", Node: 0}, scnStep{Kind: "run"})
		for _, i := range honest {
			s.Steps = append(s.Steps, scnStep{Kind: "connect", Node: i})
			if s.Engine == "exp" || rng.Intn(2) == 0 {
				s.Steps = append(s.Steps, scnStep{Kind: "run"})
			}
		}
		s.Steps = append(s.Steps, scnStep{Kind: "run"})
		return
	}
	for _, i := range honest {
		s.Steps = append(s.Steps, scnStep{Kind: "connect", Node: i})
		if s.Engine == "exp" || rng.Intn(2) == 0 {
			s.Steps = append(s.Steps, scnStep{Kind: "run"})
		}
	}
	s.Steps = append(s.Steps, scnStep{Kind: "run"}, scnStep{Kind: "connect", Node: 0}, scnStep{Kind: "run"})
	if s.Engine == "legacy" {
		s.Steps = append(s.Steps, scnStep{Kind: "push", Node: 0, How: "inv", Idx: []int{evilPath[len(evilPath)-1]}}, scnStep{Kind: "run"})
	}
}

// genMismatch: an evil node on a branch that forks below a checkpoint, honest nodes on the main chain.
func genMismatch(rng *rand.Rand, o genOpts, engine string) *scn {
	fx := evilPin
	if fx == nil {
		fx = &evilFix{-1, -1, -1, -1, -1}
	}
	L := 6 + rng.Intn(o.MaxLen-5)
	if fx.L > 0 {
		L = fx.L
	}
	future := 0
	s := &scn{Engine: engine, Sched: "serial", Seed: rng.Int63n(1 << 30), Salt: rng.Uint32(), Parents: linearParents(L + future)}
	c := 2 + rng.Intn(L-2) // checkpoint height (tree index c-1)
	if fx.Hx >= 2 {
		c = fx.Hx
	}
	f := rng.Intn(c - 1)     // last common height (0 = genesis): evil branch starts at height f+1 <= c-1 ... c
	m := c - f + rng.Intn(3) // long enough to reach the checkpoint height
	side := []int{}
	for j := 0; j < m; j++ {
		par := f - 1
		if j > 0 {
			par = len(s.Parents) - 1
		}
		s.Parents = append(s.Parents, par)
		side = append(side, len(s.Parents)-1)
	}
	s.Bits = make([]uint32, len(s.Parents))
	for i := range s.Bits {
		s.Bits[i] = defaultBits
	}
	// sometimes the honest chain is strictly heavier below the checkpoint (so that it can overtake a stored contradiction)
	if rng.Intn(2) == 0 {
		s.Bits[f] = bitsSmall[2]
	}
	s.Cps = []int{c - 1}
	if rng.Intn(2) == 0 && c < L {
		s.Cps = append(s.Cps, c+rng.Intn(L-c))
	}
	if f >= 1 && rng.Intn(3) == 0 {
		s.Init = seq(0, 1+rng.Intn(f))
	}
	if fx.Init >= 0 && fx.Init <= f {
		s.Init = seq(0, fx.Init)
	}
	if rng.Intn(4) == 0 {
		s.Sched = "free"
	}
	evilPath := append(seq(0, f), side...)
	evil := scnNode{Path: evilPath, Pos: len(evilPath), Cap: capAlphabet[rng.Intn(len(capAlphabet))], Dir: "out", Honest: false, CloseAt: -1, StallAt: -1}
	if fx.Cap >= 0 {
		evil.Cap = capAlphabet[fx.Cap]
	}
	s.Nodes = append(s.Nodes, evil)
	nHonest := 1 + rng.Intn(2)
	for i := 0; i < nHonest; i++ {
		n := scnNode{Path: seq(0, L+future), Pos: L, Cap: capAlphabet[rng.Intn(len(capAlphabet))], Dir: "out", Honest: true, CloseAt: -1, StallAt: -1}
		if rng.Intn(3) == 0 {
			n.Dir = "in"
		}
		s.Nodes = append(s.Nodes, n)
	}
	evilSteps(rng, s, nHonest, evilPath)
	timePasses(s)
	return s
}






// genInflatedHeight: BEFORE the engine starts (the rig builds the engine on a table that is already there: a second
// start of the service on the same database) the table holds headers HIGHER than the longest-chain tip that are not on
// the longest chain — (a) an orphan run (descendants of a forbidden header that itself is not stored: synthetic heights
// 1, 2, 3, …) or (b) a taller but lighter STALE branch (work 1 per header against work 3) — reaching the height of a
// checkpoint that sync has NOT passed. Then a node serves a branch that contradicts that checkpoint. The checkpoint is
// pending whatever else the table holds: the request stops at it, the contradicting header gets its sender dropped.
func genInflatedHeight(rng *rand.Rand, o genOpts, engine string) *scn {
	L := 6 + rng.Intn(minInt(o.MaxLen, 14)-5)
	s := &scn{Engine: engine, Sched: "serial", Seed: rng.Int63n(1 << 30), Salt: rng.Uint32(), Parents: linearParents(L)}
	var c, p int // checkpoint height, stored honest prefix
	var extra []int
	heavyMain := false
	if rng.Intn(2) == 0 {
		// (a) orphan run of k headers on a forbidden child of genesis
		c = 2 + rng.Intn(L-3)
		k := c + rng.Intn(3)
		p = rng.Intn(c - 1)
		x := len(s.Parents)
		s.Parents = append(s.Parents, -1)
		for j := 0; j < k; j++ {
			s.Parents = append(s.Parents, len(s.Parents)-1)
			extra = append(extra, len(s.Parents)-1)
		}
		s.Forbid = []int{x}
	} else {
		// (b) taller, lighter stale branch from genesis: m headers of work 1 against k0 stored honest headers of work 3
		heavyMain = true
		k0 := 1 + rng.Intn(minInt(3, L-3))
		m := k0 + 1 + rng.Intn(2*k0-1) // k0 < m < 3*k0
		if m > L-1 {
			m = L - 1
		}
		if m <= k0 {
			k0, m = 1, 2
		}
		p = k0
		c = k0 + 1 + rng.Intn(m-k0)
		for j := 0; j < m; j++ {
			par := -1
			if j > 0 {
				par = len(s.Parents) - 1
			}
			s.Parents = append(s.Parents, par)
			extra = append(extra, len(s.Parents)-1)
		}
	}
	// the contradicting header at the checkpoint height, on the honest header below it
	b := len(s.Parents)
	s.Parents = append(s.Parents, c-2)
	evilPath := append(seq(0, c-1), b)
	if rng.Intn(2) == 0 {
		s.Parents = append(s.Parents, b)
		evilPath = append(evilPath, b+1)
	}
	s.Bits = make([]uint32, len(s.Parents))
	for i := range s.Bits {
		s.Bits[i] = defaultBits
		if heavyMain {
			s.Bits[i] = bitsSmall[2]
		}
	}
	if heavyMain {
		for _, i := range extra {
			s.Bits[i] = bitsSmall[0]
		}
	}
	s.Cps = []int{c - 1}
	s.Init = append(seq(0, p), extra...)
	s.Nodes = append(s.Nodes, scnNode{Path: evilPath, Pos: len(evilPath), Cap: 2000, Dir: "out", Honest: false, CloseAt: -1, StallAt: -1})
	s.Steps = append(s.Steps, scnStep{Kind: "connect", Node: 0}, scnStep{Kind: "run"})
	if rng.Intn(2) == 0 {
		s.Nodes = append(s.Nodes, scnNode{Path: seq(0, L), Pos: L, Cap: 2000, Dir: "out", Honest: true, CloseAt: -1, StallAt: -1})
		s.Steps = append(s.Steps, scnStep{Kind: "connect", Node: 1}, scnStep{Kind: "run"})
	}
	timePasses(s)
	return s
}

// genForbiddenFork: the forbidden header F is exactly the header with which a STALE fork would overtake the longest
// chain. The table holds the honest chain (L headers, work 2 each); the fork leaves it d headers below the tip and is
// stored STALE — already in the initial table, or delivered right before F in the same headers message; F sits on top
// of the fork and carries the fork past the honest tip (one header longer, or a heavier header: work 3). F must be
// refused with the table untouched: the honest chain stays LONGEST_CHAIN, its (reachable) node's chain is what the
// service serves. The misbehaving node pushes the batch as a by-stander, or answers with it as the sync peer.
func genForbiddenFork(rng *rand.Rand, o genOpts) *scn {
	L := 4 + rng.Intn(minInt(o.MaxLen, 12)-3)
	s := &scn{Engine: "legacy", Sched: "serial", Seed: rng.Int63n(1 << 30), Salt: rng.Uint32(), Parents: linearParents(L)}
	d := 2 + rng.Intn(minInt(L-2, 3)) // the fork leaves the honest chain d headers below the tip (f = L-d >= 1)
	f := L - d
	heavy := rng.Intn(2) == 0
	m := d // fork headers before F: the fork ties with the honest tip, F makes it longer
	if heavy {
		m = d - 1 // one header short of the honest tip, F (work 3) overtakes
	}
	var fork []int
	for j := 0; j < m; j++ {
		par := f - 1
		if j > 0 {
			par = len(s.Parents) - 1
		}
		s.Parents = append(s.Parents, par)
		fork = append(fork, len(s.Parents)-1)
	}
	par := f - 1
	if m > 0 {
		par = len(s.Parents) - 1
	}
	x := len(s.Parents)
	s.Parents = append(s.Parents, par)
	evilPath := append(append(seq(0, f), fork...), x)
	if rng.Intn(2) == 0 { // a descendant of F
		s.Parents = append(s.Parents, x)
		evilPath = append(evilPath, x+1)
	}
	s.Bits = make([]uint32, len(s.Parents))
	for i := range s.Bits {
		s.Bits[i] = defaultBits
	}
	if heavy {
		s.Bits[x] = bitsSmall[2]
	}
	s.Forbid = []int{x}
	s.Cps = []int{0} // height 1, on both branches
	forkStored := rng.Intn(2) == 0
	s.Init = seq(0, L)
	batch := append(append([]int{}, fork...), evilPath[f+m:]...)
	if forkStored {
		s.Init = append(s.Init, fork...)
		if rng.Intn(2) == 0 {
			batch = append([]int{}, evilPath[f+m:]...) // F first: refused as a whole, the digest clause applies
		}
	}
	s.Nodes = append(s.Nodes, scnNode{Path: evilPath, Pos: len(evilPath), Cap: 2000, Dir: "out", Honest: false, CloseAt: -1, StallAt: -1})
	s.Nodes = append(s.Nodes, scnNode{Path: seq(0, L), Pos: L, Cap: 2000, Dir: "out", Honest: true, CloseAt: -1, StallAt: -1})
	if rng.Intn(2) == 0 {
		// by-stander: the honest node is the sync peer, the misbehaving node pushes its batch unsolicited
		s.Nodes[0].StallAt = 0
		s.Steps = append(s.Steps, scnStep{Kind: "connect", Node: 1}, scnStep{Kind: "run"}, scnStep{Kind: "connect", Node: 0},
			scnStep{Kind: "push", Node: 0, How: "headers", Idx: batch}, scnStep{Kind: "run"})
	} else {
		// sync peer: it is asked from the honest tip and answers with its chain after the fork point
		s.Steps = append(s.Steps, scnStep{Kind: "connect", Node: 0}, scnStep{Kind: "run"}, scnStep{Kind: "connect", Node: 1}, scnStep{Kind: "run"})
	}
	timePasses(s)
	return s
}

// genHitRun: a node delivers a headers message that holds a forbidden header (at any batch position) and hangs up at
// once, before the single-threaded manager gets to the message (step `hitrun`). It must still be banned. The node is
// either a by-stander (an honest node is the sync peer and has synced part or all of the chain) or the sync peer itself
// (it never answers its getheaders: the batch it pushes is its "answer").
func genHitRun(rng *rand.Rand, o genOpts) *scn {
	L := 5 + rng.Intn(o.MaxLen-4)
	s := &scn{Engine: "legacy", Sched: "serial", Seed: rng.Int63n(1 << 30), Salt: rng.Uint32(), Parents: linearParents(L)}
	hx := 1 + rng.Intn(L)
	x := len(s.Parents)
	s.Parents = append(s.Parents, hx-2)
	desc := 1 + rng.Intn(3)
	for j := 0; j < desc; j++ {
		s.Parents = append(s.Parents, len(s.Parents)-1)
	}
	s.Bits = make([]uint32, len(s.Parents))
	for i := range s.Bits {
		s.Bits[i] = defaultBits
	}
	s.Forbid = []int{x}
	s.Cps = []int{L - 1}
	if rng.Intn(2) == 0 {
		s.Cps = []int{rng.Intn(L)}
	}
	evilPath := append(seq(0, hx-1), seq(x, x+1+desc)...)
	// the batch: up to 3 headers before the forbidden one, up to `desc` after it
	a := hx - 1 - rng.Intn(minInt(hx-1, 3)+1)
	b := hx + rng.Intn(desc+1)
	batch := append([]int{}, evilPath[a:b]...)
	s.Nodes = append(s.Nodes, scnNode{Path: evilPath, Pos: len(evilPath), Cap: 2000, Dir: "out", Honest: false, CloseAt: -1, StallAt: 0})
	s.Nodes = append(s.Nodes, scnNode{Path: seq(0, L), Pos: L, Cap: capAlphabet[rng.Intn(len(capAlphabet))], Dir: "out", Honest: true, CloseAt: -1, StallAt: -1})
	if rng.Intn(3) == 0 {
		s.Nodes[0].Dir = "in"
	}
	if rng.Intn(2) == 0 {
		// by-stander
		// (the honest node has delivered its whole chain first: the headers before the forbidden one are known, not
		// unconnected)
		s.Steps = append(s.Steps, scnStep{Kind: "connect", Node: 1}, scnStep{Kind: "run"})
		s.Steps = append(s.Steps, scnStep{Kind: "connect", Node: 0}, scnStep{Kind: "hitrun", Node: 0, Idx: batch}, scnStep{Kind: "run"})
	} else {
		// the sync peer itself: the table holds genesis only, the batch starts at height 1
		batch = append([]int{}, evilPath[0:b]...)
		// (no checkpoint inside the batch: a batch that is cut short by the ban after it has crossed a checkpoint leaves
		// the cursor behind the tip — the stale-cursor behaviour of C06_checkpoint_cursor_counterexample, not this shape's point)
		s.Cps = []int{L - 1}
		s.Steps = append(s.Steps, scnStep{Kind: "connect", Node: 0}, scnStep{Kind: "run"}, scnStep{Kind: "connect", Node: 1},
			scnStep{Kind: "hitrun", Node: 0, Idx: batch}, scnStep{Kind: "run"})
	}
	timePasses(s)
	return s
}

// genSecondOffender: two misbehaving nodes contradict the SAME pending checkpoint with different headers. The first
// one's header X (height = checkpoint height) is stored as the tip before it is compared, the node is dropped. The
// second node then answers with a sibling Y of X (same height, ties with X: stored STALE) followed by 1..2 more
// headers: Y differs from the checkpoint that is still pending, so the node must be dropped at Y and asked nothing more.
// Sometimes a third, honest node connects last.
func genSecondOffender(rng *rand.Rand, o genOpts) *scn {
	L := 6 + rng.Intn(o.MaxLen-5)
	s := &scn{Engine: "legacy", Sched: "serial", Seed: rng.Int63n(1 << 30), Salt: rng.Uint32(), Parents: linearParents(L)}
	c := 2 + rng.Intn(L-3) // checkpoint height
	f := c - 1             // both branches fork right below the checkpoint
	x := len(s.Parents)
	s.Parents = append(s.Parents, f-1)
	y := len(s.Parents)
	s.Parents = append(s.Parents, f-1)
	ypath := []int{y}
	for j := 0; j < 1+rng.Intn(2); j++ {
		s.Parents = append(s.Parents, len(s.Parents)-1)
		ypath = append(ypath, len(s.Parents)-1)
	}
	s.Bits = make([]uint32, len(s.Parents))
	for i := range s.Bits {
		s.Bits[i] = defaultBits
	}
	s.Cps = []int{c - 1}
	if f >= 1 && rng.Intn(3) == 0 {
		s.Init = seq(0, 1+rng.Intn(f))
	}
	p1 := append(seq(0, f), x)
	p2 := append(seq(0, f), ypath...)
	s.Nodes = append(s.Nodes, scnNode{Path: p1, Pos: len(p1), Cap: 2000, Dir: "out", Honest: false, CloseAt: -1, StallAt: -1})
	s.Nodes = append(s.Nodes, scnNode{Path: p2, Pos: len(p2), Cap: capAlphabet[1+rng.Intn(len(capAlphabet)-1)], Dir: "out", Honest: false, CloseAt: -1, StallAt: -1})
	s.Steps = append(s.Steps, scnStep{Kind: "connect", Node: 0}, scnStep{Kind: "run"}, scnStep{Kind: "connect", Node: 1}, scnStep{Kind: "run"})
	if rng.Intn(2) == 0 {
		s.Nodes = append(s.Nodes, scnNode{Path: seq(0, L), Pos: L, Cap: 2000, Dir: "out", Honest: true, CloseAt: -1, StallAt: -1})
		s.Steps = append(s.Steps, scnStep{Kind: "connect", Node: 2}, scnStep{Kind: "run"})
	}
	timePasses(s)
	return s
}

// genLowWorkFork: the table holds the honest chain up to height k below the pending checkpoint (headers of work 3); the
// misbehaving node's branch forks below k with EASIER bits (work 1 per header) and reaches the checkpoint height: every
// header of it is stored STALE, its header at the checkpoint height differs from the checkpoint — the node must be
// dropped there and asked nothing more, although that header never was the tip.
func genLowWorkFork(rng *rand.Rand, o genOpts) *scn {
	L := 5 + rng.Intn(o.MaxLen-4)
	s := &scn{Engine: "legacy", Sched: "serial", Seed: rng.Int63n(1 << 30), Salt: rng.Uint32(), Parents: linearParents(L)}
	c := 2 + rng.Intn(L-2)   // checkpoint height 2..L-1
	k := c - 1 - rng.Intn(2) // stored honest height
	if k < 1 {
		k = 1
	}
	f := rng.Intn(k) // last common height 0..k-1
	for 3*(k-f) <= c-f+1 { // the fork (c-f headers, perhaps one more, work 1 each) stays lighter than the k-f honest ones (work 3)
		f--
		if f < 0 {
			f, k = 0, c-1
			break
		}
	}
	m := c - f + rng.Intn(2)
	side := []int{}
	for j := 0; j < m; j++ {
		par := f - 1
		if j > 0 {
			par = len(s.Parents) - 1
		}
		s.Parents = append(s.Parents, par)
		side = append(side, len(s.Parents)-1)
	}
	s.Bits = make([]uint32, len(s.Parents))
	for i := range s.Bits {
		s.Bits[i] = bitsSmall[2]
	}
	for _, i := range side {
		s.Bits[i] = bitsSmall[0]
	}
	s.Cps = []int{c - 1}
	s.Init = seq(0, k)
	evilPath := append(seq(0, f), side...)
	s.Nodes = append(s.Nodes, scnNode{Path: evilPath, Pos: len(evilPath), Cap: capAlphabet[1+rng.Intn(len(capAlphabet)-1)], Dir: "out", Honest: false, CloseAt: -1, StallAt: -1})
	s.Steps = append(s.Steps, scnStep{Kind: "connect", Node: 0}, scnStep{Kind: "run"})
	if rng.Intn(2) == 0 {
		s.Nodes = append(s.Nodes, scnNode{Path: seq(0, L), Pos: L, Cap: 2000, Dir: "out", Honest: true, CloseAt: -1, StallAt: -1})
		s.Steps = append(s.Steps, scnStep{Kind: "connect", Node: 1}, scnStep{Kind: "run"})
	}
	timePasses(s)
	return s
}

// genRecover: the recovery after a checkpoint violator. The misbehaving node is the first sync peer; its branch forks
// below the (single) pending checkpoint and its header X sits EXACTLY at the checkpoint height, delivered as the last
// header of its answer (cap 2000): X is stored as the tip before it is compared, the node is dropped. The honest node
// (stand-by, cap 2000, honours the stop hash) has a chain well beyond the checkpoint: its first answer to the request
// startSync must send (no stop hash: the tip has reached the checkpoint height) overtakes X.
func genRecover(rng *rand.Rand, o genOpts, engine string) *scn {
	L := 8 + rng.Intn(o.MaxLen-7)
	s := &scn{Engine: engine, Sched: "serial", Seed: rng.Int63n(1 << 30), Salt: rng.Uint32(), Parents: linearParents(L)}
	c := 2 + rng.Intn(L-5)               // checkpoint height, at least 3 honest headers beyond it
	f := c - 1 - rng.Intn(minInt(c-1, 3)) // last common height (0 = genesis); the evil branch is f+1 .. c
	side := []int{}
	for j := 0; j < c-f; j++ {
		par := f - 1
		if j > 0 {
			par = len(s.Parents) - 1
		}
		s.Parents = append(s.Parents, par)
		side = append(side, len(s.Parents)-1)
	}
	s.Bits = make([]uint32, len(s.Parents))
	for i := range s.Bits {
		s.Bits[i] = defaultBits
	}
	s.Cps = []int{c - 1}
	if f >= 1 && rng.Intn(3) == 0 {
		s.Init = seq(0, 1+rng.Intn(f))
	}
	evilPath := append(seq(0, f), side...)
	s.Nodes = append(s.Nodes, scnNode{Path: evilPath, Pos: len(evilPath), Cap: 2000, Dir: "out", Honest: false, CloseAt: -1, StallAt: -1})
	s.Nodes = append(s.Nodes, scnNode{Path: seq(0, L), Pos: L, Cap: 2000, Dir: "out", Honest: true, CloseAt: -1, StallAt: -1})
	s.Steps = append(s.Steps, scnStep{Kind: "connect", Node: 0})
	if rng.Intn(2) == 0 {
		s.Steps = append(s.Steps, scnStep{Kind: "run"})
	}
	s.Steps = append(s.Steps, scnStep{Kind: "connect", Node: 1}, scnStep{Kind: "run"})
	timePasses(s)
	return s
}

func minInt(a, b int) int {
	if a < b {
		return a
	}
	return b
}

// c07Corpus: fixed scenarios that run first on every check.
var c07Corpus = []struct {
	Name string
	Ops  []string
}{
	// the violator's header X5 at the pending checkpoint height 5 is the last header of its answer and becomes the tip;
	// the stand-by honest node (8 headers) must be asked without a stop hash and its answer overtakes X5
	{"recover-after-violator", []string{"c06 engine=legacy cpoff=0 cps=4 init= forbid= sched=serial seed=1 salt=7", "tree parents=0~7,3",
		"node path=0..3,8 pos=5 cap=2000 dir=out honest=0", "node path=0..7 pos=8 cap=2000 dir=out honest=1",
		"step connect 0", "step run", "step connect 1", "step run"}},
	// second offender: X (#8) at the pending checkpoint height 5 becomes the tip, its sender is dropped; the second node
	// answers with the sibling Y (#9, ties: STALE) and one more header: it must be dropped at Y as well
	{"second-offender", []string{"c06 engine=legacy cpoff=0 cps=4 init= forbid= sched=serial seed=1 salt=9", "tree parents=0~7,3,3,9",
		"node path=0..3,8 pos=5 cap=2000 dir=out honest=0", "node path=0..3,9,10 pos=6 cap=2000 dir=out honest=0",
		"step connect 0", "step run", "step connect 1", "step run"}},
	// low-work fork: the table holds heights 1..2 (work 3 each), the checkpoint at height 3 is pending; the node's fork
	// from genesis (work 1 each) reaches height 3 entirely STALE: its third header differs from the checkpoint
	{"low-work-fork", []string{"c06 engine=legacy cpoff=0 cps=2 init=0,1 forbid= sched=serial seed=1 salt=11",
		"tree parents=0~5,-1,6,7 bits=20400000,20400000,20400000,20400000,20400000,20400000,21008000,21008000,21008000",
		"node path=6..8 pos=3 cap=2000 dir=out honest=0", "step connect 0", "step run"}},
	// hit and run: the honest node 1 is the sync peer; node 0 (a by-stander) sends a headers message whose second header
	// (#6) is forbidden and hangs up before the manager gets to the message: it must still be banned
	{"hit-and-run", []string{"c06 engine=legacy cpoff=0 cps=5 init= forbid=6 sched=serial seed=1 salt=13", "tree parents=0~5,2,6",
		"node path=0..2,6,7 pos=5 cap=2000 dir=out honest=0 stallat=0", "node path=0..5 pos=6 cap=2 dir=out honest=1",
		"step connect 1", "step run", "step connect 0", "step hitrun 0 2,6,7", "step run"}},
	// forbidden header on an overtaking fork: the table holds A1..A3 (LONGEST_CHAIN) and the STALE fork header B2 (#3, on
	// A1); the forbidden F (#4, on B2, work 3) would carry the fork past A3. It is refused: the table must not change
	{"forbidden-on-overtaking-fork", []string{"c06 engine=legacy cpoff=0 cps=0 init=0..3 forbid=4 sched=serial seed=1 salt=17",
		"tree parents=0~2,0,3 bits=207fffff,207fffff,207fffff,207fffff,20400000",
		"node path=0,3,4 pos=3 cap=2000 dir=out honest=0 stallat=0", "node path=0..2 pos=3 cap=2000 dir=out honest=1",
		"step connect 1", "step run", "step connect 0", "step push 0 headers 4", "step run"}},
	// … the fork delivered right before F in the same headers message
	{"forbidden-fork-same-batch", []string{"c06 engine=legacy cpoff=0 cps=0 init=0..2 forbid=4 sched=serial seed=1 salt=19",
		"tree parents=0~2,0,3 bits=207fffff,207fffff,207fffff,207fffff,20400000",
		"node path=0,3,4 pos=3 cap=2000 dir=out honest=0 stallat=0", "node path=0..2 pos=3 cap=2000 dir=out honest=1",
		"step connect 1", "step run", "step connect 0", "step push 0 headers 3,4", "step run"}},
	// heights above the tip that are not on the longest chain. The engine is built on a table that holds five ORPHAN
	// descendants (#7..#11, synthetic heights 1..5) of the forbidden #6; the tip is genesis, the checkpoint at height 3 (#2)
	// is pending. The node contradicts it with #12: the request must stop at the checkpoint, the node must be dropped
	{"orphans-above-tip-legacy", []string{"c06 engine=legacy cpoff=0 cps=2 init=7..11 forbid=6 sched=serial seed=1 salt=23",
		"tree parents=0~5,-1,7~11,1", "node path=0,1,12 pos=3 cap=2000 dir=out honest=0", "step connect 0", "step run"}},
	{"orphans-above-tip-exp", []string{"c06 engine=exp cpoff=0 cps=2 init=7..11 forbid=6 sched=serial seed=1 salt=23",
		"tree parents=0~5,-1,7~11,1", "node path=0,1,12 pos=3 cap=2000 dir=out honest=0", "step connect 0", "step run"}},
	// … a taller but lighter STALE branch (#6..#10, work 1 each, heights 1..5) next to the tip #1 (height 2, work 3 each);
	// checkpoint at height 4 (#3) pending, contradicted by #11
	{"stale-branch-above-tip", []string{"c06 engine=legacy cpoff=0 cps=3 init=0,1,6..10 forbid= sched=serial seed=1 salt=29",
		"tree parents=0~5,-1,7~10,2 bits=20400000,20400000,20400000,20400000,20400000,20400000,21008000,21008000,21008000,21008000,21008000,20400000",
		"node path=0..2,11 pos=4 cap=2000 dir=out honest=0", "step connect 0", "step run"}},
}

// genRunPast: two checkpoints c1 < c2 on the honest chain; the misbehaving node's branch matches c1, forks between them
// and contradicts c2; it IGNORES the stop hash, so its first answer runs past c1 (the matching header is followed by
// more new headers in the same message) and ends before c2; the contradiction arrives with a later answer. After the
// match the cursor must stand on c2: the next request stops there, the contradiction is noticed, the node is dropped.
// (sameMsg: the first answer runs past c2 as well — the cursor-only rule of finding R2 then lets the contradiction in.)
func genRunPast(rng *rand.Rand, o genOpts, engine string) *scn {
	L := 10 + rng.Intn(o.MaxLen-4)
	s := &scn{Engine: engine, Sched: "serial", Seed: rng.Int63n(1 << 30), Salt: rng.Uint32(), Parents: linearParents(L)}
	c1 := 2 + rng.Intn(L-7)         // heights
	c2 := c1 + 3 + rng.Intn(L-c1-4) // c1+3 .. L-2
	f := c1 + rng.Intn(c2-c1-1)     // last common height: c1 .. c2-2
	m := c2 - f + 1 + rng.Intn(2)   // side branch reaches beyond c2
	side := []int{}
	for j := 0; j < m; j++ {
		par := f - 1
		if j > 0 {
			par = len(s.Parents) - 1
		}
		s.Parents = append(s.Parents, par)
		side = append(side, len(s.Parents)-1)
	}
	s.Bits = make([]uint32, len(s.Parents))
	for i := range s.Bits {
		s.Bits[i] = defaultBits
	}
	if rng.Intn(2) == 0 {
		s.Bits[f] = bitsSmall[2] // the honest chain can overtake a stored contradiction
	}
	s.Cps = []int{c1 - 1, c2 - 1}
	s0 := rng.Intn(c1) // stored prefix
	if s0 > 0 {
		s.Init = seq(0, s0)
	}
	e1 := c1 + 1 + rng.Intn(c2-c1-1) // the first answer ends at height e1: c1 < e1 < c2
	if rng.Intn(6) == 0 {
		e1 = c2 + rng.Intn(2) // same message: past c2
	}
	if rng.Intn(4) == 0 {
		s.Sched = "free"
	}
	evilPath := append(seq(0, f), side...)
	if e1 > len(evilPath) {
		e1 = len(evilPath)
	}
	evil := scnNode{Path: evilPath, Pos: len(evilPath), Cap: e1 - s0, Dir: "out", Honest: false, CloseAt: -1, StallAt: -1, NoStop: true}
	if rng.Intn(3) == 0 {
		evil.Dir = "in"
	}
	s.Nodes = append(s.Nodes, evil)
	nHonest := 1 + rng.Intn(2)
	for i := 0; i < nHonest; i++ {
		n := scnNode{Path: seq(0, L), Pos: L, Cap: capAlphabet[rng.Intn(len(capAlphabet))], Dir: "out", Honest: true, CloseAt: -1, StallAt: -1}
		s.Nodes = append(s.Nodes, n)
	}
	// the misbehaving node first: it is the sync peer while the cursor stands on c1
	s.Steps = append(s.Steps, scnStep{Kind: "connect", Node: 0}, scnStep{Kind: "run"})
	for i := 1; i <= nHonest; i++ {
		if engine == "exp" && i > 1 {
			break
		}
		s.Steps = append(s.Steps, scnStep{Kind: "connect", Node: i}, scnStep{Kind: "run"})
	}
	timePasses(s)
	return s
}

func runC07(c *Ctx) error {
	c.R.Rule = "scenario = honest chain + a misbehaving scripted node whose (otherwise conformant) chain contains a forbidden header at a random height or contradicts a checkpoint, reply caps 1/2/7/2000 and initial stores chosen so that the offending header lands at every batch position; optional second node pushing descendants of the forbidden header unsolicited; tables that, before the engine starts (second start on the same database), hold heights above the longest-chain tip that are not on the longest chain (an orphan run below a forbidden header, a taller but lighter stale branch) up to a pending checkpoint that a node then contradicts; a forbidden header that is exactly the overtaking header of a STALE fork (fork in the initial table or delivered right before it in the same message; longer fork or heavier header), with store-level digests around refused submissions; a node that sends a headers message holding a forbidden header and hangs up before the manager handles it (by-stander or sync peer); a second offender contradicting the same pending checkpoint with a sibling header that is stored STALE, a low-work fork (easier bits) reaching the pending checkpoint height entirely STALE; recovery scenarios (the violator's header exactly at the pending checkpoint height as last header of its answer, a stand-by honest node with a long chain and a large cap); nodes that IGNORE the stop hash and run an answer past a matching checkpoint, the contradiction of the next checkpoint arriving with a later answer (or, rarely, the same one); 1..2 honest nodes; both engines; 0..n checkpoints; serial (trace compared with the Lean model) and free-running scheduling; non-trivial = the offending header was actually delivered"
	l := newSyncModel(c)
	defer l.Close()
	if c.Replay != "" {
		ops, err := lib.ReadReplayOps(c.Replay)
		if err != nil {
			return err
		}
		s, err := parseScn(ops)
		if err != nil {
			return err
		}
		res := runScenario("replay", s, oracleC07)
		n := 0
		reportC07(c, res, &n)
		l.check(c, res)
		return res.Err
	}
	replayKnownC06(c, "C07", oracleC07)
	corpusErrs := 0
	for _, cs := range c07Corpus {
		s, err := parseScn(cs.Ops)
		if err != nil {
			return fmt.Errorf("corpus %s: %w", cs.Name, err)
		}
		res := runScenario("corpus-"+cs.Name, s, oracleC07)
		if res.Err != nil {
			res = runScenario("corpus-"+cs.Name+"-retry", s, oracleC07)
		}
		reportC07(c, res, &corpusErrs)
		l.check(c, res)
		c.R.Count("kind:corpus", 1)
	}
	if corpusErrs > 0 {
		c.R.Fail(lib.Failure{Case: "corpus", What: "a corpus scenario could not be evaluated (rig error, see notes)", Signature: "c07-other:rig-error"})
	}
	rng := lib.Rng(c.Seed, "c07-scenarios")
	o := genOpts{MaxLen: 30}
	budget := 60 * time.Second
	count := 700
	if c.Thorough {
		o = genOpts{MaxLen: 60}
		budget = 10 * time.Minute
		count = 10000
	}
	start := time.Now()
	rigErrs := 0
	if c.Thorough {
		// the full small matrix, once: chain of 8 headers; the offending header at EVERY height 1..8 (forbidden) /
		// checkpoint at every height 2..7 (mismatch) x cap {1,2,7,2000} of the misbehaving node x initial prefix 0..h-1
		// x {misbehaving node first, honest nodes first} x both engines — every batch position occurs
		mrng := lib.Rng(c.Seed, "c07-matrix")
		n := 0
		runOne := func(kind string, s *scn) {
			name := fmt.Sprintf("matrix-%s-%s-%d", kind, s.Engine, n)
			n++
			res := runScenario(name, s, oracleC07)
			if res.Err != nil {
				res = runScenario(name+"-retry", s, oracleC07)
			}
			reportC07(c, res, &rigErrs)
			l.check(c, res)
			c.R.Count("kind:matrix-"+kind, 1)
		}
		for _, engine := range []string{"legacy", "exp"} {
			for capi := range capAlphabet {
				for first := 0; first < 2; first++ {
					for hx := 1; hx <= 8; hx++ {
						for init := 0; init < hx; init++ {
							evilPin = &evilFix{L: 8, Hx: hx, Cap: capi, Init: init, First: first}
							runOne("forbidden", genForbidden(mrng, genOpts{MaxLen: 8}, engine))
							if hx >= 2 && hx <= 7 {
								runOne("mismatch", genMismatch(mrng, genOpts{MaxLen: 8}, engine))
							}
						}
					}
				}
			}
		}
		evilPin = nil
		c.R.Exhaustive = true
		c.R.Notes = append(c.R.Notes, fmt.Sprintf("full small matrix: %d scenarios", n))
	}
	for i := 0; i < count && time.Since(start) < budget; i++ {
		engine := "legacy"
		if rng.Intn(3) == 0 {
			engine = "exp"
		}
		var s *scn
		kind := "forbidden"
		if k := rng.Intn(10); k == 9 {
			switch rng.Intn(7) {
			case 5, 6:
				kind = "inflated-height"
				s = genInflatedHeight(rng, o, engine)
			case 4:
				kind = "forbidden-fork"
				s = genForbiddenFork(rng, o)
			case 3:
				kind = "hitrun"
				s = genHitRun(rng, o)
			case 0:
				kind = "recover"
				s = genRecover(rng, o, "legacy")
			case 1:
				kind = "second-offender"
				s = genSecondOffender(rng, o)
			default:
				kind = "low-work-fork"
				s = genLowWorkFork(rng, o)
			}
		} else if k < 2 {
			kind = "runpast"
			s = genRunPast(rng, o, engine)
		} else if k < 5 {
			kind = "mismatch"
			s = genMismatch(rng, o, engine)
		} else {
			s = genForbidden(rng, o, engine)
		}
		name := fmt.Sprintf("%s-%s-%d", kind, s.Engine, i)
		res := runScenario(name, s, oracleC07)
		if res.Err != nil {
			res = runScenario(name+"-retry", s, oracleC07)
		}
		reportC07(c, res, &rigErrs)
		l.check(c, res)
		c.R.Count("kind:"+kind, 1)
		if len(c.R.Samples) < 6 {
			c.R.Sample(map[string]any{"scenario": s.Ops()}, 6)
		}
	}
	c.R.ModelOps = l.ops()
	if rigErrs > 0 {
		c.R.Fail(lib.Failure{Case: "rig", What: fmt.Sprintf("%d scenarios could not be evaluated (rig errors, see notes)", rigErrs), Signature: "c07-other:rig-error"})
	}
	return nil
}

func reportC07(c *Ctx, res *scnResult, rigErrs *int) {
	if res.Err != nil {
		*rigErrs++
		c.R.Count("rig-error", 1)
		c.R.Notes = append(c.R.Notes, fmt.Sprintf("%s: rig error: %v", res.Name, res.Err))
		return
	}
	nontrivial := res.Info["forbidden-delivered"] == true || res.Info["contradiction-delivered"] == true
	c.R.Case(strings.Join(res.S.Ops(), "\n"), nontrivial)
	c.R.OracleChecked++
	for _, f := range res.Failures {
		c.R.Fail(f)
	}
	c.R.Count("engine:"+res.S.Engine, 1)
	c.R.Count("sched:"+res.S.Sched, 1)
	c.R.Count(fmt.Sprintf("checkpoints:%d", len(res.S.Cps)), 1)
	if res.Info["forbidden-delivered"] == true {
		c.R.Count("forbidden-delivered", 1)
		pos, _ := res.Info["forbidden-batch-position"].(int)
		ln, _ := res.Info["forbidden-batch-len"].(int)
		switch {
		case ln == 1:
			c.R.Count("forbidden-position:only", 1)
		case pos == 0:
			c.R.Count("forbidden-position:first", 1)
		case pos == ln-1:
			c.R.Count("forbidden-position:last", 1)
		default:
			c.R.Count("forbidden-position:middle", 1)
		}
	}
	if res.Info["contradiction-delivered"] == true {
		c.R.Count("contradiction-delivered", 1)
	}
	if res.Info["descendant-stored"] == true {
		c.R.Count("forbidden-descendant-stored-as-orphan", 1)
	}
	if res.Info["stop-checked"] == true {
		c.R.Count("stop-hash-checked", 1)
	}
	if res.Info["cursor-advance-checked"] == true {
		c.R.Count("cursor-advance-after-match-checked", 1)
	}
	c.R.Count("events", len(res.Events))
}
