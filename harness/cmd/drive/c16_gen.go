package main

// C16: request grammar (valid shapes with boundary values, malformed values, odd encodings,
// hostile bodies) per route of the routing table, and a mutation stream over valid requests.

import (
	"bytes"
	"crypto/sha256"
	"encoding/hex"
	"encoding/json"
	"fmt"
	"math/rand"
	"net/url"
	"sort"
	"strings"
)

// c16Pool is what the generators know about the current store.
type c16Pool struct {
	rows    []DbRow
	genesis string
	tip     string
	lc      []string
	stale   []string
	orphan  []string
	roots   map[string]string // hash -> merkle root
	height  map[string]int64
	hooks   []string // webhook urls used so far
	forks   bool
}

func c16NewPool(rows []DbRow) *c16Pool {
	p := &c16Pool{rows: rows, roots: map[string]string{}, height: map[string]int64{}}
	var tipH int64 = -1
	perHeight := map[int64]int{}
	for _, r := range rows {
		p.roots[r.Hash] = r.Merkle
		p.height[r.Hash] = r.Height
		perHeight[r.Height]++
		switch r.State {
		case "LONGEST_CHAIN":
			p.lc = append(p.lc, r.Hash)
			if r.Height == 0 {
				p.genesis = r.Hash
			}
			if r.Height > tipH {
				tipH, p.tip = r.Height, r.Hash
			}
		case "STALE":
			p.stale = append(p.stale, r.Hash)
		case "ORPHAN":
			p.orphan = append(p.orphan, r.Hash)
		}
	}
	for _, n := range perHeight {
		if n > 1 {
			p.forks = true
		}
	}
	return p
}

func c16Unknown(tag string) string {
	h := sha256.Sum256([]byte("c16-unknown-" + tag))
	return hex.EncodeToString(h[:])
}

func pick(rng *rand.Rand, l []string, dflt string) string {
	if len(l) == 0 {
		return dflt
	}
	return l[rng.Intn(len(l))]
}

// hashValues: stored longest / tip / stale / orphan / genesis, unknown, wrong lengths, non-hex, odd bytes, very long.
func (p *c16Pool) hashValues(rng *rand.Rand, thorough bool) []string {
	some := pick(rng, p.lc, p.genesis)
	vals := []string{
		p.tip, some, p.genesis,
		pick(rng, p.stale, c16Unknown("nostale")), pick(rng, p.orphan, c16Unknown("noorphan")),
		c16Unknown("a"), strings.Repeat("0", 64),
		some[:63], some + "0", strings.Repeat("z", 64), strings.ToUpper(some), " " + some, some + " ",
		"a", "0", "-1", "null", "é", "\x00", "a\x00b", "%", "%zz", "a+b", "a b", "..", ".", "\xff\xfe", "'; DROP TABLE headers;--",
		"\"", "{}", strings.Repeat("ab", 2048), strings.Repeat("f", 60001), strings.Repeat("0", 200000),
	}
	if thorough {
		vals = append(vals, strings.Repeat("f", 100000), strings.Repeat("é", 5000))
		for i := 0; i < 6; i++ {
			vals = append(vals, pick(rng, p.lc, p.genesis), pick(rng, p.stale, p.genesis), pick(rng, p.orphan, p.genesis))
		}
	}
	return vals
}

var c16Numbers = []string{
	"0", "1", "2", "5", "-1", "-5", "-0", "+1", "007", "2147483647", "2147483648", "-2147483648", "-2147483649", "4294967296",
	"9223372036854775807", "9223372036854775808", "-9223372036854775808", "-9223372036854775809", "99999999999999999999",
	"000000000000000000000000000001", "", " ", " 1", "1 ", "1.0", "1e3", "0x10", "1_000", "abc", "NaN", "+", "-", "--1", "٣", "１", "1\x00",
	"true", "null", strings.Repeat("9", 1000),
}

// reserved first segments under /chain/header (a value equal to one of them selects another route)
var c16Reserved = map[string]bool{"byHeight": true, "state": true, "commonAncestor": true, "": true}

func c16Seg(v string) string { return url.PathEscape(v) }

func c16Fill(pattern string, vals map[string]string) string {
	segs := strings.Split(pattern, "/")
	for i, s := range segs {
		if strings.HasPrefix(s, ":") {
			segs[i] = c16Seg(vals[s[1:]])
		} else if strings.HasPrefix(s, "*") {
			segs[i] = vals[s[1:]]
		}
	}
	return strings.Join(segs, "/")
}

func c16Q(kv ...string) string {
	var parts []string
	for i := 0; i+1 < len(kv); i += 2 {
		parts = append(parts, url.QueryEscape(kv[i])+"="+url.QueryEscape(kv[i+1]))
	}
	return strings.Join(parts, "&")
}

func c16JSON(v any) []byte {
	b, _ := json.Marshal(v)
	return b
}

const c16JSONType = "application/json"

// hostile bodies that are not tied to an endpoint's schema
func c16GenericBodies(thorough bool) [][]byte {
	deep := 12000
	huge := 10000
	bodies := [][]byte{
		nil, []byte(""), []byte(" "), []byte("\n\t "), []byte("null"), []byte("[]"), []byte("{}"), []byte("[null]"), []byte("[[]]"), []byte("[{}]"),
		[]byte("0"), []byte("-1"), []byte("1e400"), []byte("true"), []byte(`"text"`), []byte(`""`), []byte("["), []byte("{"), []byte(`["a"`), []byte(`{"url"`), []byte(`{"url":`),
		[]byte(`["a",]`), []byte(`{"a":1,}`), []byte("[1,2,3]"), []byte(`[1.5,"a",null,true,{}]`), []byte(`{"a":{"b":{"c":[1,2,{"d":null}]}}}`),
		[]byte("\xef\xbb\xbf[]"), []byte("[\"\xff\xfe\"]"), []byte("\xff\xfe\x00"), []byte(`["\ud800"]`), []byte(`["\u0000"]`), []byte(`[] trailing`), []byte(`[][]`), []byte(`{}{}`),
		[]byte(`<a><b/></a>`), []byte(`url=http%3A%2F%2Fform.example`), []byte("--x\r\nContent-Disposition: form-data; name=\"url\"\r\n\r\nhttp://mp.example\r\n--x--\r\n"),
		bytes.Repeat([]byte("["), deep), append(bytes.Repeat([]byte("["), 5000), bytes.Repeat([]byte("]"), 5000)...),
		append(bytes.Repeat([]byte(`{"a":`), 3000), append([]byte("1"), bytes.Repeat([]byte("}"), 3000)...)...),
		[]byte(`"` + strings.Repeat("x", 200000) + `"`),
	}
	nums := make([]int, huge)
	bodies = append(bodies, c16JSON(nums))
	if thorough {
		bodies = append(bodies, bytes.Repeat([]byte(" "), 1<<20), []byte("["+strings.Repeat("null,", 200000)+"null]"))
	}
	return bodies
}

var c16CTypes = []string{c16JSONType, "", "text/plain", "application/json; charset=utf-8", "APPLICATION/JSON", "application/xml", "text/xml",
	"application/x-www-form-urlencoded", "multipart/form-data; boundary=x", "multipart/form-data", "application/x-protobuf", "application/x-msgpack",
	"application/x-yaml", "application/toml", "application/octet-stream", "garbage", ";;;"}

// c16Grammar returns the requests for one route of the table.
func c16Grammar(rng *rand.Rand, method, pattern string, p *c16Pool, thorough bool) []*c16Request {
	var out []*c16Request
	add := func(gen, target, ctype string, body []byte) {
		out = append(out, &c16Request{Method: method, Target: target, CType: ctype, Body: body, Gen: gen})
	}
	hashes := p.hashValues(rng, thorough)
	key := method + " " + pattern
	switch key {
	case "GET " + c16Prefix + "/chain/header/:hash", "GET " + c16Prefix + "/chain/header/state/:hash", "DELETE " + c16Prefix + "/access/:token":
		name := "hash"
		if strings.HasSuffix(pattern, ":token") {
			name = "token"
		}
		for _, h := range hashes {
			if c16Reserved[h] && name == "hash" {
				continue
			}
			add("param", c16Fill(pattern, map[string]string{name: h}), "", nil)
		}
		// raw (unescaped / oddly escaped) forms and the empty parameter
		base := strings.TrimSuffix(pattern, ":"+name)
		for _, raw := range []string{"", "/", "%2F", "%2f%2f", p.tip + "/", p.tip + "//", p.tip + "?x=1", p.tip + "?", p.tip + "#frag", "%00", "%ff", "%C3%A9", p.tip + "%0a", ";a=b", p.tip + ";v=1"} {
			add("param-raw", base+raw, "", nil)
		}
		add("param+body", c16Fill(pattern, map[string]string{name: p.tip}), c16JSONType, []byte(`{"unexpected":"body"}`))
	case "GET " + c16Prefix + "/chain/header/:hash/:ancestorHash/ancestor":
		pairs := [][2]string{{p.tip, p.genesis}, {p.genesis, p.tip}, {p.tip, p.tip}, {p.genesis, p.genesis}}
		for _, s := range p.stale {
			pairs = append(pairs, [2]string{s, p.genesis}, [2]string{p.tip, s}, [2]string{s, p.tip}, [2]string{s, s})
		}
		for _, o := range p.orphan {
			pairs = append(pairs, [2]string{o, p.genesis}, [2]string{p.tip, o}, [2]string{o, o})
		}
		for i := 0; i < len(p.lc) && i < 6; i++ {
			pairs = append(pairs, [2]string{p.tip, p.lc[rng.Intn(len(p.lc))]}, [2]string{pick(rng, p.stale, p.tip), p.lc[rng.Intn(len(p.lc))]})
		}
		for _, h := range hashes {
			if c16Reserved[h] {
				continue
			}
			pairs = append(pairs, [2]string{h, p.genesis}, [2]string{p.tip, h}, [2]string{h, h})
		}
		for _, pr := range pairs {
			if c16Reserved[pr[0]] || pr[1] == "" {
				continue
			}
			add("param", c16Fill(pattern, map[string]string{"hash": pr[0], "ancestorHash": pr[1]}), "", nil)
		}
		for _, raw := range []string{"//ancestor", "/" + p.tip + "//ancestor", "//" + p.tip + "/ancestor", "/" + p.tip + "/" + p.genesis + "/ancestor/", "/" + p.tip + "/" + p.genesis + "/Ancestor", "/" + p.tip + "/" + p.genesis, "/" + p.tip + "/%2F/ancestor"} {
			add("param-raw", c16Prefix+"/chain/header"+raw, "", nil)
		}
	case "GET " + c16Prefix + "/chain/header/byHeight":
		for _, h := range c16Numbers {
			add("query", pattern+"?"+c16Q("height", h), "", nil)
			add("query", pattern+"?"+c16Q("height", h, "count", pick(rng, c16Numbers, "1")), "", nil)
		}
		for _, cnt := range c16Numbers {
			add("query", pattern+"?"+c16Q("height", pick(rng, []string{"0", "1", "2", "-1", "9223372036854775807"}, "0"), "count", cnt), "", nil)
			add("query", pattern+"?"+c16Q("count", cnt), "", nil) // height absent
		}
		for _, raw := range []string{"", "?", "??", "?height", "?height=", "?height=1&height=abc", "?height=abc&height=1", "?Height=1", "?HEIGHT=1", "?height[]=1", "?height=1;count=2",
			"?height=%31", "?height=%zz", "?height=1%", "?height=+1", "?height=%2B1", "?height=1&count", "?height=1&&count=2", "?&height=1", "?height=1&count=2&count=abc", "?=1", "?height==1",
			"?height=1#count=2", "?count=2&height=1", "?height=1&" + strings.Repeat("x=1&", 2000) + "count=2", "?height=" + strings.Repeat("1", 5000)} {
			add("query-raw", pattern+raw, "", nil)
		}
		add("query+body", pattern+"?height=1&count=2", c16JSONType, []byte(`[1,2,3]`))
	case "GET " + c16Prefix + "/chain/merkleroot":
		var keys []string
		for _, h := range []string{p.tip, p.genesis, pick(rng, p.lc, p.genesis), pick(rng, p.stale, ""), pick(rng, p.orphan, "")} {
			if r, ok := p.roots[h]; ok {
				keys = append(keys, r)
			}
		}
		keys = append(keys, c16Unknown("root"), "", "zz", strings.ToUpper(p.roots[p.tip]), p.tip, " ", "\x00", strings.Repeat("a", 5000), "'", "%",
			strings.Repeat("a", 50000), strings.Repeat("a", 50001), strings.Repeat("f", 65536), strings.Repeat("0", 200000), strings.Repeat("%", 60000))
		add("query", pattern, "", nil)
		for _, b := range c16Numbers {
			add("query", pattern+"?"+c16Q("batchSize", b), "", nil)
			add("query", pattern+"?"+c16Q("batchSize", b, "lastEvaluatedKey", pick(rng, keys, "")), "", nil)
		}
		for _, k := range keys {
			add("query", pattern+"?"+c16Q("lastEvaluatedKey", k), "", nil)
			add("query", pattern+"?"+c16Q("batchSize", pick(rng, []string{"0", "1", "2", "3", "2000"}, "1"), "lastEvaluatedKey", k), "", nil)
		}
		for _, raw := range []string{"?", "?batchSize", "?batchSize=", "?batchSize=1&batchSize=x", "?batchSize=x&batchSize=1", "?batchsize=-1", "?batchSize=1;lastEvaluatedKey=a", "?batchSize=%zz",
			"?lastEvaluatedKey", "?lastEvaluatedKey=&batchSize=1", "?lastEvaluatedKey=a&lastEvaluatedKey=" + p.roots[p.genesis], "/", "/?batchSize=1"} {
			add("query-raw", pattern+raw, "", nil)
		}
	case "POST " + c16Prefix + "/chain/header/commonAncestor":
		lists := [][]string{{}, {p.genesis}, {p.tip}, {p.tip, p.tip}, {p.tip, p.genesis}, {p.genesis, p.genesis}, {c16Unknown("x")}, {p.tip, c16Unknown("y")}, {""}, {"", ""}, {"zz"}}
		for _, s := range p.stale {
			lists = append(lists, []string{s}, []string{s, p.tip}, []string{p.tip, s, pick(rng, p.lc, p.genesis)}, []string{s, pick(rng, p.stale, s)})
		}
		for _, o := range p.orphan {
			lists = append(lists, []string{o}, []string{o, p.tip}, []string{o, pick(rng, p.orphan, o)}, []string{o, p.genesis})
		}
		for i := 0; i < 12; i++ {
			n := 1 + rng.Intn(4)
			var l []string
			for j := 0; j < n; j++ {
				l = append(l, p.rows[rng.Intn(len(p.rows))].Hash)
			}
			lists = append(lists, l)
		}
		// non-genesis rows only: the walk itself
		var nong []string
		for _, r := range p.rows {
			if r.Height > 0 {
				nong = append(nong, r.Hash)
			}
		}
		for i := 0; i < 20 && len(nong) > 0; i++ {
			n := 2 + rng.Intn(3)
			var l []string
			for j := 0; j < n; j++ {
				l = append(l, nong[rng.Intn(len(nong))])
			}
			lists = append(lists, l)
		}
		// every pair of orphans (descendants of different orphan roots never meet: the walk that runs out)
		npairs := 0
		for i := 0; i < len(p.orphan) && npairs < 40; i++ {
			for j := i + 1; j < len(p.orphan) && npairs < 40; j++ {
				lists = append(lists, []string{p.orphan[i], p.orphan[j]})
				npairs++
			}
		}
		for _, l := range lists {
			add("body", pattern, c16JSONType, c16JSON(l))
		}
		big := make([]string, 10000)
		for i := range big {
			big[i] = p.tip
		}
		add("body-huge", pattern, c16JSONType, c16JSON(big))
		for i := range big {
			big[i] = c16Unknown(fmt.Sprint(i))
		}
		add("body-huge", pattern, c16JSONType, c16JSON(big))
		if thorough {
			for i := range big {
				big[i] = pick(rng, nong, p.tip)
			}
			add("body-huge", pattern, c16JSONType, c16JSON(big))
		}
		for _, b := range [][]byte{[]byte(`["` + p.tip + `",null]`), []byte(`[null]`), []byte(`["` + p.tip + `",5]`), []byte(`{"0":"` + p.tip + `"}`), []byte(`"` + p.tip + `"`),
			[]byte(`["` + p.tip + `"] ["` + p.genesis + `"]`), []byte(`["` + p.tip + `"]garbage`), []byte(`  ["` + p.tip + `"]  `), []byte("[\"" + p.tip + "\xff\"]"), []byte(`["0` + p.tip[1:] + `"]`)} {
			add("body-odd", pattern, c16JSONType, b)
		}
		for _, b := range c16GenericBodies(thorough) {
			add("body-generic", pattern, c16JSONType, b)
		}
		for _, ct := range c16CTypes {
			add("ctype", pattern, ct, c16JSON([]string{p.tip, pick(rng, p.stale, p.genesis)}))
		}
		add("query+body", pattern+"?x=1", c16JSONType, c16JSON([]string{p.tip}))
	case "POST " + c16Prefix + "/chain/merkleroot/verify":
		type item struct {
			MerkleRoot  any `json:"merkleRoot"`
			BlockHeight any `json:"blockHeight"`
		}
		tipH := p.height[p.tip]
		var items [][]item
		for _, h := range []string{p.tip, p.genesis, pick(rng, p.lc, p.genesis), pick(rng, p.stale, p.genesis), pick(rng, p.orphan, p.genesis)} {
			items = append(items, []item{{p.roots[h], p.height[h]}}, []item{{p.roots[h], p.height[h] + 1}}, []item{{p.roots[h], 0}})
		}
		for _, hv := range []any{0, -1, 1, tipH, tipH + 1, tipH + 100, 2147483647, json.Number("2147483648"), json.Number("-2147483649"), json.Number("9223372036854775808"), json.Number("99999999999999999999"),
			json.Number("1.0"), json.Number("1e3"), json.Number("1.5"), "1", nil, true, []int{1}, map[string]int{"a": 1}} {
			items = append(items, []item{{c16Unknown("r"), hv}}, []item{{p.roots[p.tip], tipH}, {p.roots[p.genesis], hv}})
		}
		for _, rv := range []any{"", "zz", 5, nil, true, []string{"a"}, strings.Repeat("a", 100000), strings.ToUpper(p.roots[p.tip]), "\u0000"} {
			items = append(items, []item{{rv, 1}})
		}
		items = append(items, []item{})
		for _, it := range items {
			add("body", pattern, c16JSONType, c16JSON(it))
		}
		many := make([]item, 10000)
		for i := range many {
			many[i] = item{p.roots[p.rows[i%len(p.rows)].Hash], int64(i % 7)}
		}
		add("body-huge", pattern, c16JSONType, c16JSON(many))
		for _, b := range [][]byte{[]byte(`[{}]`), []byte(`[null]`), []byte(`[{"merkleRoot":"a"}]`), []byte(`[{"blockHeight":1}]`), []byte(`[{"merkleRoot":"a","blockHeight":1,"extra":{"x":[1]}}]`),
			[]byte(`[{"MERKLEROOT":"a","BLOCKHEIGHT":1}]`), []byte(`[{"merkleRoot":"a","merkleRoot":"b","blockHeight":1}]`), []byte(`[[{"merkleRoot":"a","blockHeight":1}]]`),
			[]byte(`{"merkleRoot":"a","blockHeight":1}`), []byte(`[{"merkleRoot":"a","blockHeight":1}`), []byte(`[{"merkleRoot":"a","blockHeight":1},]`), []byte(`[{"merkleRoot":"a","blockHeight":00}]`),
			[]byte(`[{"merkleRoot":"a","blockHeight":-0}]`), []byte(`[{"merkleRoot":"a","blockHeight":1}] x`), []byte("[{\"merkleRoot\":\"\xff\",\"blockHeight\":1}]")} {
			add("body-odd", pattern, c16JSONType, b)
		}
		for _, b := range c16GenericBodies(thorough) {
			add("body-generic", pattern, c16JSONType, b)
		}
		for _, ct := range c16CTypes {
			add("ctype", pattern, ct, c16JSON([]item{{p.roots[p.tip], tipH}}))
		}
	case "POST " + c16Prefix + "/webhook":
		urls := append([]string{}, p.hooks...)
		for i := 0; i < 4; i++ {
			u := fmt.Sprintf("http://127.0.0.1:9/c16/%d/%d", len(p.hooks), rng.Intn(1000))
			urls = append(urls, u)
		}
		urls = append(urls, "", " ", "not a url", "http://é.example/ü", strings.Repeat("h", 3000), "http://127.0.0.1:9/"+strings.Repeat("h", 70000), "a\u0000b")
		type auth struct {
			Type   any `json:"type,omitempty"`
			Token  any `json:"token,omitempty"`
			Header any `json:"header,omitempty"`
		}
		for _, u := range urls {
			add("body", pattern, c16JSONType, c16JSON(map[string]any{"url": u}))
			add("body", pattern, c16JSONType, c16JSON(map[string]any{"url": u, "requiredAuth": auth{"BEARER", "tok", nil}}))
			add("body", pattern, c16JSONType, c16JSON(map[string]any{"url": u, "requiredAuth": auth{"custom", "tok", "X-Key"}}))
			// bind errors AFTER the decoder stored url
			add("body-partial", pattern, c16JSONType, c16JSON(map[string]any{"url": u, "requiredAuth": 5}))
			add("body-partial", pattern, c16JSONType, []byte(`{"url":`+string(c16JSON(u))+`,"requiredAuth":{"type":5}}`))
			add("body-partial", pattern, c16JSONType, []byte(`{"url":`+string(c16JSON(u))+`,"requiredAuth":{"type":"a"}`)) // truncated after url
		}
		p.hooks = append(p.hooks, urls[len(p.hooks):len(p.hooks)+4]...)
		for _, b := range [][]byte{[]byte(`{"url":5}`), []byte(`{"url":null}`), []byte(`{"url":["http://a"]}`), []byte(`{"url":{"a":1}}`), []byte(`{"URL":"http://127.0.0.1:9/c16/upper"}`),
			[]byte(`{"url":"http://127.0.0.1:9/c16/dupkey","url":""}`), []byte(`{"requiredAuth":{"type":"BEARER"}}`), []byte(`{"url":"http://127.0.0.1:9/c16/extra","more":[1,2,3]}`),
			[]byte(`{"url":"http://127.0.0.1:9/c16/trail"} {"url":""}`), []byte(`{"url":"http://127.0.0.1:9/c16/cut"`), []byte(`[{"url":"http://127.0.0.1:9/c16/arr"}]`), []byte(`"http://127.0.0.1:9/c16/str"`)} {
			add("body-odd", pattern, c16JSONType, b)
		}
		for _, b := range c16GenericBodies(thorough) {
			add("body-generic", pattern, c16JSONType, b)
		}
		// c.Bind chooses the decoder by Content-Type
		for _, ct := range c16CTypes {
			add("ctype", pattern, ct, c16JSON(map[string]any{"url": fmt.Sprintf("http://127.0.0.1:9/c16/ct/%d", rng.Intn(1<<30))}))
			add("ctype", pattern, ct, []byte(`{`))
			add("ctype", pattern, ct, nil)
		}
		add("ctype-xml", pattern, "application/xml", []byte(fmt.Sprintf(`<Request><URL>http://127.0.0.1:9/c16/xml/%d</URL></Request>`, rng.Intn(1<<30))))
		add("ctype-xml", pattern, "application/xml", []byte(`<Request><URL>http://127.0.0.1:9/c16/xmlcut</URL>`))
		add("ctype-form", pattern, "application/x-www-form-urlencoded", []byte(fmt.Sprintf("URL=http%%3A%%2F%%2F127.0.0.1%%3A9%%2Fc16%%2Fform%%2F%d&url=x", rng.Intn(1<<30))))
		add("ctype-form", pattern, "application/x-www-form-urlencoded", []byte("%zz=%zz"))
		add("ctype-yaml", pattern, "application/x-yaml", []byte(fmt.Sprintf("url: http://127.0.0.1:9/c16/yaml/%d\n", rng.Intn(1<<30))))
		add("ctype-yaml", pattern, "application/x-yaml", []byte("url: [\n"))
	case "GET " + c16Prefix + "/webhook", "DELETE " + c16Prefix + "/webhook":
		urls := append([]string{"", " ", "http://127.0.0.1:9/c16/never", "zz", "\x00", "%", strings.Repeat("u", 5000), strings.Repeat("u", 70000), "'"}, p.hooks...)
		add("query", pattern, "", nil)
		for _, u := range urls {
			if method == "DELETE" && rng.Intn(3) > 0 && strings.HasPrefix(u, "http://127.0.0.1:9/c16/") && u != "http://127.0.0.1:9/c16/never" {
				continue // keep most registered hooks for later requests
			}
			add("query", pattern+"?"+c16Q("url", u), "", nil)
		}
		for _, raw := range []string{"?", "?url", "?url=", "?URL=http://a", "?url=a&url=" + url.QueryEscape(pick(rng, p.hooks, "b")), "?url=%zz", "?url=a;b=c", "/", "?url[]=a"} {
			add("query-raw", pattern+raw, "", nil)
		}
		add("query+body", pattern+"?"+c16Q("url", "http://127.0.0.1:9/c16/never"), c16JSONType, []byte(`{"url":"http://127.0.0.1:9/c16/body"}`))
	case "GET " + c16Prefix + "/access", "POST " + c16Prefix + "/access", "GET " + c16Prefix + "/chain/tip", "GET " + c16Prefix + "/chain/tip/longest",
		"GET " + c16Prefix + "/network/peer", "GET " + c16Prefix + "/network/peer/count", "GET /status":
		add("plain", pattern, "", nil)
		for _, raw := range []string{"?", "?x=1", "?%zz", "/", "//", "?" + strings.Repeat("a=1&", 3000)} {
			add("raw", pattern+raw, "", nil)
		}
		for _, b := range [][]byte{[]byte(`{}`), []byte(`[`), []byte("\xff"), bytes.Repeat([]byte("a"), 1<<16)} {
			add("unexpected-body", pattern, c16JSONType, b)
		}
	default:
		// swagger / pprof / a route this grammar does not know: parameters from the hash pool, wildcards from a small list
		if strings.Contains(pattern, "*") {
			for _, w := range []string{"index.html", "doc.json", "swagger-ui.css", "nope", "", "../../etc/passwd", "%2e%2e/", strings.Repeat("a/", 200)} {
				vals := map[string]string{}
				for _, s := range strings.Split(pattern, "/") {
					if strings.HasPrefix(s, "*") {
						vals[s[1:]] = w
					}
				}
				add("wildcard", c16Fill(pattern, vals), "", nil)
			}
		} else {
			for _, h := range hashes[:8] {
				vals := map[string]string{}
				for _, s := range strings.Split(pattern, "/") {
					if strings.HasPrefix(s, ":") {
						vals[s[1:]] = h
					}
				}
				add("unknown-route", c16Fill(pattern, vals), "", nil)
				add("unknown-route", c16Fill(pattern, vals), c16JSONType, []byte(`{}`))
			}
		}
	}
	return out
}

// c16OffTable: requests for which no route is registered (other methods, other paths).
func c16OffTable(rng *rand.Rand, routes [][2]string, p *c16Pool) []*c16Request {
	var out []*c16Request
	have := map[string]bool{}
	for _, r := range routes {
		have[r[0]+" "+r[1]] = true
	}
	paths := map[string]bool{}
	for _, r := range routes {
		paths[r[1]] = true
	}
	var ps []string
	for pth := range paths {
		ps = append(ps, pth)
	}
	sort.Strings(ps)
	for _, pth := range ps {
		if strings.Contains(pth, "*") {
			continue
		}
		t := c16Fill(pth, map[string]string{"hash": p.tip, "ancestorHash": p.genesis, "token": "tok"})
		for _, m := range []string{"GET", "POST", "PUT", "DELETE", "PATCH", "HEAD", "OPTIONS"} {
			if !have[m+" "+pth] {
				out = append(out, &c16Request{Method: m, Target: t, Gen: "other-method"})
			}
		}
		out = append(out, &c16Request{Method: "GET", Target: t + "/", Gen: "trailing-slash"}, &c16Request{Method: "POST", Target: t + "/", CType: c16JSONType, Body: []byte("[]"), Gen: "trailing-slash"},
			&c16Request{Method: "DELETE", Target: t + "/", Gen: "trailing-slash"}, &c16Request{Method: "GET", Target: strings.ToUpper(t), Gen: "case"}, &c16Request{Method: "GET", Target: t + "/extra", Gen: "extra-segment"})
	}
	for _, t := range []string{"/", "", "/api", "/api/", "/api/v1", "/api/v1/", "/api/v2/chain/tip", "/api/v1/chain", "/api/v1/chain/", "/api/v1/chain/header", "/api/v1/chain/header/", "/api/v1/chain/header/state", "/api/v1/chain/header/state/",
		"/api/v1//chain/tip", "/api/v1/chain/../chain/tip", "/api/v1/chain/./tip", "/API/V1/chain/tip", "/status/", "/status/x", "/favicon.ico", "/robots.txt", "/api/v1/nope", "/api/v1/access/a/b", "/" + strings.Repeat("a", 10000), "/%00", "/api/v1/chain/tip%2Flongest", "*"} {
		if t == "" || t == "*" {
			continue // not a valid request target for a server
		}
		out = append(out, &c16Request{Method: "GET", Target: t, Gen: "off-table"})
	}
	_ = rng
	return out
}

// --- mutation stream -------------------------------------------------------------------------------

var c16Tokens = []string{"null", "true", "false", "0", "-1", "1e400", "2147483648", "99999999999999999999", `""`, `"x"`, "[]", "{}", "[[]]", `{"a":1}`, "[1]", "1.5", `"\u0000"`, "\"\xff\""}

func c16MutateBody(rng *rand.Rand, b []byte) []byte {
	if b == nil {
		return []byte(pick(rng, c16Tokens, "null"))
	}
	c := append([]byte{}, b...)
	switch rng.Intn(10) {
	case 0: // truncate
		if len(c) > 0 {
			c = c[:rng.Intn(len(c))]
		}
	case 1: // flip a byte
		if len(c) > 0 {
			c[rng.Intn(len(c))] = byte(rng.Intn(256))
		}
	case 2: // delete a byte
		if len(c) > 0 {
			i := rng.Intn(len(c))
			c = append(c[:i], c[i+1:]...)
		}
	case 3: // insert a structural byte
		i := rng.Intn(len(c) + 1)
		ch := []byte(`{}[]",:\ 0-e.` + "\x00\xff")
		c = append(c[:i], append([]byte{ch[rng.Intn(len(ch))]}, c[i:]...)...)
	case 4: // replace a JSON string or number by another token
		s := string(c)
		if i := strings.IndexAny(s, `"0123456789`); i >= 0 {
			j := i + 1
			if s[i] == '"' {
				if k := strings.IndexByte(s[j:], '"'); k >= 0 {
					j += k + 1
				}
			} else {
				for j < len(s) && strings.IndexByte("0123456789.eE-+", s[j]) >= 0 {
					j++
				}
			}
			if rng.Intn(2) == 0 { // a later occurrence
				if i2 := strings.LastIndexAny(s, `"`); i2 > j {
					if k := strings.LastIndexByte(s[:i2], '"'); k >= 0 {
						i, j = k, i2+1
					}
				}
			}
			c = []byte(s[:i] + pick(rng, c16Tokens, "null") + s[j:])
		}
	case 5: // wrap
		c = append(append([]byte("["), c...), ']')
	case 6: // duplicate
		c = append(append(c, ','), c...)
	case 7: // whole body replaced by a token
		c = []byte(pick(rng, c16Tokens, "null"))
	case 8: // upper-case the keys
		c = []byte(strings.ToUpper(string(c)))
	case 9: // prefix / suffix garbage
		if rng.Intn(2) == 0 {
			c = append([]byte{0xef, 0xbb, 0xbf}, c...)
		} else {
			c = append(c, []byte(" x")...)
		}
	}
	return c
}

func c16MutateTarget(rng *rand.Rand, t string) string {
	path, query := t, ""
	if i := strings.IndexByte(t, '?'); i >= 0 {
		path, query = t[:i], t[i+1:]
	}
	safe := "abcdef0123456789ABCDEFxyz-_.~+"
	esc := []string{"%00", "%20", "%2F", "%2B", "%25", "%ff", "%C3%A9", "%0a", "%3F", "%26", "%3D"}
	mutVal := func(v string) string {
		switch rng.Intn(7) {
		case 0:
			if len(v) > 0 {
				i := rng.Intn(len(v))
				if v[i] != '%' && (i < 1 || v[i-1] != '%') && (i < 2 || v[i-2] != '%') {
					return v[:i] + string(safe[rng.Intn(len(safe))]) + v[i+1:]
				}
			}
			return v + "0"
		case 1:
			if len(v) > 1 && !strings.Contains(v, "%") {
				return v[:len(v)-1]
			}
			return ""
		case 2:
			return v + esc[rng.Intn(len(esc))]
		case 3:
			return pick(rng, c16Numbers[:20], "0")
		case 4:
			return strings.ToUpper(v)
		case 5:
			return ""
		default:
			return v + v
		}
	}
	if query != "" && rng.Intn(3) > 0 {
		parts := strings.Split(query, "&")
		i := rng.Intn(len(parts))
		kv := strings.SplitN(parts[i], "=", 2)
		switch rng.Intn(6) {
		case 0:
			parts = append(parts[:i], parts[i+1:]...) // drop
		case 1:
			parts = append(parts, parts[i]) // duplicate
		case 2:
			if len(kv) == 2 {
				parts = append([]string{kv[0] + "=" + mutVal(kv[1])}, parts...) // shadowing duplicate in front
			}
		case 3:
			if len(kv[0]) > 0 {
				parts[i] = strings.ToUpper(kv[0][:1]) + kv[0][1:] + "=" + strings.Join(kv[1:], "")
			}
		default:
			if len(kv) == 2 {
				parts[i] = kv[0] + "=" + mutVal(kv[1])
			} else {
				parts[i] = kv[0] + "=" + pick(rng, c16Numbers[:20], "0")
			}
		}
		return path + "?" + strings.Join(parts, "&")
	}
	segs := strings.Split(path, "/")
	// mutate one of the last segments (parameters live there); keep the /api/v1 prefix mostly intact
	lo := 3
	if len(segs) <= lo {
		lo = 1
	}
	if len(segs) <= lo {
		return path + "/" + pick(rng, c16Numbers[:20], "0")
	}
	i := lo + rng.Intn(len(segs)-lo)
	switch rng.Intn(6) {
	case 0:
		segs = append(segs[:i], segs[i+1:]...)
	case 1:
		segs = append(segs, "")
	default:
		segs[i] = mutVal(segs[i])
	}
	res := strings.Join(segs, "/")
	if query != "" {
		res += "?" + query
	}
	return res
}

// c16Mutate derives a request from a valid one.
func c16Mutate(rng *rand.Rand, base *c16Request) *c16Request {
	q := *base
	q.Gen = "mutation"
	n := 1 + rng.Intn(2)
	for k := 0; k < n; k++ {
		switch r := rng.Intn(10); {
		case r < 4 && q.Body != nil:
			q.Body = c16MutateBody(rng, q.Body)
		case r < 5 && q.Body != nil:
			q.CType = c16CTypes[rng.Intn(len(c16CTypes))]
		case r < 6 && q.Body == nil:
			q.Body, q.CType = c16MutateBody(rng, nil), c16JSONType
		default:
			q.Target = c16MutateTarget(rng, q.Target)
		}
	}
	return &q
}

// c16Sendable: a request target a Go HTTP server would hand to the engine at all (net/http answers the rest itself with 400).
func c16Sendable(t string) bool {
	if t == "" || t[0] != '/' || len(t) > 1<<20 {
		return false
	}
	for i := 0; i < len(t); i++ {
		if t[i] <= 0x20 || t[i] == 0x7f {
			return false
		}
	}
	if strings.Contains(t, "#") {
		return false
	}
	_, err := url.ParseRequestURI(t)
	return err == nil
}
