package main

// C09, a token store that does not answer: while another connection holds the SQLite file exclusively, the token lookup
// of the middleware fails with something other than "no such token". Whatever the middleware makes of that, a request
// with a never-issued or a revoked token must not get through to a handler (fail closed).

import (
	dbsql "database/sql"
	"fmt"
	"sync"

	"github.com/bitcoin-sv/block-headers-service/verifharness/lib"
)

var c09LockedDone bool

func c09LockedStore(c *Ctx, rig *c09Rig, file string, k c09Cfg, toks c09Toks) {
	if c09LockedDone || !k.auth || c.Replay != "" {
		return
	}
	c09LockedDone = true
	db, err := dbsql.Open("sqlite3", "file:"+file)
	if err != nil {
		c.R.Notes = append(c.R.Notes, "locked-store probe: "+err.Error())
		return
	}
	defer db.Close()
	db.SetMaxOpenConns(1)
	if _, err := db.Exec("BEGIN EXCLUSIVE"); err != nil {
		c.R.Notes = append(c.R.Notes, "locked-store probe: "+err.Error())
		return
	}
	defer db.Exec("ROLLBACK") //nolint:errcheck
	type probe struct{ method, path, cred, hdr string }
	probes := []probe{
		{"GET", c09Prefix + "/network/peer", "never-issued token", "Bearer " + toks.X},
		{"GET", c09Prefix + "/access", "revoked token", "Bearer " + toks.R},
		{"GET", c09Prefix + "/chain/tip/longest", "never-issued token", "Bearer " + toks.X + "z"},
	}
	res := make([]c09Resp, len(probes))
	var wg sync.WaitGroup
	for i, p := range probes { // in parallel: each waits for SQLite's busy timeout
		wg.Add(1)
		go func(i int, p probe) {
			defer wg.Done()
			res[i] = c09Do(rig, p.method, p.path, "", true, p.hdr)
		}(i, p)
	}
	wg.Wait()
	for i, p := range probes {
		c.R.OracleChecked++
		c.R.Count("request while the token store is locked by another connection", 1)
		if res[i].Status >= 200 && res[i].Status < 400 || res[i].Panic != "" {
			c.R.Fail(lib.Failure{Case: "locked token store " + p.method + " " + p.path, Ops: []string{fmt.Sprintf("# c09 %s: second connection holds BEGIN EXCLUSIVE on the SQLite file; %s %s with a %s", k.bits(), p.method, p.path, p.cred)},
				What:     "a request with a " + p.cred + " got through while the token lookup could not be answered (authentication fails open)",
				Expected: "401 (or an error status): no handler runs", Observed: fmt.Sprintf("%d %s %s", res[i].Status, res[i].Body, res[i].Panic), Signature: "c09-fail-open-on-store-error"})
		}
	}
}

var c09RotationDone bool

// c09Rotation: a second lifetime of the service on the SAME database with a DIFFERENT configured admin token (the
// operator rotated http.auth_token and restarted). The old admin token was never issued by the token endpoint and is
// no longer the configured one: no route under the authenticated prefix may let it through.
func c09Rotation(c *Ctx, k c09Cfg, file, oldAdmin string) {
	if c09RotationDone || !k.auth || c.Replay != "" {
		return
	}
	c09RotationDone = true
	newAdmin := "adm2" + oldAdmin[4:]
	if newAdmin == oldAdmin {
		newAdmin = oldAdmin + "2"
	}
	rig2, err := c09NewRig(lib.StackOpts{File: file, UseAuth: true, AdminToken: newAdmin, Profiling: k.prof}, false)
	if err != nil {
		c.R.Notes = append(c.R.Notes, "rotation probe: "+err.Error())
		return
	}
	defer rig2.Close()
	type probe struct{ method, path string }
	for _, p := range []probe{{"GET", c09Prefix + "/chain/tip/longest"}, {"GET", c09Prefix + "/access"}, {"GET", c09Prefix + "/network/peer"}, {"POST", c09Prefix + "/access"}, {"GET", c09Prefix + "/webhook?url=x"}} {
		r := c09Do(rig2, p.method, p.path, "", true, "Bearer "+oldAdmin)
		c.R.OracleChecked++
		c.R.Count("request with the previous admin token after rotation + restart on the same database", 1)
		if r.Status != 401 {
			c.R.Fail(lib.Failure{Case: "admin token rotation " + p.method + " " + p.path, Ops: []string{fmt.Sprintf("# c09 %s: service restarted on the same database with another http.auth_token; %s %s with the PREVIOUS admin token", k.bits(), p.method, p.path)},
				What:     "the previous admin token (never issued by the token endpoint, no longer configured) is still let through after the configured admin token was changed",
				Expected: "401", Observed: fmt.Sprintf("%d %s", r.Status, r.Body), Signature: "c09-previous-admin-token-survives-rotation"})
		}
	}
	if r := c09Do(rig2, "GET", c09Prefix+"/access", "", true, "Bearer "+newAdmin); r.Status != 200 {
		c.R.Fail(lib.Failure{Case: "admin token rotation (new token)", Ops: []string{"# the newly configured admin token on GET /api/v1/access"}, What: "the newly configured admin token is refused", Expected: "200", Observed: fmt.Sprint(r.Status), Signature: "c09-new-admin-token-refused"})
	}
}

var c09RawDone bool

// c09RawBytes (oracle only: the model's strings are valid UTF-8): never-issued credentials that are an issued token
// plus bytes that are not valid UTF-8 / not text. A store that normalises its lookup argument (drops or replaces such
// bytes) would take them for the issued token. They are unknown tokens: 401 on every probed route, and a DELETE of
// such a value must not revoke the issued token it resembles.
func c09RawBytes(c *Ctx, rig *c09Rig, k c09Cfg, toks c09Toks) {
	if c09RawDone || !k.auth || c.Replay != "" {
		return
	}
	c09RawDone = true
	variants := []struct{ name, tok string }{
		{"valid token + 0xff", toks.U + "\xff"}, {"0xc3 + valid token", "\xc3" + toks.U}, {"valid token + 0xc3", toks.U + "\xc3"},
		{"valid token with 0xfe inside", toks.U[:5] + "\xfe" + toks.U[5:]}, {"valid token + 0xed 0xa0 0x80 (surrogate)", toks.U + "\xed\xa0\x80"},
	}
	for _, v := range variants {
		for _, path := range []string{c09Prefix + "/network/peer", c09Prefix + "/chain/tip/longest", c09Prefix + "/access"} {
			r := c09Do(rig, "GET", path, "", true, "Bearer "+v.tok)
			c.R.OracleChecked++
			c.R.Count("request with a credential that is not valid UTF-8", 1)
			if r.Status != 401 || r.Panic != "" {
				c.R.Fail(lib.Failure{Case: "raw-byte credential GET " + path, Ops: []string{fmt.Sprintf("# c09 %s: GET %s with Authorization: Bearer <%s> (%q) while the valid token is issued and unrevoked", k.bits(), path, v.name, v.tok)},
					What: "a never-issued credential (" + v.name + ") is not answered 401", Expected: "401", Observed: fmt.Sprintf("%d %s %s", r.Status, r.Body, r.Panic), Signature: "c09-raw-byte-credential-accepted"})
			}
		}
	}
	// revoking such a value (admin) must leave the issued token valid
	for _, v := range variants[:2] {
		esc := ""
		for i := 0; i < len(v.tok); i++ {
			esc += fmt.Sprintf("%%%02X", v.tok[i])
		}
		_ = c09Do(rig, "DELETE", c09Prefix+"/access/"+esc, "", true, "Bearer "+toks.A)
		r := c09Do(rig, "GET", c09Prefix+"/network/peer", "", true, "Bearer "+toks.U)
		c.R.OracleChecked++
		if r.Status == 401 {
			c.R.Fail(lib.Failure{Case: "revoke of a raw-byte value", Ops: []string{fmt.Sprintf("# c09 %s: DELETE %s/access/%s by the admin, then GET /network/peer with the valid user token", k.bits(), c09Prefix, esc)},
				What: "revoking a never-issued value (" + v.name + ") made the issued token invalid: the valid user token is answered 401", Expected: "the issued token still authenticates", Observed: fmt.Sprintf("%d %s", r.Status, r.Body), Signature: "c09-raw-byte-revoke-hits-issued-token"})
			break
		}
	}
}
