package main

// C09, a token store that does not answer: while another connection holds the SQLite file exclusively, the token lookup
// of the middleware fails with something other than "no such token". Whatever the middleware makes of that, a request
// with a never-issued or a revoked token must not get through to a handler (fail closed).

import (
	dbsql "database/sql"
	"fmt"
	"sync"

	"github.com/bitcoin-sv/block-headers-service/verifharness/lib"
)

var c09LockedDone bool

func c09LockedStore(c *Ctx, rig *c09Rig, file string, k c09Cfg, toks c09Toks) {
	if c09LockedDone || !k.auth || c.Replay != "" {
		return
	}
	c09LockedDone = true
	db, err := dbsql.Open("sqlite3", "file:"+file)
	if err != nil {
		c.R.Notes = append(c.R.Notes, "locked-store probe: "+err.Error())
		return
	}
	defer db.Close()
	db.SetMaxOpenConns(1)
	if _, err := db.Exec("BEGIN EXCLUSIVE"); err != nil {
		c.R.Notes = append(c.R.Notes, "locked-store probe: "+err.Error())
		return
	}
	defer db.Exec("ROLLBACK") //nolint:errcheck
	type probe struct{ method, path, cred, hdr string }
	probes := []probe{
		{"GET", c09Prefix + "/network/peer", "never-issued token", "Bearer " + toks.X},
		{"GET", c09Prefix + "/access", "revoked token", "Bearer " + toks.R},
		{"GET", c09Prefix + "/chain/tip/longest", "never-issued token", "Bearer " + toks.X + "z"},
	}
	res := make([]c09Resp, len(probes))
	var wg sync.WaitGroup
	for i, p := range probes { // in parallel: each waits for SQLite's busy timeout
		wg.Add(1)
		go func(i int, p probe) {
			defer wg.Done()
			res[i] = c09Do(rig, p.method, p.path, "", true, p.hdr)
		}(i, p)
	}
	wg.Wait()
	for i, p := range probes {
		c.R.OracleChecked++
		c.R.Count("request while the token store is locked by another connection", 1)
		if res[i].Status >= 200 && res[i].Status < 400 || res[i].Panic != "" {
			c.R.Fail(lib.Failure{Case: "locked token store " + p.method + " " + p.path, Ops: []string{fmt.Sprintf("# c09 %s: second connection holds BEGIN EXCLUSIVE on the SQLite file; %s %s with a %s", k.bits(), p.method, p.path, p.cred)},
				What:     "a request with a " + p.cred + " got through while the token lookup could not be answered (authentication fails open)",
				Expected: "401 (or an error status): no handler runs", Observed: fmt.Sprintf("%d %s %s", res[i].Status, res[i].Body, res[i].Panic), Signature: "c09-fail-open-on-store-error"})
		}
	}
}

var c09RotationDone bool

// c09Rotation: a second lifetime of the service on the SAME database with a DIFFERENT configured admin token (the
// operator rotated http.auth_token and restarted). The old admin token was never issued by the token endpoint and is
// no longer the configured one: no route under the authenticated prefix may let it through.
func c09Rotation(c *Ctx, k c09Cfg, file, oldAdmin string) {
	if c09RotationDone || !k.auth || c.Replay != "" {
		return
	}
	c09RotationDone = true
	newAdmin := "adm2" + oldAdmin[4:]
	if newAdmin == oldAdmin {
		newAdmin = oldAdmin + "2"
	}
	rig2, err := c09NewRig(lib.StackOpts{File: file, UseAuth: true, AdminToken: newAdmin, Profiling: k.prof}, false)
	if err != nil {
		c.R.Notes = append(c.R.Notes, "rotation probe: "+err.Error())
		return
	}
	defer rig2.Close()
	type probe struct{ method, path string }
	for _, p := range []probe{{"GET", c09Prefix + "/chain/tip/longest"}, {"GET", c09Prefix + "/access"}, {"GET", c09Prefix + "/network/peer"}, {"POST", c09Prefix + "/access"}, {"GET", c09Prefix + "/webhook?url=x"}} {
		r := c09Do(rig2, p.method, p.path, "", true, "Bearer "+oldAdmin)
		c.R.OracleChecked++
		c.R.Count("request with the previous admin token after rotation + restart on the same database", 1)
		if r.Status != 401 {
			c.R.Fail(lib.Failure{Case: "admin token rotation " + p.method + " " + p.path, Ops: []string{fmt.Sprintf("# c09 %s: service restarted on the same database with another http.auth_token; %s %s with the PREVIOUS admin token", k.bits(), p.method, p.path)},
				What:     "the previous admin token (never issued by the token endpoint, no longer configured) is still let through after the configured admin token was changed",
				Expected: "401", Observed: fmt.Sprintf("%d %s", r.Status, r.Body), Signature: "c09-previous-admin-token-survives-rotation"})
		}
	}
	if r := c09Do(rig2, "GET", c09Prefix+"/access", "", true, "Bearer "+newAdmin); r.Status != 200 {
		c.R.Fail(lib.Failure{Case: "admin token rotation (new token)", Ops: []string{"# the newly configured admin token on GET /api/v1/access"}, What: "the newly configured admin token is refused", Expected: "200", Observed: fmt.Sprint(r.Status), Signature: "c09-new-admin-token-refused"})
	}
}
