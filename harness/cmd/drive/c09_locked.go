package main

// C09, a token store that does not answer: while another connection holds the SQLite file exclusively, the token lookup
// of the middleware fails with something other than "no such token". Whatever the middleware makes of that, a request
// with a never-issued or a revoked token must not get through to a handler (fail closed).

import (
	dbsql "database/sql"
	"fmt"
	"sync"

	"github.com/bitcoin-sv/block-headers-service/verifharness/lib"
)

var c09LockedDone bool

func c09LockedStore(c *Ctx, rig *c09Rig, file string, k c09Cfg, toks c09Toks) {
	if c09LockedDone || !k.auth || c.Replay != "" {
		return
	}
	c09LockedDone = true
	db, err := dbsql.Open("sqlite3", "file:"+file)
	if err != nil {
		c.R.Notes = append(c.R.Notes, "locked-store probe: "+err.Error())
		return
	}
	defer db.Close()
	db.SetMaxOpenConns(1)
	if _, err := db.Exec("BEGIN EXCLUSIVE"); err != nil {
		c.R.Notes = append(c.R.Notes, "locked-store probe: "+err.Error())
		return
	}
	defer db.Exec("ROLLBACK") //nolint:errcheck
	type probe struct{ method, path, cred, hdr string }
	probes := []probe{
		{"GET", c09Prefix + "/network/peer", "never-issued token", "Bearer " + toks.X},
		{"GET", c09Prefix + "/access", "revoked token", "Bearer " + toks.R},
		{"GET", c09Prefix + "/chain/tip/longest", "never-issued token", "Bearer " + toks.X + "z"},
	}
	res := make([]c09Resp, len(probes))
	var wg sync.WaitGroup
	for i, p := range probes { // in parallel: each waits for SQLite's busy timeout
		wg.Add(1)
		go func(i int, p probe) {
			defer wg.Done()
			res[i] = c09Do(rig, p.method, p.path, "", true, p.hdr)
		}(i, p)
	}
	wg.Wait()
	for i, p := range probes {
		c.R.OracleChecked++
		c.R.Count("request while the token store is locked by another connection", 1)
		if res[i].Status >= 200 && res[i].Status < 400 || res[i].Panic != "" {
			c.R.Fail(lib.Failure{Case: "locked token store " + p.method + " " + p.path, Ops: []string{fmt.Sprintf("# c09 %s: second connection holds BEGIN EXCLUSIVE on the SQLite file; %s %s with a %s", k.bits(), p.method, p.path, p.cred)},
				What:     "a request with a " + p.cred + " got through while the token lookup could not be answered (authentication fails open)",
				Expected: "401 (or an error status): no handler runs", Observed: fmt.Sprintf("%d %s %s", res[i].Status, res[i].Body, res[i].Panic), Signature: "c09-fail-open-on-store-error"})
		}
	}
}
