package main

// C15, free-running goroutines below the granularity of the harness scheduler: the scheduler of the C15 runner
// interleaves submitters at repository-call boundaries, so a read that the repository itself splits into several SQL
// statements looks atomic to it. Here one submitter keeps reorganising the chain (two branches overtaking each other
// in turn) while readers call the tip query as fast as they can: every tip a reader is handed must be labelled
// LONGEST_CHAIN (a reader may see the state between the two updates of a reorganisation — then the tip is the fork
// point, which is a longest-chain header too).

import (
	"encoding/json"
	"fmt"
	"strings"
	"sync"
	"sync/atomic"

	"github.com/bitcoin-sv/block-headers-service/verifharness/lib"
)

func c15FreeRun(c *Ctx) error {
	ci, err := newChainImpl("c15-free.db", lib.StackOpts{})
	if err != nil {
		return err
	}
	defer ci.Close()
	steps := 120
	if c.Thorough {
		steps = 600
	}
	// branch A = even steps, branch B = odd steps, both from genesis; every header (after the first) adds work 2, so each
	// submission makes its branch the heavier one: a reorganisation of growing depth at every step
	nodes := make([]Node, 0, steps)
	lastA, lastB := -1, -1
	for i := 0; i < steps; i++ {
		b := bitsSmall[1]
		if i == 0 {
			b = bitsSmall[0]
		}
		if i%2 == 0 {
			nodes = append(nodes, Node{Parent: lastA, Bits: b})
			lastA = i
		} else {
			nodes = append(nodes, Node{Parent: lastB, Bits: b})
			lastB = i
		}
	}
	buildTree(nodes, 7700+uint32(c.Seed), nil, false)
	var stop int32
	var reads, bad, none int64
	var firstBad, firstNone atomic.Value
	var wg sync.WaitGroup
	for r := 0; r < 4; r++ {
		wg.Add(1)
		go func(r int) {
			defer wg.Done()
			for atomic.LoadInt32(&stop) == 0 {
				var state, hash string
				if r%2 == 0 {
					h := ci.Svc.Headers.GetTip()
					if h == nil {
						// the genesis row is a longest-chain header at every instant: "no tip" is never a correct answer
						if atomic.AddInt64(&none, 1) == 1 {
							firstNone.Store("Headers.GetTip() returned nil")
						}
						continue
					}
					state, hash = string(h.State), h.Hash.String()
				} else {
					hr := ci.http("GET", "/api/v1/chain/tip/longest", nil, nil)
					var t struct {
						State  string `json:"state"`
						Header struct {
							Hash string `json:"hash"`
						} `json:"header"`
					}
					if hr.Status != 200 || json.Unmarshal(hr.Body, &t) != nil {
						if atomic.AddInt64(&none, 1) == 1 {
							firstNone.Store(fmt.Sprintf("GET /api/v1/chain/tip/longest -> %d %s", hr.Status, c16Short(hr.Body)))
						}
						continue
					}
					state, hash = t.State, t.Header.Hash
				}
				atomic.AddInt64(&reads, 1)
				if state != "LONGEST_CHAIN" {
					if atomic.AddInt64(&bad, 1) == 1 {
						firstBad.Store(fmt.Sprintf("%s labelled %s", hash, state))
					}
				}
			}
		}(r)
	}
	reorgs, notStored := 0, 0
	firstNot := ""
	for i := range nodes {
		out := ci.Op("add " + nodes[i].Hdr.Hex())
		if strings.Contains(out, "W setstate") {
			reorgs++
		}
		// readers must not make a submission fail (a store that refuses statements which overlap in time)
		if !strings.HasPrefix(out, "stored") {
			notStored++
			if firstNot == "" {
				firstNot = fmt.Sprintf("submission %d: %s", i, out)
			}
		}
	}
	atomic.StoreInt32(&stop, 1)
	wg.Wait()
	c.R.OracleChecked += int(reads)
	c.R.Case("free-running tip readers against a reorganising submitter", reorgs > 10)
	c.R.Count("free run: tip reads by 4 free-running readers", int(reads))
	c.R.Count("free run: reorganisations while they read", reorgs)
	if rows, err := ci.Dump(); err == nil {
		orphans := 0
		for _, r := range rows {
			if r.State == "ORPHAN" {
				orphans++
			}
		}
		if notStored > 0 || len(rows) != steps+1 || orphans > 0 {
			c.R.Fail(lib.Failure{Case: "free-running tip readers", Ops: []string{fmt.Sprintf("# c15 free run: %d submissions alternately extending two branches from genesis, 4 readers calling the tip query without pause", steps)},
				What:     fmt.Sprintf("with readers running, %d of %d submissions were not stored; the table holds %d rows (%d expected), %d of them ORPHAN: not the result of any sequential ingestion", notStored, steps, len(rows), steps+1, orphans),
				Expected: "every submission stored, the same table as without readers", Observed: firstNot, Signature: "c15-free-submission-fails-under-readers"})
		}
	}
	if none > 0 {
		fn, _ := firstNone.Load().(string)
		c.R.Fail(lib.Failure{Case: "free-running tip readers", Ops: []string{fmt.Sprintf("# c15 free run: %d submissions alternately extending two branches from genesis (each overtakes the other), 4 readers calling the tip query without pause", steps)},
			What:     fmt.Sprintf("a reader was told that there is no tip (%d times, next to %d answered reads) although a longest-chain header exists at every instant: the reader saw a state no sequential ingestion produces", none, reads),
			Expected: "every tip query is answered with a longest-chain header", Observed: fn, Signature: "c15-free-reader-no-tip"})
	}
	if bad > 0 {
		fb, _ := firstBad.Load().(string)
		c.R.Fail(lib.Failure{Case: "free-running tip readers", Ops: []string{fmt.Sprintf("# c15 free run: %d submissions alternately extending two branches from genesis (each overtakes the other), 4 readers calling the tip query without pause", steps)},
			What:     fmt.Sprintf("a reader was handed a tip that is not a longest-chain header (%d of %d reads)", bad, reads),
			Expected: "every observed tip is labelled LONGEST_CHAIN", Observed: fb, Signature: "c15-free-reader-tip-not-longest"})
	}
	return nil
}
