package main

// Runners for the read-side properties over the real stack: C02 (merkle-root verdicts),
// C04 (chain queries), C08 (merkle-root pages), C13 (locators / getheaders).
// Each ingests generated histories (compared op by op with the Lean model), then issues the
// property's queries on both sides and runs an oracle that recomputes the answer from the dumped tree.

import (
	"fmt"
	"math/rand"
	"sort"
	"strconv"
	"strings"

	"github.com/bitcoin-sv/block-headers-service/verifharness/lib"
)

func init() {
	runners["C02"] = runC02
	runners["C04"] = runC04
	runners["C08"] = runC08
	runners["C13"] = runC13
}

// tree is the oracle's view of the dumped table.
type tree struct {
	rows   []DbRow
	by     map[string]*DbRow
	best   *DbRow
	chain  map[int64]*DbRow // best chain by height
	onBest map[string]bool
	kids   map[string][]*DbRow
}

func newTree(rows []DbRow) *tree {
	t := &tree{rows: rows, by: map[string]*DbRow{}, chain: map[int64]*DbRow{}, onBest: map[string]bool{}, kids: map[string][]*DbRow{}}
	for i := range rows {
		r := &rows[i]
		t.by[r.Hash] = r
		t.kids[r.Prev] = append(t.kids[r.Prev], r)
	}
	// The longest chain of the READ properties is the one the table itself labels LONGEST_CHAIN (its highest such row is
	// the tip, one row per height): that these labels are the greatest-work path is C01's statement and C01's check —
	// the read checks take the labelled table as given, so that they speak about the queries only.
	for i := range rows {
		r := &rows[i]
		if r.State != "LONGEST_CHAIN" {
			continue
		}
		if t.best == nil || r.Height > t.best.Height {
			t.best = r
		}
		if _, dup := t.chain[r.Height]; !dup {
			t.chain[r.Height] = r
		}
		t.onBest[r.Hash] = true
	}
	return t
}

// isAncestor: a is a (non-strict) ancestor of h by parent links.
func (t *tree) isAncestor(a, h string) bool {
	seen := 0
	for r := t.by[h]; r != nil && seen <= len(t.rows); r = t.by[r.Prev] {
		if r.Hash == a {
			return true
		}
		seen++
	}
	return false
}

// lateParent: on the way from h to the root there is a link whose heights do not differ by one
// (an orphan whose parent was stored after it: its height was fixed at arrival).
func (t *tree) lateParent(h string) bool {
	n := 0
	for r := t.by[h]; r != nil && n <= len(t.rows); r = t.by[r.Prev] {
		if p, ok := t.by[r.Prev]; ok && r.Height != p.Height+1 {
			return true
		}
		n++
	}
	return false
}

func (t *tree) path(h, a string) []string {
	var p []string
	for r := t.by[h]; r != nil; r = t.by[r.Prev] {
		p = append(p, r.Hash)
		if r.Hash == a {
			return p
		}
	}
	return nil
}

// ingest runs a history on both sides (K on every add) and returns the oracle's tree.
func ingest(c *Ctx, ci *ChainImpl, l *lib.Lean, name string, ops []string) (*tree, error) {
	// The read properties judge the queries, not how the table came about (that is C01's subject): the model follows the
	// same submissions, but a different answer to a submission is only counted, and afterwards the model is put on exactly
	// the table the implementation holds (driver op `load`), so that every query is compared on one and the same table.
	for _, op := range ops {
		impl := ci.Op(op)
		model, err := l.Ask(op)
		if err != nil {
			return nil, err
		}
		if impl != model && c.Driver != "none" {
			c.R.Count("submission answered differently by the model while building a store (judged by C01, not here)", 1)
		}
	}
	rows, err := ci.Dump()
	if err != nil {
		return nil, err
	}
	if c.Driver != "none" {
		ans, err := l.Ask("load " + dumpStr(rows))
		if err != nil {
			return nil, err
		}
		if ans != "ok" {
			c.R.Disagree(lib.Disagreement{Case: name, Ops: ops, Op: "load <table of the implementation>", Impl: "ok", Model: ans})
		}
	}
	return newTree(rows), nil
}

// both asks one query on both sides, records a disagreement, returns the implementation's answer.
func both(c *Ctx, ci *ChainImpl, l *lib.Lean, name string, ctx []string, op string) (string, error) {
	impl := ci.Op(op)
	model, err := l.Ask(op)
	if err != nil {
		return "", err
	}
	c.R.TracesValidated++
	if impl != model && c.Driver != "none" {
		c.R.Disagree(lib.Disagreement{Case: name, Ops: append(append([]string{}, ctx...), op), Op: op, Impl: impl, Model: model})
	}
	return impl, nil
}

func addsOnly(ops []string) []string {
	var r []string
	for _, o := range ops {
		w := strings.Fields(o)[0]
		if w == "reset" || w == "forbid" || w == "add" {
			r = append(r, o)
		}
	}
	return r
}

// genStore builds a random fork-rich store without zero-work headers (so C01's known finding cannot interfere).
func genStore(rng *rand.Rand, n int, salt uint32) ([]Node, []string) {
	nodes, order := randomHistory(rng, n, salt, false, false)
	return nodes, addsOnly(historyOps(nodes, order, nil, false))
}

func tableDigest(ci *ChainImpl) string {
	rows, _ := ci.Dump()
	return dumpStr(rows)
}

// ---------------------------------------------------------------------------------------------
// C02

func sev(v string) int {
	switch v {
	case "CONFIRMED":
		return 0
	case "UNABLE_TO_VERIFY":
		return 1
	}
	return 2
}

func c02Expect(t *tree, excess int64, root string, h int64) (string, string) {
	if r, ok := t.chain[h]; ok && r.Merkle == root {
		return "CONFIRMED", r.Hash
	}
	tipH := t.best.Height
	if h > tipH && h-tipH <= excess {
		return "UNABLE_TO_VERIFY", "-"
	}
	return "INVALID", "-"
}

func c02Check(c *Ctx, t *tree, name string, ctx []string, op string, excess int64, items []string, out string) {
	c.R.OracleChecked++
	parts := strings.Split(out, ";")
	fail := func(what, exp string) {
		c.R.Fail(lib.Failure{Case: name, Ops: append(append([]string{}, ctx...), op), What: what, Expected: exp, Observed: out, Signature: "c02-verdict"})
	}
	if len(parts) != len(items)+1 {
		fail(fmt.Sprintf("%d verdicts for %d items", len(parts)-1, len(items)), "")
		return
	}
	worst := "CONFIRMED"
	for i, it := range items {
		p := strings.Split(it, ":")
		h, _ := strconv.ParseInt(p[1], 10, 64)
		v, hash := c02Expect(t, excess, p[0], h)
		want := fmt.Sprintf("%s:%d:%s:%s", p[0], h, v, hash)
		if parts[i+1] != want {
			fail(fmt.Sprintf("item %d verdict", i), want)
		}
		if sev(v) > sev(worst) {
			worst = v
		}
	}
	if parts[0] != worst {
		fail("overall verdict is not the worst individual one", worst)
	}
}

func runC02(c *Ctx) error {
	rng := lib.Rng(c.Seed, "c02")
	c.R.Rule = "random fork-rich stores (reorgs, stale siblings at the same height as longest blocks, orphans) ingested on the real stack; request lists mixing roots of longest / stale / orphan / unknown blocks with heights from -3 to tip+excess+3, duplicates, excess in {0,1,6,2^31-1,random}; verification repeated after further ingestion that reorganises. Non-trivial = the request contains at least two different expected verdicts; distinct by (store, request)."
	ci, err := newChainImpl("c02.db", lib.StackOpts{})
	if err != nil {
		return err
	}
	defer ci.Close()
	l := c.lean()
	defer l.Close()
	nStores, nReq := 25, 12
	if c.Thorough {
		nStores, nReq = 250, 30
	}
	if done, err := queryPrelude(c, ci, l, c02QC); done || err != nil {
		return err
	}
	for sIdx := 0; sIdx < nStores; sIdx++ {
		n := 6 + rng.Intn(30)
		var nodes []Node
		var ops []string
		if sIdx%3 == 1 {
			// C02 does not assume distinct merkle roots: let some blocks (also on one chain, at different heights)
			// carry the merkle root of an earlier block
			var order []int
			nodes, order = randomHistory(rng, n, uint32(sIdx)+uint32(c.Seed)*7919, false, false)
			for i := 1; i < n; i++ {
				if rng.Intn(5) == 0 {
					nodes[i].DupMerkle = 1 + rng.Intn(i)
				}
			}
			buildTree(nodes, uint32(sIdx)+uint32(c.Seed)*7919, nil, false)
			ops = addsOnly(historyOps(nodes, order, nil, false))
			c.R.Count("store:with duplicate merkle roots", 1)
		} else {
			nodes, ops = genStore(rng, n, uint32(sIdx)+uint32(c.Seed)*7919)
		}
		name := fmt.Sprintf("store #%d n=%d", sIdx, n)
		// ingest in two halves so that verdicts are also taken before a later reorganisation
		cut := len(ops) * 2 / 3
		for phase, upto := range []int{cut, len(ops)} {
			var t *tree
			var err error
			if phase == 0 {
				t, err = ingest(c, ci, l, name, ops[:upto])
			} else {
				t, err = ingest(c, ci, l, name, ops[cut:upto])
			}
			if err != nil {
				return err
			}
			ctx := ops[:upto]
			for q := 0; q < nReq; q++ {
				excess := []int64{0, 1, 6, 2147483647, int64(rng.Intn(10))}[rng.Intn(5)]
				k := 1 + rng.Intn(6)
				var items []string
				for i := 0; i < k; i++ {
					var root string
					var h int64
					r := &t.rows[rng.Intn(len(t.rows))]
					switch rng.Intn(10) {
					case 0, 1, 2, 3: // a stored block with its own height
						root, h = r.Merkle, r.Height
					case 4: // right root, wrong height — or the height of ANOTHER block carrying the same merkle root
						root, h = r.Merkle, r.Height+int64(rng.Intn(5))-2
						for i2 := range t.rows {
							if t.rows[i2].Merkle == r.Merkle && t.rows[i2].Hash != r.Hash {
								h = t.rows[i2].Height
								c.R.Count("item:height of another block with the same root", 1)
								break
							}
						}
					case 5: // unknown root at a stored height
						root, h = display(nodes[0].Hdr.Hash()), r.Height
					case 6, 7: // above the tip
						root, h = display(nodes[0].Hdr.Hash()), t.best.Height+int64(rng.Intn(int(min64(excess, 8))+4))
					case 8: // negative / far
						root, h = r.Merkle, int64(rng.Intn(4))-3
					default:
						root, h = r.Merkle, t.best.Height+excess+int64(rng.Intn(3))
					}
					if h > 2147483647 {
						h = 2147483647
					}
					items = append(items, fmt.Sprintf("%s:%d", root, h))
				}
				if rng.Intn(4) == 0 {
					items = append(items, items[0]) // duplicate
				}
				if rng.Intn(3) == 0 {
					// two DIFFERENT items whose root and height, written one after the other, read the same:
					// (…ab13, 3) and (…ab1, 33). Each item has its own verdict; nothing may be shared between them.
					for try := 0; try < 20; try++ {
						r := &t.rows[rng.Intn(len(t.rows))]
						last := r.Merkle[len(r.Merkle)-1]
						if last < '1' || last > '9' || r.Height < 0 {
							continue
						}
						h2, err := strconv.ParseInt(string(last)+strconv.FormatInt(r.Height, 10), 10, 64)
						if err != nil || h2 > 2147483647 {
							continue
						}
						a, b := fmt.Sprintf("%s:%d", r.Merkle, r.Height), fmt.Sprintf("%s:%d", r.Merkle[:len(r.Merkle)-1], h2)
						if rng.Intn(2) == 0 {
							a, b = b, a
						}
						items = append(items, a, b)
						c.R.Count("item pair: root and height concatenate to the same text", 1)
						break
					}
				}
				op := fmt.Sprintf("verify %d %s", excess, strings.Join(items, " "))
				before := tableDigest(ci)
				out, err := both(c, ci, l, name, ctx, op)
				if err != nil {
					return err
				}
				if tableDigest(ci) != before {
					c.R.Fail(lib.Failure{Case: name, Ops: append(ctx, op), What: "verification modified the store", Signature: "c02-store-modified"})
				}
				c02Check(c, t, name, ctx, op, excess, items, out)
				kinds := map[string]bool{}
				for _, p := range strings.Split(out, ";")[1:] {
					f := strings.Split(p, ":")
					if len(f) >= 3 {
						kinds[f[2]] = true
						c.R.Count("verdict:"+f[2], 1)
					}
				}
				c.R.Case(name+op+strconv.Itoa(phase), len(kinds) >= 2)
				if sIdx == 0 && q < 2 {
					c.R.Sample(map[string]string{"store": name, "op": op, "answer": out}, 6)
				}
			}
		}
	}
	c.R.ModelOps = l.Ops
	return nil
}

func min64(a, b int64) int64 {
	if a < b {
		return a
	}
	return b
}

// ---------------------------------------------------------------------------------------------
// C08

func c08Walk(c *Ctx, ci *ChainImpl, l *lib.Lean, t *tree, name string, ctx []string, n int, extend func(step int) (*tree, error)) error {
	key := "-"
	var got []string
	steps := 0
	for {
		op := fmt.Sprintf("roots %d %s", n, key)
		out, err := both(c, ci, l, name, ctx, op)
		if err != nil {
			return err
		}
		c.R.OracleChecked++
		fail := func(what, exp string) {
			c.R.Fail(lib.Failure{Case: name, Ops: append(append([]string{}, ctx...), op), What: what, Expected: exp, Observed: out, Signature: "c08-walk"})
		}
		parts := strings.Split(out, "|")
		if len(parts) != 2 {
			fail("page request failed during a walk", "a page")
			return nil
		}
		var items []string
		if parts[0] != "" {
			items = strings.Split(parts[0], ",")
		}
		if len(items) > n {
			fail(fmt.Sprintf("page has %d entries, more than the requested %d", len(items), n), "")
		}
		got = append(got, items...)
		key = parts[1]
		steps++
		if key == "-" {
			break // the walk ended here: later extensions are not part of it
		}
		if extend != nil {
			nt, err := extend(steps)
			if err != nil {
				return err
			}
			if nt != nil {
				t = nt
			}
		}
		if key == "-" || steps > len(t.rows)+5 {
			break
		}
	}
	// expected: the best chain ascending
	var want []string
	for h := int64(0); h <= t.best.Height; h++ {
		want = append(want, fmt.Sprintf("%s:%d", t.chain[h].Merkle, h))
	}
	if strings.Join(got, ",") != strings.Join(want, ",") {
		c.R.Fail(lib.Failure{Case: name, Ops: append(append([]string{}, ctx...), fmt.Sprintf("# walk with batchSize %d", n)), What: "walking the pages does not visit every longest-chain block exactly once in ascending order",
			Expected: strings.Join(want, ","), Observed: strings.Join(got, ","), Signature: "c08-walk"})
	}
	return nil
}

func runC08(c *Ctx) error {
	rng := lib.Rng(c.Seed, "c08")
	c.R.Rule = "random fork-rich stores with pairwise distinct merkle roots; complete page walks for every batch size 1..len+2, batch size 0, every stored merkle root and unknown strings as starting key, and walks interleaved with ingestion of new tip headers. Non-trivial = the store has a stale sibling at a listed height and the walk needs at least two pages; distinct by (store, batch size, key)."
	ci, err := newChainImpl("c08.db", lib.StackOpts{})
	if err != nil {
		return err
	}
	defer ci.Close()
	l := c.lean()
	defer l.Close()
	nStores := 8
	if c.Thorough {
		nStores = 60
	}
	if done, err := queryPrelude(c, ci, l, c08QC); done || err != nil {
		return err
	}
	for sIdx := 0; sIdx < nStores; sIdx++ {
		n := 5 + rng.Intn(25)
		_, ops := genStore(rng, n, uint32(sIdx)+uint32(c.Seed)*104729)
		name := fmt.Sprintf("store #%d n=%d", sIdx, n)
		t, err := ingest(c, ci, l, name, ops)
		if err != nil {
			return err
		}
		hasStaleSibling := false
		for _, r := range t.rows {
			if r.State == "STALE" && r.Height <= t.best.Height {
				hasStaleSibling = true
			}
		}
		chainLen := int(t.best.Height) + 1
		for bs := 1; bs <= chainLen+2; bs++ {
			if err := c08Walk(c, ci, l, t, name, ops, bs, nil); err != nil {
				return err
			}
			c.R.Case(fmt.Sprintf("%s bs=%d", name, bs), hasStaleSibling && bs < chainLen)
			c.R.Count("walk", 1)
		}
		// batch size 0: empty page, no error
		out, err := both(c, ci, l, name, ops, "roots 0 -")
		if err != nil {
			return err
		}
		if out != "|-" {
			c.R.Fail(lib.Failure{Case: name, Ops: append(ops, "roots 0 -"), What: "batch size 0 is not answered with an empty page", Observed: out, Signature: "c08-zero"})
		}
		// every stored merkle root and unknown keys as starting key
		zeroDone := map[string]bool{}
		for i := range t.rows {
			r := &t.rows[i]
			bs := 1 + rng.Intn(chainLen+1)
			op := fmt.Sprintf("roots %d %s", bs, r.Merkle)
			out, err := both(c, ci, l, name, ops, op)
			if err != nil {
				return err
			}
			c.R.Count("key:"+r.State, 1)
			c08PageCheck(c, t, name, ops, op, bs, r.Merkle, out)
			c.R.Case(name+op, r.State != "LONGEST_CHAIN")
			// the same key with batch size 0: the key is judged first, whatever the size
			op = "roots 0 " + r.Merkle
			if out, err = both(c, ci, l, name, ops, op); err != nil {
				return err
			}
			c08PageCheck(c, t, name, ops, op, 0, r.Merkle, out)
			c.R.Count("key with batch size 0:"+r.State, 1)
		}
		someRoot := t.rows[len(t.rows)/2].Merkle
		// pattern-like and near-miss keys: only an exact merkle root is a key
		for _, k := range []string{"deadbeef", strings.Repeat("ab", 32), "x", "deadbeef", "x", "%", strings.Repeat("_", 64), someRoot[:12] + "%", "%" + someRoot[40:],
			strings.ToUpper(someRoot), someRoot[:63],
			// keys that are only white space are keys like any other: unknown (seeded change C08-11)
			"q:%20", "q:%09", "q:%0A", "q:%C2%A0", "q:%20%20%20", "q:%20" + someRoot, "q:" + someRoot + "%20"} {
			if k == someRoot {
				continue // an all-digit root has no upper-case variant
			}
			op := "roots 3 " + k
			if k == "deadbeef" || k == "x" {
				if zeroDone[k] {
					op = "roots 0 " + k // an unknown key is not found whatever the batch size
				}
				zeroDone[k] = true
			}
			out, err := both(c, ci, l, name, ops, op)
			if err != nil {
				return err
			}
			c.R.OracleChecked++
			if out != "err:notfound" {
				c.R.Fail(lib.Failure{Case: name, Ops: append(ops, op), What: "unknown key is not answered not-found", Expected: "err:notfound", Observed: out, Signature: "c08-key"})
			}
		}
		// walk interleaved with tip extensions
		ext := 0
		tipHash := t.best.Hash
		extend := func(step int) (*tree, error) {
			if ext >= 3 {
				return nil, nil
			}
			ext++
			var h Hdr
			h.Version = 3
			b := t.by[tipHash]
			_ = b
			prev, _ := hexToWire(tipHash)
			h.Prev = prev
			h.Merkle = shaStr(fmt.Sprintf("ext-%d-%d-%d", sIdx, ext, c.Seed))
			h.Time = 1700000000 + uint32(ext)
			h.Bits = bitsSmall[2]
			h.Nonce = uint32(ext)
			op := "add " + h.Hex()
			ops = append(ops, op)
			nt, err := ingest(c, ci, l, name, []string{op})
			if err != nil {
				return nil, err
			}
			tipHash = nt.best.Hash
			return nt, nil
		}
		if err := c08Walk(c, ci, l, t, name+" interleaved", ops, 2, extend); err != nil {
			return err
		}
		c.R.Count("walk:interleaved", 1)
		// a reorganisation between two pages: the client holds the key of the last page it was served, a heavier
		// branch forking below (or above) that block takes over, then the client sends its key
		for _, below := range []bool{true, false} {
			nt, err := ingest(c, ci, l, name, nil)
			if err != nil {
				return err
			}
			if nt.best.Height < 3 {
				break
			}
			op := "roots 2 -"
			out, err := both(c, ci, l, name, ops, op)
			if err != nil {
				return err
			}
			parts := strings.Split(out, "|")
			if len(parts) != 2 || parts[1] == "-" {
				break
			}
			key := parts[1]
			var kr *DbRow
			for i := range nt.rows {
				if nt.rows[i].Merkle == key && nt.rows[i].State == "LONGEST_CHAIN" {
					kr = &nt.rows[i]
				}
			}
			if kr == nil || kr.Height < 1 {
				break
			}
			forkAt := kr.Height - 1 // the key's block becomes stale
			if !below {
				forkAt = kr.Height // the key's block stays, everything above it is replaced
			}
			parent := nt.chain[forkAt].Hash
			for k := 0; k < 2; k++ {
				var h Hdr
				h.Version = 2
				prev, _ := hexToWire(parent)
				h.Prev = prev
				h.Merkle = shaStr(fmt.Sprintf("reorg-%d-%v-%d-%d", sIdx, below, k, c.Seed))
				h.Time = 1710000000 + uint32(k)
				h.Bits = bitsBig
				h.Nonce = uint32(k)
				if k == 0 {
					h.Bits = 0x1c00ffff // heavier than anything else in the store: the branch overtakes at once
				}
				aop := "add " + h.Hex()
				ops = append(ops, aop)
				if nt, err = ingest(c, ci, l, name, []string{aop}); err != nil {
					return err
				}
				parent = nt.best.Hash
			}
			op = "roots 2 " + key
			out, err = both(c, ci, l, name, ops, op)
			if err != nil {
				return err
			}
			c08PageCheck(c, nt, name+" reorg between pages", ops, op, 2, key, out)
			c.R.Case(name+op+fmt.Sprint(below), true)
			c.R.Count(fmt.Sprintf("walk:reorganisation between pages (key's block becomes stale: %v)", below), 1)
		}
		if sIdx == 0 {
			c.R.Sample(map[string]any{"store": name, "ops": ops[:min(len(ops), 6)], "walk": "roots <bs> <key> until key = -"}, 4)
		}
	}
	// one long chain (beyond any plausible page cap) walked with page sizes around and far above 2000: the walk has to
	// cover every block whatever the requested size
	{
		n := 2100
		nodes := make([]Node, 0, n+3)
		for i := 0; i < n; i++ {
			nodes = append(nodes, Node{Parent: i - 1, Bits: bitsSmall[1]})
		}
		nodes = append(nodes, Node{Parent: 1000, Bits: bitsSmall[0]}, Node{Parent: 2050, Bits: bitsSmall[0]}, Node{Parent: -2, Bits: bitsSmall[0]})
		buildTree(nodes, 8800+uint32(c.Seed), nil, false)
		order := make([]int, len(nodes))
		for i := range order {
			order[i] = i
		}
		ops := addsOnly(historyOps(nodes, order, nil, false))
		name := fmt.Sprintf("long chain n=%d", n)
		t, err := ingest(c, ci, l, name, ops)
		if err != nil {
			return err
		}
		ctx := []string{fmt.Sprintf("# %s (chain of %d headers with two stale siblings and an orphan, seed %d)", name, n, c.Seed)}
		sizes := []int{700, 1999, 2000, 2001, 5000}
		if c.Thorough {
			sizes = append(sizes, 1, 1000, 2100, 2101, 2102, 100000)
		}
		for _, bs := range sizes {
			if err := c08Walk(c, ci, l, t, name, ctx, bs, nil); err != nil {
				return err
			}
			c.R.Case(fmt.Sprintf("%s bs=%d", name, bs), true)
			c.R.Count("walk:long chain", 1)
		}
		// page sizes at and beyond the native integer widths, from the beginning and from a key in the middle: whatever
		// arithmetic is done with the size must not wrap
		for _, bs := range []int64{2147483646, 2147483647, 2147483648, 4294967295, 4294967296, 4294967297, 9223372036854775807} {
			for _, key := range []string{"-", t.chain[1].Merkle, t.chain[1000].Merkle, t.chain[t.best.Height-1].Merkle} {
				op := fmt.Sprintf("roots %d %s", bs, key)
				out, err := both(c, ci, l, name, ctx, op)
				if err != nil {
					return err
				}
				c08PageCheck(c, t, name, ctx, op, int(bs), key, out)
				c.R.Case(name+op, true)
				c.R.Count("page size at a native integer boundary", 1)
			}
		}
	}
	c.R.ModelOps = l.Ops
	return nil
}

// ---------------------------------------------------------------------------------------------
// C13

func c13LocatorCheck(c *Ctx, t *tree, name string, ctx []string, out string) {
	c.R.OracleChecked++
	fail := func(what string) {
		c.R.Fail(lib.Failure{Case: name, Ops: append(append([]string{}, ctx...), "locator"), What: what, Observed: out, Signature: "c13-locator"})
	}
	hs := strings.Split(out, ",")
	if len(hs) == 0 || hs[0] != t.best.Hash {
		fail("locator does not start at the tip")
		return
	}
	var heights []int64
	for _, h := range hs {
		r, ok := t.by[h]
		if !ok || !t.onBest[h] {
			fail("locator contains a hash that is not on the longest chain")
			return
		}
		heights = append(heights, r.Height)
	}
	if heights[len(heights)-1] != 0 {
		fail("locator does not end at genesis")
	}
	// one block at a time for the first entries (at least 10 unit steps), then the step doubles every entry;
	// the last step may be clipped at genesis
	unit := 0
	var prevStep int64
	for i := 1; i < len(heights); i++ {
		d := heights[i-1] - heights[i]
		if d <= 0 {
			fail("locator heights are not strictly descending")
			return
		}
		last := i == len(heights)-1
		switch {
		case prevStep == 0 && d == 1:
			unit++
		case prevStep == 0:
			if unit < 10 || unit > 12 {
				fail(fmt.Sprintf("%d unit steps before the step starts doubling", unit))
				return
			}
			if d != 2 && !(last && d < 2) {
				fail(fmt.Sprintf("first non-unit step is %d, expected 2", d))
				return
			}
			prevStep = 2
		default:
			if d != 2*prevStep && !(last && d < 2*prevStep) {
				fail(fmt.Sprintf("step %d is %d, expected %d (doubling)", i, d, 2*prevStep))
				return
			}
			prevStep *= 2
		}
	}
	if unit > 12 && len(heights) > 14 {
		fail("the step never starts doubling")
	}
}

func runC13(c *Ctx) error {
	rng := lib.Rng(c.Seed, "c13")
	if c13PeerReplay(c) { // replay of the peer-level stream (c13_peer.go)
		return c13PeerStream(c)
	}
	c.R.Rule = "stores = long chains (hundreds to thousands of headers) with stale branches at locator heights, plus small fork-rich stores; locator checked for start/end/membership/step rule; getheaders for locators that are subsets of stored hashes incl. stale / orphan / unknown ones in any order and the empty locator, stop hash in {zero, ahead, behind, stale, unknown, genesis}. Non-trivial = locator longer than 12 entries, or a getheaders whose locator mixes longest and non-longest hashes; distinct by (store, op)."
	ci, err := newChainImpl("c13.db", lib.StackOpts{})
	if err != nil {
		return err
	}
	defer ci.Close()
	l := c.lean()
	defer l.Close()
	if done, err := queryPrelude(c, ci, l, c13QC); done || err != nil {
		return err
	}
	type spec struct{ n, forks int }
	specs := []spec{{8, 2}, {40, 6}, {300, 12}, {2300, 10}}
	if c.Thorough {
		specs = append(specs, spec{5000, 30}, spec{1200, 40}, spec{25, 8}, spec{70, 10})
	}
	zero := zeroHashStr
	exercise := func(name string, ops []string, nStored, nQ int, sample bool, from int) error {
		t, err := ingest(c, ci, l, name, ops[from:])
		if err != nil {
			return err
		}
		ctxOps := ops
		if len(ctxOps) > 60 {
			ctxOps = []string{fmt.Sprintf("# %s (store of %d headers generated with seed %d)", name, nStored, c.Seed)}
		}
		out, err := both(c, ci, l, name, ctxOps, "locator")
		if err != nil {
			return err
		}
		c13LocatorCheck(c, t, name, ctxOps, out)
		c.R.Case(name+"locator", len(strings.Split(out, ",")) > 12)
		c.R.Count("locator", 1)
		locHashes := strings.Split(out, ",")
		var nonLc []string
		for _, r := range t.rows {
			if !t.onBest[r.Hash] {
				nonLc = append(nonLc, r.Hash)
			}
		}
		for q := 0; q < nQ; q++ {
			var loc []string
			mixes := false
			switch rng.Intn(8) {
			case 0: // the node's own locator from a lower tip
				h := int64(rng.Intn(int(t.best.Height) + 1))
				loc = append(loc, t.chain[h].Hash)
				for s := int64(1); h-s > 0; s *= 2 {
					loc = append(loc, t.chain[h-s].Hash)
				}
				loc = append(loc, t.chain[0].Hash)
			case 1: // real locator
				loc = append(loc, locHashes...)
			case 2: // only unknown / stale
				loc = append(loc, display(shaStr(fmt.Sprint("u", q))))
				if len(nonLc) > 0 {
					loc = append(loc, nonLc[rng.Intn(len(nonLc))])
				}
			case 3: // empty locator
			default: // random subset in random order, mixing
				k := 1 + rng.Intn(5)
				for i := 0; i < k; i++ {
					if rng.Intn(3) == 0 && len(nonLc) > 0 {
						loc = append(loc, nonLc[rng.Intn(len(nonLc))])
						mixes = true
					} else {
						loc = append(loc, t.chain[int64(rng.Intn(int(t.best.Height)+1))].Hash)
					}
				}
			}
			var stop string
			switch rng.Intn(7) {
			case 0, 1:
				stop = zero
			case 2:
				stop = t.chain[int64(rng.Intn(int(t.best.Height)+1))].Hash
			case 3:
				if len(nonLc) > 0 {
					stop = nonLc[rng.Intn(len(nonLc))]
				} else {
					stop = zero
				}
			case 4:
				stop = display(shaStr(fmt.Sprint("s", q)))
			case 5:
				stop = t.chain[0].Hash // genesis
			default:
				stop = t.best.Hash
			}
			op := strings.TrimSpace("getheaders " + stop + " " + strings.Join(loc, " "))
			out, err := both(c, ci, l, name, ctxOps, op)
			if err != nil {
				return err
			}
			c13GetHeadersCheck(c, t, name, ctxOps, op, loc, stop, out)
			c.R.Case(name+op, mixes)
		}
		// long locators (the wire format allows 500 hashes) in orders a peer may use: ascending, shuffled, with stale / unknown
		// entries in front — the start is the HIGHEST locator entry on the longest chain wherever it stands in the list
		if int(t.best.Height) > 320 {
			for v := 0; v < 6; v++ {
				var loc []string
				n := 101 + rng.Intn(380)
				lo := int64(1 + rng.Intn(40))
				for i := 0; i < n && lo+int64(i) <= t.best.Height; i++ {
					loc = append(loc, t.chain[lo+int64(i)].Hash)
				}
				switch v % 3 {
				case 1:
					rng.Shuffle(len(loc), func(i, j int) { loc[i], loc[j] = loc[j], loc[i] })
				case 2:
					pre := []string{display(shaStr(fmt.Sprint("longloc", v)))}
					if len(nonLc) > 0 {
						pre = append(pre, nonLc[rng.Intn(len(nonLc))])
					}
					loc = append(pre, loc...)
				}
				for _, stop := range []string{zero, t.chain[lo+int64(len(loc))/2].Hash, t.best.Hash} {
					op := "getheaders " + stop + " " + strings.Join(loc, " ")
					out, err := both(c, ci, l, name, ctxOps, op)
					if err != nil {
						return err
					}
					c13GetHeadersCheck(c, t, name, ctxOps, op, loc, stop, out)
					c.R.Case(name+op, true)
					c.R.Count("getheaders:long-locator(>100 hashes, ascending / shuffled / stale-first)", 1)
				}
			}
		}
		// boundary probes around the per-message cap: stop exactly cap-1, cap, cap+1, cap+2 above the start
		if int(t.best.Height) > 2010 {
			for _, base := range []int64{0, 1, int64(rng.Intn(int(t.best.Height) - 2005)), t.best.Height - 2002} {
				for _, d := range []int64{1, 2, 1999, 2000, 2001, 2002} {
					if base+d > t.best.Height {
						continue
					}
					var loc []string
					if base > 0 {
						loc = []string{t.chain[base].Hash}
					} else {
						loc = []string{display(shaStr(fmt.Sprint("nomatch", base, d)))}
					}
					op := "getheaders " + t.chain[base+d].Hash + " " + strings.Join(loc, " ")
					out, err := both(c, ci, l, name, ctxOps, op)
					if err != nil {
						return err
					}
					c13GetHeadersCheck(c, t, name, ctxOps, op, loc, t.chain[base+d].Hash, out)
					c.R.Case(name+op, d >= 1999)
					c.R.Count("getheaders:cap-boundary", 1)
				}
			}
		}
		if sample {
			c.R.Sample(map[string]any{"store": name, "ops": ops, "locator": out}, 3)
		}
		return nil
	}
	for sIdx, sp := range specs {
		// a main chain of sp.n headers with sp.forks short stale branches at (mostly) locator heights
		nodes := make([]Node, 0, sp.n+sp.forks*3)
		for i := 0; i < sp.n; i++ {
			nodes = append(nodes, Node{Parent: i - 1, Bits: bitsSmall[1]})
		}
		for f := 0; f < sp.forks; f++ {
			at := rng.Intn(sp.n)
			if f%2 == 0 && sp.n > 14 {
				at = sp.n - 1 - (10 + (1 << uint(rng.Intn(8)))) // near locator heights
				if at < 0 {
					at = rng.Intn(sp.n)
				}
			}
			par := at - 1
			for d := 0; d < 1+rng.Intn(3); d++ {
				nodes = append(nodes, Node{Parent: par, Bits: bitsSmall[0]})
				par = len(nodes) - 1
			}
		}
		nodes = append(nodes, Node{Parent: -2, Bits: bitsSmall[0]}) // an orphan
		buildTree(nodes, uint32(sIdx)+uint32(c.Seed)*31, nil, false)
		order := make([]int, len(nodes))
		for i := range order {
			order[i] = i
		}
		ops := addsOnly(historyOps(nodes, order, nil, false))
		name := fmt.Sprintf("chain #%d n=%d forks=%d", sIdx, sp.n, sp.forks)
		nQ := 40
		if c.Thorough {
			nQ = 150
		}
		if err := exercise(name, ops, len(nodes), nQ, sIdx == 0, 0); err != nil {
			return err
		}
	}
	// small fork-rich stores with mixed difficulty (work 1, 2, 3 and 2^32-ish; siblings of the tip, ties, reorganisations,
	// orphans, duplicates): the locator must start at the tip C01 defines whatever else sits at the tip's height
	nSmall := 40
	if c.Thorough {
		nSmall = 300
	}
	for k := 0; k < nSmall; k++ {
		n := 4 + rng.Intn(22)
		_, ops := genStore(rng, n, uint32(7000+k)+uint32(c.Seed)*131)
		// every second store in two phases on ONE running service: locator and getheaders on a first part of the history
		// and again after the rest (later headers, reorganisations) — an answer remembered from before must not survive
		cut := len(ops) * 6 / 10
		if k%2 == 0 && cut >= 3 {
			if err := exercise(fmt.Sprintf("forks #%d n=%d phase 0", k, n), ops[:cut], n, 4, false, 0); err != nil {
				return err
			}
			if err := exercise(fmt.Sprintf("forks #%d n=%d phase 1", k, n), ops, n, 6, false, cut); err != nil {
				return err
			}
			c.R.Count("store:two-phase (queries before and after later ingestion)", 1)
			continue
		}
		if err := exercise(fmt.Sprintf("forks #%d n=%d", k, n), ops, n, 6, false, 0); err != nil {
			return err
		}
		c.R.Count("store:small fork-rich", 1)
	}
	// directed: a stale sibling of the tip whose cumulative work has fewer decimal digits (9 against 10, 99 against 100)
	for k, total := range []int{10, 100} {
		var nodes []Node
		left := total
		for left > 0 { // main chain: work 3 per header, then the rest
			w := 3
			if left < 3 {
				w = left
			}
			nodes = append(nodes, Node{Parent: len(nodes) - 1, Bits: bitsSmall[w-1]})
			left -= w
		}
		tipIdx := len(nodes) - 1
		// sibling of the tip with one unit of work less than the tip's cumulative work
		wTip := map[uint32]int{bitsSmall[0]: 1, bitsSmall[1]: 2, bitsSmall[2]: 3}[nodes[tipIdx].Bits]
		if wTip > 1 {
			nodes = append(nodes, Node{Parent: tipIdx - 1, Bits: bitsSmall[wTip-2]})
		} else {
			// tip adds 1: make the sibling impossible to be lighter; put the lighter sibling one level down instead
			nodes[tipIdx].Bits = bitsSmall[1]
			nodes = append(nodes, Node{Parent: tipIdx - 1, Bits: bitsSmall[0]})
		}
		buildTree(nodes, uint32(9100+k)+uint32(c.Seed)*17, nil, false)
		for _, rev := range []bool{false, true} {
			order := make([]int, len(nodes))
			for i := range order {
				order[i] = i
			}
			if rev { // the lighter sibling arrives first
				order[len(order)-1], order[len(order)-2] = order[len(order)-2], order[len(order)-1]
			}
			ops := addsOnly(historyOps(nodes, order, nil, false))
			if err := exercise(fmt.Sprintf("tip-sibling total=%d lighterFirst=%v", total, rev), ops, len(nodes), 4, false, 0); err != nil {
				return err
			}
			c.R.Count("store:stale sibling of the tip with fewer digits of cumulative work", 1)
		}
	}
	c.R.ModelOps = l.Ops
	return c13PeerStream(c) // getheaders answered through the real peer (c13_peer.go)
}

func c13GetHeadersCheck(c *Ctx, t *tree, name string, ctx []string, op string, loc []string, stop string, out string) {
	c.R.OracleChecked++
	start := int64(0)
	for _, h := range loc {
		if r, ok := t.by[h]; ok && t.onBest[h] && r.Height > start {
			start = r.Height
		}
	}
	limit := start + 2000
	stopOnBest := false
	if r, ok := t.by[stop]; ok && t.onBest[stop] {
		stopOnBest = true
		if r.Height < limit {
			limit = r.Height
		}
	}
	var want []string
	for h := start + 1; h <= limit && h <= t.best.Height; h++ {
		want = append(want, t.chain[h].Hash)
	}
	got := out
	if strings.HasPrefix(out, "err:stoplower") {
		got = ""
	}
	sig := "c13-getheaders"
	switch {
	case len(loc) == 0:
		sig = "c13-empty-locator-error"
		c.R.Count("getheaders:empty-locator", 1)
	case stopOnBest && t.by[stop].Height == 0:
		sig = "c13-stop-genesis-treated-as-absent"
		c.R.Count("getheaders:stop=genesis", 1)
	case stopOnBest && t.by[stop].Height <= start:
		c.R.Count("getheaders:stop<=start", 1)
	case stopOnBest:
		c.R.Count("getheaders:stop ahead", 1)
	default:
		c.R.Count("getheaders:no stop", 1)
	}
	if got != strings.Join(want, ",") {
		c.R.Fail(lib.Failure{Case: name, Ops: append(append([]string{}, ctx...), op), What: "getheaders answer is not the longest-chain segment after the highest longest-chain locator entry up to the stop hash (max 2000)",
			Expected: abbrevMid(strings.Join(want, ",")), Observed: abbrevMid(out), Signature: sig})
	}
}

func abbrevMid(s string) string {
	if len(s) > 400 {
		return s[:200] + "…" + s[len(s)-150:]
	}
	return s
}

// ---------------------------------------------------------------------------------------------
// C04

func runC04(c *Ctx) error {
	rng := lib.Rng(c.Seed, "c04")
	c.R.Rule = "random fork-rich stores (several stale branches, orphan chains, post-reorg states); queries: header/state for every stored and some unknown hashes, every height window (height -1..max+1, count 1..4), tips, tip/longest, ancestors for all ordered pairs (small stores) or sampled pairs, common ancestor for pairs/triples on same and different branches; table digest before/after every read. Non-trivial = a query whose arguments lie on different branches; distinct by (store, op)."
	ci, err := newChainImpl("c04.db", lib.StackOpts{})
	if err != nil {
		return err
	}
	defer ci.Close()
	l := c.lean()
	defer l.Close()
	nStores := 10
	if c.Thorough {
		nStores = 80
	}
	if done, err := queryPrelude(c, ci, l, c04Check); done || err != nil {
		return err
	}
	for sIdx := 0; sIdx < nStores; sIdx++ {
		n := 4 + rng.Intn(22)
		_, allOps := genStore(rng, n, uint32(sIdx)+uint32(c.Seed)*15485863)
		// two phases on ONE running service: every query is asked on a first part of the history and again after the
		// rest has been ingested (later headers, reorganisations) — an answer remembered from before must not survive
		cut := len(allOps) * 6 / 10
		if cut < 3 {
			cut = len(allOps)
		}
		for phase, upto := range []int{cut, len(allOps)} {
			if phase == 1 && cut == len(allOps) {
				break
			}
			ops := allOps[:upto]
			name := fmt.Sprintf("store #%d n=%d phase %d", sIdx, n, phase)
			part := allOps[:upto]
			if phase == 1 {
				part = allOps[cut:upto]
			}
			t, err := ingest(c, ci, l, name, part)
			if err != nil {
				return err
			}
			c.R.Count(fmt.Sprintf("query battery, phase %d", phase), 1)
			digest := tableDigest(ci)
			ask := func(op string) (string, error) {
				out, err := both(c, ci, l, name, ops, op)
				if err == nil && tableDigest(ci) != digest {
					c.R.Fail(lib.Failure{Case: name, Ops: append(ops, op), What: "a read modified the store", Signature: "c04-store-modified"})
				}
				if err == nil {
					c04Check(c, t, name, ops, op, out)
				}
				return out, err
			}
			// by hash / state
			for i := range t.rows {
				r := &t.rows[i]
				if _, err := ask("state " + r.Hash); err != nil {
					return err
				}
				hr := ci.http("GET", "/api/v1/chain/header/state/"+r.Hash, nil, nil)
				if hr.Status != 200 || !strings.Contains(string(hr.Body), `"state":"`+r.State+`"`) || !strings.Contains(string(hr.Body), fmt.Sprintf(`"height":%d`, r.Height)) {
					c.R.Fail(lib.Failure{Case: name, Ops: append(append([]string{}, ops...), "GET state/"+r.Hash), What: "state endpoint does not report the stored state/height", Expected: r.State, Observed: string(hr.Body), Signature: "c04-byhash"})
				}
			}
			unknown := display(shaStr("unknown" + name))
			if _, err := ask("state " + unknown); err != nil {
				return err
			}
			if hr := ci.http("GET", "/api/v1/chain/header/"+unknown, nil, nil); hr.Status != 404 {
				c.R.Fail(lib.Failure{Case: name, Ops: append(append([]string{}, ops...), "GET header/"+unknown), What: "unknown hash is not 404", Expected: "404", Observed: fmt.Sprint(hr.Status), Signature: "c04-byhash"})
			}
			// height windows
			maxH := int64(0)
			for _, r := range t.rows {
				if r.Height > maxH {
					maxH = r.Height
				}
			}
			for h := int64(-1); h <= maxH+1; h++ {
				for cnt := int64(-1); cnt <= 4; cnt++ { // incl. count 0 and a negative count: empty windows
					if _, err := ask(fmt.Sprintf("byheight %d %d", h, cnt)); err != nil {
						return err
					}
				}
			}
			// tips
			if _, err := ask("tips"); err != nil {
				return err
			}
			tl := ci.http("GET", "/api/v1/chain/tip/longest", nil, nil)
			if tl.Status != 200 || !strings.Contains(string(tl.Body), `"hash":"`+t.best.Hash+`"`) {
				c.R.Fail(lib.Failure{Case: name, Ops: append(append([]string{}, ops...), "GET tip/longest"), What: "tip/longest is not the longest tip", Expected: t.best.Hash, Observed: string(tl.Body), Signature: "c04-tips"})
			}
			// ancestors
			pairs := 0
			for i := range t.rows {
				for j := range t.rows {
					if len(t.rows) > 12 && rng.Intn(len(t.rows)*len(t.rows)/140+1) != 0 {
						continue
					}
					if _, err := ask(fmt.Sprintf("ancestors %s %s", t.rows[j].Hash, t.rows[i].Hash)); err != nil {
						return err
					}
					pairs++
				}
			}
			c.R.Count("ancestors-pairs", pairs)
			c04CaseVariants(c, ci, t, rng, name, ops)
			// common ancestor
			for q := 0; q < 25; q++ {
				k := 2 + rng.Intn(2)
				var hs []string
				for i := 0; i < k; i++ {
					hs = append(hs, t.rows[rng.Intn(len(t.rows))].Hash)
				}
				if _, err := ask("common " + strings.Join(hs, " ")); err != nil {
					return err
				}
				c.R.Count("common", 1)
			}
			if sIdx == 0 {
				c.R.Sample(map[string]any{"store": name, "ops": ops, "queries": "state/byheight/tips/ancestors/common"}, 3)
			}
		}
	}
	c.R.ModelOps = l.Ops
	return nil
}

// c04Check is the oracle for one C04 query op against the dumped tree.
func c04Check(c *Ctx, t *tree, name string, ops []string, op string, out string) {
	c.R.OracleChecked++
	fail := func(what, want, got, sig string) {
		c.R.Fail(lib.Failure{Case: name, Ops: append(append([]string{}, ops...), op), What: what, Expected: want, Observed: got, Signature: sig})
	}
	ws := strings.Fields(op)
	switch ws[0] {
	case "state":
		if r, ok := t.by[ws[1]]; ok {
			if out != r.String() {
				fail("header by hash differs from the stored row", r.String(), out, "c04-byhash")
			}
		} else if out != "not-found" {
			fail("unknown hash is not 404", "not-found", out, "c04-byhash")
		}
		c.R.Case(name+op, false)
	case "byheight":
		h, _ := strconv.ParseInt(ws[1], 10, 64)
		cnt, _ := strconv.ParseInt(ws[2], 10, 64)
		var want []string
		for _, r := range t.rows {
			if r.Height >= h && r.Height <= h+cnt-1 {
				want = append(want, r.Hash)
			}
		}
		sort.Strings(want)
		if out != strings.Join(want, ",") {
			fail("by-height does not return exactly the stored headers of the window", strings.Join(want, ","), out, "c04-byheight")
		}
		c.R.Case(name+op, len(want) > int(cnt))
	case "tips":
		want := []string{t.best.Hash}
		for i := range t.rows {
			r := &t.rows[i]
			if t.onBest[r.Hash] {
				continue
			}
			leaf := true
			for _, k := range t.kids[r.Hash] {
				if !t.onBest[k.Hash] {
					leaf = false
				}
			}
			if leaf {
				want = append(want, r.Hash)
			}
		}
		sort.Strings(want)
		if out != strings.Join(want, ",") {
			fail("tips is not the longest tip plus every leaf of a stale or orphan branch", strings.Join(want, ","), out, "c04-tips")
		}
		c.R.Case(name+op, len(want) > 1)
	case "ancestors":
		h, okh := t.by[ws[1]]
		a, oka := t.by[ws[2]]
		if !okh || !oka {
			if out != "err:notfound" {
				fail("ancestors with an unknown hash", "err:notfound", out, "c04-ancestors")
			}
			return
		}
		desc := t.isAncestor(a.Hash, h.Hash)
		late := t.lateParent(a.Hash) || t.lateParent(h.Hash)
		sigA := "c04-ancestors"
		if late {
			c.R.Count("ancestors:late-parent-orphan", 1)
			sigA = "c04-late-parent-orphan-heights"
		}
		switch {
		case a.Hash == h.Hash:
			if out != "ok:" && out != "ok:"+h.Hash {
				fail("ancestors of a header and itself", "ok:", out, sigA)
			}
		case desc:
			want := "ok:" + strings.Join(t.path(h.Hash, a.Hash), ",")
			if out != want {
				fail("ancestors is not the parent-linked path between the two", want, out, sigA)
			}
		default:
			if !strings.HasPrefix(out, "err:notsamechain") && !strings.HasPrefix(out, "err:ancestorhigher") {
				sig := sigA
				if !late && a.Height == h.Height && out == "ok:" {
					sig = "c04-ancestors-same-height-distinct"
				}
				fail("headers on different branches are not answered with a same-chain error", "err:notsamechain", out, sig)
			}
		}
		c.R.Case(name+op, !desc && !t.isAncestor(h.Hash, a.Hash))
	case "common":
		hs := ws[1:]
		minH := int64(1 << 40)
		for _, x := range hs {
			r, ok := t.by[x]
			if !ok {
				return
			}
			if r.Height < minH {
				minH = r.Height
			}
		}
		if len(hs) == 0 || minH == 0 {
			return // empty list / genesis in the list: no header strictly below; answered 500 (C16's concern)
		}
		want := "err:notfound"
		for r := t.by[hs[0]]; r != nil; r = t.by[r.Prev] {
			if r.Height >= minH {
				continue
			}
			all := true
			for _, h := range hs[1:] {
				if !t.isAncestor(r.Hash, h) {
					all = false
				}
			}
			if all {
				want = "found:" + r.Hash
				break
			}
		}
		diffBranches := false
		for _, h := range hs[1:] {
			if !t.isAncestor(h, hs[0]) && !t.isAncestor(hs[0], h) {
				diffBranches = true
			}
		}
		if out != want && !(want == "err:notfound" && (out == "nil" || strings.HasPrefix(out, "err:"))) {
			sig := "c04-common"
			for _, h := range hs {
				if t.lateParent(h) {
					sig = "c04-late-parent-orphan-heights"
				}
			}
			fail("common ancestor is not the highest header strictly below the lowest given height that is an ancestor of all", want, out, sig)
		}
		c.R.Case(name+op, diffBranches)
	}
}

// queryCheck is the per-op oracle of a read-side property.
type queryCheck func(c *Ctx, t *tree, name string, ctx []string, op string, out string)

// replayQueryOps runs op lines (adds, then queries) on both sides and applies the property's oracle to every query.
func replayQueryOps(c *Ctx, ci *ChainImpl, l *lib.Lean, name string, ops []string, check queryCheck) error {
	var ctx []string
	for _, op := range ops {
		if strings.HasPrefix(op, "#") {
			continue
		}
		w := strings.Fields(op)[0]
		if w == "reset" || w == "forbid" || w == "add" {
			// store-building line: both sides follow it, then the model takes over the implementation's table (see ingest)
			if _, err := ingest(c, ci, l, name, []string{op}); err != nil {
				return err
			}
			ctx = append(ctx, op)
			continue
		}
		out, err := both(c, ci, l, name, ctx, op)
		if err != nil {
			return err
		}
		if w != "tip" && w != "dump" {
			rows, err := ci.Dump()
			if err != nil {
				return err
			}
			check(c, newTree(rows), name, ctx, op, out)
		} else {
			ctx = append(ctx, op)
		}
	}
	return nil
}

// queryPrelude handles --replay and the known-findings replay for a read-side property; done=true when replaying.
func queryPrelude(c *Ctx, ci *ChainImpl, l *lib.Lean, check queryCheck) (done bool, err error) {
	if c.Replay != "" {
		ops, err := lib.ReadReplayOps(c.Replay)
		if err != nil {
			return true, err
		}
		return true, replayQueryOps(c, ci, l, "replay", ops, check)
	}
	for _, k := range lib.KnownFor(c.Known, c.Prop) {
		sub := &Ctx{Prop: c.Prop, Tier: c.Tier, Seed: c.Seed, Driver: c.Driver, R: lib.NewResult(c.Prop, c.Tier, c.Seed)}
		if err := replayQueryOps(sub, ci, l, "known/"+k.ID, k.Witness.Ops, check); err != nil {
			return false, err
		}
		st := "not-reproduced"
		for _, f := range sub.R.Failures {
			if f.Signature == k.Signature {
				st = "reproduced"
			} else {
				c.R.Fail(f)
			}
		}
		c.R.KnownReplayed[k.ID] = st
		for _, d := range sub.R.Disagreements {
			c.R.Disagree(d)
		}
	}
	for _, cs := range loadCorpus(c.Prop) {
		if err := replayQueryOps(c, ci, l, cs.name, cs.ops, check); err != nil {
			return false, err
		}
		c.R.Count("corpus", 1)
	}
	return false, nil
}

func c02QC(c *Ctx, t *tree, name string, ctx []string, op string, out string) {
	ws := strings.Fields(op)
	if ws[0] == "verify" && len(ws) >= 2 {
		e, _ := strconv.ParseInt(ws[1], 10, 64)
		c02Check(c, t, name, ctx, op, e, ws[2:], out)
	}
}

func c13QC(c *Ctx, t *tree, name string, ctx []string, op string, out string) {
	ws := strings.Fields(op)
	switch ws[0] {
	case "locator":
		c13LocatorCheck(c, t, name, ctx, out)
	case "getheaders":
		if len(ws) >= 2 {
			c13GetHeadersCheck(c, t, name, ctx, op, ws[2:], ws[1], out)
		}
	}
}

func c08QC(c *Ctx, t *tree, name string, ctx []string, op string, out string) {
	ws := strings.Fields(op)
	if ws[0] != "roots" || len(ws) != 3 {
		return
	}
	bs, _ := strconv.Atoi(ws[1])
	c08PageCheck(c, t, name, ctx, op, bs, ws[2], out)
}

// c08PageCheck: one page for a given key.
func c08PageCheck(c *Ctx, t *tree, name string, ctx []string, op string, bs int, key string, out string) {
	c.R.OracleChecked++
	var want string
	start := int64(-1)
	switch {
	case key == "-":
	default:
		var r *DbRow
		for i := range t.rows {
			if t.rows[i].Merkle == key {
				r = &t.rows[i]
				break
			}
		}
		if r == nil {
			want = "err:notfound"
		} else if !t.onBest[r.Hash] {
			want = "err:conflict"
		} else {
			start = r.Height
		}
	}
	if want == "" {
		var items []string
		last := "-"
		for h := start + 1; h <= t.best.Height && len(items) < bs; h++ {
			items = append(items, fmt.Sprintf("%s:%d", t.chain[h].Merkle, h))
			last = t.chain[h].Merkle
		}
		if len(items) == 0 || last == t.best.Merkle {
			last = "-"
		}
		want = strings.Join(items, ",") + "|" + last
	}
	if out != want {
		c.R.Fail(lib.Failure{Case: name, Ops: append(append([]string{}, ctx...), op), What: "page for a given starting key", Expected: want, Observed: out, Signature: "c08-key"})
	}
}

// c04CaseVariants (oracle only; the model is not asked, its hashes are values, not spellings): the same stored hashes
// written in upper or mixed case. Whether such a spelling names the stored header or an unknown one is the
// implementation's choice — but it has to be ONE choice: the answer is either an error / not-found, or exactly the
// answer to the canonical spelling. A different 200 answer is a wrong answer about the stored chain.
func c04CaseVariants(c *Ctx, ci *ChainImpl, t *tree, rng *rand.Rand, name string, ops []string) {
	mixed := func(h string) string {
		b := []byte(h)
		for i := range b {
			if i%3 == 0 && b[i] >= 'a' && b[i] <= 'f' {
				b[i] -= 'a' - 'A'
			}
		}
		return string(b)
	}
	spell := []func(string) string{strings.ToUpper, mixed}
	done := 0
	for try := 0; try < 400 && done < 6; try++ {
		h, a := t.rows[rng.Intn(len(t.rows))], t.rows[rng.Intn(len(t.rows))]
		if h.Hash == a.Hash || !t.isAncestor(a.Hash, h.Hash) || h.Height-a.Height < 2 || a.Height == 0 && rng.Intn(3) != 0 {
			continue
		}
		if strings.ToUpper(h.Hash) == h.Hash || strings.ToUpper(a.Hash) == a.Hash {
			continue
		}
		done++
		canon := ci.Op(fmt.Sprintf("ancestors %s %s", h.Hash, a.Hash))
		for _, f := range spell {
			for _, v := range [][2]string{{f(h.Hash), a.Hash}, {h.Hash, f(a.Hash)}, {f(h.Hash), f(a.Hash)}} {
				op := fmt.Sprintf("ancestors %s %s", v[0], v[1])
				out := ci.Op(op)
				c.R.OracleChecked++
				c.R.Count("ancestors with a case variant of a stored hash", 1)
				if out != canon && !strings.HasPrefix(out, "err:") {
					c.R.Fail(lib.Failure{Case: name, Ops: append(append([]string{}, ops...), op),
						What:     "ancestors asked with an upper/mixed-case spelling of stored hashes is answered with a path that is neither the answer to the canonical spelling nor an error",
						Expected: canon + "  (or err:…)", Observed: out, Signature: "c04-case-variant"})
				}
			}
		}
		canonS := ci.Op("state " + h.Hash)
		for _, f := range spell {
			op := "state " + f(h.Hash)
			out := ci.Op(op)
			c.R.OracleChecked++
			if out != canonS && out != "not-found" && !strings.HasPrefix(out, "err:") {
				c.R.Fail(lib.Failure{Case: name, Ops: append(append([]string{}, ops...), op), What: "header by a case variant of a stored hash is neither the stored row nor not-found",
					Expected: canonS + "  (or not-found)", Observed: out, Signature: "c04-case-variant"})
			}
		}
	}
}
