package main

// C06/C07 — correspondence with the Lean sync models (M-Sync for the default engine, M-SyncExp for the
// experimental one). A serial scenario run yields the event sequence the implementation processed
// (newpeer / headers / inv / done / tick, with the observed random sync-peer choice) and, per event, what the
// service did (getheaders per peer with locator and stop hash, disconnects, bans, sendheaders). The same events
// are fed to the model (`sync …` / `xsync …` lines) and its actions are compared event by event; at the end
// the model's table is compared with the dumped SQLite table.

import (
	"fmt"
	"os"
	"sort"
	"strconv"
	"strings"

	"github.com/bitcoin-sv/block-headers-service/verifharness/lib"
)

type syncModel struct {
	l       *lib.Lean
	enabled bool
	nOps    int
}

func newSyncModel(c *Ctx) *syncModel {
	if c.Driver == "none" || c.Driver == "" {
		return &syncModel{}
	}
	return &syncModel{l: c.lean(), enabled: true}
}

func (m *syncModel) Close() {
	if m.l != nil {
		m.l.Close()
	}
}

func (m *syncModel) ops() int { return m.nOps }

var actionRank = map[string]int{"gh": 0, "sendheaders": 1, "ban": 2, "disc": 3, "panic": 4}

// canonActions groups actions by node (ascending), keeping the order of requests to one node.
func canonActions(s string) string {
	s = strings.TrimSpace(s)
	if s == "" {
		return ""
	}
	parts := strings.Split(s, " ; ")
	type act struct {
		node, rank, pos int
		text            string
	}
	var as []act
	for i, p := range parts {
		ws := strings.Fields(p)
		node := -1
		if len(ws) >= 2 {
			node, _ = strconv.Atoi(ws[1])
		}
		rank, ok := actionRank[ws[0]]
		if !ok {
			rank = 9
		}
		as = append(as, act{node, rank, i, strings.TrimSpace(p)})
	}
	sort.SliceStable(as, func(a, b int) bool {
		if as[a].node != as[b].node {
			return as[a].node < as[b].node
		}
		if as[a].rank != as[b].rank {
			return as[a].rank < as[b].rank
		}
		return as[a].pos < as[b].pos
	})
	out := make([]string, len(as))
	for i, a := range as {
		out[i] = a.text
	}
	return strings.Join(out, " ; ")
}

// check feeds one scenario's events to the model and records disagreements.
func (m *syncModel) check(c *Ctx, res *scnResult) {
	if !m.enabled || res.Err != nil || res.S.Sched == "free" {
		return
	}
	prefix := "sync"
	if res.S.Engine == "exp" {
		prefix = "xsync"
	}
	var lines []string
	lines = append(lines, res.Defs...)
	var evIdx []int
	for i, e := range res.Events {
		if e.ModelOp == "" {
			continue
		}
		lines = append(lines, e.ModelOp)
		evIdx = append(evIdx, i)
	}
	lines = append(lines, prefix+" dump")
	// M-Node: the Lean node's answer to every request the scripted node served
	var nodeIdx []int
	for i, e := range res.Events {
		if e.NodeOp != "" {
			lines = append(lines, e.NodeOp)
			nodeIdx = append(nodeIdx, i)
		}
	}
	outs, err := m.l.AskBatch(lines)
	m.nOps += len(lines)
	if err != nil {
		c.R.Disagree(lib.Disagreement{Case: res.Name, Ops: res.S.Ops(), Op: "driver", Impl: "", Model: "error: " + err.Error()})
		return
	}
	nd := len(res.Defs)
	for k := 0; k < nd; k++ {
		if outs[k] != "ok" {
			c.R.Disagree(lib.Disagreement{Case: res.Name, Ops: res.S.Ops(), Op: lines[k], Impl: "ok", Model: outs[k]})
			return
		}
	}
	// events whose model op is empty (node closed / stalled instead of answering; settle) must have produced no action
	j := 0
	for i, e := range res.Events {
		if e.ModelOp == "" {
			if e.Observed != "" {
				c.R.Disagree(lib.Disagreement{Case: res.Name, Ops: res.S.Ops(), Op: "(no event) " + e.Step, Impl: e.Observed, Model: ""})
				return
			}
			continue
		}
		_ = i
		got := canonActions(outs[nd+j])
		want := canonActions(e.Observed)
		if os.Getenv("VERIF_C06_TRACE") != "" {
			fmt.Fprintf(os.Stderr, "    K %-40s impl[%s] model[%s]\n", e.ModelOp, shorten(want), shorten(got))
		}
		c.R.TracesValidated++
		if got != want {
			c.R.Disagree(lib.Disagreement{Case: res.Name, Ops: append(res.S.Ops(), "# events up to the first difference:", strings.Join(lines[nd:nd+j+1], " / ")),
				Op: e.ModelOp + "   [" + e.Step + "]", Impl: want, Model: got})
			return
		}
		j++
	}
	for k, i := range nodeIdx {
		got := outs[len(outs)-len(nodeIdx)+k]
		c.R.TracesValidated++
		c.R.Count("node-replies-compared", 1)
		if got != res.Events[i].NodeWant {
			c.R.Disagree(lib.Disagreement{Case: res.Name, Ops: res.S.Ops(), Op: shorten(res.Events[i].NodeOp), Impl: shorten(res.Events[i].NodeWant), Model: shorten(got)})
			return
		}
	}
	// final table
	impl := dumpStr(res.Rows)
	model := outs[len(outs)-1-len(nodeIdx)]
	c.R.TracesValidated++
	if impl != model {
		c.R.Disagree(lib.Disagreement{Case: res.Name, Ops: res.S.Ops(), Op: prefix + " dump", Impl: firstDiff(impl, model), Model: firstDiff(model, impl)})
	}
}

// firstDiff returns the first row of a that differs from b (tables can be long).
func firstDiff(a, b string) string {
	ra, rb := strings.Split(a, ";"), strings.Split(b, ";")
	for i := range ra {
		if i >= len(rb) || ra[i] != rb[i] {
			return fmt.Sprintf("row %d: %s (of %d rows)", i, ra[i], len(ra))
		}
	}
	return fmt.Sprintf("%d rows (prefix of the other side's %d)", len(ra), len(rb))
}

func shorten(s string) string {
	ws := strings.Fields(s)
	for i, w := range ws {
		if len(w) > 70 {
			ws[i] = w[:8] + ".." + w[len(w)-60:]
		}
	}
	return strings.Join(ws, " ")
}
