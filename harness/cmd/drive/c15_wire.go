package main

// C15, submitters that are PEERS: the other streams hand decoded headers to Chains.Add; in the service the submitters
// are peer goroutines that first decode `headers` messages with the wire codec — code with process-wide scratch state
// (free lists) of its own. Here six peers decode their messages concurrently with the real wire.ReadMessage and submit
// what they decoded; before that, one peer has sent a malformed message (announces two headers, carries one; valid
// checksum), as any remote may. The final table must be the result of SOME sequential ingestion of the same headers:
// every header stored under the hash its peer sent, none turned into an orphan. Oracle only.

import (
	"bytes"
	"crypto/sha256"
	"encoding/binary"
	"fmt"
	"sync"
	"time"

	"github.com/bitcoin-sv/block-headers-service/domains"
	"github.com/bitcoin-sv/block-headers-service/internal/chaincfg/chainhash"
	"github.com/bitcoin-sv/block-headers-service/internal/wire"
	"github.com/bitcoin-sv/block-headers-service/verifharness/lib"
)

func c15WirePeers(c *Ctx) error {
	const peers, perPeer, perMsg = 6, 48, 8
	if c.Replay != "" {
		return nil
	}
	var nodes []Node
	for p := 0; p < peers; p++ {
		for i := 0; i < perPeer; i++ {
			par := len(nodes) - 1
			if i == 0 {
				par = -1
			}
			nodes = append(nodes, Node{Parent: par, Bits: bitsSmall[1]})
		}
	}
	buildTree(nodes, 15500+uint32(c.Seed), nil, false)
	frame := func(payload []byte) []byte {
		var b bytes.Buffer
		_ = binary.Write(&b, binary.LittleEndian, uint32(wire.MainNet))
		cmd := make([]byte, 12)
		copy(cmd, "headers")
		b.Write(cmd)
		_ = binary.Write(&b, binary.LittleEndian, uint32(len(payload)))
		a := sha256.Sum256(payload)
		d := sha256.Sum256(a[:])
		b.Write(d[:4])
		b.Write(payload)
		return b.Bytes()
	}
	msgs := make([][][]byte, peers)
	for p := 0; p < peers; p++ {
		for i := 0; i < perPeer; i += perMsg {
			m := &wire.MsgHeaders{Headers: []*wire.BlockHeader{}}
			for j := i; j < i+perMsg; j++ {
				h := nodes[p*perPeer+j].Hdr
				m.Headers = append(m.Headers, &wire.BlockHeader{Version: h.Version, PrevBlock: chainhash.Hash(h.Prev), MerkleRoot: chainhash.Hash(h.Merkle), Timestamp: time.Unix(int64(h.Time), 0), Bits: h.Bits, Nonce: h.Nonce})
			}
			var b bytes.Buffer
			if err := wire.WriteMessage(&b, m, wire.ProtocolVersion, wire.MainNet); err != nil {
				return nil // encoding is C14's business
			}
			msgs[p] = append(msgs[p], b.Bytes())
		}
	}
	ci, err := newChainImpl("c15-wire.db", lib.StackOpts{NoEngine: true})
	if err != nil {
		return err
	}
	defer ci.Close()
	// the malformed message: count 2, one header (+ its zero transaction count), checksum right
	bad := append([]byte{2}, append(nodes[0].Hdr.Bytes(), 0)...)
	_, _, badErr := wire.ReadMessage(bytes.NewReader(frame(bad)), wire.ProtocolVersion, wire.MainNet)
	var wg sync.WaitGroup
	var mu sync.Mutex
	decodeErrs := 0
	for p := 0; p < peers; p++ {
		wg.Add(1)
		go func(p int) {
			defer wg.Done()
			for _, raw := range msgs[p] {
				// the frame is checked by ReadMessage; the payload is then decoded once more through a reader that yields the
				// processor inside every read, which is what true parallelism on several cores does to the codec at
				// unpredictable moments (a goroutine loses the CPU between filling a scratch buffer and using it)
				_, _, err := wire.ReadMessage(bytes.NewReader(raw), wire.ProtocolVersion, wire.MainNet)
				hm := &wire.MsgHeaders{}
				if err == nil {
					err = hm.Bsvdecode(&c14YieldReader{b: append([]byte(nil), raw[24:]...)}, wire.ProtocolVersion, wire.BaseEncoding)
				}
				ok := true
				if err != nil || !ok {
					mu.Lock()
					decodeErrs++
					mu.Unlock()
					continue
				}
				for _, bh := range hm.Headers {
					_, _ = ci.Svc.Chains.Add(domains.BlockHeaderSource{Version: bh.Version, PrevBlock: bh.PrevBlock, MerkleRoot: bh.MerkleRoot, Timestamp: bh.Timestamp, Bits: bh.Bits, Nonce: bh.Nonce})
				}
			}
		}(p)
	}
	wg.Wait()
	rows, err := ci.Dump()
	if err != nil {
		return err
	}
	want := map[string]bool{}
	for i := range nodes {
		want[nodes[i].Hdr.HashStr()] = true
	}
	missing, foreign, orphans := 0, 0, 0
	example := ""
	for _, r := range rows {
		if r.Height == 0 {
			continue
		}
		if !want[r.Hash] {
			foreign++
			if example == "" {
				example = "stored under a hash no peer sent: " + r.Hash
			}
		}
		if r.State == "ORPHAN" {
			orphans++
		}
		delete(want, r.Hash)
	}
	missing = len(want)
	c.R.OracleChecked++
	c.R.Case("six peers decoding and submitting concurrently after a malformed message", true)
	c.R.Count("concurrent peer submitters through the wire decoder (headers)", peers*perPeer)
	if missing > 0 || foreign > 0 || orphans > 0 || decodeErrs > 0 {
		c.R.Fail(lib.Failure{Case: "concurrent peers through the wire decoder",
			Ops:      []string{fmt.Sprintf("# c15 wire peers: one malformed `headers` message (count 2, one header, valid checksum; decode answered: %v), then %d peers decode %d `headers` messages of %d headers each with wire.ReadMessage concurrently and submit every decoded header to Chains.Add (seed %d)", badErr, peers, perPeer/perMsg, perMsg, c.Seed)},
			What:     "the final table is not the result of any sequential ingestion of the headers the peers sent",
			Expected: fmt.Sprintf("%d headers stored under the hashes sent, none ORPHAN, every message decoded", peers*perPeer),
			Observed: fmt.Sprintf("%d missing, %d stored under a hash nobody sent, %d ORPHAN, %d messages failed to decode; %s", missing, foreign, orphans, decodeErrs, example), Signature: "c15-wire-concurrent-peers-store-differs"})
	}
	return nil
}
