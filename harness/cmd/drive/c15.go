package main

import (
	"fmt"
	"math/rand"
	"runtime"
	"strings"
	"sync"
	"time"

	"github.com/bitcoin-sv/block-headers-service/domains"
	"github.com/bitcoin-sv/block-headers-service/internal/chaincfg/chainhash"
	"github.com/bitcoin-sv/block-headers-service/repository"
	"github.com/bitcoin-sv/block-headers-service/service"
	"github.com/bitcoin-sv/block-headers-service/verifharness/lib"
)

func init() { runners["C15"] = runC15 }

// ---------------------------------------------------------------------------------------------
// harness scheduler at repository.Headers method boundaries

type schedEvent struct {
	thread int
	call   string // the repository call the thread is about to make; "" = finished
	result string // outcome when finished
}

type scheduler struct {
	events chan schedEvent
	goCh   []chan struct{}
}

// submitter i runs service.Chains.Add on its own chain-service instance whose repository decorator
// reports every repository call to the scheduler and waits for permission.
func (ci *ChainImpl) startSubmitters(hs []Hdr, shared bool) (*scheduler, *sync.WaitGroup) {
	sc := &scheduler{events: make(chan schedEvent, 64), goCh: make([]chan struct{}, len(hs))}
	var wg sync.WaitGroup
	for i := range hs {
		sc.goCh[i] = make(chan struct{})
		i := i
		rec := &RecRepo{Headers: ci.Rec.Headers, KillAt: -1}
		rec.sched = func(op string) {
			// normalise: reads by name, writes with arguments (as the Lean driver prints them)
			sc.events <- schedEvent{thread: i, call: op}
			<-sc.goCh[i]
		}
		// ONE chain service shared by all submitters, as in the running process: what serialises (or not)
		// concurrent Add calls is part of the service under test
		if i == 0 {
			ci.sharedRepo = &switchRepo{Headers: ci.Rec.Headers}
			ci.sharedSvc = service.NewChainsService(&repository.Repositories{Headers: ci.sharedRepo, Tokens: ci.Repo.Tokens, Webhooks: ci.Repo.Webhooks},
				paramsWithIgnore(ci.opts.Ignore), ci.Log, service.DefaultBlockHasher(), ci.Svc.Notifier)
		}
		wg.Add(1)
		go func() {
			defer wg.Done()
			out := "panic"
			func() {
				defer func() {
					if r := recover(); r != nil {
						out = fmt.Sprint("panic:", r)
					}
				}()
				svc := ci.sharedSvc
				if shared {
					ci.sharedRepo.bind(rec)
				} else {
					// model-validation stream: a chain service of its own per submitter (what the process would do
					// if Add were not exclusive); only the correspondence with the small-step model is checked here
					svc = service.NewChainsService(&repository.Repositories{Headers: rec, Tokens: ci.Repo.Tokens, Webhooks: ci.Repo.Webhooks},
						paramsWithIgnore(ci.opts.Ignore), ci.Log, service.DefaultBlockHasher(), ci.Svc.Notifier)
				}
				res, err := svc.Add(hs[i].Source())
				switch {
				case err != nil:
					out = classifyAddErr(err)
				default:
					out = "stored " + ci.headerStr(res)
				}
			}()
			sc.events <- schedEvent{thread: i, result: out}
		}()
	}
	return sc, &wg
}

// switchRepo dispatches repository calls to the decorator of the calling goroutine.
// (goroutine identity is passed by binding before Add; calls of one Add all come from its goroutine)
type switchRepo struct {
	repository.Headers
	mu  sync.Mutex
	cur map[uint64]*RecRepo
}

func (s *switchRepo) bind(r *RecRepo) {
	s.mu.Lock()
	if s.cur == nil {
		s.cur = map[uint64]*RecRepo{}
	}
	s.cur[goid()] = r
	s.mu.Unlock()
}

func goid() uint64 {
	var buf [64]byte
	n := runtime.Stack(buf[:], false)
	// "goroutine 123 [running]:"
	var id uint64
	for _, ch := range buf[len("goroutine "):n] {
		if ch < '0' || ch > '9' {
			break
		}
		id = id*10 + uint64(ch-'0')
	}
	return id
}

func (s *switchRepo) UpdateState(hs []chainhash.Hash, st domains.HeaderState) error {
	return s.me().UpdateState(hs, st)
}
func (s *switchRepo) AddHeaderToDatabase(h domains.BlockHeader) error {
	return s.me().AddHeaderToDatabase(h)
}
func (s *switchRepo) GetHeaderByHash(hash string) (*domains.BlockHeader, error) {
	return s.me().GetHeaderByHash(hash)
}
func (s *switchRepo) GetHeaderByHeight(height int32) (*domains.BlockHeader, error) {
	return s.me().GetHeaderByHeight(height)
}
func (s *switchRepo) GetTip() (*domains.BlockHeader, error) { return s.me().GetTip() }
func (s *switchRepo) GetStaleChainHeadersBackFrom(hash string) ([]*domains.BlockHeader, error) {
	return s.me().GetStaleChainHeadersBackFrom(hash)
}
func (s *switchRepo) GetLongestChainHeadersFromHeight(height int32) ([]*domains.BlockHeader, error) {
	return s.me().GetLongestChainHeadersFromHeight(height)
}

func (s *switchRepo) me() *RecRepo {
	s.mu.Lock()
	defer s.mu.Unlock()
	return s.cur[goid()]
}

// runC15 explores interleavings of concurrent submitters at repository-call granularity.
func runC15(c *Ctx) error {
	rng := lib.Rng(c.Seed, "c15")
	c.R.Rule = "scenarios = a prefix store plus 2 (quick) or 2-3 (thorough) headers submitted concurrently: siblings extending the tip, the same header twice, parent and child, a reorganising header racing a tip extension, random picks from a block tree; schedules = every interleaving of the submitters' repository calls that the service admits (enumerated by DFS with replay from a fresh store; a thread that does not reach its next repository call while another is waiting is blocked by the service's own mutual exclusion and cannot be scheduled), random beyond the cap; readers (GetTip + table dump) run between all steps. Compared per step with the Lean small-step model run on the executed schedule; oracle: every reader view is structurally valid with a longest-chain tip, final store = some sequential order. Non-trivial = a schedule in which both submitters made at least one repository call before either finished; distinct by (scenario, executed schedule)."
	ci, err := newChainImpl("c15.db", lib.StackOpts{NoEngine: true})
	if err != nil {
		return err
	}
	defer ci.Close()
	l := c.lean()
	defer l.Close()
	type scenario struct {
		name   string
		prefix []Hdr
		conc   []Hdr
	}
	var scs []scenario
	mk := func(nodes []Node, salt uint32) []Node { buildTree(nodes, salt, nil, false); return nodes }
	// 1: two siblings extending the tip
	{
		n := mk([]Node{{Parent: -1, Bits: bitsSmall[0]}, {Parent: 0, Bits: bitsSmall[0]}, {Parent: 0, Bits: bitsSmall[1]}}, 1)
		scs = append(scs, scenario{"siblings extending the tip", []Hdr{n[0].Hdr}, []Hdr{n[1].Hdr, n[2].Hdr}})
	}
	// 2: the same header from two peers
	{
		n := mk([]Node{{Parent: -1, Bits: bitsSmall[0]}, {Parent: 0, Bits: bitsSmall[0]}}, 2)
		scs = append(scs, scenario{"same header twice", []Hdr{n[0].Hdr}, []Hdr{n[1].Hdr, n[1].Hdr}})
	}
	// 3: parent and child
	{
		n := mk([]Node{{Parent: -1, Bits: bitsSmall[0]}, {Parent: 0, Bits: bitsSmall[0]}, {Parent: 1, Bits: bitsSmall[0]}}, 3)
		scs = append(scs, scenario{"parent and child", []Hdr{n[0].Hdr}, []Hdr{n[1].Hdr, n[2].Hdr}})
	}
	// 4: a reorganising header racing a tip extension
	{
		n := mk([]Node{{Parent: -1, Bits: bitsSmall[0]}, {Parent: 0, Bits: bitsSmall[0]}, {Parent: -1, Bits: bitsSmall[0]}, {Parent: 2, Bits: bitsBig}, {Parent: 1, Bits: bitsSmall[0]}}, 4)
		scs = append(scs, scenario{"reorganisation racing a tip extension", []Hdr{n[0].Hdr, n[1].Hdr, n[2].Hdr}, []Hdr{n[3].Hdr, n[4].Hdr}})
	}
	// 5: two competing reorganisations
	{
		n := mk([]Node{{Parent: -1, Bits: bitsSmall[0]}, {Parent: 0, Bits: bitsSmall[0]}, {Parent: -1, Bits: bitsSmall[0]}, {Parent: -1, Bits: bitsSmall[0]}, {Parent: 2, Bits: bitsBig}, {Parent: 3, Bits: bitsBig}}, 5)
		scs = append(scs, scenario{"two competing reorganisations", []Hdr{n[0].Hdr, n[1].Hdr, n[2].Hdr, n[3].Hdr}, []Hdr{n[4].Hdr, n[5].Hdr}})
	}
	nRandSc := 3
	if c.Thorough {
		nRandSc = 25
	}
	for k := 0; k < nRandSc; k++ {
		n := 4 + rng.Intn(5)
		nodes, _ := randomHistory(rng, n, 777+uint32(k)+uint32(c.Seed)*131, false, false)
		nc := 2
		if c.Thorough && k%3 == 0 {
			nc = 3
		}
		var pre, conc []Hdr
		for i, nd := range nodes {
			if i < n-nc {
				pre = append(pre, nd.Hdr)
			} else {
				conc = append(conc, nd.Hdr)
			}
		}
		scs = append(scs, scenario{fmt.Sprintf("random tree #%d (%d concurrent)", k, nc), pre, conc})
	}
	capPerScenario := 120
	if c.Thorough {
		capPerScenario = 1500
	}
	for _, sc := range scs {
		// sequential outcomes: every order of the concurrent headers
		seqFinals := map[string]bool{}
		for _, perm := range permutations(len(sc.conc)) {
			ci.Op("reset")
			ci.Op("forbid")
			for _, h := range sc.prefix {
				ci.Op("add " + h.Hex())
			}
			for _, i := range perm {
				ci.Op("add " + sc.conc[i].Hex())
			}
			rows, _ := ci.Dump()
			seqFinals[labelsOnly(rows)] = true
		}
		for _, shared := range []bool{true, false} {
			// DFS over schedules with replay: a schedule prefix is a list of thread ids
			explored := 0
			var stack [][]int
			stack = append(stack, []int{})
			seen := map[string]bool{}
			for len(stack) > 0 && explored < capPerScenario {
				prefix := stack[len(stack)-1]
				stack = stack[:len(stack)-1]
				executed, choices, err := c15RunSchedule(c, ci, l, sc.name, sc.prefix, sc.conc, prefix, rng, seqFinals, shared)
				if err != nil {
					return err
				}
				key := fmt.Sprint(executed)
				if seen[key] {
					continue
				}
				seen[key] = true
				explored++
				// branch: at every position beyond the forced prefix where another thread was schedulable
				for pos := len(prefix); pos < len(executed); pos++ {
					for _, alt := range choices[pos] {
						if alt != executed[pos] {
							np := append(append([]int{}, executed[:pos]...), alt)
							stack = append(stack, np)
						}
					}
				}
				if len(stack) > 20000 {
					// keep the frontier bounded: sample
					rng.Shuffle(len(stack), func(i, j int) { stack[i], stack[j] = stack[j], stack[i] })
					stack = stack[:5000]
				}
			}
			c.R.Count(fmt.Sprintf("scenario:%s shared=%v", sc.name, shared), explored)
		}
	}
	if err := c15WirePeers(c); err != nil {
		return err
	}
	if err := c15FreeRun(c); err != nil {
		return err
	}
	c.R.ModelOps = l.Ops
	return nil
}

func permutations(n int) [][]int {
	var res [][]int
	var rec func(a []int, k int)
	rec = func(a []int, k int) {
		if k == n {
			res = append(res, append([]int(nil), a...))
			return
		}
		for i := k; i < n; i++ {
			a[k], a[i] = a[i], a[k]
			rec(a, k+1)
			a[k], a[i] = a[i], a[k]
		}
	}
	base := make([]int, n)
	for i := range base {
		base[i] = i
	}
	rec(base, 0)
	return res
}

// labelsOnly: the final store up to rowid order (set of hash:state), what "equals some sequential order" compares
func labelsOnly(rows []DbRow) string {
	var ss []string
	for _, r := range rows {
		ss = append(ss, fmt.Sprintf("%s:%d:%s:%s", r.Hash, r.Height, r.Cum, r.State))
	}
	return strings.Join(sortedCopy(ss), ";")
}

// c15RunSchedule executes one schedule: `forced` first, then a default policy (lowest schedulable thread).
// Returns the executed schedule and, per position, the set of threads that were schedulable there.
func c15RunSchedule(c *Ctx, ci *ChainImpl, l *lib.Lean, scName string, prefix, conc []Hdr, forced []int, rng *rand.Rand, seqFinals map[string]bool, shared bool) (executed []int, choices [][]int, err error) {
	var ops []string
	op := func(s string) (string, error) {
		ops = append(ops, s)
		impl := ci.Op(s)
		model, e := l.Ask(s)
		if e != nil {
			return "", e
		}
		if impl != model && c.Driver != "none" {
			c.R.Disagree(lib.Disagreement{Case: scName, Ops: append([]string{}, ops...), Op: s, Impl: impl, Model: model})
		}
		return impl, nil
	}
	if _, err = op("reset"); err != nil {
		return
	}
	if _, err = op("forbid"); err != nil {
		return
	}
	for _, h := range prefix {
		if _, err = op("add " + h.Hex()); err != nil {
			return
		}
	}
	var hexes []string
	for _, h := range conc {
		hexes = append(hexes, h.Hex())
	}
	ilv := "ilv init " + strings.Join(hexes, " ")
	ops = append(ops, ilv)
	if _, err = l.Ask(ilv); err != nil {
		return
	}
	sc, wg := ci.startSubmitters(conc, shared)
	n := len(conc)
	pending := make([]string, n) // the repository call thread i is waiting to make
	waiting := make([]bool, n)
	finished := make([]bool, n)
	results := make([]string, n)
	nDone := 0
	absorb := func(ev schedEvent) {
		if ev.call == "" {
			finished[ev.thread], results[ev.thread] = true, ev.result
			waiting[ev.thread] = false
			nDone++
		} else {
			waiting[ev.thread], pending[ev.thread] = true, ev.call
		}
	}
	// settle: wait until every unfinished thread has either arrived at a repository call or is evidently blocked
	// by the service itself (does not arrive within the grace period while some other thread is waiting)
	settle := func() {
		for {
			need := false
			anyWaiting := false
			for i := 0; i < n; i++ {
				if !finished[i] && !waiting[i] {
					need = true
				}
				if waiting[i] {
					anyWaiting = true
				}
			}
			if !need {
				return
			}
			grace := 5 * time.Second
			if anyWaiting {
				grace = 40 * time.Millisecond
			}
			select {
			case ev := <-sc.events:
				absorb(ev)
			case <-time.After(grace):
				return
			}
		}
	}
	settle()
	bothStarted := false
	calls := make([]int, n)
	nonSerial := false
	fail := func(what, exp, obs, sig string) {
		if !shared {
			nonSerial = true // expected without mutual exclusion: this stream validates the model only
			return
		}
		c.R.Fail(lib.Failure{Case: scName, Ops: append(append([]string{}, ops...), fmt.Sprintf("# executed schedule %v", executed)), What: what, Expected: exp, Observed: obs, Signature: sig})
	}
	deadlocked := false
	for nDone < n {
		var avail []int
		for i := 0; i < n; i++ {
			if waiting[i] {
				avail = append(avail, i)
			}
		}
		if len(avail) == 0 {
			fail("no submitter can make progress (deadlock)", "", "", "c15-deadlock")
			deadlocked = true
			break
		}
		pick := avail[0]
		if len(executed) < len(forced) {
			want := forced[len(executed)]
			for _, a := range avail {
				if a == want {
					pick = a
				}
			}
		}
		choices = append(choices, avail)
		executed = append(executed, pick)
		call := pending[pick]
		waiting[pick] = false
		calls[pick]++
		started := 0
		for i := 0; i < n; i++ {
			if calls[i] > 0 && !finished[i] {
				started++
			}
		}
		if started >= 2 {
			bothStarted = true
		}
		sc.goCh[pick] <- struct{}{}
		// wait for this thread's next event; a thread that made its call and then blocks inside the service
		// (on a lock another submitter holds while it waits for the scheduler) sends none: go on without it
		blockedAfterCall := false
		for !waiting[pick] && !finished[pick] && !blockedAfterCall {
			others := false
			for i := 0; i < n; i++ {
				others = others || (i != pick && waiting[i])
			}
			grace := 20 * time.Second
			if others {
				grace = 500 * time.Millisecond
			}
			select {
			case ev := <-sc.events:
				absorb(ev)
			case <-time.After(grace):
				blockedAfterCall = true
			}
		}
		if blockedAfterCall {
			c.R.Count("a submitter blocked inside the service after a repository call (lock taken after the first repository call)", 1)
		}
		settle()
		implStep := call
		if finished[pick] {
			implStep = call + " => " + results[pick]
		}
		stepOp := fmt.Sprintf("ilv step %d", pick)
		ops = append(ops, stepOp)
		model, e := l.Ask(stepOp)
		if e != nil {
			err = e
			return
		}
		c.R.TracesValidated++
		if implStep != model && c.Driver != "none" {
			c.R.Disagree(lib.Disagreement{Case: scName, Ops: append([]string{}, ops...), Op: stepOp, Impl: implStep, Model: model})
		}
		// a reader between any two repository calls: GetTip and the whole table
		rows, e := ci.Dump()
		if e != nil {
			err = e
			return
		}
		c.R.OracleChecked++
		tipLine := ci.Op("tip")
		tip := tipHashOf(tipLine)
		if m := structValid(rows, tip); len(m) > 0 {
			fail("a reader observes a store that is not structurally valid: "+strings.Join(m, "; "), "", dumpStr(rows), "c15-reader-view")
		}
		if !strings.HasSuffix(tipLine, "LONGEST_CHAIN") {
			fail("a reader observes a tip that is not a longest-chain header", "", tipLine, "c15-reader-tip")
		}
		mdump, e := l.Ask("dump")
		if e != nil {
			err = e
			return
		}
		if dumpStr(rows) != mdump && c.Driver != "none" {
			c.R.Disagree(lib.Disagreement{Case: scName, Ops: append(append([]string{}, ops...), "dump"), Op: "dump", Impl: dumpStr(rows), Model: mdump})
		}
	}
	if deadlocked {
		return // the blocked goroutines are abandoned
	}
	wg.Wait()
	rows, e := ci.Dump()
	if e != nil {
		err = e
		return
	}
	if !seqFinals[labelsOnly(rows)] {
		fail("the final store is not the result of ingesting the same headers in any sequential order", "one of the sequential outcomes", dumpStr(rows), "c15-not-serial")
	}
	tag := "service as shipped"
	if !shared {
		tag = "model validation, Add not exclusive"
	}
	c.R.Case(fmt.Sprintf("%s %v %v", scName, executed, shared), bothStarted)
	if bothStarted {
		c.R.Count("schedule:interleaved ("+tag+")", 1)
	} else {
		c.R.Count("schedule:serial, submitters never overlap ("+tag+")", 1)
	}
	if nonSerial {
		c.R.Count("non-serial outcome or invalid reader view reproduced on the real repository when Add is not exclusive", 1)
	}
	c.R.Sample(map[string]any{"scenario": scName, "schedule": executed}, 5)
	return
}
