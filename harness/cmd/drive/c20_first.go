package main

// C20FIRST — the very first start-up of a process. The C20 runner performs thousands of start-ups in ONE
// process, and package-level state of config (the version SetDefaults stores, viper's global instance)
// survives from one to the next, so a default that is only wrong the first time SetDefaults runs in a
// process — which is the only time it runs in the real service — is invisible to it. This runner is
// executed by runC20 in a child process of the same binary: environment cleared of BHS_*, empty working
// directory, no flags; it does what cmd/main.go does (SetDefaults, LoadFlags, Load) exactly once and
// prints every key's effective value. The parent compares them with the documented defaults.

import (
	"bufio"
	"fmt"
	"os"
	"os/exec"
	"strings"
	"time"

	"github.com/bitcoin-sv/block-headers-service/cli"
	"github.com/bitcoin-sv/block-headers-service/config"
	"github.com/bitcoin-sv/block-headers-service/verifharness/lib"
	"github.com/rs/zerolog"
)

func init() { runners["C20FIRST"] = runC20First }

const c20FirstVersionEnv = "VERIF_C20_FIRST_VERSION"

func runC20First(c *Ctx) error {
	zerolog.SetGlobalLevel(zerolog.Disabled)
	ver := os.Getenv(c20FirstVersionEnv)
	os.Unsetenv(c20FirstVersionEnv)
	up := strings.ToUpper(config.ConfigEnvPrefix) + "_"
	for _, kv := range os.Environ() {
		if name, _, _ := strings.Cut(kv, "="); strings.HasPrefix(name, up) {
			os.Unsetenv(name)
		}
	}
	dir, err := os.MkdirTemp(lib.WorkDir(), "c20first-")
	if err != nil {
		return err
	}
	defer os.RemoveAll(dir)
	if err := os.Chdir(dir); err != nil {
		return err
	}
	os.Args = []string{"block-headers-service"}
	nop := zerolog.Nop()
	// exactly cmd/main.go: SetDefaults, GetDefaultAppConfig, LoadFlags, Load — nothing of config touched before
	if err := config.SetDefaults(ver, &nop); err != nil {
		fmt.Println("first-error setdefaults " + c20Enc(err.Error()))
		return nil
	}
	d := config.GetDefaultAppConfig()
	if err := cli.LoadFlags(d); err != nil {
		fmt.Println("first-error flags " + c20Enc(err.Error()))
		return nil
	}
	cfg, _, err := config.Load(d)
	if err != nil {
		fmt.Println("first-error load " + c20Enc(err.Error()))
		return nil
	}
	for _, k := range c20Keys() {
		fmt.Printf("first %s %s\n", k.Key, c20Enc(c20Get(cfg, k)))
	}
	fmt.Println("first-validate " + c20Verdict(cfg.Validate()))
	return nil
}

// firstStartChecks runs C20FIRST in a child process for a few version strings and checks that every key
// nobody overrides has its documented default (the key carrying the build version: the version handed to
// SetDefaults) and that this default configuration passes Validate.
func (r *c20Rig) firstStartChecks() error {
	exe, err := os.Executable()
	if err != nil {
		return err
	}
	for _, ver := range []string{c20DefaultsVersion, "9.8.7-first", ""} {
		cmd := exec.Command(exe, "-prop", "C20FIRST", "-driver", "none", "-known", "")
		cmd.Env = append(os.Environ(), c20FirstVersionEnv+"="+ver)
		cmd.Stderr = os.Stderr
		outp, err := cmd.StdoutPipe()
		if err != nil {
			return err
		}
		if err := cmd.Start(); err != nil {
			return err
		}
		timer := time.AfterFunc(60*time.Second, func() { _ = cmd.Process.Kill() })
		got := map[string]string{}
		var errLine, validate string
		sc := bufio.NewScanner(outp)
		sc.Buffer(make([]byte, 1<<20), 1<<20)
		for sc.Scan() {
			f := strings.Fields(sc.Text())
			switch {
			case len(f) == 3 && f[0] == "first":
				if v, ok := c20Dec(f[2]); ok {
					got[f[1]] = v
				}
			case len(f) == 3 && f[0] == "first-error":
				e, _ := c20Dec(f[2])
				errLine = f[1] + ": " + e
			case len(f) == 2 && f[0] == "first-validate":
				validate = f[1]
			}
		}
		werr := cmd.Wait()
		timer.Stop()
		op := "c20first " + c20Enc(ver)
		r.c.R.Case(op, true)
		r.c.R.Count("first start-up of a fresh process", 1)
		if werr != nil || errLine != "" {
			r.c.R.Fail(lib.Failure{Case: op, Ops: []string{op}, What: "the first start-up of a fresh process with no environment, no file and no flags fails",
				Expected: "the documented defaults load", Observed: fmt.Sprintf("%v %s", werr, errLine), Signature: "c20-first-start-fails"})
			continue
		}
		for _, k := range r.keys {
			want := k.Default
			if k.Key == "p2p.user_agent_version" {
				want = ver
			}
			r.c.R.OracleChecked++
			g, ok := got[k.Key]
			if !ok || g != want {
				r.c.R.Fail(lib.Failure{Case: op + " " + k.Key, Ops: []string{op},
					What:     "first start-up of a fresh process (no BHS_* environment, no configuration file, no flags; SetDefaults(version) + LoadFlags + Load as cmd/main.go): a key nobody overrides does not have its documented default",
					Expected: fmt.Sprintf("%s = %q", k.Key, want), Observed: fmt.Sprintf("%q (present=%v); version given to SetDefaults %q", g, ok, ver),
					Signature: "c20-first-start-default:" + k.Key})
			}
		}
		r.c.R.OracleChecked++
		if validate != "ok" {
			r.c.R.Fail(lib.Failure{Case: op + " validate", Ops: []string{op}, What: "the default configuration of a first start-up does not pass Validate",
				Expected: "ok", Observed: validate, Signature: "c20-first-start-validate"})
		}
	}
	return nil
}
