package main

// C14, reader-behaviour dimension (oracle only — the Lean model's reader is a byte list, which can only end in EOF).
//
//	wreaderr <pver> <net> <hex-delivered> <reader>
//
// wire.ReadMessageWithEncodingN is fed from a reader that hands out the delivered bytes and then behaves like a real
// connection that did NOT end gracefully. <reader> is
//
//	mem:<err>            after the delivered bytes every Read returns (0, err)
//	mem:nil3:<err>       … three times (0, nil) first (allowed by io.Reader), then (0, err)
//	mem:byte1:<err>      the delivered bytes come one byte per Read, then (0, err)
//	tcp:close            a real loopback TCP connection, closed LOCALLY under the reader 30 ms after the bytes were
//	                     sent (what peer.Disconnect() does on a negotiate / idle timeout)  -> net.ErrClosed
//	tcp:deadline         … with a read deadline 40 ms ahead                                -> os.ErrDeadlineExceeded
//	tcp:reset            … reset by the remote side (SO_LINGER 0 + close)                  -> ECONNRESET (or EOF)
//
// with <err> ∈ eof | ueof | closed (net.ErrClosed) | deadline (os.ErrDeadlineExceeded) | reset (syscall.ECONNRESET) | custom.
//
// Clause checked ("hostile bytes are rejected without harm, never hangs"): every call RETURNS within the watchdog
// (2 s), with an error when the delivered bytes are not a whole frame; it takes no more bytes from the reader than
// the header announced, and makes a bounded number of Read calls (it does not spin on a reader that keeps failing).
// A call that does not return is the failing input (signature c14-readmessage-hangs-on-read-error): the goroutine is
// stopped through the reader (runtime.Goexit inside Read) and the remaining wreaderr cases of the run are skipped.

import (
	"bytes"
	"encoding/binary"
	"errors"
	"fmt"
	"io"
	"net"
	"os"
	"runtime"
	"strconv"
	"strings"
	"sync/atomic"
	"syscall"
	"time"

	"github.com/bitcoin-sv/block-headers-service/internal/wire"
)

var c14ReadErrWatchdog = 2 * time.Second

var errC14Custom = errors.New("c14: custom transport error")

func c14ReadErrKind(s string) error {
	switch s {
	case "eof":
		return io.EOF
	case "ueof":
		return io.ErrUnexpectedEOF
	case "closed":
		return net.ErrClosed
	case "deadline":
		return os.ErrDeadlineExceeded
	case "reset":
		return syscall.ECONNRESET
	case "custom":
		return errC14Custom
	}
	return nil
}

// c14FaultReader: delivered bytes, then the configured failure; counts what the caller took; can end the calling
// goroutine once the watchdog has given up on it.
type c14FaultReader struct {
	src    io.Reader // where the bytes come from (a bytes.Reader or a net.Conn)
	after  error     // mem readers: the error after the delivered bytes (nil for tcp: the connection says)
	nils   int       // (0, nil) answers before the error
	byte1  bool      // one byte per Read
	taken  int64
	calls  int64
	killed atomic.Bool
}

func (r *c14FaultReader) Read(p []byte) (int, error) {
	if r.killed.Load() {
		runtime.Goexit() // the watchdog abandoned this call: free the core
	}
	atomic.AddInt64(&r.calls, 1)
	if len(p) == 0 {
		return 0, nil
	}
	if r.byte1 && len(p) > 1 {
		p = p[:1]
	}
	n, err := r.src.Read(p)
	atomic.AddInt64(&r.taken, int64(n))
	if n > 0 {
		return n, nil
	}
	if r.after == nil { // tcp: the connection's own error
		return 0, err
	}
	if err == io.EOF { // mem: the delivered bytes are used up
		if r.nils > 0 {
			r.nils--
			return 0, nil
		}
		return 0, r.after
	}
	return 0, err
}

func (x *c14Exec) execReadErr(op string, pver uint32, net_ wire.BitcoinNet, delivered []byte, reader string) string {
	if x.readErrHung {
		return "skipped-after-hang"
	}
	fr := &c14FaultReader{}
	var cleanup []func()
	defer func() {
		for _, f := range cleanup {
			f()
		}
	}()
	parts := strings.Split(reader, ":")
	switch {
	case parts[0] == "mem" && len(parts) >= 2:
		fr.src = bytes.NewReader(delivered)
		fr.after = c14ReadErrKind(parts[len(parts)-1])
		if fr.after == nil {
			return "bad-args"
		}
		for _, m := range parts[1 : len(parts)-1] {
			switch m {
			case "nil3":
				fr.nils = 3
			case "byte1":
				fr.byte1 = true
			default:
				return "bad-args"
			}
		}
	case parts[0] == "tcp" && len(parts) == 2:
		ln, err := net.Listen("tcp", "127.0.0.1:0")
		if err != nil {
			return "skipped-no-loopback"
		}
		cleanup = append(cleanup, func() { _ = ln.Close() })
		cli, err := net.Dial("tcp", ln.Addr().String())
		if err != nil {
			return "skipped-no-loopback"
		}
		cleanup = append(cleanup, func() { _ = cli.Close() })
		srv, err := ln.Accept()
		if err != nil {
			return "skipped-no-loopback"
		}
		cleanup = append(cleanup, func() { _ = srv.Close() })
		if _, err := cli.Write(delivered); err != nil {
			return "skipped-no-loopback"
		}
		fr.src = srv
		switch parts[1] {
		case "close":
			t := time.AfterFunc(30*time.Millisecond, func() { _ = srv.Close() })
			cleanup = append(cleanup, func() { t.Stop() })
		case "deadline":
			_ = srv.SetReadDeadline(time.Now().Add(40 * time.Millisecond))
		case "reset":
			t := time.AfterFunc(30*time.Millisecond, func() {
				if tc, ok := cli.(*net.TCPConn); ok {
					_ = tc.SetLinger(0)
				}
				_ = cli.Close()
			})
			cleanup = append(cleanup, func() { t.Stop() })
		default:
			return "bad-args"
		}
	default:
		return "bad-args"
	}

	type res struct {
		ans      string
		panicked string
	}
	ch := make(chan res, 1)
	go func() {
		var r res
		defer func() {
			if p := recover(); p != nil {
				r.panicked = fmt.Sprint(p)
				r.ans = "panic"
			}
			ch <- r
		}()
		n, m, _, err := wire.ReadMessageWithEncodingN(fr, pver, net_, wire.BaseEncoding)
		if err != nil {
			cl := c14Class(err)
			if cl == "other" {
				switch {
				case errors.Is(err, net.ErrClosed):
					cl = "closed"
				case errors.Is(err, os.ErrDeadlineExceeded):
					cl = "deadline"
				case errors.Is(err, syscall.ECONNRESET):
					cl = "reset"
				case errors.Is(err, errC14Custom):
					cl = "custom"
				}
			}
			r.ans = "err " + cl
			return
		}
		r.ans = fmt.Sprintf("ok %s %d", m.Command(), n)
	}()
	var r res
	select {
	case r = <-ch:
	case <-time.After(c14ReadErrWatchdog):
		calls := atomic.LoadInt64(&fr.calls)
		fr.killed.Store(true) // the next Read ends the abandoned goroutine
		x.readErrHung = true
		x.nOracle++
		x.failure(op, fmt.Sprintf("wire.ReadMessage did not return within %s on a reader that, after the %d delivered bytes, %s; it had made %d Read calls (%d bytes taken) by then — it spins instead of giving up. The goroutine was stopped through the reader; the remaining wreaderr cases of this run are skipped",
			c14ReadErrWatchdog, len(delivered), c14ReadErrDescribe(reader), calls, atomic.LoadInt64(&fr.taken)),
			"an error, promptly", "no return (hang)", "c14-readmessage-hangs-on-read-error")
		return "hang"
	}
	x.nOracle++
	if r.panicked != "" {
		x.failure(op, "wire.ReadMessage panicked on a failing reader", "an error", "panic: "+r.panicked, c14Sig("panic", "readerr"))
		return r.ans
	}
	// independent expectations from the delivered bytes alone
	announced := uint64(0)
	whole := false
	if len(delivered) >= 24 {
		announced = uint64(binary.LittleEndian.Uint32(delivered[16:]))
		whole = uint64(len(delivered)) >= 24+announced
	}
	taken, calls := atomic.LoadInt64(&fr.taken), atomic.LoadInt64(&fr.calls)
	if !whole && strings.HasPrefix(r.ans, "ok") {
		x.failure(op, "a frame of which fewer bytes were delivered than announced was accepted", "err", r.ans, "c14-accept-truncated")
	}
	if uint64(taken) > 24+announced {
		x.failure(op, fmt.Sprintf("ReadMessage took %d bytes from the reader although the header announced %d (+24)", taken, announced), fmt.Sprint(24+announced), fmt.Sprint(taken), "c14-readerr-overread")
	}
	// Read calls: one per delivered byte at worst, one per 10 KiB chunk of the announced length, a few spare
	if bound := int64(len(delivered)) + int64(announced/10240) + 100; calls > bound {
		x.failure(op, fmt.Sprintf("ReadMessage made %d Read calls on a reader that only fails after %d delivered bytes (announced %d)", calls, len(delivered), announced), "<= "+fmt.Sprint(bound), fmt.Sprint(calls), "c14-readerr-spin")
	}
	return r.ans
}

func c14ReadErrDescribe(reader string) string {
	switch {
	case strings.HasPrefix(reader, "tcp:close"):
		return "is a loopback TCP connection closed locally under the reader (net.ErrClosed)"
	case strings.HasPrefix(reader, "tcp:deadline"):
		return "is a loopback TCP connection whose read deadline passes (os.ErrDeadlineExceeded)"
	case strings.HasPrefix(reader, "tcp:reset"):
		return "is a loopback TCP connection reset by the remote side"
	}
	return "answers every Read with (0, " + reader[strings.LastIndex(reader, ":")+1:] + ")"
}

func (x *c14Exec) parseReadErr(op string, w []string) string {
	if len(w) != 5 {
		return "bad-args"
	}
	pv, err := strconv.ParseUint(w[1], 10, 32)
	nt, err2 := strconv.ParseUint(w[2], 10, 32)
	b, err3 := c14UnHex(w[3])
	if err != nil || err2 != nil || err3 != nil {
		return "bad-args"
	}
	return x.execReadErr(op, uint32(pv), wire.BitcoinNet(nt), b, w[4])
}

// c14OracleOnly: ops that have no counterpart in the Lean model (interleavings, reader behaviour)
func c14OracleOnly(op string) bool {
	return strings.HasPrefix(op, "wconcurrent ") || strings.HasPrefix(op, "wreaderr ")
}

// readErrCases: frames of which FEWER payload bytes are delivered than announced, for every way ReadMessage can be
// standing when the reader fails — each rejection kind that reaches discardInput (wrong magic, unknown / non-UTF-8
// command, per-command oversize), a valid header whose payload read fails, a header cut short — x announced lengths
// x delivered fractions x reader behaviours.
func (g *c14Gen) readErrCases() []c14Case {
	net_ := wire.MainNet
	var cases []c14Case
	mem := []string{"mem:eof", "mem:ueof", "mem:closed", "mem:deadline", "mem:reset", "mem:custom", "mem:nil3:closed", "mem:byte1:reset", "mem:nil3:byte1:custom", "mem:byte1:eof"}
	kinds := []string{"magic", "unknown-command", "non-utf8-command", "oversize-for-command", "payload-read", "header-read"}
	announcedSet := []int{1, 9, 100, 10239, 10240, 10241, 20481, 100000, int(c14GlobalMax())}
	i := 0
	mk := func(kind string, announced int, rd string) {
		pver := uint32(70013)
		var hdr []byte
		switch kind {
		case "magic":
			hdr = c14RawFrame(uint32(wire.TestNet), "ping", uint32(announced), g.bytesN(4), nil)
		case "unknown-command":
			hdr = c14RawFrame(uint32(net_), "bogus", uint32(announced), g.bytesN(4), nil)
		case "non-utf8-command":
			hdr = c14RawFrame(uint32(net_), "\xff\xfe", uint32(announced), g.bytesN(4), nil)
		case "oversize-for-command":
			cmd := "ping"
			if announced <= 8 {
				cmd = "verack"
			}
			hdr = c14RawFrame(uint32(net_), cmd, uint32(announced), g.bytesN(4), nil)
		case "payload-read": // a valid header: ReadMessage reads the payload itself (no discardInput)
			cmd := "headers"
			if uint64(announced) > c14Declared(cmd, pver) {
				cmd = "reject"
			}
			if uint64(announced) > c14Declared(cmd, pver) {
				return
			}
			hdr = c14RawFrame(uint32(net_), cmd, uint32(announced), g.bytesN(4), nil)
		case "header-read":
			hdr = c14RawFrame(uint32(net_), "ping", uint32(announced), g.bytesN(4), nil)[:g.rng.Intn(24)]
		}
		delivered := hdr
		if len(hdr) == 24 {
			var k int
			switch g.rng.Intn(4) {
			case 0:
				k = 0
			case 1:
				k = 1
			case 2:
				k = announced / 2
			default:
				k = announced - 1
			}
			if k > 30000 {
				k = 30000 - g.rng.Intn(10240)
			}
			if k >= announced {
				k = announced - 1
			}
			delivered = append(append([]byte{}, hdr...), g.streamFiller(net_, k)...)
		}
		cases = append(cases, c14Case{fmt.Sprintf("wreaderr %d %d %s %s", pver, uint32(net_), c14Hex(delivered), rd),
			"reader:" + kind + ":" + rd, true})
	}
	for _, kind := range kinds {
		for _, rd := range mem {
			// every kind x every reader behaviour, the announced length rotating through the set
			mk(kind, announcedSet[i%len(announcedSet)], rd)
			i++
			if g.c.Thorough {
				for _, a := range announcedSet {
					mk(kind, a, rd)
				}
			}
		}
		for _, rd := range []string{"tcp:close", "tcp:deadline", "tcp:reset"} {
			mk(kind, announcedSet[i%len(announcedSet)], rd)
			i++
		}
	}
	return cases
}
