package main

// C10, "creating or revoking one token never changes the validity of any other" under overlap: while other tokens
// are being created and revoked through the API by two goroutines, an untouched valid token is presented over and
// over — it must be accepted every time (and a never-issued one refused every time). Oracle only: the Lean model
// has no interleavings; what is checked is the clause of the property, which does not depend on any order.

import (
	dbsql "database/sql"
	"encoding/json"
	"fmt"
	"strings"
	"sync"
	"sync/atomic"
	"time"

	"github.com/bitcoin-sv/block-headers-service/verifharness/lib"
)

func c10Concurrent(c *Ctx, l *lib.Lean, admin string) error {
	r := &c10Run{c: c, l: l, file: lib.TempDB("c10-conc.db"), admin: admin, live: map[string]bool{}, kinds: map[string]bool{}}
	if err := r.open(); err != nil {
		return err
	}
	defer r.close()
	adminHdr := "Bearer " + admin
	create := func() string {
		_, resp := r.httpDo("POST", c09Prefix+"/access", adminHdr, true)
		var tok struct {
			Token string `json:"token"`
		}
		if resp.Status != 200 || json.Unmarshal([]byte(resp.Body), &tok) != nil {
			return ""
		}
		return tok.Token
	}
	t := create()
	if t == "" {
		r.fail("concurrent stream: could not create the token under observation", "a token", "", "c10-create-failed:conc")
		return nil
	}
	dur := 1200 * time.Millisecond
	if c.Thorough {
		dur = 8 * time.Second
	}
	stop := time.Now().Add(dur)
	var churn int64
	var wg sync.WaitGroup
	for w := 0; w < 2; w++ {
		wg.Add(1)
		go func() {
			defer wg.Done()
			for time.Now().Before(stop) {
				if o := create(); o != "" {
					_, _ = r.httpDo("DELETE", c09Prefix+"/access/"+o, adminHdr, true)
					atomic.AddInt64(&churn, 1)
				}
			}
		}()
	}
	n, rejected, wrongly := 0, 0, 0
	first := ""
	for time.Now().Before(stop) {
		n++
		if got := r.authGet("Bearer " + t); got != "pass user" {
			rejected++
			if first == "" {
				first = got
			}
		}
		if n%8 == 0 {
			if got := r.authGet("Bearer " + t + "x"); got != "401 ErrInvalidAccessToken" {
				wrongly++
			}
		}
	}
	wg.Wait()
	c.R.OracleChecked += n
	c.R.Count("concurrent stream: authentications of an untouched token while others are created/revoked", n)
	c.R.Count("concurrent stream: create+revoke rounds of other tokens", int(churn))
	if rejected > 0 {
		r.fail(fmt.Sprintf("an untouched valid token was refused %d of %d times while OTHER tokens were being created and revoked", rejected, n),
			"pass user every time", first, "c10-valid-token-refused-while-others-change")
	}
	if wrongly > 0 {
		r.fail(fmt.Sprintf("a never-issued token was not refused %d times while other tokens were being created and revoked", wrongly), "401 ErrInvalidAccessToken", "", "c10-unknown-token-accepted-while-others-change")
	}
	return nil
}

// c10CommitBlocked: a revocation whose COMMIT cannot happen (another connection keeps a read cursor open on the tokens
// table past SQLite's busy timeout). Whatever the endpoint answers: after a revocation answered with success the token
// must be refused — and if the endpoint reports failure, the token is simply still valid. Never "revoked" + still valid.
func c10CommitBlocked(c *Ctx, l *lib.Lean, admin string) error {
	r := &c10Run{c: c, l: l, file: lib.TempDB("c10-commit.db"), admin: admin, live: map[string]bool{}, kinds: map[string]bool{}}
	if err := r.open(); err != nil {
		return err
	}
	defer r.close()
	adminHdr := "Bearer " + admin
	_, resp := r.httpDo("POST", c09Prefix+"/access", adminHdr, true)
	var tok struct {
		Token string `json:"token"`
	}
	if resp.Status != 200 || json.Unmarshal([]byte(resp.Body), &tok) != nil || tok.Token == "" {
		return nil
	}
	rd, err := dbsql.Open("sqlite3", "file:"+r.file)
	if err != nil {
		return nil
	}
	defer rd.Close()
	rd.SetMaxOpenConns(1)
	cur, err := rd.Query("SELECT token FROM tokens")
	if err != nil {
		return nil
	}
	cur.Next() // cursor stays open: shared lock
	_, del := r.httpDo("DELETE", c09Prefix+"/access/"+tok.Token, adminHdr, true)
	cur.Close()
	after := r.authGet("Bearer " + tok.Token)
	c.R.OracleChecked++
	c.R.Count("revocation whose COMMIT is blocked by a reader", 1)
	if del.Status >= 200 && del.Status < 300 && after == "pass user" {
		r.fail("DELETE /api/v1/access/<token> answered success while its COMMIT could not happen: the token still authenticates", "an error answer, or the token refused afterwards",
			fmt.Sprintf("DELETE -> %d %s; afterwards the token -> %s", del.Status, del.Body, after), "c10-revocation-reported-but-not-effective")
	}
	return c10StoreUnreadable(r, adminHdr)
}

// c10StoreUnreadable: a token is created, used and revoked (all answered with success); then another connection takes
// the SQLite file exclusively, so that the token lookup can only fail. The revoked token and a never-issued one are
// presented over HTTP and on the websocket handshake, in parallel (each waits for SQLite's busy timeout). An answer
// of failure is fine; "accepted" is not: a revoked token is refused from the revocation on, whatever the store does.
func c10StoreUnreadable(r *c10Run, adminHdr string) error {
	c := r.c
	_, resp := r.httpDo("POST", c09Prefix+"/access", adminHdr, true)
	var tok struct {
		Token string `json:"token"`
	}
	if resp.Status != 200 || json.Unmarshal([]byte(resp.Body), &tok) != nil || tok.Token == "" {
		return nil
	}
	if r.authGet("Bearer "+tok.Token) != "pass user" {
		return nil
	}
	if _, del := r.httpDo("DELETE", c09Prefix+"/access/"+tok.Token, adminHdr, true); del.Status < 200 || del.Status >= 300 {
		return nil
	}
	if got := r.authGet("Bearer " + tok.Token); got == "pass user" {
		return nil // reported by the ordinary stream
	}
	lk, err := dbsql.Open("sqlite3", "file:"+r.file)
	if err != nil {
		return nil
	}
	defer lk.Close()
	lk.SetMaxOpenConns(1)
	if _, err := lk.Exec("BEGIN EXCLUSIVE"); err != nil {
		c.R.Notes = append(c.R.Notes, "c10 unreadable store: "+err.Error())
		return nil
	}
	defer lk.Exec("ROLLBACK") //nolint:errcheck
	never := tok.Token[:len(tok.Token)-1] + "Z"
	if never == tok.Token {
		never = tok.Token[:len(tok.Token)-1] + "Y"
	}
	type probe struct{ what, tok, via string }
	probes := []probe{{"revoked token", tok.Token, "http"}, {"revoked token", tok.Token, "ws"}, {"never-issued token", never, "http"}, {"never-issued token", never, "ws"}}
	res := make([]string, len(probes))
	var wg sync.WaitGroup
	for i, p := range probes {
		wg.Add(1)
		go func(i int, p probe) {
			defer wg.Done()
			if p.via == "http" {
				d, rs := r.httpDo("GET", c09Prefix+"/network/peer", "Bearer "+p.tok, true) // a handler that does not touch the database
				res[i] = fmt.Sprintf("%s status=%d", d, rs.Status)
				if rs.Status >= 200 && rs.Status < 400 {
					res[i] = "accepted " + res[i]
				}
			} else {
				res[i] = r.wsConnectOnce(p.tok)
				if res[i] == "connected" {
					res[i] = "accepted connected"
				}
			}
		}(i, p)
	}
	wg.Wait()
	for i, p := range probes {
		c.R.OracleChecked++
		c.R.Count("credential presented while the token store cannot be read", 1)
		if strings.HasPrefix(res[i], "accepted") {
			r.fail(fmt.Sprintf("a %s was accepted on %s while the token store could not be read (another connection holds the SQLite file exclusively): the lookup failure was taken for a valid token", p.what, p.via),
				"refused (401 / disconnect) or an error answer", res[i], "c10-accepted-while-store-unreadable:"+p.via)
		}
	}
	return nil
}
