package main

// C14 — wire codec: decode(encode(m)) = m; hostile bytes are rejected without harm.
//
// Every case is one line of the line protocol (see lean/Driver/Ops/Wire.lean):
//   wwf <pver> <msg…> | wenc <pver> <msg…> | wdec <pver> <command> <hex> | walloc <pver> <command> <hex>
//   wwrite <pver> <net> <msg…> | wframe <pver> <net> <hex> | wsha <hex>
// The implementation side runs the REAL internal/wire code in-process (BsvEncode / Bsvdecode on
// bytes.Buffer, wire.WriteMessageWithEncodingN / wire.ReadMessageWithEncodingN on in-memory readers,
// under both MessageEncoding values, under recover, a timeout and runtime.MemStats), the model side is
// the Lean driver; answers are compared after canonicalisation (errors -> small enum).
// The Go oracle states the property directly on the implementation's outputs, without the model.

import (
	"bytes"
	"crypto/sha256"
	"encoding/binary"
	"encoding/hex"
	"errors"
	"fmt"
	"io"
	"math/rand"
	"net"
	"os"
	"path/filepath"
	"runtime"
	"sort"
	"strconv"
	"strings"
	"time"

	"github.com/bitcoin-sv/block-headers-service/config"
	"github.com/bitcoin-sv/block-headers-service/internal/chaincfg/chainhash"
	"github.com/bitcoin-sv/block-headers-service/internal/wire"
	"github.com/bitcoin-sv/block-headers-service/verifharness/lib"
)

func init() { runners["C14"] = runC14 }

// ---------------------------------------------------------------------------
// tables

// every command of makeEmptyMessage with its concrete type (the types are exported)
var c14Commands = []string{"version", "verack", "getaddr", "addr", "getblocks", "block", "inv", "getdata", "notfound", "tx",
	"ping", "pong", "getheaders", "headers", "mempool", "filteradd", "filterclear", "filterload", "merkleblock", "reject",
	"sendheaders", "feefilter", "getcfilters", "getcfheaders", "getcfcheckpt", "cfilter", "cfheaders", "cfcheckpt", "protoconf", "authch"}

func c14New(cmd string) wire.Message {
	switch cmd {
	case "version":
		return &wire.MsgVersion{}
	case "verack":
		return &wire.MsgVerAck{}
	case "getaddr":
		return &wire.MsgGetAddr{}
	case "addr":
		return &wire.MsgAddr{}
	case "getblocks":
		return &wire.MsgGetBlocks{}
	case "block":
		return &wire.MsgBlock{}
	case "inv":
		return &wire.MsgInv{}
	case "getdata":
		return &wire.MsgGetData{}
	case "notfound":
		return &wire.MsgNotFound{}
	case "tx":
		return &wire.MsgTx{}
	case "ping":
		return &wire.MsgPing{}
	case "pong":
		return &wire.MsgPong{}
	case "getheaders":
		return &wire.MsgGetHeaders{}
	case "headers":
		return &wire.MsgHeaders{}
	case "mempool":
		return &wire.MsgMemPool{}
	case "filteradd":
		return &wire.MsgFilterAdd{}
	case "filterclear":
		return &wire.MsgFilterClear{}
	case "filterload":
		return &wire.MsgFilterLoad{}
	case "merkleblock":
		return &wire.MsgMerkleBlock{}
	case "reject":
		return &wire.MsgReject{}
	case "sendheaders":
		return &wire.MsgSendHeaders{}
	case "feefilter":
		return &wire.MsgFeeFilter{}
	case "getcfilters":
		return &wire.MsgGetCFilters{}
	case "getcfheaders":
		return &wire.MsgGetCFHeaders{}
	case "getcfcheckpt":
		return &wire.MsgGetCFCheckpt{}
	case "cfilter":
		return &wire.MsgCFilter{}
	case "cfheaders":
		return &wire.MsgCFHeaders{}
	case "cfcheckpt":
		return &wire.MsgCFCheckpt{}
	case "protoconf", "authch":
		return &wire.MsgProtoconf{}
	}
	return nil
}

// the 16 kinds of the property (round trip), in a fixed order
var c14Kinds = []string{"version", "verack", "getaddr", "addr", "getheaders", "getblocks", "headers", "inv", "getdata", "notfound",
	"ping", "pong", "reject", "sendheaders", "feefilter", "mempool"}

// protocol versions: the service negotiates min(70013, remote) >= 209 (peer.MinAcceptableProtocolVersion);
// every threshold of protocol.go with its neighbours is included, and a few versions outside the
// negotiated range for the correspondence only.
var c14Pvers = []uint32{209, 210, 31401, 31402, 60000, 60001, 60002, 70001, 70002, 70011, 70012, 70013}
var c14PversOutside = []uint32{0, 1, 208, 70014, 70016}

func c14Negotiated(pver uint32) bool {
	return pver >= wire.MultipleAddressVersion && pver <= wire.FeeFilterVersion
}

var c14Encodings = []wire.MessageEncoding{wire.BaseEncoding, wire.MessageEncoding(2)}

// maxMessagePayload() is unexported: the same uint32 expression over the ebs the service sets.
func c14GlobalMax() uint32 {
	ebs := uint32(config.ExcessiveBlockSize)
	return ((ebs / 1000000) * 1024 * 1024) * 2
}

const c14ZeroTime = uint64(1<<64 - 62135596800) // uint64(time.Time{}.Unix())

// allocation oracle: one decode may allocate at most c14AllocFactor x the declared payload limit of
// its command (Go's in-memory element representations are up to ~4x their wire size: a 30-byte
// addr entry becomes a 64-byte struct + pointer + 16-byte IP) plus a fixed slack for error values,
// scratch buffers and discardInput's two <=10 KiB buffers.
const (
	c14AllocFactor = 8
	c14AllocSlack  = 64 << 10
)

// ---------------------------------------------------------------------------
// canonical text form

func c14Hex(b []byte) string {
	if len(b) == 0 {
		return "-"
	}
	return hex.EncodeToString(b)
}

func c14UnHex(s string) ([]byte, error) {
	if s == "-" {
		return nil, nil
	}
	return hex.DecodeString(s)
}

func c14Time(t time.Time) uint64 { return uint64(t.Unix()) }

func c14MkTime(u uint64) time.Time {
	if u == c14ZeroTime {
		return time.Time{}
	}
	return time.Unix(int64(u), 0)
}

func c14NA(na *wire.NetAddress) string {
	return fmt.Sprintf("%d %d %s %d", c14Time(na.Timestamp), uint64(na.Services), c14Hex(na.IP), na.Port)
}

func c14InvList(name string, l []*wire.InvVect) string {
	var b strings.Builder
	fmt.Fprintf(&b, "%s %d", name, len(l))
	for _, iv := range l {
		fmt.Fprintf(&b, " %d %s", uint32(iv.Type), c14Hex(iv.Hash[:]))
	}
	return b.String()
}

func c14Locator(name string, pv uint32, loc []*chainhash.Hash, stop *chainhash.Hash) string {
	var b strings.Builder
	fmt.Fprintf(&b, "%s %d %s %d", name, pv, c14Hex(stop[:]), len(loc))
	for _, h := range loc {
		b.WriteString(" " + c14Hex(h[:]))
	}
	return b.String()
}

// c14Render is the canonical rendering of a message value ("" for a type outside the model).
func c14Render(m wire.Message) string {
	switch m := m.(type) {
	case *wire.MsgVersion:
		nr := 0
		if m.DisableRelayTx {
			nr = 1
		}
		return fmt.Sprintf("version %d %d %d %s %s %d %s %d %d", uint32(m.ProtocolVersion), uint64(m.Services), c14Time(m.Timestamp),
			c14NA(&m.AddrYou), c14NA(&m.AddrMe), m.Nonce, c14Hex([]byte(m.UserAgent)), uint32(m.LastBlock), nr)
	case *wire.MsgVerAck:
		return "verack"
	case *wire.MsgGetAddr:
		return "getaddr"
	case *wire.MsgSendHeaders:
		return "sendheaders"
	case *wire.MsgMemPool:
		return "mempool"
	case *wire.MsgAddr:
		var b strings.Builder
		fmt.Fprintf(&b, "addr %d", len(m.AddrList))
		for _, na := range m.AddrList {
			b.WriteString(" " + c14NA(na))
		}
		return b.String()
	case *wire.MsgGetHeaders:
		return c14Locator("getheaders", m.ProtocolVersion, m.BlockLocatorHashes, &m.HashStop)
	case *wire.MsgGetBlocks:
		return c14Locator("getblocks", m.ProtocolVersion, m.BlockLocatorHashes, &m.HashStop)
	case *wire.MsgHeaders:
		var b strings.Builder
		fmt.Fprintf(&b, "headers %d", len(m.Headers))
		for _, h := range m.Headers {
			fmt.Fprintf(&b, " %d %s %s %d %d %d", uint32(h.Version), c14Hex(h.PrevBlock[:]), c14Hex(h.MerkleRoot[:]), c14Time(h.Timestamp), h.Bits, h.Nonce)
		}
		return b.String()
	case *wire.MsgInv:
		return c14InvList("inv", m.InvList)
	case *wire.MsgGetData:
		return c14InvList("getdata", m.InvList)
	case *wire.MsgNotFound:
		return c14InvList("notfound", m.InvList)
	case *wire.MsgPing:
		return fmt.Sprintf("ping %d", m.Nonce)
	case *wire.MsgPong:
		return fmt.Sprintf("pong %d", m.Nonce)
	case *wire.MsgReject:
		return fmt.Sprintf("reject %s %d %s %s", c14Hex([]byte(m.Cmd)), uint8(m.Code), c14Hex([]byte(m.Reason)), c14Hex(m.Hash[:]))
	case *wire.MsgFeeFilter:
		return fmt.Sprintf("feefilter %d", uint64(m.MinFee))
	case *wire.MsgProtoconf:
		return fmt.Sprintf("protoconf %d %d", m.NumberOfFields, m.MaxRecvPayloadLength)
	}
	return ""
}

type c14Toks struct {
	t   []string
	err error
}

func (p *c14Toks) next() string {
	if len(p.t) == 0 {
		p.err = errors.New("short")
		return "0"
	}
	s := p.t[0]
	p.t = p.t[1:]
	return s
}

func (p *c14Toks) u(bits int) uint64 {
	v, err := strconv.ParseUint(p.next(), 10, bits)
	if err != nil {
		p.err = err
	}
	return v
}

func (p *c14Toks) hex() []byte {
	b, err := c14UnHex(p.next())
	if err != nil {
		p.err = err
	}
	return b
}

func (p *c14Toks) hash() chainhash.Hash {
	var h chainhash.Hash
	b := p.hex()
	if len(b) != 32 {
		p.err = errors.New("hash length")
	}
	copy(h[:], b)
	return h
}

func (p *c14Toks) na() wire.NetAddress {
	ts := p.u(64)
	sv := p.u(64)
	ip := p.hex()
	port := p.u(16)
	na := wire.NetAddress{Timestamp: c14MkTime(ts), Services: wire.ServiceFlag(sv), Port: uint16(port)}
	if ip != nil {
		na.IP = net.IP(ip)
	}
	return na
}

func (p *c14Toks) invList() []*wire.InvVect {
	n := int(p.u(32))
	l := make([]*wire.InvVect, 0, n)
	for i := 0; i < n && p.err == nil; i++ {
		t := p.u(32)
		h := p.hash()
		l = append(l, &wire.InvVect{Type: wire.InvType(t), Hash: h})
	}
	return l
}

// c14Parse reads the canonical text form back into a message value.
func c14Parse(toks []string) (wire.Message, error) {
	if len(toks) == 0 {
		return nil, errors.New("empty")
	}
	p := &c14Toks{t: toks[1:]}
	var m wire.Message
	switch toks[0] {
	case "version":
		v := &wire.MsgVersion{}
		v.ProtocolVersion = int32(uint32(p.u(32)))
		v.Services = wire.ServiceFlag(p.u(64))
		v.Timestamp = c14MkTime(p.u(64))
		v.AddrYou = p.na()
		v.AddrMe = p.na()
		v.Nonce = p.u(64)
		v.UserAgent = string(p.hex())
		v.LastBlock = int32(uint32(p.u(32)))
		v.DisableRelayTx = p.next() == "1"
		m = v
	case "verack":
		m = &wire.MsgVerAck{}
	case "getaddr":
		m = &wire.MsgGetAddr{}
	case "sendheaders":
		m = &wire.MsgSendHeaders{}
	case "mempool":
		m = &wire.MsgMemPool{}
	case "addr":
		a := &wire.MsgAddr{AddrList: []*wire.NetAddress{}}
		n := int(p.u(32))
		for i := 0; i < n && p.err == nil; i++ {
			na := p.na()
			a.AddrList = append(a.AddrList, &na)
		}
		m = a
	case "getheaders", "getblocks":
		pv := uint32(p.u(32))
		stop := p.hash()
		n := int(p.u(32))
		loc := make([]*chainhash.Hash, 0, n)
		for i := 0; i < n && p.err == nil; i++ {
			h := p.hash()
			loc = append(loc, &h)
		}
		if toks[0] == "getheaders" {
			m = &wire.MsgGetHeaders{ProtocolVersion: pv, BlockLocatorHashes: loc, HashStop: stop}
		} else {
			m = &wire.MsgGetBlocks{ProtocolVersion: pv, BlockLocatorHashes: loc, HashStop: stop}
		}
	case "headers":
		h := &wire.MsgHeaders{Headers: []*wire.BlockHeader{}}
		n := int(p.u(32))
		for i := 0; i < n && p.err == nil; i++ {
			bh := &wire.BlockHeader{}
			bh.Version = int32(uint32(p.u(32)))
			bh.PrevBlock = p.hash()
			bh.MerkleRoot = p.hash()
			bh.Timestamp = c14MkTime(p.u(64))
			bh.Bits = uint32(p.u(32))
			bh.Nonce = uint32(p.u(32))
			h.Headers = append(h.Headers, bh)
		}
		m = h
	case "inv":
		m = &wire.MsgInv{InvList: p.invList()}
	case "getdata":
		m = &wire.MsgGetData{InvList: p.invList()}
	case "notfound":
		m = &wire.MsgNotFound{InvList: p.invList()}
	case "ping":
		m = &wire.MsgPing{Nonce: p.u(64)}
	case "pong":
		m = &wire.MsgPong{Nonce: p.u(64)}
	case "reject":
		r := &wire.MsgReject{}
		r.Cmd = string(p.hex())
		r.Code = wire.RejectCode(p.u(8))
		r.Reason = string(p.hex())
		r.Hash = p.hash()
		m = r
	case "feefilter":
		m = &wire.MsgFeeFilter{MinFee: int64(p.u(64))}
	case "protoconf":
		m = &wire.MsgProtoconf{NumberOfFields: p.u(64), MaxRecvPayloadLength: uint32(p.u(32))}
	default:
		return nil, fmt.Errorf("unknown kind %q", toks[0])
	}
	if p.err != nil {
		return nil, p.err
	}
	if len(p.t) != 0 {
		return nil, errors.New("trailing tokens")
	}
	return m, nil
}

// ---------------------------------------------------------------------------
// well-formedness (Go statement of what the encoding can carry; compared with the model's WF by `wwf`)

func c14SecondTime(t time.Time) bool { return t.Nanosecond() == 0 }

func c14WFNA(na *wire.NetAddress, pver uint32, ts bool) bool {
	if len(na.IP) != 16 {
		return false
	}
	if ts && pver >= wire.NetAddressTimeVersion {
		u := na.Timestamp.Unix()
		return c14SecondTime(na.Timestamp) && u >= 0 && u < 1<<32
	}
	return na.Timestamp.Equal(time.Time{}) && c14SecondTime(na.Timestamp)
}

func c14WF(m wire.Message, pver uint32) bool {
	gmax := c14GlobalMax()
	invOK := func(l []*wire.InvVect) bool { return len(l) <= wire.MaxInvPerMsg }
	switch m := m.(type) {
	case *wire.MsgVersion:
		return c14SecondTime(m.Timestamp) && c14WFNA(&m.AddrYou, pver, false) && c14WFNA(&m.AddrMe, pver, false) &&
			len(m.UserAgent) <= wire.MaxUserAgentLen && (pver >= wire.BIP0037Version || !m.DisableRelayTx)
	case *wire.MsgVerAck, *wire.MsgGetAddr:
		return true
	case *wire.MsgAddr:
		if len(m.AddrList) > wire.MaxAddrPerMsg || (pver < wire.MultipleAddressVersion && len(m.AddrList) > 1) {
			return false
		}
		for _, na := range m.AddrList {
			if !c14WFNA(na, pver, true) {
				return false
			}
		}
		return true
	case *wire.MsgGetHeaders:
		return len(m.BlockLocatorHashes) <= wire.MaxBlockLocatorsPerMsg
	case *wire.MsgGetBlocks:
		return len(m.BlockLocatorHashes) <= wire.MaxBlockLocatorsPerMsg
	case *wire.MsgHeaders:
		if len(m.Headers) > wire.MaxBlockHeadersPerMsg {
			return false
		}
		for _, h := range m.Headers {
			u := h.Timestamp.Unix()
			if !c14SecondTime(h.Timestamp) || u < 0 || u >= 1<<32 {
				return false
			}
		}
		return true
	case *wire.MsgInv:
		return invOK(m.InvList)
	case *wire.MsgGetData:
		return invOK(m.InvList)
	case *wire.MsgNotFound:
		return invOK(m.InvList)
	case *wire.MsgPing:
		return pver > wire.BIP0031Version || m.Nonce == 0
	case *wire.MsgPong:
		return pver > wire.BIP0031Version
	case *wire.MsgReject:
		if pver < wire.RejectVersion || uint64(len(m.Cmd)) > uint64(gmax) || uint64(len(m.Reason)) > uint64(gmax) {
			return false
		}
		if m.Cmd == wire.CmdBlock || m.Cmd == wire.CmdTx {
			return true
		}
		return m.Hash == chainhash.Hash{}
	case *wire.MsgSendHeaders:
		return pver >= wire.SendHeadersVersion
	case *wire.MsgFeeFilter:
		return pver >= wire.FeeFilterVersion
	case *wire.MsgMemPool:
		return pver >= wire.BIP0035Version
	case *wire.MsgProtoconf:
		return pver >= wire.ProtoconfVerisosn && m.NumberOfFields == 0 && m.MaxRecvPayloadLength == 0
	}
	return false
}

// ---------------------------------------------------------------------------
// error classes

func c14Class(err error) string {
	if err == nil {
		return "ok"
	}
	if errors.Is(err, io.EOF) || errors.Is(err, io.ErrUnexpectedEOF) {
		return "eof"
	}
	var me *wire.MessageError
	if errors.As(err, &me) {
		d := me.Description
		switch {
		case me.Func == "ReadVarInt":
			return "noncanonical"
		case me.Func == "ReadVarString" || me.Func == "ReadVarBytes":
			return "toolong"
		case me.Func == "ReadMessage" && strings.HasPrefix(d, "message payload is too large"):
			return "oversize-global"
		case me.Func == "ReadMessage" && strings.HasPrefix(d, "message from other network"):
			return "magic"
		case me.Func == "ReadMessage" && (strings.HasPrefix(d, "invalid command") || strings.HasPrefix(d, "unhandled command")):
			return "badcmd"
		case me.Func == "ReadMessage" && strings.HasPrefix(d, "payload exceeds max length"):
			return "oversize-type"
		case me.Func == "ReadMessage" && strings.HasPrefix(d, "payload checksum failed"):
			return "checksum"
		case me.Func == "WriteMessage" && strings.HasPrefix(d, "command ["):
			return "cmdtoolong"
		case me.Func == "WriteMessage" && strings.Contains(d, "maximum message payload size for messages of type"):
			return "oversize-type"
		case me.Func == "WriteMessage" && strings.Contains(d, "maximum message payload is"):
			return "oversize-global"
		case strings.Contains(d, "invalid for protocol version"):
			return "badpver"
		case strings.HasPrefix(d, "too many addresses for message of protocol version"):
			return "addrpver"
		case strings.HasPrefix(d, "too many"):
			return "toomany"
		case strings.HasPrefix(d, "block headers may not contain transactions"):
			return "txcount"
		case strings.HasPrefix(d, "user agent too long"):
			return "useragent"
		}
		return "other:" + me.Func
	}
	return "other"
}

// ---------------------------------------------------------------------------
// guarded execution: recover, timeout, runtime.MemStats

type c14Run struct {
	ans      string
	alloc    uint64
	panicked string
	hung     bool
}

var c14Timeout = 60 * time.Second

// c14Guard runs f on its own goroutine (the only one doing work meanwhile), measuring the
// cumulative heap allocation (MemStats.TotalAlloc is exact after ReadMemStats' stop-the-world flush
// and is not affected by collections), converting a panic into an outcome and giving up after the timeout.
func c14Guard(measure bool, f func() string) c14Run {
	return c14Guard2(measure, func() func() string { s := f(); return func() string { return s } })
}

// c14Guard2: f is the measured work; the closure it returns (rendering of the result) runs after the measurement.
func c14Guard2(measure bool, f func() func() string) c14Run {
	ch := make(chan c14Run, 1)
	go func() {
		var r c14Run
		var m0, m1 runtime.MemStats
		defer func() {
			if p := recover(); p != nil {
				r.panicked = fmt.Sprint(p)
				r.ans = "panic"
			}
			ch <- r
		}()
		if measure {
			runtime.ReadMemStats(&m0)
		}
		render := f()
		if measure {
			runtime.ReadMemStats(&m1)
			r.alloc = m1.TotalAlloc - m0.TotalAlloc
		}
		r.ans = render()
	}()
	select {
	case r := <-ch:
		return r
	case <-time.After(c14Timeout):
		return c14Run{ans: "hang", hung: true}
	}
}

// ---------------------------------------------------------------------------
// implementation side of one op + the Go oracle

type c14Exec struct {
	readErrHung bool // a wreaderr call did not return: the remaining ones are skipped
	c       *Ctx
	fail    func(lib.Failure)
	measure bool
	nOracle int
	bigGC   int
}

func c14Encode(m wire.Message, pver uint32, enc wire.MessageEncoding) ([]byte, error) {
	var b bytes.Buffer
	err := m.BsvEncode(&b, pver, enc)
	return b.Bytes(), err
}

func c14Sig(kind, cmd string) string { return "c14-" + kind + "-" + cmd }

func (x *c14Exec) failure(op, what, expected, observed, sig string) {
	x.fail(lib.Failure{Case: c14Short(op), Ops: []string{op}, What: what, Expected: expected, Observed: observed, Signature: sig})
}

func c14Short(op string) string {
	if len(op) > 300 {
		return op[:300] + "…(" + strconv.Itoa(len(op)) + " chars)"
	}
	return op
}

// allocation clause: one decode of a frame/payload of command cmd stays within the declared limit.
func (x *c14Exec) checkAlloc(op, cmd string, pver uint32, declared uint64, r c14Run, stage string) {
	if !x.measure || !c14Negotiated(pver) {
		return
	}
	x.nOracle++
	bound := c14AllocFactor*declared + c14AllocSlack
	if r.alloc > bound {
		sig := c14Sig("alloc", cmd)
		what := fmt.Sprintf("decoding one %s %s allocated %d bytes although the declared payload limit of the command is %d bytes (bound used: %d x limit + %d)", cmd, stage, r.alloc, declared, c14AllocFactor, c14AllocSlack)
		if cmd == "version" {
			sig = "c14-alloc-version-useragent" // the signature of C14-F1 (repaired): a regression shows up under its old name
		}
		x.failure(op, what, fmt.Sprintf("<= %d", bound), fmt.Sprint(r.alloc), sig)
	}
	if r.alloc > 64<<20 {
		// keep the process small: drop the big buffer before the next case
		runtime.GC()
	}
}

func (x *c14Exec) checkCrash(op, cmd string, r c14Run) bool {
	x.nOracle++
	if r.panicked != "" {
		x.failure(op, "the codec panicked", "an error or a message", "panic: "+r.panicked, c14Sig("panic", cmd))
		return true
	}
	if r.hung {
		x.failure(op, fmt.Sprintf("the codec did not return within %s", c14Timeout), "an error or a message", "hang", c14Sig("hang", cmd))
		return true
	}
	return false
}

// bothEncodings runs f under every MessageEncoding value and demands one answer.
func (x *c14Exec) bothEncodings(op, cmd string, f func(enc wire.MessageEncoding) c14Run) c14Run {
	first := f(c14Encodings[0])
	for _, e := range c14Encodings[1:] {
		r := f(e)
		x.nOracle++
		if r.ans != first.ans {
			x.failure(op, "the answer depends on the MessageEncoding argument", c14Short(first.ans), c14Short(r.ans), c14Sig("encoding", cmd))
		}
		if r.alloc > first.alloc {
			first.alloc = r.alloc
		}
		if r.panicked != "" && first.panicked == "" {
			first.panicked = r.panicked
		}
		first.hung = first.hung || r.hung
	}
	return first
}

// exec returns the implementation's canonical answer to one op line (and runs the oracle).
func (x *c14Exec) exec(op string) string {
	w := strings.Fields(op)
	if len(w) < 2 {
		return "bad-args"
	}
	switch w[0] {
	case "wsha":
		b, err := c14UnHex(w[1])
		if err != nil {
			return "bad-args"
		}
		s := sha256.Sum256(b)
		return c14Hex(s[:])
	case "wwf", "wenc":
		pv, err := strconv.ParseUint(w[1], 10, 32)
		if err != nil {
			return "bad-args"
		}
		m, err := c14Parse(w[2:])
		if err != nil {
			return "bad-args"
		}
		if w[0] == "wwf" {
			if c14WF(m, uint32(pv)) {
				return "1"
			}
			return "0"
		}
		return x.execEnc(op, m, uint32(pv))
	case "wdec", "walloc":
		if len(w) != 4 {
			return "bad-args"
		}
		pv, err := strconv.ParseUint(w[1], 10, 32)
		b, err2 := c14UnHex(w[3])
		if err != nil || err2 != nil {
			return "bad-args"
		}
		return x.execDec(op, w[0] == "walloc", uint32(pv), w[2], b)
	case "wwrite":
		if len(w) < 4 {
			return "bad-args"
		}
		pv, err := strconv.ParseUint(w[1], 10, 32)
		nt, err2 := strconv.ParseUint(w[2], 10, 32)
		m, err3 := c14Parse(w[3:])
		if err != nil || err2 != nil || err3 != nil {
			return "bad-args"
		}
		return x.execWrite(op, m, uint32(pv), wire.BitcoinNet(nt))
	case "wframe", "wfalloc":
		if len(w) != 4 {
			return "bad-args"
		}
		pv, err := strconv.ParseUint(w[1], 10, 32)
		nt, err2 := strconv.ParseUint(w[2], 10, 32)
		b, err3 := c14UnHex(w[3])
		if err != nil || err2 != nil || err3 != nil {
			return "bad-args"
		}
		return x.execFrame(op, w[0] == "wfalloc", uint32(pv), wire.BitcoinNet(nt), b)
	case "wconcurrent":
		return x.parseConcurrent(op, w)
	case "wreaderr":
		return x.parseReadErr(op, w)
	case "wstream":
		if len(w) != 4 {
			return "bad-args"
		}
		pv, err := strconv.ParseUint(w[1], 10, 32)
		nt, err2 := strconv.ParseUint(w[2], 10, 32)
		b, err3 := c14UnHex(w[3])
		if err != nil || err2 != nil || err3 != nil {
			return "bad-args"
		}
		return x.execStream(op, uint32(pv), wire.BitcoinNet(nt), b)
	}
	return "bad-op"
}

// wenc: BsvEncode; oracle: a well-formed message encodes, decodes back to an equal message, and
// re-encoding the decoded message reproduces the bytes.
func (x *c14Exec) execEnc(op string, m wire.Message, pver uint32) string {
	cmd := m.Command()
	var encoded []byte
	r := x.bothEncodings(op, cmd, func(enc wire.MessageEncoding) c14Run {
		return c14Guard(false, func() string {
			b, err := c14Encode(m, pver, enc)
			if err != nil {
				return "err " + c14Class(err)
			}
			encoded = b
			return "ok " + c14Hex(b)
		})
	})
	if x.checkCrash(op, cmd, r) {
		return r.ans
	}
	if !c14WF(m, pver) {
		return r.ans
	}
	x.nOracle++
	if !strings.HasPrefix(r.ans, "ok") {
		x.failure(op, "a well-formed message does not encode", "ok", r.ans, c14Sig("roundtrip-encode", cmd))
		return r.ans
	}
	want := c14Render(m)
	for _, enc := range c14Encodings {
		var back wire.Message
		var again []byte
		d := c14Guard(false, func() string {
			back = c14New(cmd)
			if err := back.Bsvdecode(bytes.NewBuffer(append([]byte{}, encoded...)), pver, enc); err != nil {
				return "err " + c14Class(err)
			}
			b, err := c14Encode(back, pver, enc)
			if err != nil {
				return "reencode-err " + c14Class(err)
			}
			again = b
			return "ok " + c14Render(back)
		})
		if x.checkCrash(op, cmd, d) {
			continue
		}
		x.nOracle++
		if d.ans != "ok "+want {
			x.failure(op, "decode(encode(m)) differs from m", c14Short("ok "+want), c14Short(d.ans), c14Sig("roundtrip", cmd))
		} else if !bytes.Equal(again, encoded) {
			x.failure(op, "re-encoding the decoded message does not reproduce the bytes", c14Short(c14Hex(encoded)), c14Short(c14Hex(again)), c14Sig("reencode", cmd))
		}
	}
	return r.ans
}

func c14Declared(cmd string, pver uint32) uint64 {
	m := c14New(cmd)
	if m == nil {
		return 0
	}
	return uint64(m.MaxPayloadLength(pver))
}

// wdec / walloc: Bsvdecode of the command's type on arbitrary bytes.
func (x *c14Exec) execDec(op string, meterOnly bool, pver uint32, cmd string, payload []byte) string {
	if c14New(cmd) == nil {
		return "err badcmd"
	}
	r := x.bothEncodings(op, cmd, func(enc wire.MessageEncoding) c14Run {
		buf := bytes.NewBuffer(append([]byte{}, payload...))
		return c14Guard2(x.measure || meterOnly, func() func() string {
			m := c14New(cmd)
			err := m.Bsvdecode(buf, pver, enc)
			return func() string {
				if err != nil {
					return "err " + c14Class(err)
				}
				s := c14Render(m)
				if s == "" {
					return "ok unmodelled"
				}
				return "ok " + s
			}
		})
	})
	if x.checkCrash(op, cmd, r) {
		return r.ans
	}
	declared := c14Declared(cmd, pver)
	if uint64(len(payload)) > declared {
		declared = uint64(len(payload)) // called below the frame layer: the bytes handed over are the declared size
	}
	x.checkAlloc(op, cmd, pver, declared, r, "payload")
	if meterOnly {
		return fmt.Sprintf("measured %d %d", r.alloc, len(payload))
	}
	return r.ans
}

// wwrite: WriteMessage; oracle: header fields (computed here with crypto/sha256 and
// encoding/binary), and ReadMessage of the written frame gives the message back.
func (x *c14Exec) execWrite(op string, m wire.Message, pver uint32, net wire.BitcoinNet) string {
	cmd := m.Command()
	var frame []byte
	r := x.bothEncodings(op, cmd, func(enc wire.MessageEncoding) c14Run {
		return c14Guard(false, func() string {
			var b bytes.Buffer
			n, err := wire.WriteMessageWithEncodingN(&b, m, pver, net, enc)
			if err != nil {
				return "err " + c14Class(err)
			}
			if n != b.Len() {
				return fmt.Sprintf("err count %d != %d", n, b.Len())
			}
			frame = b.Bytes()
			return "ok " + c14Hex(frame)
		})
	})
	if x.checkCrash(op, cmd, r) {
		return r.ans
	}
	if !strings.HasPrefix(r.ans, "ok") {
		// a message within protocol limits at a negotiated version has a frame: a refusal to write it is
		// the first half of the round trip failing (e.g. a payload limit smaller than what the encoder emits)
		if c14WF(m, pver) && c14Negotiated(pver) {
			x.nOracle++
			x.failure(op, "WriteMessage refuses a message within protocol limits at a negotiated protocol version", "a frame", c14Short(r.ans), c14Sig("write-refused", cmd))
		}
		return r.ans
	}
	x.nOracle++
	payload, _ := c14Encode(m, pver, wire.BaseEncoding)
	h1 := sha256.Sum256(payload)
	h2 := sha256.Sum256(h1[:])
	var hdr [24]byte
	binary.LittleEndian.PutUint32(hdr[0:], uint32(net))
	copy(hdr[4:16], cmd)
	binary.LittleEndian.PutUint32(hdr[16:], uint32(len(payload)))
	copy(hdr[20:], h2[:4])
	if !bytes.Equal(frame, append(hdr[:], payload...)) {
		x.failure(op, "the written frame is not magic|command|length|checksum|payload", c14Short(c14Hex(append(hdr[:], payload...))), c14Short(c14Hex(frame)), c14Sig("frame-layout", cmd))
	}
	if c14WF(m, pver) {
		want := c14Render(m)
		for _, enc := range c14Encodings {
			d := c14Guard(false, func() string {
				rd := bytes.NewReader(frame)
				n, back, raw, err := wire.ReadMessageWithEncodingN(rd, pver, net, enc)
				if err != nil {
					return "err " + c14Class(err)
				}
				if n != len(frame) || rd.Len() != 0 || !bytes.Equal(raw, payload) {
					return "ok-but-wrong-byte-count"
				}
				return "ok " + c14Render(back)
			})
			if x.checkCrash(op, cmd, d) {
				continue
			}
			x.nOracle++
			if d.ans != "ok "+want {
				x.failure(op, "ReadMessage(WriteMessage(m)) differs from m", c14Short("ok "+want), c14Short(d.ans), c14Sig("frame-roundtrip", cmd))
			}
		}
	}
	return r.ans
}

// wframe / wfalloc: ReadMessage on an arbitrary byte stream.
func (x *c14Exec) execFrame(op string, meterOnly bool, pver uint32, net wire.BitcoinNet, bs []byte) string {
	cmdName := "?"
	var hdrLen uint32
	var hdrMagic uint32
	known := false
	if len(bs) >= 24 {
		hdrMagic = binary.LittleEndian.Uint32(bs[0:])
		cmdName = string(bytes.TrimRight(bs[4:16], "\x00"))
		hdrLen = binary.LittleEndian.Uint32(bs[16:])
		known = c14New(cmdName) != nil
	}
	sigCmd := cmdName
	if !known {
		sigCmd = "unknown"
	}
	var accepted wire.Message
	var consumed int
	var raw []byte
	r := x.bothEncodings(op, sigCmd, func(enc wire.MessageEncoding) c14Run {
		rd := bytes.NewReader(bs)
		return c14Guard2(x.measure || meterOnly, func() func() string {
			n, m, p, err := wire.ReadMessageWithEncodingN(rd, pver, net, enc)
			return func() string {
				if err != nil {
					return "err " + c14Class(err)
				}
				accepted, consumed, raw = m, n, p
				s := c14Render(m)
				if s == "" {
					return fmt.Sprintf("ok %d unmodelled", n)
				}
				return fmt.Sprintf("ok %d %s", n, s)
			}
		})
	})
	if x.checkCrash(op, sigCmd, r) {
		return r.ans
	}
	// allocation clause: the declared limit is that of the header's command (0 when the frame names none)
	declared := uint64(0)
	if known && hdrMagic == uint32(net) {
		declared = c14Declared(cmdName, pver)
	}
	x.checkAlloc(op, sigCmd, pver, declared, r, "frame")
	// rejection clauses, stated on the raw header independently of the implementation's parsing
	ok := strings.HasPrefix(r.ans, "ok")
	x.nOracle++
	switch {
	case len(bs) < 24:
		if ok {
			x.failure(op, "a stream shorter than a header was accepted", "error", c14Short(r.ans), "c14-accept-short")
		}
	case hdrMagic != uint32(net):
		if ok {
			x.failure(op, "a frame with the wrong network magic was accepted", "error", c14Short(r.ans), "c14-accept-magic")
		}
	case !known:
		if ok {
			x.failure(op, "a frame with an unknown command was accepted", "error", c14Short(r.ans), "c14-accept-unknown-command")
		}
	case hdrLen > c14GlobalMax() || uint64(hdrLen) > c14Declared(cmdName, pver):
		if ok {
			x.failure(op, "a frame with an oversize length was accepted", "error", c14Short(r.ans), "c14-accept-oversize")
		}
	case uint64(len(bs)) < 24+uint64(hdrLen):
		if ok {
			x.failure(op, "a truncated frame was accepted", "error", c14Short(r.ans), "c14-accept-truncated")
		}
	default:
		payload := bs[24 : 24+int(hdrLen)]
		h1 := sha256.Sum256(payload)
		h2 := sha256.Sum256(h1[:])
		if !bytes.Equal(h2[:4], bs[20:24]) {
			if ok {
				x.failure(op, "a frame with a bad checksum was accepted", "error", c14Short(r.ans), "c14-accept-checksum")
			}
		} else if ok {
			want := cmdName
			if want == "authch" {
				want = "protoconf" // makeEmptyMessage maps authch to MsgProtoconf
			}
			if consumed != 24+int(hdrLen) || !bytes.Equal(raw, payload) || accepted.Command() != want {
				x.failure(op, "an accepted frame reports the wrong byte count / payload / command", fmt.Sprintf("%d bytes of %s", 24+int(hdrLen), want),
					fmt.Sprintf("%d bytes of %s", consumed, accepted.Command()), c14Sig("frame-accept", sigCmd))
			}
		}
	}
	if meterOnly {
		return fmt.Sprintf("measured %d %d", r.alloc, len(bs))
	}
	return r.ans
}

// ---------------------------------------------------------------------------
// generators

type c14Gen struct {
	rng *rand.Rand
	c   *Ctx
}

func (g *c14Gen) u64() uint64 {
	switch g.rng.Intn(8) {
	case 0:
		return 0
	case 1:
		return 1<<64 - 1
	case 2:
		return uint64(g.rng.Intn(256))
	case 3:
		return 1 << uint(g.rng.Intn(64))
	}
	return g.rng.Uint64()
}

func (g *c14Gen) u32() uint32 {
	switch g.rng.Intn(8) {
	case 0:
		return 0
	case 1:
		return 1<<32 - 1
	case 2:
		return 1 << 31
	case 3:
		return uint32(g.rng.Intn(256))
	}
	return g.rng.Uint32()
}

func (g *c14Gen) bytesN(n int) []byte {
	b := make([]byte, n)
	g.rng.Read(b)
	return b
}

func (g *c14Gen) hash() chainhash.Hash {
	var h chainhash.Hash
	switch g.rng.Intn(6) {
	case 0:
	case 1:
		for i := range h {
			h[i] = 0xff
		}
	default:
		g.rng.Read(h[:])
	}
	return h
}

// time32: a second-precision time in the range a uint32 field carries
func (g *c14Gen) time32() time.Time { return time.Unix(int64(g.u32()), 0) }

func (g *c14Gen) na(pver uint32, ts bool) *wire.NetAddress {
	na := &wire.NetAddress{Services: wire.ServiceFlag(g.u64()), IP: net.IP(g.bytesN(16)), Port: uint16(g.u32())}
	if g.rng.Intn(4) == 0 {
		na.IP = net.IPv4(byte(g.rng.Intn(256)), byte(g.rng.Intn(256)), 0, 1) // 16-byte v4-mapped form
	}
	if ts && pver >= wire.NetAddressTimeVersion {
		na.Timestamp = g.time32()
	}
	return na
}

// count draws a list length: mostly small, sometimes medium, occasionally exactly the limit.
func (g *c14Gen) count(limit int, allowMax bool) int {
	switch r := g.rng.Intn(40); {
	case r < 4:
		return 0
	case r < 28:
		return 1 + g.rng.Intn(4)
	case r < 36:
		return 5 + g.rng.Intn(60)
	case r < 39 || !allowMax:
		m := 400
		if limit < m {
			m = limit
		}
		return g.rng.Intn(m + 1)
	}
	return limit
}

func (g *c14Gen) invs(n int) []*wire.InvVect {
	l := make([]*wire.InvVect, 0, n)
	for i := 0; i < n; i++ {
		t := wire.InvType(g.rng.Intn(4))
		if g.rng.Intn(5) == 0 {
			t = wire.InvType(g.u32())
		}
		l = append(l, &wire.InvVect{Type: t, Hash: g.hash()})
	}
	return l
}

func (g *c14Gen) hashes(n int) []*chainhash.Hash {
	l := make([]*chainhash.Hash, 0, n)
	for i := 0; i < n; i++ {
		h := g.hash()
		l = append(l, &h)
	}
	return l
}

var c14RejectCmds = []string{"block", "tx", "version", "", "headers", "blockx", "tx\x00", "Block"}

// wf builds a random message of the kind that is well-formed for pver whenever the kind exists at pver.
func (g *c14Gen) wf(kind string, pver uint32, big bool) wire.Message {
	switch kind {
	case "version":
		ua := ""
		switch g.rng.Intn(5) {
		case 0:
		case 1:
			ua = string(g.bytesN(wire.MaxUserAgentLen))
		case 2:
			ua = wire.DefaultUserAgent
		case 3:
			ua = string(g.bytesN(252 + g.rng.Intn(4))) // around the 0xfd var-int boundary
		default:
			ua = string(g.bytesN(g.rng.Intn(64)))
		}
		m := &wire.MsgVersion{ProtocolVersion: int32(g.u32()), Services: wire.ServiceFlag(g.u64()), Timestamp: time.Unix(int64(g.u64()), 0),
			AddrYou: *g.na(pver, false), AddrMe: *g.na(pver, false), Nonce: g.u64(), UserAgent: ua, LastBlock: int32(g.u32())}
		if g.rng.Intn(3) == 0 {
			m.Timestamp = time.Unix(time.Now().Unix(), 0)
		}
		if pver >= wire.BIP0037Version {
			m.DisableRelayTx = g.rng.Intn(2) == 0
		}
		return m
	case "verack":
		return &wire.MsgVerAck{}
	case "getaddr":
		return &wire.MsgGetAddr{}
	case "sendheaders":
		return &wire.MsgSendHeaders{}
	case "mempool":
		return &wire.MsgMemPool{}
	case "addr":
		n := g.count(wire.MaxAddrPerMsg, big)
		if pver < wire.MultipleAddressVersion && n > 1 {
			n = 1
		}
		m := &wire.MsgAddr{AddrList: []*wire.NetAddress{}}
		for i := 0; i < n; i++ {
			m.AddrList = append(m.AddrList, g.na(pver, true))
		}
		return m
	case "getheaders":
		return &wire.MsgGetHeaders{ProtocolVersion: g.u32(), BlockLocatorHashes: g.hashes(g.count(wire.MaxBlockLocatorsPerMsg, big)), HashStop: g.hash()}
	case "getblocks":
		return &wire.MsgGetBlocks{ProtocolVersion: g.u32(), BlockLocatorHashes: g.hashes(g.count(wire.MaxBlockLocatorsPerMsg, big)), HashStop: g.hash()}
	case "headers":
		n := g.count(wire.MaxBlockHeadersPerMsg, big)
		m := &wire.MsgHeaders{Headers: []*wire.BlockHeader{}}
		for i := 0; i < n; i++ {
			m.Headers = append(m.Headers, &wire.BlockHeader{Version: int32(g.u32()), PrevBlock: g.hash(), MerkleRoot: g.hash(), Timestamp: g.time32(), Bits: g.u32(), Nonce: g.u32()})
		}
		return m
	case "inv":
		return &wire.MsgInv{InvList: g.invs(g.count(wire.MaxInvPerMsg, false))}
	case "getdata":
		return &wire.MsgGetData{InvList: g.invs(g.count(wire.MaxInvPerMsg, false))}
	case "notfound":
		return &wire.MsgNotFound{InvList: g.invs(g.count(wire.MaxInvPerMsg, false))}
	case "ping":
		if pver > wire.BIP0031Version {
			return &wire.MsgPing{Nonce: g.u64()}
		}
		return &wire.MsgPing{}
	case "pong":
		return &wire.MsgPong{Nonce: g.u64()}
	case "reject":
		m := &wire.MsgReject{Cmd: c14RejectCmds[g.rng.Intn(len(c14RejectCmds))], Code: wire.RejectCode(g.rng.Intn(256)), Reason: string(g.bytesN(g.rng.Intn(40)))}
		if g.rng.Intn(6) == 0 {
			m.Reason = string(g.bytesN(250 + g.rng.Intn(10)))
		}
		if g.rng.Intn(12) == 0 {
			m.Reason = string(g.bytesN(65530 + g.rng.Intn(12)))
		}
		if m.Cmd == wire.CmdBlock || m.Cmd == wire.CmdTx {
			m.Hash = g.hash()
		}
		return m
	case "feefilter":
		return &wire.MsgFeeFilter{MinFee: int64(g.u64())}
	case "protoconf":
		return &wire.MsgProtoconf{}
	}
	panic("kind " + kind)
}

// spoil turns a well-formed message into one that violates (at most) one clause of WF.
func (g *c14Gen) spoil(m wire.Message, pver uint32) wire.Message {
	switch m := m.(type) {
	case *wire.MsgVersion:
		switch g.rng.Intn(7) {
		case 0:
			m.UserAgent = string(g.bytesN(wire.MaxUserAgentLen + 1 + g.rng.Intn(3)))
		case 1:
			m.DisableRelayTx = true
		case 2:
			m.AddrYou.IP = nil
		case 3:
			m.AddrMe.IP = net.IP(g.bytesN(4))
		case 4:
			m.AddrYou.IP = net.IP(g.bytesN(5))
		case 5:
			m.AddrMe.Timestamp = g.time32()
		case 6:
			m.AddrYou.Timestamp = time.Unix(0, 0)
		}
	case *wire.MsgAddr:
		switch g.rng.Intn(5) {
		case 0:
			for len(m.AddrList) < wire.MaxAddrPerMsg+1 {
				m.AddrList = append(m.AddrList, g.na(pver, true))
			}
		case 1:
			for len(m.AddrList) < 2 {
				m.AddrList = append(m.AddrList, g.na(pver, true))
			}
		case 2:
			m.AddrList = append(m.AddrList, &wire.NetAddress{Timestamp: g.time32(), IP: net.IP(g.bytesN(4)), Port: 1})
		case 3:
			m.AddrList = append(m.AddrList, &wire.NetAddress{Timestamp: time.Unix(1<<32+int64(g.rng.Intn(1000)), 0), IP: net.IP(g.bytesN(16))})
		case 4:
			m.AddrList = append(m.AddrList, &wire.NetAddress{IP: net.IP(g.bytesN(16)), Services: 1}) // zero time where a timestamp is carried
		}
	case *wire.MsgGetHeaders:
		m.BlockLocatorHashes = g.hashes(wire.MaxBlockLocatorsPerMsg + 1)
	case *wire.MsgGetBlocks:
		m.BlockLocatorHashes = g.hashes(wire.MaxBlockLocatorsPerMsg + 1 + g.rng.Intn(3))
	case *wire.MsgHeaders:
		if g.rng.Intn(2) == 0 {
			for len(m.Headers) < wire.MaxBlockHeadersPerMsg+1 {
				m.Headers = append(m.Headers, &wire.BlockHeader{Timestamp: g.time32()})
			}
		} else {
			m.Headers = append(m.Headers, &wire.BlockHeader{Timestamp: time.Unix(1<<32+5, 0)}, &wire.BlockHeader{})
		}
	case *wire.MsgPing:
		m.Nonce = g.u64() | 1
	case *wire.MsgReject:
		m.Cmd = "notblock"
		m.Hash = g.hash()
		m.Hash[3] = 1
	}
	return m
}

func c14Op(name string, pver uint32, m wire.Message) string {
	return fmt.Sprintf("%s %d %s", name, pver, c14Render(m))
}

func c14Frame(net wire.BitcoinNet, cmd string, payload []byte) []byte {
	h1 := sha256.Sum256(payload)
	h2 := sha256.Sum256(h1[:])
	var hdr [24]byte
	binary.LittleEndian.PutUint32(hdr[0:], uint32(net))
	copy(hdr[4:16], cmd)
	binary.LittleEndian.PutUint32(hdr[16:], uint32(len(payload)))
	copy(hdr[20:], h2[:4])
	return append(hdr[:], payload...)
}

func c14FixChecksum(f []byte) {
	if len(f) < 24 {
		return
	}
	h1 := sha256.Sum256(f[24:])
	h2 := sha256.Sum256(h1[:])
	copy(f[20:24], h2[:4])
}

func c14VarInt(v uint64) []byte {
	var b bytes.Buffer
	_ = wire.WriteVarInt(&b, 0, v)
	return b.Bytes()
}

// non-canonical and inflated var-ints
func (g *c14Gen) hostileVarInt() []byte {
	switch g.rng.Intn(10) {
	case 0:
		return []byte{0xfd, byte(g.rng.Intn(0xfd)), 0}
	case 1:
		return []byte{0xfe, 0xff, 0xff, 0, 0}
	case 2:
		return []byte{0xff, 0xff, 0xff, 0xff, 0xff, 0, 0, 0, 0}
	case 3:
		return c14VarInt(uint64(c14GlobalMax()) - uint64(g.rng.Intn(2)))
	case 4:
		return c14VarInt(uint64(c14GlobalMax()) + 1)
	case 5:
		return c14VarInt(g.rng.Uint64() | 1<<63)
	case 6:
		lim := []uint64{wire.MaxInvPerMsg, wire.MaxBlockHeadersPerMsg, wire.MaxBlockLocatorsPerMsg, wire.MaxAddrPerMsg, wire.MaxUserAgentLen}
		return c14VarInt(lim[g.rng.Intn(len(lim))] + uint64(g.rng.Intn(2)))
	case 7:
		return c14VarInt(uint64(0xfffffff))
	}
	return c14VarInt(uint64(g.rng.Intn(70000)))
}

// offsets at which the payload of a valid message of the command holds a count / length var-int
func c14VarIntOffsets(cmd string, pver uint32, payload []byte) []int {
	switch cmd {
	case "addr", "headers", "inv", "getdata", "notfound", "reject", "filteradd", "filterload":
		return []int{0}
	case "getheaders", "getblocks", "tx":
		return []int{4}
	case "version":
		return []int{80}
	case "block":
		return []int{80}
	case "cfheaders", "cfilter":
		return []int{65, 33}
	case "merkleblock":
		return []int{84}
	case "cfcheckpt":
		return []int{33}
	}
	return nil
}

// mutate returns a hostile variant of a valid frame; kind names the mutation class.
func (g *c14Gen) mutate(f []byte, cmd string, pver uint32, pool [][]byte) (string, []byte) {
	out := append([]byte{}, f...)
	payloadLen := len(f) - 24
	switch g.rng.Intn(12) {
	case 0: // bit flip in the header
		i := g.rng.Intn(24)
		out[i] ^= 1 << uint(g.rng.Intn(8))
		return "bitflip-header", out
	case 1, 2: // bit flips in the payload, checksum kept or repaired
		if payloadLen == 0 {
			out[4+g.rng.Intn(12)] ^= 1 << uint(g.rng.Intn(8))
			return "bitflip-header", out
		}
		for k := 1 + g.rng.Intn(3); k > 0; k-- {
			out[24+g.rng.Intn(payloadLen)] ^= 1 << uint(g.rng.Intn(8))
		}
		if g.rng.Intn(4) != 0 {
			c14FixChecksum(out)
			return "bitflip-payload", out
		}
		return "bitflip-payload-stale-checksum", out
	case 3: // truncation of the stream
		return "truncate-stream", out[:g.rng.Intn(len(out)+1)]
	case 4: // truncation of the payload with a consistent header
		if payloadLen == 0 {
			return "truncate-stream", out[:g.rng.Intn(len(out)+1)]
		}
		return "truncate-payload", c14Frame(wire.BitcoinNet(binary.LittleEndian.Uint32(f)), cmd, f[24:24+g.rng.Intn(payloadLen)])
	case 5: // length-field inflation / deflation
		decl := c14Declared(cmd, pver)
		cands := []uint64{uint64(payloadLen) + 1, uint64(payloadLen) + uint64(g.rng.Intn(1000)), decl, decl + 1, uint64(c14GlobalMax()), uint64(c14GlobalMax()) + 1, 1<<32 - 1, uint64(g.rng.Uint32())}
		if payloadLen > 0 {
			cands = append(cands, uint64(g.rng.Intn(payloadLen)))
		}
		binary.LittleEndian.PutUint32(out[16:], uint32(cands[g.rng.Intn(len(cands))]))
		return "length-field", out
	case 6, 7: // count / length var-int inflation inside the payload
		offs := c14VarIntOffsets(cmd, pver, f[24:])
		if len(offs) > 0 {
			off := offs[g.rng.Intn(len(offs))]
			if off < payloadLen {
				p := f[24:]
				old, err := wire.ReadVarInt(bytes.NewReader(p[off:]), 0)
				oldLen := 1
				if err == nil {
					oldLen = wire.VarIntSerializeSize(old)
				}
				if off+oldLen <= len(p) {
					np := append(append(append([]byte{}, p[:off]...), g.hostileVarInt()...), p[off+oldLen:]...)
					return "varint-inflation", c14Frame(wire.BitcoinNet(binary.LittleEndian.Uint32(f)), cmd, np)
				}
			}
		}
		// no var-int in this kind: prepend one
		return "varint-inflation", c14Frame(wire.BitcoinNet(binary.LittleEndian.Uint32(f)), cmd, append(g.hostileVarInt(), f[24:]...))
	case 8: // splice: this header's command over another frame's payload (consistent length / checksum)
		o := pool[g.rng.Intn(len(pool))]
		return "splice-payload", c14Frame(wire.BitcoinNet(binary.LittleEndian.Uint32(f)), cmd, o[24:])
	case 9: // splice: head of one payload + tail of another
		o := pool[g.rng.Intn(len(pool))]
		a, b := f[24:], o[24:]
		np := append(append([]byte{}, a[:g.rng.Intn(len(a)+1)]...), b[g.rng.Intn(len(b)+1):]...)
		return "splice-mix", c14Frame(wire.BitcoinNet(binary.LittleEndian.Uint32(f)), cmd, np)
	case 10: // random payload under a valid header
		n := g.rng.Intn(200)
		if g.rng.Intn(6) == 0 {
			n = g.rng.Intn(3000)
		}
		return "random-payload", c14Frame(wire.BitcoinNet(binary.LittleEndian.Uint32(f)), cmd, g.bytesN(n))
	}
	// command field damage: embedded NUL, non-UTF-8, case, unknown names
	names := []string{"ver\x00ack", "\xff\xfe", "Version", "versio", "versionx", "", "getheaders\x00x", "authch\x01", "zzzzzzzzzzzz", "protoconfx"}
	var c [12]byte
	if g.rng.Intn(2) == 0 {
		// the frame's own (known) command moved inside the 12-byte field: leading NULs / spaces, NUL in front and
		// behind, trailing space — only an exact name padded with NULs on the right is a command of the table
		pads := []string{"\x00", "\x00\x00", " ", "\t"}
		pad := pads[g.rng.Intn(len(pads))]
		var nm string
		switch g.rng.Intn(3) {
		case 0:
			nm = pad + cmd
		case 1:
			nm = cmd + " "
		default:
			nm = pad + cmd + pad
		}
		if len(nm) <= 12 {
			copy(c[:], nm)
			copy(out[4:16], c[:])
			return "command-field-shifted", out
		}
	}
	copy(c[:], names[g.rng.Intn(len(names))])
	copy(out[4:16], c[:])
	return "command-field", out
}

// unmodelledPayload builds a small, mostly valid payload for a command outside the 16 kinds, so that
// mutation reaches its decoder's count checks.
func (g *c14Gen) unmodelledPayload(cmd string) []byte {
	var b bytes.Buffer
	h := func() { x := g.hash(); b.Write(x[:]) }
	switch cmd {
	case "block", "merkleblock":
		b.Write(g.bytesN(80))
		if cmd == "block" {
			b.Write(c14VarInt(0))
		} else {
			b.Write(g.bytesN(4))
			b.Write(c14VarInt(1))
			h()
			b.Write(c14VarInt(1))
			b.WriteByte(1)
		}
	case "tx":
		b.Write([]byte{1, 0, 0, 0})
		b.Write(c14VarInt(1))
		h()
		b.Write([]byte{0, 0, 0, 0})
		b.Write(c14VarInt(2))
		b.Write([]byte{0x51, 0x52})
		b.Write([]byte{0xff, 0xff, 0xff, 0xff})
		b.Write(c14VarInt(1))
		b.Write(g.bytesN(8))
		b.Write(c14VarInt(1))
		b.WriteByte(0x51)
		b.Write([]byte{0, 0, 0, 0})
	case "filteradd":
		b.Write(c14VarInt(4))
		b.Write(g.bytesN(4))
	case "filterload":
		b.Write(c14VarInt(8))
		b.Write(g.bytesN(8))
		b.Write(g.bytesN(9))
	case "filterclear":
	case "getcfilters":
		b.WriteByte(0)
		b.Write(g.bytesN(4))
		h()
	case "getcfheaders":
		b.WriteByte(0)
		b.Write(g.bytesN(4))
		h()
	case "getcfcheckpt":
		b.WriteByte(0)
		h()
	case "cfilter":
		b.WriteByte(0)
		h()
		b.Write(c14VarInt(5))
		b.Write(g.bytesN(5))
	case "cfheaders":
		b.WriteByte(0)
		h()
		h()
		b.Write(c14VarInt(2))
		h()
		h()
	case "cfcheckpt":
		b.WriteByte(0)
		h()
		b.Write(c14VarInt(2))
		h()
		h()
	case "protoconf", "authch":
		switch g.rng.Intn(3) {
		case 0:
			b.Write(c14VarInt(1))
			b.Write(g.bytesN(4))
		case 1:
			b.Write(g.bytesN(g.rng.Intn(64)))
		default:
			b.Write(g.bytesN(12))
		}
	}
	return b.Bytes()
}

// ---------------------------------------------------------------------------
// the run

type c14Case struct {
	op      string
	class   string // distribution key
	nontriv bool
}

func (g *c14Gen) generate() []c14Case {
	var cases []c14Case
	add := func(op, class string, nontriv bool) { cases = append(cases, c14Case{op, class, nontriv}) }
	thorough := g.c.Thorough
	net := wire.MainNet
	nets := []wire.BitcoinNet{wire.MainNet, wire.TestNet, wire.TestNet3, wire.SimNet}
	allPvers := append(append([]uint32{}, c14Pvers...), c14PversOutside...)

	// SHA-256 of the model against crypto/sha256 (standard vectors and block boundaries)
	for _, n := range []int{0, 1, 3, 55, 56, 57, 63, 64, 65, 119, 120, 127, 128, 1000} {
		b := g.bytesN(n)
		if n == 3 {
			b = []byte("abc")
		}
		add("wsha "+c14Hex(b), "sha256", n > 0)
	}

	// (a) round trip of well-formed messages, all kinds x pvers; near-well-formed variants
	perKind := 16
	if thorough {
		perKind = 60
	}
	var pool [][]byte // valid frames for the mutation stream, with their command / pver
	type src struct {
		f    []byte
		cmd  string
		pver uint32
	}
	var srcs []src
	for _, pver := range allPvers {
		n := perKind
		if !c14Negotiated(pver) {
			n = (perKind + 2) / 3
		}
		for _, kind := range append(append([]string{}, c14Kinds...), "protoconf") {
			for i := 0; i < n; i++ {
				m := g.wf(kind, pver, thorough || i == 0)
				if g.rng.Intn(5) == 0 {
					m = g.spoil(m, pver)
				}
				txt := c14Render(m)
				nontriv := strings.ContainsRune(txt, ' ')
				add(fmt.Sprintf("wwf %d %s", pver, txt), "wf-predicate", nontriv)
				add(fmt.Sprintf("wenc %d %s", pver, txt), "roundtrip:"+kind, nontriv)
				if i%2 == 0 {
					nt := nets[g.rng.Intn(len(nets))]
					add(fmt.Sprintf("wwrite %d %d %s", pver, uint32(nt), txt), "frame-roundtrip:"+kind, true)
				}
				if c14WF(m, pver) && len(txt) < 40000 {
					var b bytes.Buffer
					if err := wire.WriteMessage(&b, m, pver, net); err == nil {
						srcs = append(srcs, src{b.Bytes(), m.Command(), pver})
						pool = append(pool, b.Bytes())
					}
				}
			}
		}
	}
	// the largest lists once (inv at its limit is 1.8 MB on the wire)
	maxHeaders := &wire.MsgHeaders{}
	for i := 0; i < wire.MaxBlockHeadersPerMsg; i++ {
		maxHeaders.Headers = append(maxHeaders.Headers, &wire.BlockHeader{Version: int32(g.u32()), PrevBlock: g.hash(), MerkleRoot: g.hash(), Timestamp: g.time32(), Bits: g.u32(), Nonce: g.u32()})
	}
	bigs := []wire.Message{&wire.MsgInv{InvList: g.invs(wire.MaxInvPerMsg)}, maxHeaders}
	if thorough {
		bigs = append(bigs, &wire.MsgGetData{InvList: g.invs(wire.MaxInvPerMsg + 1)}, &wire.MsgNotFound{InvList: g.invs(wire.MaxInvPerMsg)})
	}
	for _, m := range bigs {
		add(c14Op("wenc", 70013, m), "roundtrip:"+m.Command()+":max", true)
		add(fmt.Sprintf("wwrite %d %d %s", 70013, uint32(net), c14Render(m)), "frame-roundtrip:"+m.Command()+":max", true)
	}

	// every list at, just under and just over its count limit at EVERY negotiated protocol version: the
	// per-command payload limit depends on pver (time stamp of a net address from 31402 on), so a limit that
	// is off at one threshold only shows with a near-maximal list at exactly that version
	for _, pver := range c14Pvers {
		for _, d := range []int{-1, 0, 1} {
			am := &wire.MsgAddr{AddrList: []*wire.NetAddress{}}
			for i := 0; i < wire.MaxAddrPerMsg+d; i++ {
				am.AddrList = append(am.AddrList, g.na(pver, true))
			}
			lims := []wire.Message{am,
				&wire.MsgGetHeaders{ProtocolVersion: g.u32(), BlockLocatorHashes: g.hashes(wire.MaxBlockLocatorsPerMsg + d), HashStop: g.hash()},
				&wire.MsgGetBlocks{ProtocolVersion: g.u32(), BlockLocatorHashes: g.hashes(wire.MaxBlockLocatorsPerMsg + d), HashStop: g.hash()}}
			for _, m := range lims {
				add(c14Op("wenc", pver, m), "roundtrip:"+m.Command()+":limit", true)
				add(fmt.Sprintf("wwrite %d %d %s", pver, uint32(net), c14Render(m)), "frame-roundtrip:"+m.Command()+":limit", true)
			}
		}
	}

	// valid frames of the commands outside the 16 kinds (and protoconf / authch)
	for _, cmd := range c14Commands {
		isKind := false
		for _, k := range c14Kinds {
			isKind = isKind || k == cmd
		}
		if isKind {
			continue
		}
		for i := 0; i < 3; i++ {
			f := c14Frame(net, cmd, g.unmodelledPayload(cmd))
			srcs = append(srcs, src{f, cmd, 70013})
			pool = append(pool, f)
			add(fmt.Sprintf("wframe %d %d %s", 70013, uint32(net), c14Hex(f)), "frame-valid:"+cmd, true)
		}
	}

	// one valid frame of every command with the name moved one byte to the right inside the command field
	seenCmd := map[string]bool{}
	for _, sr := range srcs {
		if seenCmd[sr.cmd] || len(sr.cmd) > 11 || len(sr.f) < 24 {
			continue
		}
		seenCmd[sr.cmd] = true
		f := append([]byte{}, sr.f...)
		var cf [12]byte
		copy(cf[1:], sr.cmd)
		copy(f[4:16], cf[:])
		add(fmt.Sprintf("wframe %d %d %s", sr.pver, binary.LittleEndian.Uint32(f), c14Hex(f)), "mutation:command-field-shifted:"+sr.cmd, true)
	}

	// (b) mutation stream over every command
	perSrc := 3
	if thorough {
		perSrc = 12
	}
	for _, s := range srcs {
		heavy := s.cmd == "tx" || s.cmd == "block" || s.cmd == "merkleblock" || s.cmd == "cfcheckpt" || s.cmd == "cfheaders"
		for i := 0; i < perSrc; i++ {
			kind, f := g.mutate(s.f, s.cmd, s.pver, pool)
			if heavy && kind == "varint-inflation" && g.rng.Intn(4) != 0 {
				continue // decoders of block/tx allocate up to hundreds of MB per case: keep a sample
			}
			pv := s.pver
			if g.rng.Intn(8) == 0 {
				pv = allPvers[g.rng.Intn(len(allPvers))]
			}
			nt := net
			if g.rng.Intn(16) == 0 {
				nt = nets[1+g.rng.Intn(3)]
			}
			add(fmt.Sprintf("wframe %d %d %s", pv, uint32(nt), c14Hex(f)), "mutation:"+kind, len(f) >= 24 && !bytes.Equal(f, s.f))
			// the same payload directly at Bsvdecode level (no frame limits in the way)
			if len(f) > 24 && i%3 == 0 {
				add(fmt.Sprintf("wdec %d %s %s", pv, s.cmd, c14Hex(f[24:])), "mutation-payload:"+kind, true)
			}
		}
	}
	// raw random byte streams, and random payloads for every command at every pver
	nraw := 1000
	if thorough {
		nraw = 5000
	}
	for i := 0; i < nraw; i++ {
		b := g.bytesN(g.rng.Intn(120))
		if g.rng.Intn(2) == 0 && len(b) >= 4 {
			binary.LittleEndian.PutUint32(b, uint32(net))
		}
		add(fmt.Sprintf("wframe %d %d %s", allPvers[g.rng.Intn(len(allPvers))], uint32(net), c14Hex(b)), "random-stream", len(b) >= 24)
		cmd := c14Commands[g.rng.Intn(len(c14Commands))]
		add(fmt.Sprintf("wdec %d %s %s", allPvers[g.rng.Intn(len(allPvers))], cmd, c14Hex(g.bytesN(g.rng.Intn(100)))), "random-payload:"+cmd, true)
	}
	// var-int lattice at the payload level: every boundary value in canonical and non-canonical form
	for _, v := range []uint64{0, 1, 0xfc, 0xfd, 0xfe, 0xff, 0x100, 0xffff, 0x10000, 0xffffffff, 0x100000000, 1<<64 - 1} {
		for _, enc := range [][]byte{c14VarInt(v), append([]byte{0xfd}, byte(v), byte(v >> 8)), append([]byte{0xfe}, byte(v), byte(v>>8), byte(v>>16), byte(v>>24)),
			{0xff, byte(v), byte(v >> 8), byte(v >> 16), byte(v >> 24), byte(v >> 32), byte(v >> 40), byte(v >> 48), byte(v >> 56)}} {
			for _, cmd := range []string{"inv", "headers", "addr", "reject"} {
				add(fmt.Sprintf("wdec 70013 %s %s", cmd, c14Hex(enc)), "varint-lattice", true)
			}
		}
	}
	// directed: the allocation candidates (count / length inflation with almost no payload), measured on both sides
	vers := g.wf("version", 70013, false).(*wire.MsgVersion)
	vers.UserAgent = "/x/"
	vp, _ := c14Encode(vers, 70013, wire.BaseEncoding)
	inflated := append(append(append([]byte{}, vp[:80]...), 0xfe, 0xff, 0xff, 0xff, 0x0f), vp[81:]...)
	add(fmt.Sprintf("wframe 70013 %d %s", uint32(net), c14Hex(c14Frame(net, "version", inflated))), "directed:version-useragent-inflation", true)
	add(fmt.Sprintf("wfalloc 70013 %d %s", uint32(net), c14Hex(c14Frame(net, "version", inflated))), "alloc-meter", true)
	for _, d := range []struct {
		cmd string
		p   []byte
	}{
		{"inv", c14VarInt(wire.MaxInvPerMsg)}, {"getdata", c14VarInt(wire.MaxInvPerMsg)}, {"notfound", c14VarInt(wire.MaxInvPerMsg + 1)},
		{"headers", c14VarInt(wire.MaxBlockHeadersPerMsg)}, {"addr", c14VarInt(wire.MaxAddrPerMsg)},
		{"getheaders", append([]byte{1, 0, 0, 0}, c14VarInt(wire.MaxBlockLocatorsPerMsg)...)},
		{"getblocks", append([]byte{1, 0, 0, 0}, c14VarInt(wire.MaxBlockLocatorsPerMsg)...)},
		{"reject", c14VarInt(uint64(c14GlobalMax()))}, {"reject", c14VarInt(uint64(c14GlobalMax()) + 1)},
		{"version", inflated},
	} {
		add(fmt.Sprintf("walloc 70013 %s %s", d.cmd, c14Hex(d.p)), "alloc-meter", true)
		add(fmt.Sprintf("wfalloc 70013 %d %s", uint32(net), c14Hex(c14Frame(net, d.cmd, d.p))), "alloc-meter", true)
		add(fmt.Sprintf("wframe 70013 %d %s", uint32(net), c14Hex(c14Frame(net, d.cmd, d.p))), "directed:count-inflation", true)
	}
	// a header that declares the full per-type limit with no payload behind it
	for _, cmd := range c14Kinds {
		var hdr [24]byte
		binary.LittleEndian.PutUint32(hdr[0:], uint32(net))
		copy(hdr[4:16], cmd)
		binary.LittleEndian.PutUint32(hdr[16:], uint32(c14Declared(cmd, 70013)))
		add(fmt.Sprintf("wframe 70013 %d %s", uint32(net), c14Hex(hdr[:])), "directed:length-at-limit", true)
		binary.LittleEndian.PutUint32(hdr[16:], uint32(c14Declared(cmd, 70013))+1)
		add(fmt.Sprintf("wframe 70013 %d %s", uint32(net), c14Hex(hdr[:])), "directed:length-over-limit", true)
	}
	return cases
}

// c14MeterAgrees relates the model's allocation meter "<n> <max> <sum>" to the measured figure
// "measured <bytes> <inputlen>": the largest metered allocation really happens (in-memory elements are
// at least their wire size), and the total stays within the factor used by the oracle.
func c14MeterAgrees(model, impl string) bool {
	var n, mx, sum, got, inlen uint64
	if _, err := fmt.Sscanf(model, "%d %d %d", &n, &mx, &sum); err != nil {
		return false
	}
	if _, err := fmt.Sscanf(impl, "measured %d %d", &got, &inlen); err != nil {
		return false
	}
	return got >= mx && got <= c14AllocFactor*(sum+inlen)+c14AllocSlack
}

// c14Corpus: witnesses of past defects, run before anything generated (a `fixed` entry of
// KNOWN_FINDINGS.json suppresses nothing: its witness is an ordinary case). Built-in + /verif/corpus/C14/*.ops.
func c14Corpus() []c14Case {
	const f1 = "e3e1f3e876657273696f6e000000000055000000d02a8459" +
		"0000000000000000000000000000000000000000000000000000000000000000000000000000000000000000000000000000000000000000000000000000000000000000000000000000000000000000" +
		"feffffff0f"
	ops := []string{"wframe 70013 3908297187 " + f1, "wfalloc 70013 3908297187 " + f1}
	files, _ := filepath.Glob("/verif/corpus/C14/*.ops")
	sort.Strings(files)
	for _, f := range files {
		b, err := os.ReadFile(f)
		if err != nil {
			continue
		}
		for _, ln := range strings.Split(string(b), "\n") {
			ln = strings.TrimSpace(ln)
			if ln != "" && !strings.HasPrefix(ln, "#") {
				ops = append(ops, ln)
			}
		}
	}
	seen := map[string]bool{}
	var res []c14Case
	for _, op := range ops {
		if !seen[op] {
			seen[op] = true
			res = append(res, c14Case{op, "corpus", true})
		}
	}
	return res
}

func runC14(c *Ctx) error {
	wire.SetLimits(config.ExcessiveBlockSize) // as cmd/main.go does
	// internal/wire reports some ignored errors with fmt.Println: keep our stdout clean
	realStdout := os.Stdout
	if devnull, err := os.OpenFile(os.DevNull, os.O_WRONLY, 0); err == nil {
		os.Stdout = devnull
		defer func() { os.Stdout = realStdout; _ = devnull.Close() }()
	}
	c.R.Rule = "corpus first (witness of the repaired defect C14-F1: 109-byte version frame with an inflated user-agent var-int). ops: wenc/wwrite (round trip of random messages of the 16 kinds + protoconf, mostly well-formed, 1 in 5 with one WF clause spoiled, x 12 negotiated protocol versions (every threshold of protocol.go with neighbours) + 5 outside, both MessageEncoding values, 4 networks), " +
		"wframe/wdec (mutation stream over valid frames of EVERY command of makeEmptyMessage: bit flips in header/payload, truncation, length-field and count-var-int inflation, splicing, random payloads and streams, command-field damage; checksum repaired in most cases so that the decoder is reached), " +
		"wstream (ReadMessage repeatedly on ONE reader: 2-4 frames, a frame rejected for wrong magic / unknown or non-UTF-8 command / per-command oversize / bad checksum / undecodable payload with payload length in {0,1,10239,10240,10241,20480,30720,40960,k*10240,random}, the payload filled with embedded VALID frames, followed by valid frames, sometimes a cut or stray tail; Go oracle walks the stream by the declared lengths only: every valid frame after a rejected one is returned intact, the reader stands at the next frame boundary after every call, nothing inside a rejected payload is handed out), " +
		"wreaderr (oracle only: ReadMessage fed from readers that, after FEWER payload bytes than the header announced, fail instead of ending — (0,err) with err in {io.EOF, io.ErrUnexpectedEOF, net.ErrClosed, os.ErrDeadlineExceeded, ECONNRESET, custom}, three (0,nil) first, one byte per Read, and real loopback TCP connections closed locally / past their read deadline / reset — for every place the read can stand: discardInput after wrong magic / unknown / non-UTF-8 command / per-command oversize, the payload read of a valid header, the header read; announced lengths 1..256 MiB; each call under a 2 s watchdog must return an error, take no more than announced, make a bounded number of Read calls; signature c14-readmessage-hangs-on-read-error), " +
		"var-int lattice, directed allocation candidates, wsha; last, oracle only: payloads cut inside every fixed-width integer read (uint8, uint16 of a var-int and of a port, uint32, uint64; consistent length and checksum), then wconcurrent = 8 goroutines at once doing BsvEncode / Bsvdecode (through a writer / reader that yield while the codec holds its scratch buffer) / WriteMessage / ReadMessage round trips of their own random well-formed messages for 1 s (8 s thorough), each compared with an expectation computed single-threaded beforehand (signature c14-concurrent-roundtrip-mismatch). A round-trip case is non-trivial when the message has at least one field; a mutation case when the frame has a full header and differs from its valid source; distinct by op line. " +
		"Oracle (Go, independent of the model): WF(m) => decode(encode(m)) renders equal to m and re-encodes to the same bytes, ReadMessage(WriteMessage(m)) = m with the frame layout recomputed by crypto/sha256; " +
		"no panic, no hang (60 s), TotalAlloc delta of one decode <= 8 x MaxPayloadLength(command, pver) + 64 KiB for negotiated pvers; wrong magic / bad checksum / unknown command / oversize length / truncated frames are never accepted."
	var cases []c14Case
	if c.Replay != "" {
		ops, err := lib.ReadReplayOps(c.Replay)
		if err != nil {
			return err
		}
		for _, op := range ops {
			cases = append(cases, c14Case{op, "replay", true})
		}
	} else {
		g := &c14Gen{rng: lib.Rng(c.Seed, "c14"), c: c}
		cases = append(c14Corpus(), g.streams()...)
		cases = append(cases, g.readErrCases()...) // oracle only: readers that fail instead of ending (c14_readerr.go)
		cases = append(cases, g.generate()...)
		// oracle-only concurrent stream: the hostile corpus above (+ payloads cut inside every fixed-width integer
		// read) is phase 1, the last op runs the concurrent round trips (c14_concurrent.go)
		for _, op := range c14TruncationOps() {
			cases = append(cases, c14Case{op, "directed:truncated-integer", true})
		}
		ms := 1000
		if c.Thorough {
			ms = 8000
		}
		cases = append(cases, c14Case{fmt.Sprintf("wconcurrent 8 %d %d", ms, c.Seed), "concurrent (oracle only)", true})
	}

	x := &c14Exec{c: c, fail: c.R.Fail, measure: true}
	impl := make([]string, len(cases))
	for i, cs := range cases {
		impl[i] = x.exec(cs.op)
		c.R.Case(cs.op, cs.nontriv)
		c.R.Count(cs.class, 1)
		if i%512 == 511 {
			runtime.GC()
		}
	}
	c.R.OracleChecked = x.nOracle

	// known findings: replay each recorded witness on the implementation
	for _, k := range lib.KnownFor(c.Known, "C14") {
		hit := false
		kx := &c14Exec{c: c, measure: true, fail: func(f lib.Failure) {
			if f.Signature == k.Signature {
				hit = true
			}
		}}
		for _, op := range k.Witness.Ops {
			kx.exec(op)
		}
		if hit {
			c.R.KnownReplayed[k.ID] = "reproduced"
		} else {
			c.R.KnownReplayed[k.ID] = "not-reproduced"
		}
	}

	// the model's answers to the same lines
	os.Stdout = realStdout
	l := c.lean()
	defer l.Close()
	if _, err := l.Ask(fmt.Sprintf("wcfg %d", uint32(config.ExcessiveBlockSize))); err != nil {
		return err
	}
	// wconcurrent / wreaderr are oracle-only (the model has no interleavings, its reader is a byte list): not sent to the model
	var lines []string
	for _, cs := range cases {
		if !c14OracleOnly(cs.op) {
			lines = append(lines, cs.op)
		}
	}
	mans, err := l.AskBatch(lines)
	if err != nil {
		return err
	}
	ans := make([]string, len(cases))
	for i, k := 0, 0; i < len(cases); i++ {
		if c14OracleOnly(cases[i].op) {
			ans[i] = impl[i] // judged by the oracle (Failure), never a model disagreement
			continue
		}
		ans[i] = mans[k]
		k++
	}
	unmodelled := 0
	for i, cs := range cases {
		a := ans[i]
		agree := a == impl[i]
		switch {
		case a == "err unmodelled":
			unmodelled++
			agree = true
		case strings.HasPrefix(cs.op, "walloc ") || strings.HasPrefix(cs.op, "wfalloc "):
			agree = c14MeterAgrees(a, impl[i])
		case strings.HasPrefix(cs.op, "wstream "):
			var um bool
			agree, um = c14StreamAgrees(a, impl[i])
			if um {
				unmodelled++
			}
		}
		if !agree {
			c.R.Disagree(lib.Disagreement{Case: c14Short(cs.op), Op: c14Short(cs.op), Ops: []string{cs.op}, Impl: c14Short(impl[i]), Model: c14Short(a)})
		}
		if i%997 == 0 || strings.HasPrefix(cs.class, "directed:version") {
			c.R.Sample(map[string]string{"op": c14Short(cs.op), "impl": c14Short(impl[i]), "model": c14Short(a)}, 12)
		}
	}
	c.R.Count("model answered unmodelled (oracle only)", unmodelled)
	c.R.TracesValidated = len(lines) - unmodelled
	c.R.ModelOps = l.Ops
	return nil
}
