package main

import (
	"encoding/json"
	"fmt"
	"math/big"
	"strings"

	"github.com/bitcoin-sv/block-headers-service/verifharness/lib"
)

func init() { runners["C03"] = runC03 }

// immutable part of a stored row (everything except rowid-independent state label)
func immutablePart(r DbRow) string {
	return fmt.Sprintf("%d,%s,%s,%s,%d,%d,%s,%s,%d,%s,%s", r.ID, r.Hash, r.Prev, r.Merkle, r.Height, r.Version, r.Time, r.Bits, r.Nonce, r.Work, r.Cum)
}

type c03Oracle struct {
	snap map[string]string // hash -> immutable part at first storage
}

// c03Step checks identity, derived fields and immutability after one op.
func (o *c03Oracle) step(c *Ctx, ci *ChainImpl, name string, ops []string, h *Hdr, out string, before, after []DbRow) {
	fail := func(what, exp, obs, sig string) {
		c.R.Fail(lib.Failure{Case: name, Ops: ops, What: what, Expected: exp, Observed: obs, Signature: sig})
	}
	c.R.OracleChecked++
	byAfter := map[string]*DbRow{}
	for i := range after {
		byAfter[after[i].Hash] = &after[i]
	}
	// immutability: everything ever stored is still there, unaltered except for its state label
	for hash, im := range o.snap {
		r, ok := byAfter[hash]
		if !ok {
			fail("a stored header disappeared: "+hash, im, "", "c03-disappeared")
			continue
		}
		if immutablePart(*r) != im {
			fail("a stored header's fields changed", im, immutablePart(*r), "c03-mutated")
		}
	}
	for i := range after {
		if _, ok := o.snap[after[i].Hash]; !ok {
			o.snap[after[i].Hash] = immutablePart(after[i])
		}
	}
	if h == nil || !strings.HasPrefix(out, "stored") {
		return
	}
	// identity and derived fields of the header just stored
	hash := h.HashStr()
	r, ok := byAfter[hash]
	if !ok {
		fail("header answered as stored is not in the table under the double SHA-256 of its 80 bytes", hash, out, "c03-hash")
		return
	}
	byBefore := map[string]*DbRow{}
	for i := range before {
		byBefore[before[i].Hash] = &before[i]
	}
	wantH, wantCum := int64(1), new(big.Int)
	if p, ok := byBefore[display(h.Prev)]; ok {
		wantH = p.Height + 1
		wantCum = parseBig(p.Cum)
	}
	w := refWorkBits(h.Bits)
	wantCum = new(big.Int).Add(wantCum, w)
	want := fmt.Sprintf("%s,%s,%s,%d,%d,%d,%d,%d,%s,%s", hash, display(h.Prev), display(h.Merkle), wantH, h.Version, h.Time, h.Bits, h.Nonce, w.String(), wantCum.String())
	got := fmt.Sprintf("%s,%s,%s,%d,%d,%s,%s,%d,%s,%s", r.Hash, r.Prev, r.Merkle, r.Height, r.Version, r.Time, r.Bits, r.Nonce, r.Work, r.Cum)
	if got != want {
		fail("stored identity/derived fields differ from hash=sha256d(80 bytes), height=parent+1, work=floor(2^256/(target+1)), cum=parent.cum+work, fields as received", want, got, "c03-fields")
	}
	// through the API
	for _, path := range []string{"/api/v1/chain/header/" + hash, "/api/v1/chain/header/state/" + hash} {
		hr := ci.http("GET", path, nil, nil)
		if hr.Status != 200 {
			fail("GET "+path, "200", fmt.Sprint(hr.Status), "c03-api")
			continue
		}
		var m map[string]any
		dec := json.NewDecoder(strings.NewReader(string(hr.Body)))
		dec.UseNumber()
		if err := dec.Decode(&m); err != nil {
			fail("GET "+path+" unparsable", "", string(hr.Body), "c03-api")
			continue
		}
		hm := m
		if sub, ok := m["header"].(map[string]any); ok {
			hm = sub
			if fmt.Sprint(m["height"]) != fmt.Sprint(wantH) || fmt.Sprint(m["chainWork"]) != wantCum.String() {
				fail("state endpoint height/chainWork", fmt.Sprintf("%d %s", wantH, wantCum), fmt.Sprintf("%v %v", m["height"], m["chainWork"]), "c03-api")
			}
		}
		gotJ := fmt.Sprintf("%v,%v,%v,%v,%v,%v,%v,%v", hm["hash"], hm["version"], hm["prevBlockHash"], hm["merkleRoot"], hm["creationTimestamp"], hm["difficultyTarget"], hm["nonce"], hm["work"])
		wantJ := fmt.Sprintf("%s,%d,%s,%s,%d,%d,%d,%s", hash, h.Version, display(h.Prev), display(h.Merkle), h.Time, h.Bits, h.Nonce, w.String())
		if gotJ != wantJ {
			fail("GET "+path+" does not return the fields exactly as received", wantJ, gotJ, "c03-api")
		}
	}
}

func runC03(c *Ctx) error {
	rng := lib.Rng(c.Seed, "c03")
	c.R.Rule = "C01's history generator with field extremes (version -2^31, 2^31-1, -1; bits/nonce 0 and 2^32-1; time 0 and 2^32-1; zero/negative/overflowing targets), reorganisations and restarts; after every op the whole table is compared with the Lean model and the oracle checks identity (crypto/sha256 over an independent serialiser; the Lean SHA-256d is compared on every header), derived fields, API fields and immutability of everything stored before. Non-trivial = history with a reorganisation or a restart and at least one extreme field; distinct by op list."
	ci, err := newChainImpl("c03.db", lib.StackOpts{})
	if err != nil {
		return err
	}
	defer ci.Close()
	l := c.lean()
	defer l.Close()
	var cases []chainCase
	if c.Replay != "" {
		ops, err := lib.ReadReplayOps(c.Replay)
		if err != nil {
			return err
		}
		cases = []chainCase{{name: "replay", ops: ops}}
	} else {
		cases = append(cases, loadCorpus("C03")...)
		nRand, maxLen := 60, 30
		if c.Thorough {
			nRand, maxLen = 600, 120
		}
		for k := 0; k < nRand; k++ {
			n := 3 + rng.Intn(maxLen-2)
			nodes, order := randomHistory(rng, n, uint32(k)+uint32(c.Seed)*65537, k%3 == 0, true)
			// bits extremes on a few nodes (all 32-bit patterns are legal input)
			ops := historyOps(nodes, order, nil, true)
			// sprinkle restarts
			var ops2 []string
			for _, op := range ops {
				ops2 = append(ops2, op)
				if strings.HasPrefix(op, "add") && rng.Intn(12) == 0 {
					ops2 = append(ops2, "restart", "dump")
				}
			}
			cases = append(cases, chainCase{name: fmt.Sprintf("random #%d n=%d", k, n), ops: ops2})
		}
		// explicit extremes: one header per extreme bits value on top of genesis
		var ex []Node
		for _, b := range []uint32{0, 0xffffffff, 0x00800000, 0x01000000, 0xff7fffff, 0x1d00ffff, 0x207fffff, 0x03000001, 0x02000100} {
			ex = append(ex, Node{Parent: -1, Bits: b})
		}
		buildTree(ex, 4242+uint32(c.Seed), rng, true)
		ord := make([]int, len(ex))
		for i := range ord {
			ord[i] = i
		}
		cases = append(cases, chainCase{name: "bits extremes on genesis", ops: historyOps(ex, ord, nil, true)})
		// work lattice: a chain whose headers have work just below / at / above 2^31, 2^32, 2^62, 2^63 (int64), 2^64 (uint64),
		// 2^128, 2^192, so that own and cumulative work cross every machine-word boundary; with a fork that is overtaken
		// (reorganisation) and a restart — values are read back from the table and through the API after each step
		lattice := []uint32{0x1d01ffff, 0x1d00ffff, 0x1c7fffff, 0x1903ffff, 0x1902aaaa, 0x1901ffff, 0x19020000, 0x1901f000, 0x1901f000,
			0x1900ffff, 0x1900ffff, 0x11010000, 0x1100ffff, 0x0900ffff, 0x09010000}
		var lat []Node
		for i, b := range lattice {
			lat = append(lat, Node{Parent: i - 1, Bits: b})
		}
		lat = append(lat, Node{Parent: 3, Bits: 0x1901f000}, Node{Parent: len(lattice), Bits: 0x1900ffff}, Node{Parent: len(lattice) + 1, Bits: 0x1100ffff})
		buildTree(lat, 5151+uint32(c.Seed), rng, false)
		lord := make([]int, len(lat))
		for i := range lord {
			lord[i] = i
		}
		var lops []string
		for _, op := range historyOps(lat, lord, nil, true) {
			lops = append(lops, op)
			if strings.HasPrefix(op, "add") && len(lops)%5 == 0 {
				lops = append(lops, "restart", "dump")
			}
		}
		cases = append(cases, chainCase{name: "work lattice across 2^31 .. 2^192", ops: lops})
		// a submission whose write does not happen (the process-level view of a failed or killed write), followed IN THE SAME
		// PROCESS by its child: the child's parent is not stored, so it starts at height 1 with only its own work — whatever
		// the service remembers about the header it failed to store; then the parent is redelivered, then a restart
		for v, at := range []int{0, 1, 0} {
			ph := []Node{{Parent: -1, Bits: bitsSmall[1]}, {Parent: 0, Bits: bitsSmall[1]}, {Parent: 1, Bits: bitsSmall[1]}, {Parent: 2, Bits: bitsSmall[1]},
				{Parent: -1, Bits: bitsSmall[1]}, {Parent: 4, Bits: bitsBig}}
			buildTree(ph, 5300+uint32(v)+uint32(c.Seed)*11, rng, false)
			hx := func(i int) string { return ph[i].Hdr.Hex() }
			var pops []string
			switch v {
			case 0, 1: // tip extension fails before its insert; its child and grandchild follow
				pops = []string{"reset", "forbid", "add " + hx(0), fmt.Sprintf("crash %d %s", at, hx(1)), "add " + hx(2), "add " + hx(3), "dump", "add " + hx(1), "restart", "dump"}
			default: // a reorganising header fails before its first write; its would-be sibling chain goes on
				pops = []string{"reset", "forbid", "add " + hx(0), "add " + hx(1), "add " + hx(4), fmt.Sprintf("crash 0 %s", hx(5)), "add " + hx(2), "dump", "add " + hx(5), "restart", "dump"}
			}
			cases = append(cases, chainCase{name: fmt.Sprintf("write that does not happen, then the child in the same process #%d", v), ops: pops})
		}
	}
	if c.Replay == "" {
		lens := []int{1103}
		if c.Thorough {
			lens = []int{500, 501, 1000, 1703, 2501}
		}
		for _, n := range lens {
			if err := c03ImportedStore(c, rng, n); err != nil {
				return err
			}
		}
		if err := c03LockedParent(c); err != nil {
			return err
		}
	}
	for ci2, cs := range cases {
		o := &c03Oracle{snap: map[string]string{}}
		var before []DbRow
		sawReorg, sawRestart, sawExtreme := false, false, false
		for k, op := range cs.ops {
			impl := ci.Op(op)
			model, err := l.Ask(op)
			if err != nil {
				return err
			}
			c.R.TracesValidated++
			if impl != model && c.Driver != "none" {
				c.R.Disagree(lib.Disagreement{Case: cs.name, Ops: cs.ops[:k+1], Op: op, Impl: impl, Model: model})
			}
			ws := strings.Fields(op)
			switch ws[0] {
			case "reset":
				o = &c03Oracle{snap: map[string]string{}}
				before, _ = ci.Dump()
				o.step(c, ci, cs.name, cs.ops[:k+1], nil, "", before, before)
			case "add":
				h, _ := hdrFromHex(ws[1])
				after, err := ci.Dump()
				if err != nil {
					return err
				}
				// the Lean SHA-256d agrees with crypto/sha256 on this header
				lh, err := l.Ask("hashof " + ws[1])
				if err != nil {
					return err
				}
				if lh != h.HashStr() && c.Driver != "none" {
					c.R.Disagree(lib.Disagreement{Case: cs.name, Op: "hashof " + ws[1], Impl: h.HashStr(), Model: lh})
				}
				o.step(c, ci, cs.name, cs.ops[:k+1], &h, impl, before, after)
				before = after
				if strings.Contains(impl, "W setstate") {
					sawReorg = true
				}
				if h.Version < 0 || h.Version == 2147483647 || h.Nonce == 0xffffffff || h.Time == 0 || h.Time == 0xffffffff || refWorkBits(h.Bits).Sign() == 0 {
					sawExtreme = true
					c.R.Count("extreme-field-header", 1)
				}
			case "crash":
				// whatever part of the submission happened is in the table now
				after, err := ci.Dump()
				if err != nil {
					return err
				}
				o.step(c, ci, cs.name, cs.ops[:k+1], nil, "", before, after)
				before = after
			case "restart":
				sawRestart = true
				after, err := ci.Dump()
				if err != nil {
					return err
				}
				if dumpStr(after) != dumpStr(before) {
					c.R.Fail(lib.Failure{Case: cs.name, Ops: cs.ops[:k+1], What: "restart on an existing database modified stored headers", Expected: dumpStr(before), Observed: dumpStr(after), Signature: "c03-restart-modified"})
				}
				o.step(c, ci, cs.name, cs.ops[:k+1], nil, "", before, after)
				c.R.Count("restart", 1)
			}
		}
		c.R.Case(strings.Join(cs.ops, "\n"), (sawReorg || sawRestart) && sawExtreme)
		if sawReorg {
			c.R.Count("history:reorg", 1)
		}
		if ci2 < 2 {
			c.R.Sample(map[string]any{"case": cs.name, "ops": cs.ops[:min(len(cs.ops), 10)]}, 4)
		}
	}
	c.R.ModelOps = l.Ops
	return nil
}
