// Command drive runs, for one property, the correspondence check (implementation
// vs. the Lean model driver on the same operation lines) and the Go oracle (an
// independent statement of the property over the implementation's outputs).
package main

import (
	"flag"
	"fmt"
	"os"
	"time"

	"github.com/bitcoin-sv/block-headers-service/verifharness/lib"
)

// Ctx is what a property runner gets.
type Ctx struct {
	Prop     string
	Tier     string
	Seed     int64
	Thorough bool
	Driver   string
	Replay   string
	Known    string
	R        *lib.Result
	Deadline time.Time
}

func (c *Ctx) lean() *lib.Lean {
	l, err := lib.StartLean(c.Driver)
	if err != nil {
		fmt.Fprintln(os.Stderr, "cannot start lean driver:", err)
		os.Exit(2)
	}
	return l
}

var runners = map[string]func(*Ctx) error{}

func main() {
	prop := flag.String("prop", "", "property id")
	tier := flag.String("tier", "quick", "quick|thorough")
	seed := flag.Int64("seed", 1, "seed")
	driver := flag.String("driver", "/verif/lean/.lake/build/bin/bhsdriver", "lean driver executable")
	out := flag.String("out", "", "result json")
	replay := flag.String("replay", "", "replay file")
	known := flag.String("known", "/verif/KNOWN_FINDINGS.json", "known findings file")
	flag.Parse()
	run, ok := runners[*prop]
	if !ok {
		fmt.Fprintln(os.Stderr, "unknown property", *prop)
		os.Exit(2)
	}
	c := &Ctx{Prop: *prop, Tier: *tier, Seed: *seed, Thorough: *tier == "thorough", Driver: *driver, Replay: *replay, Known: *known,
		R: lib.NewResult(*prop, *tier, *seed)}
	c.R.NoModel = *driver == "none" || *driver == ""
	if err := run(c); err != nil {
		fmt.Fprintln(os.Stderr, "driver error:", err)
		c.R.Notes = append(c.R.Notes, "driver error: "+err.Error())
		if *out != "" {
			_ = c.R.Write(*out)
		}
		os.Exit(2)
	}
	if *out != "" {
		if err := c.R.Write(*out); err != nil {
			fmt.Fprintln(os.Stderr, err)
			os.Exit(2)
		}
	}
	fmt.Printf("drive %s: evaluations=%d distinct_nontrivial=%d disagreements=%d failures=%d\n", *prop, c.R.Evaluations, c.R.DistinctNontrivial, len(c.R.Disagreements), len(c.R.Failures))
}
