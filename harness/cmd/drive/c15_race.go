package main

// C15R — supporting evidence for C15's data-race clause (which no Lean model of this kind can express):
// the real SyncManager with peers connecting and disconnecting while an API reader calls
// Network.GetPeers / GetPeersCount (what GET /api/v1/network/peer and /peer/count do), the peers map being
// shared exactly as cmd/main.go shares it. The runner is meant to be built with `go build -race`
// (bin/check does that in C15's thorough tier) and run in a child process: a race report or a
// "concurrent map" fatal error of the runtime is the observation.

import (
	"fmt"
	"sync"
	"sync/atomic"
	"time"

	"github.com/bitcoin-sv/block-headers-service/config"
	"github.com/bitcoin-sv/block-headers-service/internal/chaincfg/chainhash"
	"github.com/bitcoin-sv/block-headers-service/internal/wire"
	"github.com/bitcoin-sv/block-headers-service/service"
	"github.com/bitcoin-sv/block-headers-service/transports/p2p/p2psync"
	peerpkg "github.com/bitcoin-sv/block-headers-service/transports/p2p/peer"
	"github.com/bitcoin-sv/block-headers-service/verifharness/lib"
)

func init() { runners["C15R"] = runC15Race }

type nopNotifier struct{}

func (nopNotifier) UpdatePeerHeights(*chainhash.Hash, int32, *peerpkg.Peer) {}
func (nopNotifier) RelayInventory(*wire.InvVect, interface{})               {}
func (nopNotifier) BanPeer(*peerpkg.Peer)                                    {}

func runC15Race(c *Ctx) error {
	c.R.Rule = "free-running goroutines: peers announced to and removed from the real SyncManager while readers call Network.GetPeers/GetPeersCount on the shared peers map (as cmd/main.go wires it); observation = race-detector report or runtime fatal error"
	st, err := lib.NewStack(lib.StackOpts{File: lib.TempDB("c15r.db"), NoEngine: true})
	if err != nil {
		return err
	}
	defer st.Close()
	peers := make(map[*peerpkg.Peer]*peerpkg.SyncState)
	log := lib.DiscardLog()
	svc := service.NewServices(service.Dept{Repositories: st.Repo, Peers: peers, AdminToken: "x", Logger: &log, Config: st.Cfg})
	sm, err := p2psync.New(&p2psync.Config{Logger: &log, PeerNotifier: nopNotifier{}, ChainParams: st.Cfg.P2P.GetNetParams(),
		MaxPeers: 125, Services: svc, Checkpoints: config.Checkpoints}, peers)
	if err != nil {
		return err
	}
	sm.Start()
	defer sm.Stop()
	dur := 1500 * time.Millisecond
	if c.Thorough {
		dur = 6 * time.Second
	}
	stop := time.Now().Add(dur)
	var reads, churn int64
	var wg sync.WaitGroup
	for r := 0; r < 3; r++ {
		wg.Add(1)
		go func() {
			defer wg.Done()
			for time.Now().Before(stop) {
				_ = svc.Network.GetPeers()
				_ = svc.Network.GetPeersCount()
				atomic.AddInt64(&reads, 1)
			}
		}()
	}
	for w := 0; w < 2; w++ {
		wg.Add(1)
		go func(w int) {
			defer wg.Done()
			i := 0
			for time.Now().Before(stop) {
				i++
				p, err := peerpkg.NewOutboundPeer(&peerpkg.Config{Log: &log, ChainParams: st.Cfg.P2P.GetNetParams()}, fmt.Sprintf("10.%d.%d.%d:8333", w, i/250%250, i%250))
				if err != nil {
					continue
				}
				done := make(chan struct{}, 1)
				sm.NewPeer(p, done)
				<-done
				sm.DonePeer(p, done)
				<-done
				atomic.AddInt64(&churn, 1)
			}
		}(w)
	}
	wg.Wait()
	c.R.Case("race-run", true)
	c.R.Case("race-run-2", true)
	c.R.Count("reader calls", int(reads))
	c.R.Count("peer add/remove rounds", int(churn))
	c.R.OracleChecked = int(reads)
	return nil
}
