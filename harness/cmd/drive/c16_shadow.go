package main

// C16: from a concrete HTTP request to the ABSTRACT inputs of the Lean model.
//
// The abstract inputs (which route, path / query parameters, body bind result) are, by the
// model's own statement, computed by gin and encoding/json — the trusted part. They are
// therefore computed here by gin and encoding/json themselves: a SHADOW engine is built
// from the real engine's routing table (Engine.Routes() at run time) with recording
// handlers that call c.Param / c.GetQuery / c.ShouldBind* — gin's own code — on an
// identical copy of the request, and never touch the services. What the REAL handlers do
// with those inputs is what the model (and the comparison) is about.

import (
	"bytes"
	"encoding/hex"
	"fmt"
	"hash/fnv"
	"io"
	"net/http"
	"net/http/httptest"
	"strings"

	"github.com/bitcoin-sv/block-headers-service/domains"
	"github.com/bitcoin-sv/block-headers-service/transports/http/endpoints/api/webhook"
	"github.com/gin-gonic/gin"
)

const c16Prefix = "/api/v1"

// c16Abs is what the shadow engine saw.
type c16Abs struct {
	Kind    string            // "route" | "noroute" | "redirect"
	Method  string            // of the matched route
	Pattern string            // gin FullPath of the matched route
	Params  map[string]string // path parameters
	Query   map[string]*string
	// body bind results (only what the matched route binds)
	BindErr bool
	Hashes  []string                                    // commonAncestor
	Items   []domains.MerkleRootConfirmationRequestItem // verify
	Hook    webhook.Request                             // POST /webhook (after a failed bind: what the decoder left)
	Line    string                                      // the model's `http req <auth> …` arguments ("" = route not modelled)
	Lite    bool                                        // static / non-API route: no JSON clause
}

func c16x(s string) string { return "x" + hex.EncodeToString([]byte(s)) }

func c16opt(p *string) string {
	if p == nil {
		return "-"
	}
	return c16x(*p)
}

// query parameters each modelled route reads (c.GetQuery / c.DefaultQuery / c.Query)
var c16Queries = map[string][]string{
	"GET " + c16Prefix + "/chain/header/byHeight": {"height", "count"},
	"GET " + c16Prefix + "/chain/merkleroot":      {"batchSize", "lastEvaluatedKey"},
	"GET " + c16Prefix + "/webhook":               {"url"},
	"DELETE " + c16Prefix + "/webhook":            {"url"},
}

type c16Shadow struct {
	engine *gin.Engine
	last   *c16Abs
}

func c16NewShadow(routes gin.RoutesInfo) *c16Shadow {
	sh := &c16Shadow{}
	e := gin.New() // same defaults as the real engine: RedirectTrailingSlash on, default NoRoute, UseRawPath off
	for _, r := range routes {
		key := r.Method + " " + r.Path
		e.Handle(r.Method, r.Path, func(c *gin.Context) {
			a := &c16Abs{Kind: "route", Method: c.Request.Method, Pattern: c.FullPath(), Params: map[string]string{}, Query: map[string]*string{}}
			for _, p := range c.Params {
				a.Params[p.Key] = p.Value
			}
			for _, q := range c16Queries[key] {
				if v, ok := c.GetQuery(q); ok {
					vv := v
					a.Query[q] = &vv
				}
			}
			switch key {
			case "POST " + c16Prefix + "/chain/header/commonAncestor":
				var body []string
				a.BindErr = c.ShouldBindJSON(&body) != nil
				a.Hashes = body
			case "POST " + c16Prefix + "/chain/merkleroot/verify":
				var body []domains.MerkleRootConfirmationRequestItem
				a.BindErr = c.ShouldBindJSON(&body) != nil
				a.Items = body
			case "POST " + c16Prefix + "/webhook":
				var body webhook.Request
				a.BindErr = c.ShouldBind(&body) != nil
				a.Hook = body
			}
			sh.last = a
			c.Status(204)
		})
	}
	sh.engine = e
	return sh
}

// abstract runs the shadow engine on a copy of the request.
func (sh *c16Shadow) abstract(q *c16Request) *c16Abs {
	sh.last = nil
	req, err := q.build()
	if err != nil {
		return nil
	}
	w := httptest.NewRecorder()
	sh.engine.ServeHTTP(w, req)
	a := sh.last
	if a == nil {
		switch w.Code {
		case http.StatusMovedPermanently, http.StatusTemporaryRedirect:
			a = &c16Abs{Kind: "redirect", Method: q.Method}
		default:
			a = &c16Abs{Kind: "noroute", Method: q.Method}
		}
	}
	a.Line, a.Lite = c16ModelLine(a)
	return a
}

// c16ModelLine renders the abstract inputs in the Lean driver's vocabulary.
func c16ModelLine(a *c16Abs) (line string, lite bool) {
	switch a.Kind {
	case "noroute":
		return "noroute", false
	case "redirect":
		if a.Method == "GET" {
			return "redirect get", false
		}
		return "redirect other", false
	}
	p := strings.TrimPrefix(a.Pattern, c16Prefix)
	switch a.Method + " " + a.Pattern {
	case "GET " + c16Prefix + "/chain/header/:hash":
		return "byhash " + c16x(a.Params["hash"]), false
	case "GET " + c16Prefix + "/chain/header/state/:hash":
		return "state " + c16x(a.Params["hash"]), false
	case "GET " + c16Prefix + "/chain/header/byHeight":
		return "byheight " + c16opt(a.Query["height"]) + " " + c16opt(a.Query["count"]), false
	case "GET " + c16Prefix + "/chain/header/:hash/:ancestorHash/ancestor":
		return "ancestors " + c16x(a.Params["hash"]) + " " + c16x(a.Params["ancestorHash"]), false
	case "POST " + c16Prefix + "/chain/header/commonAncestor":
		if a.BindErr {
			return "common err", false
		}
		ws := []string{"common ok"}
		for _, h := range a.Hashes {
			ws = append(ws, c16x(h))
		}
		return strings.Join(ws, " "), false
	case "GET " + c16Prefix + "/chain/tip":
		return "tips", false
	case "GET " + c16Prefix + "/chain/tip/longest":
		return "tiplongest", false
	case "GET " + c16Prefix + "/chain/merkleroot":
		return "roots " + c16opt(a.Query["batchSize"]) + " " + c16opt(a.Query["lastEvaluatedKey"]), false
	case "POST " + c16Prefix + "/chain/merkleroot/verify":
		if a.BindErr {
			return "verify err", false
		}
		ws := []string{"verify ok"}
		for _, it := range a.Items {
			ws = append(ws, fmt.Sprintf("%s:%d", c16x(it.MerkleRoot), it.BlockHeight))
		}
		return strings.Join(ws, " "), false
	case "POST " + c16Prefix + "/webhook":
		e := "0"
		if a.BindErr {
			e = "1"
		}
		return "whpost " + e + " " + c16x(a.Hook.URL), false
	case "GET " + c16Prefix + "/webhook":
		return "whget " + c16opt(a.Query["url"]), false
	case "DELETE " + c16Prefix + "/webhook":
		return "whdel " + c16opt(a.Query["url"]), false
	case "GET " + c16Prefix + "/access":
		return "accessget", false
	case "POST " + c16Prefix + "/access":
		return "accesspost", false
	case "DELETE " + c16Prefix + "/access/:token":
		return "accessdel " + c16x(a.Params["token"]), false
	case "GET " + c16Prefix + "/network/peer":
		return "peers", false
	case "GET " + c16Prefix + "/network/peer/count":
		return "peerscount", false
	case "GET /status":
		return "status", false
	}
	_ = p
	if strings.HasPrefix(a.Pattern, "/swagger/") || strings.HasPrefix(a.Pattern, "/pprof/") || a.Pattern == "/metrics" || a.Pattern == "/connection/websocket" {
		return "", true // static documentation / diagnostics: not part of the JSON API
	}
	return "", false // a route the model does not know: reported by the runner
}

// c16Request is one concrete request.
type c16Request struct {
	Method string
	Target string // request target (path?query), already escaped
	CType  string // "" = no Content-Type header
	Body   []byte // nil = no body
	Auth   string // model's auth class: disabled | missing | malformed | unknown | user | admin
	AuthH  string // Authorization header value ("" = none)
	Gen    string // which generator produced it (evidence)
}

// chunked: every third body-carrying request (chosen by its content, so that a replay makes the same choice) is sent
// without a declared length, as a client using chunked transfer encoding does. The answer may not depend on it.
func (q *c16Request) chunked() bool {
	if q.Body == nil {
		return false
	}
	h := fnv.New32a()
	_, _ = h.Write([]byte(q.Method + " " + q.Target + " "))
	_, _ = h.Write(q.Body)
	return h.Sum32()%3 == 0
}

// userAgent: requests carry the User-Agent strings real clients send — product/version pairs, bare words (health
// checks, scripts), a trailing slash, several words, none at all — chosen by the request's content so that a replay
// makes the same choice. No answer may depend on it.
func (q *c16Request) userAgent() string {
	uas := []string{"", "Go-http-client/1.1", "curl/8.5.0", "healthcheck", "monitoring/", "my-wallet 2", "/", "Mozilla/5.0 (X11; Linux x86_64) AppleWebKit/537.36", "kube-probe/1.29", "a/ b", "\t"}
	h := fnv.New32a()
	_, _ = h.Write([]byte("ua " + q.Method + " " + q.Target + " " + q.AuthH))
	_, _ = h.Write(q.Body)
	return uas[h.Sum32()%uint32(len(uas))]
}

func (q *c16Request) build() (*http.Request, error) {
	var rd *bytes.Reader
	if q.Body == nil {
		rd = bytes.NewReader(nil)
	} else {
		rd = bytes.NewReader(q.Body)
	}
	req, err := http.NewRequest(q.Method, "http://bhs.example"+q.Target, rd)
	if err != nil {
		return nil, err
	}
	req.RequestURI = q.Target
	req.RemoteAddr = "192.0.2.1:1234"
	if ua := q.userAgent(); ua != "" {
		req.Header.Set("User-Agent", ua)
	}
	if q.chunked() {
		// what the server sees for `Transfer-Encoding: chunked`: a body of undeclared length
		req.Body = io.NopCloser(struct{ io.Reader }{bytes.NewReader(q.Body)})
		req.ContentLength = -1
		req.TransferEncoding = []string{"chunked"}
	}
	if q.CType != "" {
		req.Header.Set("Content-Type", q.CType)
	}
	if q.AuthH != "" {
		req.Header.Set("Authorization", q.AuthH)
	}
	return req, nil
}

// opLine is the replay form of a request: `req <auth> <METHOD> <xtarget> <xctype|-> <xbody|->`.
func (q *c16Request) opLine() string {
	ct, body := "-", "-"
	if q.CType != "" {
		ct = c16x(q.CType)
	}
	if q.Body != nil {
		body = c16x(string(q.Body))
	}
	return fmt.Sprintf("req %s %s %s %s %s", q.Auth, q.Method, c16x(q.Target), ct, body)
}

func c16unx(w string) (string, bool) {
	if !strings.HasPrefix(w, "x") {
		return "", false
	}
	b, err := hex.DecodeString(w[1:])
	return string(b), err == nil
}

// c16ParseOp parses an opLine.
func c16ParseOp(line string) (*c16Request, bool) {
	f := strings.Fields(line)
	if len(f) != 6 || f[0] != "req" {
		return nil, false
	}
	t, ok := c16unx(f[3])
	if !ok {
		return nil, false
	}
	q := &c16Request{Method: f[2], Target: t, Auth: f[1], Gen: "replay"}
	if f[4] != "-" {
		if q.CType, ok = c16unx(f[4]); !ok {
			return nil, false
		}
	}
	if f[5] != "-" {
		b, ok := c16unx(f[5])
		if !ok {
			return nil, false
		}
		q.Body = []byte(b)
	}
	return q, true
}
