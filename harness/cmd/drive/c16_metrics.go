package main

// C16 with metrics.enabled=true.
//
// cmd/main.go registers, when metrics are enabled, a request middleware in front of every
// route (it labels a counter and a histogram with the request method and the DECODED
// request path), a NoRoute marker and GET /metrics. What the server answers to a request
// does not depend on that configuration (the Lean model has no such input), so the same
// grammar, the same model ops and the same oracle apply; in addition GET /metrics itself
// has to stay a well-formed exposition after whatever the clients sent.
//
// metrics.EnableMetrics() sets a package global that cannot be unset: the engines of this
// file are built after every metrics-off engine of the run has been built, and exercised
// after those have done their work (c16MetricsPhase is the last phase of runC16).

import (
	"bytes"
	"fmt"
	"math/rand"
	"net/http/httptest"
	"strings"
	"time"
	"unicode/utf8"

	"github.com/bitcoin-sv/block-headers-service/verifharness/lib"
	"github.com/prometheus/common/expfmt"
)

// c16MetricsOp: the replay line that selects the metrics-enabled configuration.
const c16MetricsOp = "metrics on"

// c16Sides: the engines of one run, metrics-off ones first.
type c16Sides struct {
	c    *Ctx
	base []*c16Side        // metrics off: [authentication off, authentication on]
	met  map[bool]*c16Side // metrics on, by authentication (built on first use)
}

func (ss *c16Sides) metricsSide(auth bool) (*c16Side, error) {
	if s := ss.met[auth]; s != nil {
		return s, nil
	}
	name := "metrics-noauth"
	if auth {
		name = "metrics-auth"
	}
	s, err := c16NewSide(ss.c, name, auth, true)
	if err != nil {
		return nil, err
	}
	if ss.met == nil {
		ss.met = map[bool]*c16Side{}
	}
	ss.met[auth] = s
	return s, nil
}

func (ss *c16Sides) close() {
	for _, s := range ss.base {
		s.close()
	}
	for _, s := range ss.met {
		s.close()
	}
}

// c16OddSegments: raw (already escaped) path segments — what a path parameter or an extra segment decodes to is
// invalid UTF-8 of several shapes, NUL, very long, or (controls) valid multi-byte text.
func c16OddSegments(p *c16Pool, thorough bool) []string {
	segs := []string{
		"%ff", "%c3%28", "%fe%fe", "%a0%a1", "%80" + p.tip[2:], p.tip + "%ff", p.tip[:32] + "%c3" + p.tip[32:], "%ed%a0%80", "%c0%af", "%f8%88%80%80%80", "%e2%82", "%f4%90%80%80",
		"%FF%00%FF", strings.Repeat("%ff", 3000), strings.Repeat("%c3%a9", 1500) + "%c3",
		"%00", "a%00b", p.tip + "%00", strings.Repeat("%00", 2000),
		"%C3%A9", "%ef%bf%bd", "%ef%bf%be", "%e2%80%a8", "%f0%9f%92%a9", "%7f", "%1b%5b31m", "%0d%0aX-Injected:%201", "%22%7d%0a%23%20HELP", "%5c", "%7b%22a%22%3d%221%22%7d",
		strings.Repeat("f", 60001), strings.Repeat("%c3%a9", 20000),
	}
	if thorough {
		for b := 0x80; b < 0x100; b += 3 {
			segs = append(segs, fmt.Sprintf("%%%02x", b), fmt.Sprintf("%s%%%02x%%%02x", p.tip[:8], b, 0xff-b))
		}
		segs = append(segs, strings.Repeat("%ff", 100000))
	}
	return segs
}

// c16MetricsPaths: for every route, every path parameter / wildcard position filled with every odd segment (the other
// positions with stored values), and the odd segment appended to / put in the query string of the route.
func c16MetricsPaths(rng *rand.Rand, routes [][2]string, p *c16Pool, thorough bool) []*c16Request {
	var out []*c16Request
	odd := c16OddSegments(p, thorough)
	valid := map[string]string{"hash": p.tip, "ancestorHash": p.genesis, "token": "tok"}
	for ri, r := range routes {
		method, pattern := r[0], r[1]
		ctype, body := "", []byte(nil)
		if method == "POST" {
			ctype, body = c16JSONType, []byte("[]")
		}
		parts := strings.Split(pattern, "/")
		var slots []int
		for i, s := range parts {
			if strings.HasPrefix(s, ":") || strings.HasPrefix(s, "*") {
				slots = append(slots, i)
			}
		}
		fill := func(at int, seg string, all bool) string {
			segs := append([]string{}, parts...)
			for _, i := range slots {
				switch {
				case i == at || all:
					segs[i] = seg
				case strings.HasPrefix(parts[i], ":"):
					v := valid[parts[i][1:]]
					if v == "" {
						v = p.tip
					}
					segs[i] = v
				default:
					segs[i] = "index.html"
				}
			}
			return strings.Join(segs, "/")
		}
		for k, seg := range odd {
			for _, at := range slots {
				out = append(out, &c16Request{Method: method, Target: fill(at, seg, false), CType: ctype, Body: body, Gen: "metrics-path"})
			}
			if len(slots) > 1 {
				out = append(out, &c16Request{Method: method, Target: fill(-1, seg, true), CType: ctype, Body: body, Gen: "metrics-path"})
			}
			if pattern == "/metrics" && k%9 != 0 {
				continue // every scrape serialises all series collected so far (megabytes of labels by now): a few of them
			}
			// the odd segment after the route's path (no route matches: one shared label) and in the query string (not part of
			// the label): fewer of these
			base := fill(-1, "", false)
			if k%3 == ri%3 {
				out = append(out, &c16Request{Method: method, Target: base + "/" + seg, CType: ctype, Body: body, Gen: "metrics-path-extra"})
			}
			if k%5 == ri%5 {
				out = append(out, &c16Request{Method: method, Target: base + "?x=" + seg + "&" + seg, CType: ctype, Body: body, Gen: "metrics-query"})
			}
		}
	}
	// no route at all
	for _, seg := range odd {
		if len(seg) < 100 {
			out = append(out, &c16Request{Method: "GET", Target: "/" + seg, Gen: "metrics-path-extra"}, &c16Request{Method: "GET", Target: c16Prefix + "/" + seg + "/" + seg, Gen: "metrics-path-extra"})
		}
	}
	return out
}

// scrape asks the engine for GET /metrics and checks the exposition: 200, text, valid UTF-8, parses as the Prometheus text
// format, and (after traffic) carries the request counter with its labels.
func (s *c16Side) scrape(c *Ctx, storeName, when string, afterTraffic bool) {
	q := &c16Request{Method: "GET", Target: "/metrics", Auth: "disabled", Gen: "metrics-scrape"}
	if s.auth {
		q.Auth = "missing" // outside the authenticated prefix
	}
	req, err := q.build()
	if err != nil {
		return
	}
	w := httptest.NewRecorder()
	crashed := ""
	func() {
		defer func() {
			if r := recover(); r != nil {
				crashed = fmt.Sprint(r)
			}
		}()
		s.ci.Engine.ServeHTTP(w, req)
	}()
	c.R.OracleChecked++
	c.R.Count("GET /metrics scrapes checked ("+when+")", 1)
	body := w.Body.Bytes()
	var broken []string
	if crashed != "" {
		broken = append(broken, "a panic escaped Engine.ServeHTTP: "+crashed)
	}
	if w.Code != 200 {
		broken = append(broken, fmt.Sprintf("status %d", w.Code))
	}
	if ct := w.Header().Get("Content-Type"); !strings.HasPrefix(ct, "text/plain") {
		broken = append(broken, "Content-Type "+ct)
	}
	if !utf8.Valid(body) {
		broken = append(broken, "the exposition is not valid UTF-8")
	}
	var parser expfmt.TextParser
	fams, perr := parser.TextToMetricFamilies(bytes.NewReader(body))
	if perr != nil {
		broken = append(broken, "the exposition does not parse: "+perr.Error())
	}
	if perr == nil && afterTraffic {
		f := fams["http_request_total"]
		if f == nil || len(f.GetMetric()) == 0 {
			broken = append(broken, "no http_request_total series after traffic")
		} else {
			for _, m := range f.GetMetric() {
				have := map[string]string{}
				for _, l := range m.GetLabel() {
					have[l.GetName()] = l.GetValue()
				}
				for _, n := range []string{"method", "path", "status", "classification", "app"} {
					if _, ok := have[n]; !ok {
						broken = append(broken, "a http_request_total series without label "+n)
					}
				}
				if st := have["status"]; len(st) != 3 || st[0] < '1' || st[0] > '5' {
					broken = append(broken, "a http_request_total series with status label "+st)
				}
				if len(broken) > 0 {
					break
				}
			}
		}
		if f := fams["http_request_duration_seconds"]; f == nil || len(f.GetMetric()) == 0 {
			broken = append(broken, "no http_request_duration_seconds series after traffic")
		}
	}
	if len(broken) == 0 {
		return
	}
	c.R.Fail(lib.Failure{Case: s.name + "/" + storeName + " GET /metrics (" + when + ")", Ops: s.replayOps(false, q), What: "GET /metrics: " + strings.Join(broken, "; "),
		Expected: "200 text/plain, a well-formed Prometheus exposition with the request series, whatever the clients sent before", Observed: fmt.Sprintf("%d %s body=%s", w.Code, w.Header().Get("Content-Type"), c16Short(body)),
		Signature: "c16-metrics-endpoint-malformed"})
}

// c16MetricsSubset: which requests of a route's grammar the metrics phase replays at the quick tier — everything that
// varies the PATH (the label), every plain request, and a third of the query / body shapes (whose handling the
// metrics-off phases cover in full).
func c16MetricsSubset(rng *rand.Rand, g []*c16Request, thorough bool) []*c16Request {
	if thorough {
		return g
	}
	var out []*c16Request
	for _, q := range g {
		switch {
		case strings.HasPrefix(q.Gen, "param"), q.Gen == "plain", q.Gen == "raw", q.Gen == "wildcard":
			out = append(out, q)
		case q.Gen == "unknown-route": // GET /metrics (each scrape serialises every series collected so far), routes the grammar does not know
			if q.Target != "/metrics" || rng.Intn(4) == 0 {
				out = append(out, q)
			}
		case q.Gen == "body-huge": // 10^4-item bodies: nothing the request metrics look at
		case rng.Intn(3) == 0:
			out = append(out, q)
		}
	}
	return out
}

// c16MetricsPhase replays the request grammar against engines wired with metrics enabled (authentication off and on).
func c16MetricsPhase(c *Ctx, ss *c16Sides, _ *rand.Rand) error {
	rng := lib.Rng(c.Seed, "c16-metrics")
	started := time.Now()
	c.R.Rule += " Then the same with metrics.enabled=true (engines wired as cmd/main.go does: metrics.Register before the routes; built after all metrics-off engines, because the switch cannot be undone in a process), " +
		"authentication off and on, on the crafted store" + map[bool]string{true: " and random stores", false: ""}[c.Thorough] + ": per route every path-varying and plain request of the grammar and a third of the query / body shapes, " +
		"every path parameter / wildcard / extra segment / query value filled with segments that decode to invalid UTF-8 (lone continuation and lead bytes, overlong, surrogate, beyond U+10FFFF, truncated), NUL, control and exposition-format characters, 6 kB–120 kB values, " +
		"valid multi-byte controls; other methods / trailing slashes / unknown paths; a mutation stream; GET /metrics checked before, between and after (200, text, UTF-8, parses as Prometheus text format, request series with all labels)."
	type store struct {
		name string
		ops  []string
	}
	stores := []store{{"crafted", c16CraftedStore()}}
	nMut := 300
	if c.Thorough {
		nMut = 3000
		for i := 0; i < 2; i++ {
			_, ops := genStore(rng, 10+rng.Intn(30), uint32(c.Seed)*137+uint32(i))
			stores = append(stores, store{fmt.Sprintf("metrics-random-%d", i), ops})
		}
	}
	for _, st := range stores {
		for _, auth := range []bool{false, true} {
			s, err := ss.metricsSide(auth)
			if err != nil {
				return err
			}
			if err := s.loadStore(c, st.name, st.ops); err != nil {
				return err
			}
			hasMetrics := false
			for _, r := range s.routes {
				hasMetrics = hasMetrics || (r[0] == "GET" && r[1] == "/metrics")
			}
			if !hasMetrics {
				return fmt.Errorf("C16 metrics phase: the engine built with metrics enabled has no GET /metrics route")
			}
			nontrivial := s.pool.forks && len(s.pool.orphan) > 0
			c.R.Count(fmt.Sprintf("stores (%s)", s.name), 1)
			c.R.Count("routes in the table ("+s.name+")", 0)
			if st.name == "crafted" {
				c.R.Count("routes in the table ("+s.name+")", len(s.routes))
			}
			s.scrape(c, st.name, "before traffic", false)
			var reqs, valid []*c16Request
			for _, r := range s.routes {
				g := c16MetricsSubset(rng, c16Grammar(rng, r[0], r[1], s.pool, c.Thorough), c.Thorough)
				reqs = append(reqs, g...)
				for _, q := range g {
					if q.Gen == "param" || q.Gen == "query" || q.Gen == "body" || q.Gen == "plain" || q.Gen == "ctype" {
						valid = append(valid, q)
					}
				}
			}
			reqs = append(reqs, c16OffTable(rng, s.routes, s.pool)...)
			reqs = append(reqs, c16MetricsPaths(rng, s.routes, s.pool, c.Thorough)...)
			for i := 0; i < nMut && len(valid) > 0; i++ {
				reqs = append(reqs, c16Mutate(rng, valid[rng.Intn(len(valid))]))
			}
			half := len(reqs) / 2
			rng.Shuffle(len(reqs), func(i, j int) { reqs[i], reqs[j] = reqs[j], reqs[i] })
			if err := s.sendAll(c, st.name, reqs[:half], rng, nontrivial); err != nil {
				return err
			}
			s.scrape(c, st.name, "between", true)
			if err := s.sendAll(c, st.name, reqs[half:], rng, nontrivial); err != nil {
				return err
			}
			s.scrape(c, st.name, "after traffic", true)
			if !s.alive() {
				c.R.Fail(lib.Failure{Case: s.name + "/" + st.name, What: "the engine stopped answering GET /status", Signature: "c16-server-dead"})
			}
		}
	}
	for _, s := range ss.met {
		c.R.ModelOps += s.l.Ops
	}
	c.R.Notes = append(c.R.Notes, fmt.Sprintf("metrics-enabled phase: %.1f s", time.Since(started).Seconds()))
	return nil
}
