package main

import (
	"encoding/json"
	"errors"
	"fmt"
	"io"
	"net/http"
	"sort"
	"strings"
	"sync"
	"time"

	"github.com/bitcoin-sv/block-headers-service/notification"
	"github.com/bitcoin-sv/block-headers-service/verifharness/lib"
	"github.com/centrifugal/centrifuge"
)

func init() { runners["C11"] = runC11 }

// recPublisher records what the websocket channel publishes to 'headers'; optionally fails.
type recPublisher struct {
	mu     sync.Mutex
	events []string
	fail   bool
	chans  map[string]int
	// kept: the payload slices exactly as handed over, next to a copy taken at that moment. The production publisher
	// (centrifuge's broker) keeps the slice it is given — history and recovery of the 'headers' channel are served
	// from it — so the bytes belong to the publisher from the call on.
	kept []keptPayload
}

type keptPayload struct {
	raw  []byte
	then string
}

// modified returns the first published payload whose bytes changed after publication.
func (p *recPublisher) modified() (int, string, string, bool) {
	p.mu.Lock()
	defer p.mu.Unlock()
	for i, k := range p.kept {
		if string(k.raw) != k.then {
			return i, k.then, string(k.raw), true
		}
	}
	return 0, "", "", false
}

func (p *recPublisher) Publish(channel string, data []byte, _ ...centrifuge.PublishOption) (centrifuge.PublishResult, error) {
	p.mu.Lock()
	defer p.mu.Unlock()
	if p.chans == nil {
		p.chans = map[string]int{}
	}
	p.chans[channel]++
	p.kept = append(p.kept, keptPayload{raw: data, then: string(data)})
	var ev struct {
		Operation string `json:"operation"`
		Header    struct {
			Height        int64       `json:"height"`
			Hash          string      `json:"hash"`
			Version       int64       `json:"version"`
			MerkleRoot    string      `json:"merkleRoot"`
			Timestamp     time.Time   `json:"creationTimestamp"`
			Nonce         uint32      `json:"nonce"`
			State         string      `json:"state"`
			CumulatedWork json.Number `json:"work"`
			PreviousBlock string      `json:"prevBlockHash"`
		} `json:"header"`
	}
	if err := json.Unmarshal(data, &ev); err != nil {
		p.events = append(p.events, "unparsable:"+string(data))
	} else {
		h := ev.Header
		p.events = append(p.events, fmt.Sprintf("%s %s,%s,%s,%d,%d,%d,%d,%s,%s", ev.Operation, h.Hash, h.PreviousBlock, h.MerkleRoot, h.Height, h.Version, h.Timestamp.Unix(), h.Nonce, h.CumulatedWork.String(), h.State))
	}
	if p.fail {
		return centrifuge.PublishResult{}, errors.New("publisher down")
	}
	return centrifuge.PublishResult{}, nil
}

// behavChannel is a notification.Channel with a scripted behaviour.
type behavChannel struct {
	mu      sync.Mutex
	events  []string
	delay   time.Duration
	release chan struct{} // non-nil: block until closed
}

func (b *behavChannel) Notify(ev notification.Event) {
	if b.release != nil {
		<-b.release
	}
	if b.delay > 0 {
		time.Sleep(b.delay)
	}
	b.mu.Lock()
	b.events = append(b.events, eventStr(ev))
	b.mu.Unlock()
}

func (b *behavChannel) snapshot() []string {
	b.mu.Lock()
	defer b.mu.Unlock()
	return append([]string(nil), b.events...)
}

// hookClient is a scripted WebhookTargetClient: records posts, always fails.
type hookClient struct {
	mu    sync.Mutex
	posts []string
}

func (h *hookClient) Call(headers map[string]string, method string, url string, body any) (*http.Response, error) {
	h.mu.Lock()
	h.posts = append(h.posts, method+" "+url+" "+eventStr(body))
	h.mu.Unlock()
	// targets whose URL ends in /ok answer 200; every other target refuses the connection
	if strings.HasSuffix(url, "/ok") {
		return &http.Response{StatusCode: 200, Body: io.NopCloser(strings.NewReader("ok"))}, nil
	}
	return nil, errors.New("connection refused")
}

// postsTo returns the events posted to one URL
func (h *hookClient) postsTo(url string) []string {
	h.mu.Lock()
	defer h.mu.Unlock()
	var r []string
	for _, p := range h.posts {
		if strings.HasPrefix(p, "POST "+url+" ") {
			r = append(r, strings.TrimPrefix(p, "POST "+url+" "))
		}
	}
	return r
}

func waitFor(cond func() bool, timeout time.Duration) bool {
	dl := time.Now().Add(timeout)
	for !cond() {
		if time.Now().After(dl) {
			return false
		}
		time.Sleep(300 * time.Microsecond)
	}
	return true
}

func sortedCopy(a []string) []string {
	b := append([]string(nil), a...)
	sort.Strings(b)
	return b
}

// expected event text of a stored row (the Lean driver's `stored <row>` / the table row)
func eventOfRow(r DbRow, stateAtStore string) string {
	return fmt.Sprintf("ADD %s,%s,%s,%d,%d,%s,%d,%s,%s", r.Hash, r.Prev, r.Merkle, r.Height, r.Version, r.Time, r.Nonce, r.Cum, stateAtStore)
}

func runC11(c *Ctx) error {
	rng := lib.Rng(c.Seed, "c11")
	c.R.Rule = "ingestion histories from the C01 generator (duplicates, forbidden hashes, injected store failures at every write index) on the real stack with the real Notifier; channels: a recording channel, a slow channel, a channel that blocks until the end of the history, the real websocket channel over a recording (and a failing) publisher, the real WebhooksService over the SQL repository with a failing scripted client. After every submission the multiset of events per channel is compared with the model's events and with the oracle (exactly one ADD per stored header, fields equal to the stored row; none otherwise); ingestion must proceed while a channel is blocked. Non-trivial = history containing a stored header, a duplicate or rejected submission and an injected failure; distinct by op list."
	l := c.lean()
	defer l.Close()
	nHist, maxLen := 25, 25
	if c.Thorough {
		nHist, maxLen = 250, 60
	}
	var prods []*prodHooks
	defer func() {
		for _, p := range prods {
			p.close()
		}
	}()
	for k := 0; k < nHist; k++ {
		hook := &hookClient{}
		ci, err := newChainImpl(fmt.Sprintf("c11-%d.db", k%3), lib.StackOpts{WebhookCli: hook, MaxTries: 1000000})
		if err != nil {
			return err
		}
		rec := &behavChannel{}
		slow := &behavChannel{delay: 2 * time.Millisecond}
		blocked := &behavChannel{release: make(chan struct{})}
		pubOK, pubFail := &recPublisher{}, &recPublisher{fail: true}
		nt := ci.Svc.Notifier
		nt.AddChannel(blocked)
		nt.AddChannel(rec)
		nt.AddChannel(slow)
		nt.AddChannel(notification.NewWebsocketChannel(ci.Log, pubFail, ci.Cfg.Websocket))
		nt.AddChannel(notification.NewWebsocketChannel(ci.Log, pubOK, ci.Cfg.Websocket))
		nt.AddChannel(ci.Svc.Webhooks)
		// four webhooks in table order: a failing one that stays active (threshold far away) and, in a second
		// service with max_tries = 2, …/dead fails and is deactivated after two events while the two listed AFTER it
		// (…/b/ok, …/c/ok) are healthy and must keep receiving every event
		for _, u := range []string{"http://hook.invalid/a", "http://hook.invalid/b/ok"} {
			if _, err := ci.Svc.Webhooks.CreateWebhook("BEARER", "", "t", u); err != nil {
				return fmt.Errorf("create webhook: %v", err)
			}
		}
		hook2 := &hookClient{}
		ci2cfg := *ci.Cfg.Webhook
		ci2cfg.MaxTries = 2
		// a second SQL-backed webhook table is not available in one database: use a second stack (own file)
		// whose notifier is fed by the same submissions through a forwarding channel
		st2, err := lib.NewStack(lib.StackOpts{File: lib.TempDB(fmt.Sprintf("c11-hooks-%d.db", k%3)), NoEngine: true, WebhookCli: hook2, MaxTries: 2})
		if err != nil {
			return err
		}
		for _, u := range []string{"http://hook.invalid/dead", "http://hook.invalid/b/ok", "http://hook.invalid/c/ok"} {
			if _, err := st2.Svc.Webhooks.CreateWebhook("BEARER", "", "t", u); err != nil {
				return fmt.Errorf("create webhook: %v", err)
			}
		}
		nt.AddChannel(st2.Svc.Webhooks)
		// the production HTTP client with a silent target (two histories per run; verified at the end of the run)
		var prod *prodHooks
		if k < 2 || (c.Thorough && k%25 == 0) {
			if prod, err = newProdHooks(fmt.Sprint(k)); err != nil {
				return err
			}
			prods = append(prods, prod)
			nt.AddChannel(prod.st.Svc.Webhooks)
		}
		n := 4 + rng.Intn(maxLen-3)
		if prod != nil && n < 9 {
			n = 9 // enough stored headers to exhaust a small connection pool
		}
		nodes, order := randomHistory(rng, n, uint32(k)+uint32(c.Seed)*48611, k%4 == 0, true)
		forbidHash := nodes[rng.Intn(n)].Hdr.HashStr()
		name := fmt.Sprintf("history #%d n=%d", k, n)
		ops := []string{"reset", "forbid " + forbidHash}
		l.Ask("reset")
		ci.Op("forbid " + forbidHash)
		l.Ask("forbid " + forbidHash)
		var expected []string // events the oracle expects, in order
		sawStored, sawDupRej, sawFault := false, false, false
		start := time.Now()
		for _, i := range order {
			hd := nodes[i].Hdr
			op := "add " + hd.Hex()
			faulty := rng.Intn(9) == 0
			var impl string
			if faulty {
				// injected store failure at a random write: no event whatever happened before it
				ci.Rec.FailAt, ci.Rec.KillAt = 1+rng.Intn(3), -1
				impl, _ = ci.Add(hd)
				ci.Rec.FailAt = 0
				ops = append(ops, "# failing write: "+op[:24])
				if strings.HasPrefix(impl, "error:") {
					sawFault = true
					c.R.Count("submission:store-failure", 1)
					// keep the model in step: it saw the same prefix of writes
					nw := strings.Count(impl, " | W ")
					if _, err := l.Ask(fmt.Sprintf("crash %d %s", nw, hd.Hex())); err != nil {
						return err
					}
					continue
				}
				// the failing index was beyond the writes of this submission: it completed normally
				if _, err := l.Ask(op); err != nil {
					return err
				}
			} else {
				ops = append(ops, op)
				impl = ci.Op(op)
				model, err := l.Ask(op)
				if err != nil {
					return err
				}
				c.R.TracesValidated++
				if impl != model && c.Driver != "none" {
					c.R.Disagree(lib.Disagreement{Case: name, Ops: append([]string{}, ops...), Op: op, Impl: impl, Model: model})
				}
			}
			cls := strings.Fields(impl)[0]
			c.R.Count("submission:"+cls, 1)
			if cls == "stored" {
				sawStored = true
				// the model's event = the stored row as printed by the driver
				f := strings.Split(strings.Fields(strings.Split(impl, " | ")[0])[1], ",")
				// id,hash,prev,merkle,height,version,time,bits,nonce,work,cum,state
				expected = append(expected, fmt.Sprintf("ADD %s,%s,%s,%s,%s,%s,%s,%s,%s", f[1], f[2], f[3], f[4], f[5], f[6], f[8], f[10], f[11]))
				if prod != nil {
					// let this delivery reach the first production webhook before the next header is submitted: its connection
					// goes back to the client's idle pool and the next delivery REUSES it (keep-alive), as in steady operation
					waitFor(func() bool { return len(prod.posts(prodFirst)) >= len(expected) }, 150*time.Millisecond)
					time.Sleep(2 * time.Millisecond)
				}
			} else {
				sawDupRej = true
			}
		}
		ingestTime := time.Since(start)
		c.R.OracleChecked++
		fail := func(what, exp, obs, sig string) {
			c.R.Fail(lib.Failure{Case: name, Ops: append([]string{}, ops...), What: what, Expected: exp, Observed: obs, Signature: sig})
		}
		// ingestion finished although one channel has been blocked all along
		if len(blocked.snapshot()) != 0 {
			fail("the blocked channel delivered before it was released", "0", fmt.Sprint(len(blocked.snapshot())), "c11-harness")
		}
		want := strings.Join(sortedCopy(expected), "\n")
		budget := 5 * time.Second
		check := func(chName string, get func() []string) {
			ok := waitFor(func() bool { return len(get()) >= len(expected) }, budget)
			if !ok {
				budget = 150 * time.Millisecond // one channel already timed out: do not wait the full time for each of the others
			}
			time.Sleep(2 * time.Millisecond) // let a duplicate delivery, if any, arrive
			got := strings.Join(sortedCopy(get()), "\n")
			if !ok || got != want {
				fail(fmt.Sprintf("channel %s did not receive exactly one ADD event per stored header with the stored header's fields (%d expected, %d received)", chName, len(expected), len(get())), want, got, "c11-events:"+chName)
			}
		}
		check("recording", rec.snapshot)
		check("slow", slow.snapshot)
		check("websocket", func() []string {
			pubOK.mu.Lock()
			defer pubOK.mu.Unlock()
			return append([]string(nil), pubOK.events...)
		})
		check("websocket(failing publisher)", func() []string {
			pubFail.mu.Lock()
			defer pubFail.mu.Unlock()
			return append([]string(nil), pubFail.events...)
		})
		check("webhook(failing target, still active)", func() []string { return hook.postsTo("http://hook.invalid/a") })
		check("webhook(healthy target listed after a failing one)", func() []string { return hook.postsTo("http://hook.invalid/b/ok") })
		check("webhook(healthy target listed after a DEACTIVATED one)", func() []string { return hook2.postsTo("http://hook.invalid/b/ok") })
		check("webhook(second healthy target after a deactivated one)", func() []string { return hook2.postsTo("http://hook.invalid/c/ok") })
		// (how often the failing webhook is called before it is deactivated is C12's subject and depends on how far the
		// per-event deliveries overlap — each delivery goroutine reads the counter for itself; here it only has to have been
		// called at least max_tries times, so that the webhooks listed after it were exercised behind a deactivated one)
		if n := len(hook2.postsTo("http://hook.invalid/dead")); len(expected) >= 2 && n < 2 {
			fail(fmt.Sprintf("the failing webhook with max_tries=2 was called %d times", n), "at least 2", fmt.Sprint(n), "c11-events:webhook-deactivation")
		}
		c.R.Count("calls of the failing webhook (max_tries=2) before deactivation", len(hook2.postsTo("http://hook.invalid/dead")))
		st2.Close()
		if prod != nil {
			prod.name, prod.ops, prod.want, prod.started = name+" (production webhook client)", append([]string{}, ops...), append([]string{}, expected...), time.Now()
		}
		if i, then, now, bad := pubOK.modified(); bad {
			fail(fmt.Sprintf("the payload of websocket event #%d was modified after it had been handed to the publisher (the broker keeps it for the channel's history and recovery: a client that reconnects is served the altered bytes instead of the event)", i+1), then, now, "c11-events:websocket-payload-modified-after-publish")
		}
		for ch, n := range pubOK.chans {
			if ch != "headers" {
				fail("websocket event published to channel "+ch, "headers", fmt.Sprint(n), "c11-events:websocket")
			}
		}
		close(blocked.release)
		check("blocked-then-released", blocked.snapshot)
		// events against the table: every stored non-genesis row has exactly one event (fields equal), nothing else
		rows, _ := ci.Dump()
		if len(rows)-1 != len(expected) {
			fail("number of events differs from the number of stored headers", fmt.Sprint(len(rows)-1), fmt.Sprint(len(expected)), "c11-count")
		}
		c.R.Case(strings.Join(ops, "\n"), sawStored && sawDupRej && sawFault)
		c.R.Count("ingest-ms-with-blocked-channel", int(ingestTime.Milliseconds()))
		if k < 2 {
			c.R.Sample(map[string]any{"case": name, "events": expected[:min(3, len(expected))], "ops": ops[:min(8, len(ops))]}, 4)
		}
		ci.Close()
	}
	for _, p := range prods {
		p.verify(c, c11Patience)
	}
	prods = nil
	if c.Replay == "" {
		if err := c11Reregister(c); err != nil {
			return err
		}
		if err := c11Burst(c); err != nil {
			return err
		}
	}
	c.R.ModelOps = l.Ops
	return nil
}

// c11Patience: how long after the end of ingestion the webhook listed after a silent target may have to wait
// (the production client's request timeout plus a margin).
const c11Patience = 40 * time.Second
