package main

// C06/C07 — the rig: real peer objects of both sync engines over the real SQLite stack, connected
// over loopback TCP to scripted nodes (c06_node.go).
//
// Legacy engine ("light rig"): real transports/p2p/peer.Peer objects whose listeners forward to a real
// p2psync.SyncManager exactly as transports/p2p/serverpeer.go does (OnVersion -> IsCurrent (outbound) +
// NewPeer, OnInv -> QueueInv when non-empty, OnHeaders -> QueueHeaders, OnGetHeaders -> IsCurrent +
// LocateHeaders), a recording PeerNotifier, and the peerDoneHandler of server.go (WaitForDisconnect ->
// DonePeer when the version is known).
// Experimental engine: internal/transports/p2p/peer.Peer created and started as
// internal/transports/p2p/server.go connectPeer does (NewPeer, Connect, StartHeadersSync).
//
// Quiescence is detected without timers: ping/pong is in-band and FIFO in both directions, and the sync
// manager's message channel is FIFO, so "node pinged and got its pong; manager answered a query queued
// afterwards; node pinged again and got its pong" implies that everything the node sent was handled and
// everything queued for the node in response has been received. Timeouts are failsafes only.

import (
	"errors"
	"fmt"
	"net"
	"sort"
	"strings"
	"sync"
	"sync/atomic"
	"time"

	"github.com/bitcoin-sv/block-headers-service/config"
	"github.com/bitcoin-sv/block-headers-service/internal/chaincfg"
	"github.com/bitcoin-sv/block-headers-service/internal/chaincfg/chainhash"
	exppeer "github.com/bitcoin-sv/block-headers-service/internal/transports/p2p/peer"
	"github.com/bitcoin-sv/block-headers-service/internal/wire"
	"github.com/bitcoin-sv/block-headers-service/service"
	"github.com/bitcoin-sv/block-headers-service/transports/p2p"
	"github.com/bitcoin-sv/block-headers-service/transports/p2p/p2psync"
	"github.com/bitcoin-sv/block-headers-service/transports/p2p/peer"
	"github.com/bitcoin-sv/block-headers-service/verifharness/lib"
	"github.com/rs/zerolog"
)

// stackMu serialises stack construction: lib.NewStack writes process globals (config.Checkpoints,
// config.TimeSource, viper) that HeaderService / SyncManager copy at construction.
var stackMu sync.Mutex

type recNotifier struct {
	mu     sync.Mutex
	banned []int32 // peer ids, in call order
}

func (r *recNotifier) UpdatePeerHeights(*chainhash.Hash, int32, *peer.Peer) {}
func (r *recNotifier) RelayInventory(*wire.InvVect, interface{})            {}
func (r *recNotifier) BanPeer(p *peer.Peer) {
	r.mu.Lock()
	r.banned = append(r.banned, p.ID())
	r.mu.Unlock()
}

type legacyPeer struct {
	p             *peer.Peer
	node          int
	doneDelivered int32
	svcDiscSeen   bool // a service-initiated disconnect has been reported as an observed action
	banSeen       bool
}

type expPeer struct {
	p        *exppeer.Peer
	node     int
	err      error // result of Connect / StartHeadersSync
	discSeen bool
}

// evRec is one event of a serial run: the model operation and what the implementation did.
type evRec struct {
	Step     string
	ModelOp  string
	Observed string
	NodeOp   string // M-Node cross-check: the request as the Lean node sees it …
	NodeWant string // … and what the scripted Go node answered (display hashes)
}

type rig struct {
	s     *scn
	tree  *blockTree
	ci    *ChainImpl
	nodes []*scriptNode
	now   time.Time
	log   zerolog.Logger

	sm     *p2psync.SyncManager
	notif  *recNotifier
	lpeers []*legacyPeer
	inLn   net.Listener
	times  config.MedianTimeSource

	xpeers []*expPeer
	params chaincfg.Params

	seenGH  []int // per node: number of getheaders already reported
	seenLog []int
	events  []evRec
	defs    []string // model ops that define the scenario (init, header table, preload)
	notes   []string
	served  map[int]int
	nBans   int
	// store-level digests around submissions that start with a forbidden header (serial mode): what changed although
	// the submission had to be refused
	refusedChanged []string
	// background readers (scn.Readers)
	stopRead  chan struct{}
	readWG    sync.WaitGroup
	readCount int64
	readOnce  sync.Once
}

// startReaders: the store is read concurrently for the whole run, as API clients, other peers' handshakes (newest block
// for the version message) and served getheaders read it in the running service.
func (r *rig) startReaders() {
	if r.s.Readers <= 0 {
		return
	}
	r.stopRead = make(chan struct{})
	for k := 0; k < r.s.Readers; k++ {
		r.readWG.Add(1)
		go func(k int) {
			defer r.readWG.Done()
			defer func() { _ = recover() }()
			for i := k; ; i++ {
				select {
				case <-r.stopRead:
					return
				default:
				}
				switch i % 3 {
				case 0:
					_ = r.ci.Svc.Headers.GetTip()
				case 1:
					_ = r.ci.Svc.Headers.LatestHeaderLocator()
				default:
					_ = r.ci.http("GET", "/api/v1/chain/tip/longest", nil, nil)
				}
				atomic.AddInt64(&r.readCount, 1)
				time.Sleep(200 * time.Microsecond)
			}
		}(k)
	}
}

func (r *rig) stopReaders() {
	if r.stopRead == nil {
		return
	}
	r.readOnce.Do(func() { close(r.stopRead) })
	r.readWG.Wait()
}

func (r *rig) serial() bool { return r.s.Sched != "free" }

func cpList(t *blockTree, idxs []int) []chaincfg.Checkpoint {
	var cps []chaincfg.Checkpoint
	for _, i := range idxs {
		h := chainhash.Hash(t.hash[i])
		cps = append(cps, chaincfg.Checkpoint{Height: int32(t.height[i]), Hash: &h})
	}
	sort.Slice(cps, func(a, b int) bool { return cps[a].Height < cps[b].Height })
	return cps
}

// farCheckpoint is what "no checkpoint list" means for HeaderService.IsCurrent, which indexes the last element.
func farCheckpoint() []chaincfg.Checkpoint {
	return []chaincfg.Checkpoint{{Height: 1 << 30, Hash: &chainhash.Hash{}}}
}

func newRig(s *scn, name string) (*rig, error) {
	r := &rig{s: s, now: time.Now(), log: lib.DiscardLog(), served: map[int]int{}}
	r.tree = buildBlockTree(s.Parents, s.Bits, s.Salt, r.now)
	var ignore []*chainhash.Hash
	for _, i := range s.Forbid {
		h := chainhash.Hash(r.tree.hash[i])
		ignore = append(ignore, &h)
	}
	cps := cpList(r.tree, s.Cps)
	stackCps := cps
	if len(stackCps) == 0 || s.Engine == "exp" {
		stackCps = farCheckpoint()
	}
	stackMu.Lock()
	ci, err := newChainImpl(name, lib.StackOpts{Checkpoints: stackCps, Ignore: ignore})
	if err != nil {
		stackMu.Unlock()
		return nil, err
	}
	r.ci = ci
	r.times = config.TimeSource
	// initial store: headers added through the real chain service before the engine exists
	for _, i := range s.Init {
		if _, err := ci.Svc.Chains.Add(r.tree.hdrs[i].Source()); err != nil {
			r.notes = append(r.notes, fmt.Sprintf("preload %d: %v", i, err))
		}
	}
	if s.Engine == "legacy" {
		r.notif = &recNotifier{}
		p2pc := ci.Cfg.P2P
		r.sm, err = p2psync.New(&p2psync.Config{
			PeerNotifier:              r.notif,
			ChainParams:               &chaincfg.MainNetParams,
			DisableCheckpoints:        s.CpOff,
			MaxPeers:                  config.MaxPeers,
			MinSyncPeerNetworkSpeed:   config.MinSyncPeerNetworkSpeed,
			BlocksForForkConfirmation: p2pc.BlocksForForkConfirmation,
			Logger:                    &r.log,
			Services:                  ci.Svc,
			Checkpoints:               stackCps,
		}, map[*peer.Peer]*peer.SyncState{})
		stackMu.Unlock()
		if err != nil {
			ci.Close()
			return nil, err
		}
		r.sm.Start()
	} else {
		r.params = chaincfg.MainNetParams
		r.params.Checkpoints = cps
		r.params.HeadersToIgnore = ignore
		stackMu.Unlock()
	}
	r.nodes = make([]*scriptNode, len(s.Nodes))
	r.lpeers = make([]*legacyPeer, len(s.Nodes))
	r.xpeers = make([]*expPeer, len(s.Nodes))
	r.seenGH = make([]int, len(s.Nodes))
	r.seenLog = make([]int, len(s.Nodes))
	for i, spec := range s.Nodes {
		r.nodes[i] = newScriptNode(i, r.tree, spec, !r.serial(), s.Seed)
	}
	r.modelDefs()
	return r, nil
}

func (r *rig) close() {
	r.stopReaders()
	for _, n := range r.nodes {
		if n != nil {
			n.close()
			if n.ln != nil {
				_ = n.ln.Close()
			}
		}
	}
	for _, lp := range r.lpeers {
		if lp != nil {
			lp.p.Disconnect()
		}
	}
	for _, xp := range r.xpeers {
		if xp != nil && xp.p != nil {
			p := xp.p
			go func() {
				defer func() { _ = recover() }()
				if !p.VerifQuitting() {
					p.Disconnect()
				}
			}()
		}
	}
	if r.inLn != nil {
		_ = r.inLn.Close()
	}
	if r.sm != nil {
		done := make(chan struct{})
		go func() { r.sm.Stop(); close(done) }()
		select {
		case <-done:
		case <-time.After(5 * time.Second):
		}
	}
	if r.ci != nil {
		r.ci.Close()
	}
}

// ---------------------------------------------------------------------------------------------
// legacy engine wiring (mirror of serverpeer.go newPeerConfig + listeners)

func (r *rig) legacyPeerConfig() *peer.Config {
	sm := r.sm
	svc := r.ci.Svc
	ts := r.times
	return &peer.Config{
		Listeners: peer.MessageListeners{
			OnVersion: func(p *peer.Peer, msg *wire.MsgVersion) *wire.MsgReject {
				if msg.ProtocolVersion < int32(peer.MinAcceptableProtocolVersion) {
					return nil
				}
				if strings.Contains(msg.UserAgent, "ABC") || strings.Contains(msg.UserAgent, "BUCash") || strings.Contains(msg.UserAgent, "Cash") {
					return wire.NewMsgReject(msg.Command(), wire.RejectNonstandard, "Sorry, you are not running Bitcoin")
				}
				if !p.Inbound() {
					_ = sm.IsCurrent() // serverpeer.go asks before advertising its address
				}
				if ts != nil {
					ts.AddTimeSample(p.Addr(), msg.Timestamp)
				}
				sm.NewPeer(p, nil)
				return nil
			},
			// the REAL serverPeer.OnInv / OnHeaders of transports/p2p/serverpeer.go (overlay p2p_sync_verif.go), not a copy
			OnInv:     p2p.VerifSyncOnInv(sm),
			OnHeaders: p2p.VerifSyncOnHeaders(sm),
			OnGetHeaders: func(p *peer.Peer, msg *wire.MsgGetHeaders) {
				if !sm.IsCurrent() {
					return
				}
				headers := svc.Headers.LocateHeaders(msg.BlockLocatorHashes, &msg.HashStop)
				bhs := make([]*wire.BlockHeader, len(headers))
				for i := range headers {
					bhs[i] = &headers[i]
				}
				p.QueueMessage(&wire.MsgHeaders{Headers: bhs}, nil)
			},
		},
		Log: &r.log,
		NewestBlock: func() (*chainhash.Hash, int32, error) {
			h := svc.Headers.GetTip()
			if h == nil {
				return nil, 0, nil
			}
			return &h.Hash, h.Height, nil
		},
		UserAgentName:    r.ci.Cfg.P2P.UserAgentName,
		UserAgentVersion: r.ci.Cfg.P2P.UserAgentVersion,
		ChainParams:      &chaincfg.MainNetParams,
		Services:         wire.SFspv,
		ProtocolVersion:  uint32(70013),
		TrickleInterval:  config.TrickleInterval,
	}
}

func (r *rig) watchDone(lp *legacyPeer) {
	// server.go peerDoneHandler
	go func() {
		lp.p.WaitForDisconnect()
		if r.serial() {
			return // the executor delivers DonePeer itself, as a separate event
		}
		if lp.p.VersionKnown() {
			r.sm.DonePeer(lp.p, nil)
		}
		atomic.StoreInt32(&lp.doneDelivered, 1)
	}()
}

func (r *rig) connectLegacy(i int) error {
	n := r.nodes[i]
	cfg := r.legacyPeerConfig()
	var p *peer.Peer
	if n.spec.Dir == "in" {
		if r.inLn == nil {
			ln, err := net.Listen("tcp4", "127.0.0.1:0")
			if err != nil {
				return err
			}
			r.inLn = ln
		}
		n.dial(r.inLn.Addr().String(), false)
		_ = r.inLn.(*net.TCPListener).SetDeadline(time.Now().Add(rigTimeout))
		c, err := r.inLn.Accept()
		if err != nil {
			return err
		}
		if tc, ok := c.(*net.TCPConn); ok {
			_ = tc.SetNoDelay(true)
		}
		p = peer.NewInboundPeer(cfg)
		p.AssociateConnection(c)
	} else {
		addr, err := n.listen()
		if err != nil {
			return err
		}
		c, err := net.DialTimeout("tcp4", addr, rigTimeout)
		if err != nil {
			return err
		}
		if tc, ok := c.(*net.TCPConn); ok {
			_ = tc.SetNoDelay(true)
		}
		p, err = peer.NewOutboundPeer(cfg, addr)
		if err != nil {
			return err
		}
		p.AssociateConnection(c)
	}
	lp := &legacyPeer{p: p, node: i}
	r.lpeers[i] = lp
	r.watchDone(lp)
	select {
	case err := <-n.ready:
		if err != nil {
			return fmt.Errorf("node %d handshake: %w", i, err)
		}
	case <-time.After(rigTimeout):
		return fmt.Errorf("node %d handshake timeout", i)
	}
	return nil
}

func (r *rig) connectExp(i int) error {
	n := r.nodes[i]
	var c net.Conn
	var err error
	inbound := n.spec.Dir == "in"
	if inbound {
		if r.inLn == nil {
			ln, err := net.Listen("tcp4", "127.0.0.1:0")
			if err != nil {
				return err
			}
			r.inLn = ln
		}
		n.dial(r.inLn.Addr().String(), true) // the experimental peer sends its version first in both directions
		_ = r.inLn.(*net.TCPListener).SetDeadline(time.Now().Add(rigTimeout))
		if c, err = r.inLn.Accept(); err != nil {
			return err
		}
	} else {
		addr, err := n.listen()
		if err != nil {
			return err
		}
		if c, err = net.DialTimeout("tcp4", addr, rigTimeout); err != nil {
			return err
		}
	}
	if tc, ok := c.(*net.TCPConn); ok {
		_ = tc.SetNoDelay(true)
	}
	p, err := exppeer.NewPeer(c, inbound, r.ci.Cfg.P2P, &r.params, r.ci.Svc.Headers, r.ci.Svc.Chains, &r.log)
	if err != nil {
		return err
	}
	xp := &expPeer{p: p, node: i}
	r.xpeers[i] = xp
	// internal/transports/p2p/server.go connectPeer
	if err := p.Connect(); err != nil {
		xp.err = err
		return fmt.Errorf("exp Connect: %w", err)
	}
	select {
	case err := <-n.ready:
		if err != nil {
			return fmt.Errorf("node %d handshake: %w", i, err)
		}
	case <-time.After(rigTimeout):
		return fmt.Errorf("node %d handshake timeout", i)
	}
	if err := p.StartHeadersSync(); err != nil {
		xp.err = err
		return fmt.Errorf("exp StartHeadersSync: %w", err)
	}
	return nil
}

// ---------------------------------------------------------------------------------------------
// quiescence

var errRigTimeout = errors.New("rig timeout")

func (r *rig) trafficSum() int64 {
	var t int64
	for _, n := range r.nodes {
		t += atomic.LoadInt64(&n.traffic)
	}
	return t
}

// flush: one ping/pong round over all live nodes.
func (r *rig) flush() error {
	for _, n := range r.nodes {
		n.wmu.Lock()
		connected := n.conn != nil
		n.wmu.Unlock()
		if !connected {
			continue
		}
		if _, err := n.pingWait(); err != nil {
			return fmt.Errorf("%w: %v", errRigTimeout, err)
		}
	}
	return nil
}

// waitServiceSawClose: after a node closed its side, wait until the service's peer object noticed.
func (r *rig) waitPeersOfClosedNodes() error {
	for i, n := range r.nodes {
		if !n.isClosed() {
			continue
		}
		if lp := r.lpeers[i]; lp != nil {
			done := make(chan struct{})
			go func() { lp.p.WaitForDisconnect(); close(done) }()
			select {
			case <-done:
			case <-time.After(rigTimeout):
				return fmt.Errorf("%w: peer of closed node %d still connected", errRigTimeout, i)
			}
			if !r.serial() {
				dl := time.Now().Add(rigTimeout)
				for atomic.LoadInt32(&lp.doneDelivered) == 0 {
					if time.Now().After(dl) {
						return fmt.Errorf("%w: DonePeer of node %d not delivered", errRigTimeout, i)
					}
					time.Sleep(50 * time.Microsecond)
				}
			}
		}
	}
	return nil
}

// settle returns when nothing is in flight any more.
func (r *rig) settle() error {
	quiet := 0
	for round := 0; round < 100000; round++ {
		before := r.trafficSum()
		if err := r.flush(); err != nil {
			return err
		}
		if err := r.waitPeersOfClosedNodes(); err != nil {
			return err
		}
		if r.sm != nil {
			r.sm.VerifBarrier()
		}
		if err := r.flush(); err != nil {
			return err
		}
		// a disconnect decided by the service shows up as a closed node connection; wait for it so that
		// "closed by remote" is stable when the round ends
		for i, lp := range r.lpeers {
			if lp != nil && !lp.p.Connected() && !r.nodes[i].isClosed() {
				select {
				case <-r.nodes[i].closedCh:
				case <-time.After(rigTimeout):
					return fmt.Errorf("%w: node %d did not see the close", errRigTimeout, i)
				}
			}
		}
		for i, xp := range r.xpeers {
			if xp != nil && xp.p != nil && xp.p.VerifQuitting() && !r.nodes[i].isClosed() {
				select {
				case <-r.nodes[i].closedCh:
				case <-time.After(rigTimeout):
					return fmt.Errorf("%w: node %d did not see the close", errRigTimeout, i)
				}
			}
		}
		if err := r.waitPeersOfClosedNodes(); err != nil {
			return err
		}
		if r.trafficSum() == before {
			quiet++
			// serial mode: nodes never answer on their own, one quiet round is conclusive.
			// free mode: nodes answer with delays; an item in flight reaches the traffic counter within two
			// rounds, so three consecutive quiet rounds are conclusive.
			if r.serial() || quiet >= 3 {
				return nil
			}
		} else {
			quiet = 0
		}
	}
	return fmt.Errorf("%w: no quiescence after 100000 rounds", errRigTimeout)
}

// ---------------------------------------------------------------------------------------------
// observation (what the service did since the last observation), canonical form:
//   gh <node> <stop|0> <loc,...> ; disc <node> ; ban <node> ; sendheaders <node>   (grouped by node, ascending)

func (r *rig) hashName(h [32]byte) string {
	var zero [32]byte
	if h == zero {
		return "0"
	}
	return display(h)
}

func (r *rig) observe() string {
	var parts []string
	var bannedIDs []int32
	if r.notif != nil {
		r.notif.mu.Lock()
		bannedIDs = append(bannedIDs, r.notif.banned[r.nBans:]...)
		r.nBans = len(r.notif.banned)
		r.notif.mu.Unlock()
	}
	for i, n := range r.nodes {
		gh, log := n.received()
		k := r.seenGH[i]
		for ; k < len(gh); k++ {
			loc := make([]string, len(gh[k].Loc))
			for j, l := range gh[k].Loc {
				loc[j] = r.hashName(l)
			}
			parts = append(parts, fmt.Sprintf("gh %d %s %s", i, r.hashName(gh[k].Stop), strings.Join(loc, ",")))
		}
		r.seenGH[i] = k
		for j := r.seenLog[i]; j < len(log); j++ {
			if log[j] == "sendheaders" {
				parts = append(parts, fmt.Sprintf("sendheaders %d", i))
			}
		}
		r.seenLog[i] = len(log)
		if lp := r.lpeers[i]; lp != nil {
			for _, id := range bannedIDs {
				if id == lp.p.ID() {
					parts = append(parts, fmt.Sprintf("ban %d", i))
				}
			}
			if !lp.svcDiscSeen && !lp.p.Connected() && n.closedByRemote() {
				lp.svcDiscSeen = true
				parts = append(parts, fmt.Sprintf("disc %d", i))
			}
		}
		if xp := r.xpeers[i]; xp != nil && xp.p != nil {
			if xp.p.VerifQuitting() && n.closedByRemote() && !xp.discSeen {
				xp.discSeen = true
				parts = append(parts, fmt.Sprintf("disc %d", i))
			}
		}
	}
	return strings.Join(parts, " ; ")
}

func (r *rig) syncPeerNode() string {
	if r.sm == nil {
		return "-"
	}
	id := r.sm.VerifSyncPeerID()
	if id == 0 {
		return "-"
	}
	for i, lp := range r.lpeers {
		if lp != nil && lp.p.ID() == id {
			return fmt.Sprint(i)
		}
	}
	return "?"
}

// record closes an event: settle, observe, remember the model operation.
// modelOp contains the literal CHOICE where the observed sync peer goes.
func (r *rig) record(step, modelOp string) error {
	if err := r.settle(); err != nil {
		return err
	}
	obs := r.observe()
	if modelOp != "" {
		modelOp = strings.Replace(modelOp, "CHOICE", r.syncPeerNode(), 1)
	}
	r.events = append(r.events, evRec{Step: step, ModelOp: modelOp, Observed: obs})
	return nil
}

// pendingDone delivers, one event each, the DonePeer of peers that are disconnected (serial mode).
func (r *rig) pendingDone() error {
	if !r.serial() || r.sm == nil {
		return nil
	}
	for progress := true; progress; {
		progress = false
		for i, lp := range r.lpeers {
			if lp == nil || lp.doneDelivered != 0 || lp.p.Connected() {
				continue
			}
			lp.p.WaitForDisconnect()
			lp.doneDelivered = 1
			if lp.p.VersionKnown() {
				r.sm.DonePeer(lp.p, nil)
				if err := r.record(fmt.Sprintf("(done %d)", i), fmt.Sprintf("sync done CHOICE %d", i)); err != nil {
					return err
				}
			}
			progress = true
		}
	}
	return nil
}

// ---------------------------------------------------------------------------------------------
// steps

func idxList(idxs []int) string {
	s := make([]string, len(idxs))
	for i, v := range idxs {
		s[i] = fmt.Sprint(v)
	}
	return strings.Join(s, " ")
}

func (r *rig) prefix() string {
	if r.s.Engine == "exp" {
		return "xsync"
	}
	return "sync"
}

func (r *rig) stepConnect(i int) error {
	n := r.nodes[i]
	if r.s.Engine == "legacy" {
		if err := r.connectLegacy(i); err != nil {
			return err
		}
		if err := r.record(fmt.Sprintf("connect %d", i), fmt.Sprintf("sync newpeer CHOICE %d %d 1", i, n.spec.Pos)); err != nil {
			return err
		}
		return r.pendingDone()
	}
	if err := r.connectExp(i); err != nil {
		r.notes = append(r.notes, err.Error())
	}
	return r.record(fmt.Sprintf("connect %d", i), fmt.Sprintf("xsync start %d %d", i, n.spec.Pos))
}

// stepServe: node i takes up its oldest unanswered getheaders.
func (r *rig) stepServe(i int) (bool, error) {
	n := r.nodes[i]
	req, ok := n.takePending()
	if !ok {
		return false, nil
	}
	nodeOp := ""
	if len(n.spec.Path) <= 200 && !n.spec.NoStop {
		loc := make([]string, len(req.Loc))
		for k, l := range req.Loc {
			loc[k] = display(l)
		}
		locs := "-"
		if len(loc) > 0 {
			locs = strings.Join(loc, ",")
		}
		n.mu.Lock()
		pos := n.pos
		n.mu.Unlock()
		nodeOp = fmt.Sprintf("node reply %d %d %s %s : %s", n.spec.Cap, pos, r.hashName(req.Stop), locs, idxList(n.spec.Path))
	}
	var pre []DbRow
	if len(r.s.Forbid) > 0 && r.serial() {
		pre, _ = r.ci.Dump()
	}
	what, idxs := n.answer(req)
	switch what {
	case "headers":
		defer r.checkRefusedAfter(pre, idxs)()
		if err := r.record(fmt.Sprintf("serve %d -> headers %s", i, compactInts(idxs)), fmt.Sprintf("%s headers CHOICE %d %s", r.prefix(), i, idxList(idxs))); err != nil {
			return true, err
		}
		if nodeOp != "" {
			hs := make([]string, len(idxs))
			for k, ix := range idxs {
				hs[k] = r.tree.disp[ix]
			}
			// record appended exactly one event (the (done …) events come later, from pendingDone)
			r.events[len(r.events)-1].NodeOp = nodeOp
			r.events[len(r.events)-1].NodeWant = strings.Join(hs, ",")
		}
	case "close":
		if err := r.record(fmt.Sprintf("serve %d -> close", i), ""); err != nil {
			return true, err
		}
	case "stall":
		if err := r.record(fmt.Sprintf("serve %d -> stall", i), ""); err != nil {
			return true, err
		}
	}
	return true, r.pendingDone()
}

// stepRun: serve pending requests (lowest node first) until none is left.
func (r *rig) stepRun() error {
	if !r.serial() {
		return r.record("run", "")
	}
	for guard := 0; guard < 200000; guard++ {
		did := false
		for i, n := range r.nodes {
			if n.hasPending() && !n.isClosed() {
				if _, err := r.stepServe(i); err != nil {
					return err
				}
				did = true
				break
			}
		}
		if !did {
			return nil
		}
	}
	return errors.New("run: no end of requests")
}

func (r *rig) stepAnnounce(i int, how string, k int) error {
	n := r.nodes[i]
	n.mu.Lock()
	from := n.pos
	to := from + k
	if to > len(n.spec.Path) {
		to = len(n.spec.Path)
	}
	n.pos = to
	asked := n.gotSendH
	have := n.peerBest
	n.mu.Unlock()
	step := fmt.Sprintf("announce %d %s %d", i, how, k)
	// BIP 130 as Bitcoin nodes implement it: once the peer has asked for it (`sendheaders`), new blocks are announced
	// with `headers`; a headers announcement carries every block the peer is not known to have yet, provided it
	// connects to something the peer has and is at most 8 long; otherwise the node falls back to `inv` of the new
	// blocks. The default engine never sends `sendheaders`; there the scenario chooses (inv, or unsolicited headers
	// under the same connect rule).
	if r.s.Engine == "exp" {
		if asked {
			how = "headers"
		} else {
			how = "inv"
		}
	}
	if how == "headers" {
		if have <= from && to-have <= 8 && have > 0 || (have == 0 && to <= 8) {
			from = have
		} else {
			how = "inv"
			step += " (headers would not connect to what the peer is known to have: inv)"
		}
	}
	if how == "invt" {
		if r.s.Engine != "legacy" {
			how = "inv"
		} else {
			// ONE inv that STARTS with transaction entries: tx, tx, then the new blocks oldest first with a tx entry after
			// each of them (before, between and after the block entries). The last block entry is the announced block.
			if n.isClosed() || to == from {
				return nil
			}
			es := []invEntry{{Tx: true, Idx: n.spec.Path[to-1]}, {Tx: true, Idx: n.spec.Path[0]}}
			items := []string{fmt.Sprintf("t%d", n.spec.Path[to-1]), fmt.Sprintf("t%d", n.spec.Path[0])}
			for _, ix := range n.spec.Path[from:to] {
				es = append(es, invEntry{Idx: ix}, invEntry{Tx: true, Idx: ix})
				items = append(items, fmt.Sprint(ix), fmt.Sprintf("t%d", ix))
			}
			_ = n.sendInvEntries(es)
			if err := r.record(step, fmt.Sprintf("sync inv CHOICE %d %s", i, strings.Join(items, " "))); err != nil {
				return err
			}
			return r.pendingDone()
		}
	}
	if how == "invx" {
		if r.s.Engine != "legacy" || from == 0 {
			how = "inv"
		} else {
			// ONE inv: a tx entry, the one or two blocks announced before (the service has them when it is in sync
			// with this node), the new blocks oldest first, another tx entry. searchForFinalBlock must pick the LAST
			// block entry.
			back := 2
			if from < 2 {
				back = from
			}
			if n.isClosed() || to == from {
				return nil
			}
			es := []invEntry{{Tx: true, Idx: n.spec.Path[to-1]}}
			items := []string{fmt.Sprintf("t%d", n.spec.Path[to-1])}
			for _, ix := range n.spec.Path[from-back : to] {
				es = append(es, invEntry{Idx: ix})
				items = append(items, fmt.Sprint(ix))
			}
			es = append(es, invEntry{Tx: true, Idx: n.spec.Path[0]})
			items = append(items, fmt.Sprintf("t%d", n.spec.Path[0]))
			_ = n.sendInvEntries(es)
			if err := r.record(step, fmt.Sprintf("sync inv CHOICE %d %s", i, strings.Join(items, " "))); err != nil {
				return err
			}
			return r.pendingDone()
		}
	}
	idxs := append([]int{}, n.spec.Path[from:to]...)
	return r.stepPush(i, how, idxs, step)
}

// checkRefusedAfter: the same for an answer that has been sent already (the dump was taken before)
func (r *rig) checkRefusedAfter(before []DbRow, idxs []int) func() {
	if len(idxs) == 0 || !r.serial() || before == nil {
		return func() {}
	}
	forb := false
	for _, x := range r.s.Forbid {
		if x == idxs[0] {
			forb = true
		}
	}
	if !forb {
		return func() {}
	}
	return func() {
		after, err := r.ci.Dump()
		if err == nil && dumpStr(before) != dumpStr(after) {
			r.refusedChanged = append(r.refusedChanged, fmt.Sprintf("headers %s (answer): the table changed", compactInts(idxs)))
		}
	}
}

// guardRefused: when the headers message about to be sent STARTS with a forbidden header (nothing before it is ingested,
// the message is refused as a whole), the table must be exactly what it was afterwards. Returns the check to run once
// the event has settled.
func (r *rig) guardRefused(idxs []int) func() {
	if len(idxs) == 0 || !r.serial() {
		return func() {}
	}
	forb := false
	for _, x := range r.s.Forbid {
		if x == idxs[0] {
			forb = true
		}
	}
	if !forb {
		return func() {}
	}
	before, err := r.ci.Dump()
	if err != nil {
		return func() {}
	}
	return func() {
		after, err := r.ci.Dump()
		if err != nil {
			return
		}
		if d := dumpStr(before); d != dumpStr(after) {
			var diff []string
			m := map[string]DbRow{}
			for _, b := range before {
				m[b.Hash] = b
			}
			for _, a := range after {
				if b, ok := m[a.Hash]; !ok {
					diff = append(diff, fmt.Sprintf("#%s inserted as %s", r.tree.name(a.Hash), a.State))
				} else if b.State != a.State {
					diff = append(diff, fmt.Sprintf("#%s %s -> %s", r.tree.name(a.Hash), b.State, a.State))
				}
			}
			r.refusedChanged = append(r.refusedChanged, fmt.Sprintf("headers %s: %s", compactInts(idxs), strings.Join(diff, ", ")))
		}
	}
}

func (r *rig) stepPush(i int, how string, idxs []int, step string) error {
	n := r.nodes[i]
	if len(idxs) == 0 || n.isClosed() {
		return nil
	}
	if how != "inv" {
		defer r.guardRefused(idxs)()
	}
	if how == "inv" {
		_ = n.sendInv(idxs)
		if err := r.record(step, fmt.Sprintf("%s inv CHOICE %d %s", r.prefix(), i, idxList(idxs))); err != nil {
			return err
		}
	} else {
		_ = n.sendHeaders(idxs)
		if err := r.record(step, fmt.Sprintf("%s headers CHOICE %d %s", r.prefix(), i, idxList(idxs))); err != nil {
			return err
		}
	}
	return r.pendingDone()
}

// stepHitRun: while the manager is held (as if busy with another peer's batch) the node sends one headers message and
// hangs up at once. The service-side peer reads the message (OnHeaders queues it for the manager) and then the end of the
// stream (Connected() turns false) — both before the manager continues. Events: the peer object is disconnected (model:
// `hangup`), the queued headers message is handled, then (pendingDone) the done message.
func (r *rig) stepHitRun(i int, idxs []int) error {
	n := r.nodes[i]
	if len(idxs) == 0 || n.isClosed() || r.sm == nil || !r.serial() || i >= len(r.lpeers) || r.lpeers[i] == nil {
		return nil
	}
	lp := r.lpeers[i]
	if err := r.settle(); err != nil {
		return err
	}
	var werr error
	r.sm.VerifPaused(func() {
		_ = n.sendHeaders(idxs)
		n.close()
		deadline := time.Now().Add(rigTimeout)
		for lp.p.Connected() && time.Now().Before(deadline) {
			time.Sleep(50 * time.Microsecond)
		}
		if lp.p.Connected() {
			werr = fmt.Errorf("%w: the peer of node %d did not notice the hang-up", errRigTimeout, i)
		}
	})
	if werr != nil {
		return werr
	}
	r.events = append(r.events, evRec{Step: fmt.Sprintf("hitrun %d (hang-up)", i), ModelOp: fmt.Sprintf("sync hangup %d", i), Observed: ""})
	if err := r.record(fmt.Sprintf("hitrun %d headers %s", i, compactInts(idxs)), fmt.Sprintf("sync headers CHOICE %d %s", i, idxList(idxs))); err != nil {
		return err
	}
	return r.pendingDone()
}

func (r *rig) stepClose(i int) error {
	r.nodes[i].close()
	if err := r.record(fmt.Sprintf("close %d", i), ""); err != nil {
		return err
	}
	return r.pendingDone()
}

func (r *rig) stepTick(seconds int) error {
	if r.sm == nil {
		return nil
	}
	if err := r.settle(); err != nil {
		return err
	}
	r.sm.VerifTick(time.Duration(seconds) * time.Second)
	stale := 0
	if time.Duration(seconds)*time.Second > p2psync.VerifMaxLastBlockTime() {
		stale = 1
	}
	if err := r.record(fmt.Sprintf("tick %d", seconds), fmt.Sprintf("sync tick CHOICE %d", stale)); err != nil {
		return err
	}
	return r.pendingDone()
}

// run executes the scenario.
func (r *rig) run() error {
	r.startReaders()
	defer r.stopReaders()
	for _, st := range r.s.Steps {
		var err error
		switch st.Kind {
		case "connect":
			err = r.stepConnect(st.Node)
		case "serve":
			_, err = r.stepServe(st.Node)
		case "run":
			err = r.stepRun()
		case "announce":
			err = r.stepAnnounce(st.Node, st.How, st.N)
		case "push":
			err = r.stepPush(st.Node, st.How, st.Idx, fmt.Sprintf("push %d %s %s", st.Node, st.How, compactInts(st.Idx)))
		case "hitrun":
			err = r.stepHitRun(st.Node, st.Idx)
		case "close":
			err = r.stepClose(st.Node)
		case "stall":
			r.nodes[st.Node].mu.Lock()
			r.nodes[st.Node].stalled = true
			r.nodes[st.Node].mu.Unlock()
		case "tick":
			err = r.stepTick(st.N)
		case "settle":
			err = r.record("settle", "")
		}
		if err != nil {
			return err
		}
	}
	return r.record("end", "")
}

// ---------------------------------------------------------------------------------------------
// model operations that define the scenario

func (r *rig) modelDefs() {
	s := r.s
	cps := make([]string, 0, len(s.Cps))
	for _, c := range cpList(r.tree, s.Cps) {
		cps = append(cps, fmt.Sprintf("%d:%s", c.Height, c.Hash.String()))
	}
	if len(cps) == 0 && s.Engine == "legacy" {
		cps = append(cps, fmt.Sprintf("%d:%s", 1<<30, (&chainhash.Hash{}).String()))
	}
	forb := make([]string, 0, len(s.Forbid))
	for _, i := range s.Forbid {
		forb = append(forb, r.tree.disp[i])
	}
	dash := func(a []string) string {
		if len(a) == 0 {
			return "-"
		}
		return strings.Join(a, ",")
	}
	r.defs = append(r.defs, fmt.Sprintf("%s init %s %d %s %s", r.prefix(), b01(s.CpOff), r.now.Unix(), dash(cps), dash(forb)))
	for i := range r.tree.hdrs {
		r.defs = append(r.defs, r.prefix()+" def "+r.tree.hdrs[i].Hex())
	}
	if len(s.Init) > 0 {
		r.defs = append(r.defs, r.prefix()+" preload "+idxList(s.Init))
	}
	r.defs = append(r.defs, r.prefix()+" new")
}

var _ = service.HeaderAlreadyExists
