package main

// Shared by the C09 and C10 runners: the gin engine wired exactly as
// cmd/main.go does (httpserver.NewHTTPServer + metrics.Register +
// endpoints.SetupRoutes + websocket Server.SetupEntrypoint) over lib.NewStack's
// real SQLite stack. lib.NewStack's own engine has no metrics / websocket
// routes, so the engine is built here.

import (
	"crypto/sha256"
	"encoding/hex"
	"fmt"
	"sort"
	"strings"

	"github.com/bitcoin-sv/block-headers-service/metrics"
	"github.com/bitcoin-sv/block-headers-service/transports/http/endpoints"
	httpserver "github.com/bitcoin-sv/block-headers-service/transports/http/server"
	"github.com/bitcoin-sv/block-headers-service/transports/websocket"
	"github.com/bitcoin-sv/block-headers-service/verifharness/lib"
	"github.com/gin-gonic/gin"
)

type c09Rig struct {
	St     *lib.Stack
	Engine *gin.Engine
	WS     websocket.Server
	wsRun  bool
}

// c09NewRig opens (or reopens) the database file and wires services, engine and
// websocket server. startWS runs the centrifuge node (needed for real connects).
func c09NewRig(o lib.StackOpts, startWS bool) (*c09Rig, error) {
	o.NoEngine = true
	st, err := lib.NewStack(o)
	if err != nil {
		return nil, err
	}
	server := httpserver.NewHTTPServer(st.Cfg.HTTP, st.Log)
	server.ApplyConfiguration(metrics.Register)
	server.ApplyConfiguration(endpoints.SetupRoutes(st.Svc, st.Cfg.HTTP))
	ws, err := websocket.NewServer(st.Log, st.Svc, st.Cfg.HTTP.UseAuth)
	if err != nil {
		st.Close()
		return nil, err
	}
	server.ApplyConfiguration(ws.SetupEntrypoint)
	r := &c09Rig{St: st, WS: ws}
	server.ApplyConfiguration(func(e *gin.Engine) { r.Engine = e })
	if startWS {
		if err := ws.Start(); err != nil {
			st.Close()
			return nil, err
		}
		r.wsRun = true
	}
	return r, nil
}

func (r *c09Rig) Close() {
	if r.wsRun {
		_ = r.WS.Shutdown()
	}
	r.St.Close()
}

// c09Digest is a hash of the full contents of the tokens, webhooks and headers tables.
func c09Digest(r *c09Rig) (string, error) {
	h := sha256.New()
	for _, tbl := range []string{"tokens", "webhooks", "headers"} {
		rows, err := r.St.DB.Queryx("SELECT * FROM " + tbl)
		if err != nil {
			return "", fmt.Errorf("digest %s: %w", tbl, err)
		}
		var lines []string
		for rows.Next() {
			vals, err := rows.SliceScan()
			if err != nil {
				rows.Close()
				return "", err
			}
			var sb strings.Builder
			for _, v := range vals {
				if b, ok := v.([]byte); ok {
					fmt.Fprintf(&sb, "%q|", string(b))
				} else {
					fmt.Fprintf(&sb, "%v|", v)
				}
			}
			lines = append(lines, sb.String())
		}
		rows.Close()
		sort.Strings(lines)
		fmt.Fprintf(h, "## %s %d\n", tbl, len(lines))
		for _, l := range lines {
			h.Write([]byte(l))
			h.Write([]byte{'\n'})
		}
	}
	return hex.EncodeToString(h.Sum(nil)[:16]), nil
}

// c09Hex renders a string as one line-protocol word: x<hex of bytes>.
func c09Hex(s string) string { return "x" + hex.EncodeToString([]byte(s)) }

// c09TokenRows returns the tokens table, sorted.
func c09TokenRows(r *c09Rig) ([]string, error) {
	var ts []string
	if err := r.St.DB.Select(&ts, "SELECT token FROM tokens"); err != nil {
		return nil, err
	}
	sort.Strings(ts)
	return ts, nil
}

const c09Alnum = "ABCDEFGHIJKLMNOPQRSTUVWXYZabcdefghijklmnopqrstuvwxyz0123456789"

func c09RandToken(rng interface{ Intn(int) int }, n int) string {
	b := make([]byte, n)
	for i := range b {
		b[i] = c09Alnum[rng.Intn(len(c09Alnum))]
	}
	return string(b)
}
