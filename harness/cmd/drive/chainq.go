package main

// Query operations of the chain vocabulary on the implementation: through the gin engine
// (httptest) where an endpoint exists, through service.Headers for locator / getheaders.

import (
	"bytes"
	"encoding/json"
	"fmt"
	"net/http"
	"net/http/httptest"
	"net/url"
	"sort"
	"strconv"
	"strings"

	"github.com/bitcoin-sv/block-headers-service/internal/chaincfg/chainhash"
)

// httpRes is one HTTP exchange through Engine.ServeHTTP.
type httpRes struct {
	Status int
	Body   []byte
}

func (ci *ChainImpl) http(method, path string, body []byte, hdr map[string]string) httpRes {
	var rd *bytes.Reader
	if body == nil {
		rd = bytes.NewReader(nil)
	} else {
		rd = bytes.NewReader(body)
	}
	req := httptest.NewRequest(method, path, rd)
	if body != nil {
		req.Header.Set("Content-Type", "application/json")
	}
	for k, v := range hdr {
		req.Header.Set(k, v)
	}
	w := httptest.NewRecorder()
	ci.Engine.ServeHTTP(w, req)
	return httpRes{w.Code, w.Body.Bytes()}
}

func errCode(b []byte) string {
	var e struct {
		Code string `json:"code"`
	}
	if json.Unmarshal(b, &e) != nil {
		return "unparsable"
	}
	return e.Code
}

type hdrJSON struct {
	Hash string `json:"hash"`
}

func hashesOf(b []byte) ([]string, error) {
	var hs []hdrJSON
	if err := json.Unmarshal(b, &hs); err != nil {
		return nil, err
	}
	res := make([]string, len(hs))
	for i, h := range hs {
		res[i] = h.Hash
	}
	return res, nil
}

// QueryOp executes a read operation; ok=false when the line is not a query op.
func (ci *ChainImpl) QueryOp(line string) (string, bool) {
	ws := strings.Fields(line)
	if len(ws) == 0 {
		return "", false
	}
	switch ws[0] {
	case "verify":
		if len(ws) < 2 {
			return "bad-args", true
		}
		type item struct {
			MerkleRoot  string `json:"merkleRoot"`
			BlockHeight int64  `json:"blockHeight"`
		}
		items := []item{}
		for _, w := range ws[2:] {
			p := strings.Split(w, ":")
			if len(p) != 2 {
				return "bad-args", true
			}
			h, err := strconv.ParseInt(p[1], 10, 64)
			if err != nil {
				return "bad-args", true
			}
			items = append(items, item{p[0], h})
		}
		body, _ := json.Marshal(items)
		r := ci.http("POST", "/api/v1/chain/merkleroot/verify", body, nil)
		if r.Status != 200 {
			if errCode(r.Body) == "ErrGetChainTipHeight" {
				return "err:tipheight", true
			}
			return fmt.Sprintf("http:%d:%s", r.Status, errCode(r.Body)), true
		}
		var resp struct {
			ConfirmationState string `json:"confirmationState"`
			Confirmations     []struct {
				Hash         string `json:"blockHash"`
				BlockHeight  int64  `json:"blockHeight"`
				MerkleRoot   string `json:"merkleRoot"`
				Confirmation string `json:"confirmation"`
			} `json:"confirmations"`
		}
		if err := json.Unmarshal(r.Body, &resp); err != nil {
			return "unparsable", true
		}
		parts := []string{resp.ConfirmationState}
		for _, c := range resp.Confirmations {
			h := c.Hash
			if h == "" {
				h = "-"
			}
			parts = append(parts, fmt.Sprintf("%s:%d:%s:%s", c.MerkleRoot, c.BlockHeight, c.Confirmation, h))
		}
		return strings.Join(parts, ";"), true
	case "roots":
		if len(ws) != 3 {
			return "bad-args", true
		}
		q := url.Values{}
		q.Set("batchSize", ws[1])
		if ws[2] != "-" {
			key := ws[2]
			// "q:<percent-encoded>" = a key the line protocol cannot carry verbatim (blanks, tabs, line ends); the model
			// sees the token as written — any key that is not a stored merkle root is unknown either way
			if strings.HasPrefix(key, "q:") {
				if u, err := url.QueryUnescape(key[2:]); err == nil {
					key = u
				}
			}
			q.Set("lastEvaluatedKey", key)
		}
		r := ci.http("GET", "/api/v1/chain/merkleroot?"+q.Encode(), nil, nil)
		if r.Status != 200 {
			switch errCode(r.Body) {
			case "ErrMerkleRootNotFound":
				return "err:notfound", true
			case "ErrMerkleRootNotInLongestChain":
				return "err:conflict", true
			}
			return fmt.Sprintf("http:%d:%s", r.Status, errCode(r.Body)), true
		}
		var resp struct {
			Content []struct {
				MerkleRoot  string `json:"merkleRoot"`
				BlockHeight int64  `json:"blockHeight"`
			} `json:"content"`
			Page struct {
				LastEvaluatedKey string `json:"lastEvaluatedKey"`
			} `json:"page"`
		}
		if err := json.Unmarshal(r.Body, &resp); err != nil {
			return "unparsable", true
		}
		var items []string
		for _, c := range resp.Content {
			items = append(items, fmt.Sprintf("%s:%d", c.MerkleRoot, c.BlockHeight))
		}
		k := resp.Page.LastEvaluatedKey
		if k == "" {
			k = "-"
		}
		return strings.Join(items, ",") + "|" + k, true
	case "locator":
		loc := ci.Svc.Headers.LatestHeaderLocator()
		var hs []string
		for _, h := range loc {
			hs = append(hs, h.String())
		}
		return strings.Join(hs, ","), true
	case "getheaders":
		if len(ws) < 2 {
			return "bad-args", true
		}
		stop, err := chainhash.NewHashFromStr(ws[1])
		if err != nil {
			return "bad-args", true
		}
		var loc []*chainhash.Hash
		for _, w := range ws[2:] {
			h, err := chainhash.NewHashFromStr(w)
			if err != nil {
				return "bad-args", true
			}
			loc = append(loc, h)
		}
		res, err := ci.Svc.Headers.LocateHeadersGetHeaders(loc, stop)
		if err != nil {
			switch {
			case strings.Contains(err.Error(), "no locators provided"):
				return "err:nolocators", true
			case strings.Contains(err.Error(), "hashStop is lower"):
				return "err:stoplower", true
			}
			return "err:other:" + err.Error(), true
		}
		var hs []string
		for _, h := range res {
			hs = append(hs, h.BlockHash().String())
		}
		return strings.Join(hs, ","), true
	case "byheight":
		if len(ws) != 3 {
			return "bad-args", true
		}
		r := ci.http("GET", "/api/v1/chain/header/byHeight?height="+ws[1]+"&count="+ws[2], nil, nil)
		if r.Status != 200 {
			return fmt.Sprintf("http:%d:%s", r.Status, errCode(r.Body)), true
		}
		hs, err := hashesOf(r.Body)
		if err != nil {
			return "unparsable", true
		}
		sort.Strings(hs)
		return strings.Join(hs, ","), true
	case "tips":
		r := ci.http("GET", "/api/v1/chain/tip", nil, nil)
		if r.Status != 200 {
			return fmt.Sprintf("http:%d:%s", r.Status, errCode(r.Body)), true
		}
		var ts []struct {
			Header hdrJSON `json:"header"`
		}
		if err := json.Unmarshal(r.Body, &ts); err != nil {
			return "unparsable", true
		}
		var hs []string
		for _, t := range ts {
			hs = append(hs, t.Header.Hash)
		}
		sort.Strings(hs)
		return strings.Join(hs, ","), true
	case "ancestors":
		if len(ws) != 3 {
			return "bad-args", true
		}
		r := ci.http("GET", "/api/v1/chain/header/"+ws[1]+"/"+ws[2]+"/ancestor", nil, nil)
		if r.Status != 200 {
			switch errCode(r.Body) {
			case "ErrHeaderWithGivenHashes":
				return "err:notfound", true
			case "ErrAncestorHashHigher":
				return "err:ancestorhigher", true
			case "ErrHeadersNotPartOfTheSameChain":
				return "err:notsamechain", true
			}
			return fmt.Sprintf("http:%d:%s", r.Status, errCode(r.Body)), true
		}
		hs, err := hashesOf(r.Body)
		if err != nil {
			return "unparsable", true
		}
		return "ok:" + strings.Join(hs, ","), true
	case "common":
		body, _ := json.Marshal(append([]string{}, ws[1:]...))
		r := ci.http("POST", "/api/v1/chain/header/commonAncestor", body, nil)
		switch {
		case r.Status == 200:
			var h hdrJSON
			if err := json.Unmarshal(r.Body, &h); err != nil {
				return "unparsable", true
			}
			return "found:" + h.Hash, true
		case r.Status == http.StatusInternalServerError && len(bytes.TrimSpace(r.Body)) == 0:
			// gin.Recovery after a handler panic (the defect repaired by 397583f / 15c8125): never expected again
			return "panic", true
		case errCode(r.Body) == "ErrCommonAncestorEmptyList":
			return "err:empty", true
		case errCode(r.Body) == "ErrHeaderNotFound" || errCode(r.Body) == "ErrAncestorNotFound":
			return "err:notfound", true
		}
		return fmt.Sprintf("http:%d:%s", r.Status, errCode(r.Body)), true
	}
	return "", false
}
