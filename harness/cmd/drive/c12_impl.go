package main

// C12 — implementation side: the real WebhooksService over the SQL repository
// (SQLite file, database.Init, gin engine through httptest), driven by the same
// operation lines as the Lean model and canonicalised to the same answer lines.

import (
	"bytes"
	"encoding/json"
	"errors"
	"fmt"
	"io"
	"net/http"
	"net/http/httptest"
	"net/url"
	"regexp"
	"sort"
	"strconv"
	"strings"
	"sync"
	"time"

	"github.com/bitcoin-sv/block-headers-service/notification"
	"github.com/bitcoin-sv/block-headers-service/transports/http/client"
	"github.com/bitcoin-sv/block-headers-service/verifharness/lib"
)

// c12Out is one scripted outcome of a delivery.
type c12Out struct {
	Kind string // reply | terr | ub
	Code int
	Tok  string // body token as written in the op line ("-" = empty, X<n> = n bytes)
	Body string // the body the token stands for
	// Mode says HOW the target transmits a reply (production-client stream; not part of the model):
	//   d  handler writes the body at once (net/http decides Content-Length / chunked)
	//   l  explicit Content-Length, body written at once
	//   q  explicit Content-Length, headers flushed, 10-30 ms pause, then the body
	//   p  headers flushed, 10-30 ms pause, then the body (chunked)
	//   c  headers flushed, body in several chunks with a flush after each
	Mode string
	Sent int // ub: bytes of the body sent before the connection is cut (-1: the short default)
}

var c12Zone int

func (o c12Out) ok() bool { return o.Kind == "reply" && o.Code == 200 }

// status is the canonical last-emit status a delivery with this outcome must leave.
func (o c12Out) status() string {
	if o.Kind == "reply" {
		return fmt.Sprintf("%d:%s", o.Code, c12BodyToken(o.Body))
	}
	return "err"
}

func (o c12Out) describe() string {
	switch o.Kind {
	case "reply":
		return fmt.Sprintf("reply %d, body %d bytes, mode %q", o.Code, len(o.Body), o.Mode)
	case "ub":
		return fmt.Sprintf("reply %d, body cut off after %d bytes", o.Code, o.Sent)
	}
	return "transport error"
}

// c12BodyFromToken expands a body token: "-" = empty, X<n> = n bytes 'x', anything else literal.
func c12BodyFromToken(tok string) string {
	if tok == "-" {
		return ""
	}
	if len(tok) > 1 && tok[0] == 'X' {
		if n, err := strconv.Atoi(tok[1:]); err == nil && n > 0 && n <= 8<<20 {
			return strings.Repeat("x", n)
		}
	}
	return tok
}

// c12BodyToken is the inverse on bodies (a body made only of 'x' is written X<len>).
func c12BodyToken(body string) string {
	if body != "" && strings.Trim(body, "x") == "" {
		return fmt.Sprintf("X%d", len(body))
	}
	return body
}

func c12ParseOutcome(s string) (c12Out, error) {
	switch {
	case s == "terr":
		return c12Out{Kind: "terr"}, nil
	case strings.HasPrefix(s, "ub"):
		p := strings.Split(s[2:], ":")
		if len(p) > 2 {
			return c12Out{}, fmt.Errorf("bad outcome %q", s)
		}
		n, err := strconv.Atoi(p[0])
		o := c12Out{Kind: "ub", Code: n, Sent: -1}
		if err == nil && len(p) == 2 {
			o.Sent, err = strconv.Atoi(p[1])
		}
		return o, err
	case strings.HasPrefix(s, "r"):
		p := strings.Split(s[1:], ":")
		if len(p) != 2 && len(p) != 3 {
			return c12Out{}, fmt.Errorf("bad outcome %q", s)
		}
		n, err := strconv.Atoi(p[0])
		o := c12Out{Kind: "reply", Code: n, Tok: p[1], Body: c12BodyFromToken(p[1]), Mode: "d"}
		if len(p) == 3 {
			o.Mode = p[2]
		}
		return o, err
	}
	return c12Out{}, fmt.Errorf("bad outcome %q", s)
}

func c12Unesc(s string) string {
	if s == "-" {
		return ""
	}
	return s
}

func c12Esc(s string) string {
	if s == "" {
		return "-"
	}
	return s
}

// c12Call is one observed client.Call / one HTTP POST seen by the target server.
type c12Call struct {
	Sym     string
	Method  string
	Headers map[string]string
	Body    string
}

// auth returns the canonical authorisation part: every header except the
// constant Content-Type and the ones net/http adds itself; an entry with an
// empty name is not an HTTP header and is left out.
func (k c12Call) auth() string {
	var hs []string
	for n, v := range k.Headers {
		switch n {
		case "", "Content-Type", "User-Agent", "Accept-Encoding", "Content-Length", "Host":
			continue
		}
		hs = append(hs, n+"="+v)
	}
	sort.Strings(hs)
	if len(hs) == 0 {
		return "-"
	}
	return strings.Join(hs, "&")
}

func (k c12Call) canon() string { return k.Sym + "(" + k.auth() + ")" }

func c12Calls(cs []c12Call) string {
	var s []string
	for _, k := range cs {
		s = append(s, k.canon())
	}
	return "[" + strings.Join(s, ",") + "]"
}

// c12Event is the event body delivered to webhooks.
type c12Event struct {
	Operation string `json:"operation"`
	Seq       int    `json:"seq"`
}

// c12Client is the WebhookTargetClient injected into the service. It records
// every call; scripted mode answers from the script, production mode hands the
// call to the real transports/http/client implementation.
type c12Client struct {
	mu    sync.Mutex
	inner notification.WebhookTargetClient
	base  string
	outs  map[string]c12Out
	calls []c12Call
}

type c12BadReader struct{}

func (c12BadReader) Read([]byte) (int, error) { return 0, errors.New("scripted unreadable body") }
func (c12BadReader) Close() error             { return nil }

func (c *c12Client) Call(headers map[string]string, method string, u string, body any) (*http.Response, error) {
	c.mu.Lock()
	hs := map[string]string{}
	for k, v := range headers {
		hs[k] = v
	}
	b, _ := json.Marshal(body)
	sym := strings.TrimPrefix(u, c.base+"/")
	c.calls = append(c.calls, c12Call{Sym: sym, Method: method, Headers: hs, Body: string(b)})
	o, have := c.outs[sym]
	inner := c.inner
	c.mu.Unlock()
	if inner != nil {
		return inner.Call(headers, method, u, body)
	}
	if !have {
		return nil, errors.New("scripted transport error (no outcome scripted)")
	}
	switch o.Kind {
	case "reply":
		return &http.Response{StatusCode: o.Code, Body: io.NopCloser(strings.NewReader(o.Body))}, nil
	case "ub":
		if o.Sent > 0 {
			return &http.Response{StatusCode: o.Code, Body: io.NopCloser(io.MultiReader(strings.NewReader(strings.Repeat("x", o.Sent)), c12BadReader{}))}, nil
		}
		return &http.Response{StatusCode: o.Code, Body: c12BadReader{}}, nil
	}
	return nil, errors.New("scripted transport error")
}

// c12Target is the httptest server the production client posts to.
type c12Target struct {
	mu    sync.Mutex
	srv   *httptest.Server
	outs  map[string]c12Out
	posts []c12Call
}

func c12NewTarget() *c12Target {
	t := &c12Target{outs: map[string]c12Out{}}
	t.srv = httptest.NewServer(http.HandlerFunc(func(w http.ResponseWriter, r *http.Request) {
		body, _ := io.ReadAll(r.Body)
		sym := strings.TrimPrefix(r.URL.Path, "/")
		hs := map[string]string{}
		for k, v := range r.Header {
			hs[k] = strings.Join(v, ",")
		}
		t.mu.Lock()
		t.posts = append(t.posts, c12Call{Sym: sym, Method: r.Method, Headers: hs, Body: string(body)})
		o, have := t.outs[sym]
		npost := len(t.posts)
		t.mu.Unlock()
		if !have || o.Kind == "terr" {
			// transport error: drop the connection without a reply
			if hj, ok := w.(http.Hijacker); ok {
				if conn, _, err := hj.Hijack(); err == nil {
					_ = conn.Close()
				}
			}
			return
		}
		if o.Kind == "ub" {
			// unreadable body: promise more bytes than are sent, then cut the connection mid-way
			sent := "partial"
			if o.Sent >= 0 {
				sent = strings.Repeat("x", o.Sent)
			}
			if hj, ok := w.(http.Hijacker); ok {
				if conn, buf, err := hj.Hijack(); err == nil {
					fmt.Fprintf(buf, "HTTP/1.1 %d X\r\nContent-Type: text/plain\r\nContent-Length: %d\r\n\r\n%s", o.Code, 2*len(sent)+64, sent)
					_ = buf.Flush()
					_ = conn.Close()
				}
			}
			return
		}
		// a readable reply, transmitted in one of several ways; all of them are the SAME outcome
		reply := []byte(o.Body)
		pause := time.Duration(10+(npost*7+len(reply))%21) * time.Millisecond
		fl, _ := w.(http.Flusher)
		w.Header().Set("Content-Type", "text/plain")
		switch o.Mode {
		case "l", "q":
			w.Header().Set("Content-Length", strconv.Itoa(len(reply)))
			w.WriteHeader(o.Code)
			if o.Mode == "q" {
				if fl != nil {
					fl.Flush()
				}
				time.Sleep(pause)
			}
			_, _ = w.Write(reply)
		case "p":
			w.WriteHeader(o.Code)
			if fl != nil {
				fl.Flush()
			}
			time.Sleep(pause)
			_, _ = w.Write(reply)
		case "c":
			w.WriteHeader(o.Code)
			if fl != nil {
				fl.Flush()
			}
			for i, parts := 0, 5; i < parts; i++ {
				lo, hi := len(reply)*i/parts, len(reply)*(i+1)/parts
				if hi > lo {
					_, _ = w.Write(reply[lo:hi])
					if fl != nil {
						fl.Flush()
					}
				}
			}
		default:
			w.WriteHeader(o.Code)
			_, _ = w.Write(reply)
		}
	}))
	return t
}

// c12Row is one row of the webhooks table as read directly with SQL.
type c12Row struct {
	Sym, Header, Token, Status, Stamp string
	Errors                            int
	Active                            bool
}

func (r c12Row) canon() string {
	return fmt.Sprintf("%s|%s|%s|%s|%s|%d|%v", r.Sym, c12Esc(r.Header), c12Esc(r.Token), r.Status, r.Stamp, r.Errors, r.Active)
}

// c12Report is what an endpoint serialises of a webhook.
type c12Report struct {
	Active bool
	Errors int
	Status string
	Stamp  string
}

func (r c12Report) canon() string {
	return fmt.Sprintf("active=%v errors=%d last=%s at=%s", r.Active, r.Errors, r.Status, r.Stamp)
}

// c12Obs is everything observed on the implementation for one operation.
type c12Obs struct {
	Line    string
	Refused string
	Report  *c12Report
	Calls   []c12Call
	Posts   []c12Call
	Table   []c12Row
	Panic   string
}

// c12Impl is one sequence's instance of the real stack.
type c12Impl struct {
	file    string
	max     int
	prod    bool
	base    string
	st      *lib.Stack
	cli     *c12Client
	target  *c12Target
	windows [][2]time.Time
	nseq    int
}

const c12ScriptedBase = "http://hooks.invalid"

func c12Open(file string, max int, prod bool, target *c12Target) (*c12Impl, error) {
	m := &c12Impl{file: file, max: max, prod: prod, target: target, base: c12ScriptedBase}
	m.cli = &c12Client{outs: map[string]c12Out{}}
	if prod {
		m.base = target.srv.URL
		m.cli.inner = client.NewWebhookTargetClient()
	}
	m.cli.base = m.base
	return m, m.start()
}

func (m *c12Impl) start() error {
	st, err := lib.NewStack(lib.StackOpts{File: m.file, MaxTries: m.max, WebhookCli: m.cli})
	if err != nil {
		return err
	}
	m.st = st
	return nil
}

func (m *c12Impl) close() {
	if m.st != nil {
		m.st.Close()
		m.st = nil
	}
}

func (m *c12Impl) http(method, path string, body []byte) (int, []byte) {
	req := httptest.NewRequest(method, path, bytes.NewReader(body))
	if body != nil {
		req.Header.Set("Content-Type", "application/json")
	}
	rec := httptest.NewRecorder()
	m.st.Engine.ServeHTTP(rec, req)
	return rec.Code, rec.Body.Bytes()
}

var c12StatusRe = regexp.MustCompile(`^(\d+) (.*)$`)

func c12CanonStatus(s string) string {
	if s == "" {
		return "-"
	}
	if g := c12StatusRe.FindStringSubmatch(s); g != nil {
		return g[1] + ":" + c12BodyToken(g[2])
	}
	return "err"
}

var c12Epoch = time.Date(1970, 1, 1, 0, 0, 0, 0, time.UTC)

func (m *c12Impl) canonStamp(t time.Time) string {
	if t.IsZero() {
		return "zero"
	}
	if t.Equal(c12Epoch) {
		return "never"
	}
	for k := len(m.windows) - 1; k >= 0; k-- {
		if !t.Before(m.windows[k][0]) && !t.After(m.windows[k][1]) {
			return fmt.Sprintf("n%d", k+1)
		}
	}
	return "t?" + t.UTC().Format(time.RFC3339Nano)
}

type c12JSONHook struct {
	URL               *string    `json:"url"`
	LastEmitStatus    *string    `json:"lastEmitStatus"`
	LastEmitTimestamp *time.Time `json:"lastEmitTimestamp"`
	ErrorsCount       *int       `json:"errorsCount"`
	Active            *bool      `json:"active"`
}

// reply canonicalises an endpoint answer: 200 + webhook JSON, or the error code.
func (m *c12Impl) reply(code int, body []byte, wantHook bool) (string, *c12Report) {
	if code == http.StatusOK {
		if !wantHook {
			return "", nil
		}
		var h c12JSONHook
		dec := json.NewDecoder(bytes.NewReader(body))
		if err := dec.Decode(&h); err != nil || h.URL == nil || h.LastEmitStatus == nil || h.LastEmitTimestamp == nil || h.ErrorsCount == nil || h.Active == nil {
			return fmt.Sprintf("http200-unparsable:%s", strings.TrimSpace(string(body))), nil
		}
		if dec.More() {
			return "http200-two-documents", nil
		}
		return "", &c12Report{Active: *h.Active, Errors: *h.ErrorsCount, Status: c12CanonStatus(*h.LastEmitStatus), Stamp: m.canonStamp(*h.LastEmitTimestamp)}
	}
	var e struct {
		Code string `json:"code"`
	}
	if json.Unmarshal(body, &e) == nil && e.Code != "" {
		return "refused:" + e.Code, nil
	}
	return fmt.Sprintf("http%d", code), nil
}

func (m *c12Impl) dump() ([]c12Row, error) {
	rows, err := m.st.DB.Queryx(`SELECT url, token_header, token, last_emit_status, last_emit_timestamp, errors_count, is_active FROM webhooks ORDER BY rowid`)
	if err != nil {
		return nil, err
	}
	defer rows.Close() //nolint:errcheck
	var res []c12Row
	for rows.Next() {
		var u, h, t, s string
		var at time.Time
		var e int
		var a bool
		if err := rows.Scan(&u, &h, &t, &s, &at, &e, &a); err != nil {
			return nil, err
		}
		res = append(res, c12Row{Sym: strings.TrimPrefix(u, m.base+"/"), Header: h, Token: t, Status: c12CanonStatus(s), Stamp: m.canonStamp(at), Errors: e, Active: a})
	}
	return res, rows.Err()
}

func c12Table(rs []c12Row) string {
	var s []string
	for _, r := range rs {
		s = append(s, r.canon())
	}
	return "table=[" + strings.Join(s, ";") + "]"
}

func (m *c12Impl) url(sym string) string {
	if sym == "" {
		return ""
	}
	return m.base + "/" + sym
}

// do executes one operation line on the implementation.
func (m *c12Impl) do(line string) (obs c12Obs) {
	defer func() {
		if r := recover(); r != nil {
			obs.Panic = fmt.Sprint(r)
			obs.Line = "panic"
		}
	}()
	w := strings.Fields(line)
	if len(w) < 2 || w[0] != "hook" {
		obs.Line = "bad-op"
		return
	}
	switch w[1] {
	case "register":
		if len(w) != 6 {
			obs.Line = "bad-op"
			return
		}
		body, _ := json.Marshal(map[string]any{"url": m.url(c12Unesc(w[5])), "requiredAuth": map[string]string{"type": w[2], "header": c12Unesc(w[3]), "token": c12Unesc(w[4])}})
		code, b := m.http("POST", "/api/v1/webhook", body)
		l, rep := m.reply(code, b, true)
		if rep != nil {
			obs.Report = rep
			obs.Line = "ok " + rep.canon()
		} else {
			obs.Line = l
			obs.Refused = strings.TrimPrefix(l, "refused:")
		}
	case "delete":
		code, b := m.http("DELETE", "/api/v1/webhook?url="+url.QueryEscape(m.url(c12Unesc(w[2]))), nil)
		l, _ := m.reply(code, b, false)
		if l == "" {
			l = "ok"
		} else {
			obs.Refused = strings.TrimPrefix(l, "refused:")
		}
		obs.Line = l
	case "get":
		code, b := m.http("GET", "/api/v1/webhook?url="+url.QueryEscape(m.url(c12Unesc(w[2]))), nil)
		l, rep := m.reply(code, b, true)
		if rep != nil {
			obs.Report = rep
			obs.Line = rep.canon()
		} else {
			obs.Line = l
			obs.Refused = strings.TrimPrefix(l, "refused:")
		}
	case "notify":
		// the zone of the process changes between deliveries (daylight saving ends while the service runs; a restart under
		// another TZ): nothing about counting, deactivation or the reported status may depend on it
		c12Zone++
		zones := []*time.Location{time.FixedZone("CEST", 2*3600), time.FixedZone("CET", 3600), time.UTC, time.FixedZone("EST", -5*3600), time.FixedZone("NPT", 5*3600+45*60)}
		time.Local = zones[(c12Zone/3)%len(zones)]
		outs := map[string]c12Out{}
		for _, p := range w[2:] {
			kv := strings.SplitN(p, "=", 2)
			if len(kv) != 2 {
				obs.Line = "bad-op"
				return
			}
			o, err := c12ParseOutcome(kv[1])
			if err != nil {
				obs.Line = "bad-op"
				return
			}
			outs[kv[0]] = o
		}
		m.cli.mu.Lock()
		m.cli.outs = outs
		m.cli.calls = nil
		m.cli.mu.Unlock()
		if m.prod {
			m.target.mu.Lock()
			m.target.outs = outs
			m.target.posts = nil
			m.target.mu.Unlock()
		}
		m.nseq++
		ev := c12Event{Operation: "ADD", Seq: m.nseq}
		t0 := time.Now()
		m.windows = append(m.windows, [2]time.Time{t0, t0})
		func() {
			defer func() { m.windows[len(m.windows)-1][1] = time.Now() }()
			m.st.Svc.Webhooks.Notify(ev)
		}()
		m.cli.mu.Lock()
		obs.Calls = append([]c12Call(nil), m.cli.calls...)
		m.cli.mu.Unlock()
		if m.prod {
			m.target.mu.Lock()
			obs.Posts = append([]c12Call(nil), m.target.posts...)
			m.target.mu.Unlock()
		} else {
			obs.Posts = obs.Calls
		}
		t, err := m.dump()
		if err != nil {
			obs.Line = "dump-error:" + err.Error()
			return
		}
		obs.Table = t
		obs.Line = fmt.Sprintf("calls=%s posts=%s %s", c12Calls(obs.Calls), c12Calls(obs.Posts), c12Table(t))
	case "dump":
		t, err := m.dump()
		if err != nil {
			obs.Line = "dump-error:" + err.Error()
			return
		}
		obs.Table = t
		obs.Line = c12Table(t)
	case "restart":
		m.close()
		if err := m.start(); err != nil {
			obs.Line = "restart-error:" + err.Error()
			return
		}
		obs.Line = "ok"
	default:
		obs.Line = "bad-op"
	}
	return
}
