package main

// C18 part (e): the REAL addrmgr.AddrManager, the connection manager's source of addresses
// (server.go: GetNewAddress = NewAddressFunc(addrManager.GetAddress, …), BanAddress = addrManager.BanAddress).
//
// ops (replayable):  am new | am add <addr> <src> | am good <addr> | am attempt <addr> | am connected <addr>
//                    am ban <addr> | am get | am clock <hours> | am dump
//                    scenario addrmgr-connmgr: …
// Every GetAddress runs under a watchdog (it loops with the manager's mutex held when the
// bookkeeping says "tried addresses exist" and every tried bucket is empty). After every op the
// whole bookkeeping (overlay addrmgr_verif.go) is compared with the Lean model BHS.Model.AddrMgr.

import (
	"errors"
	"fmt"
	"math/rand"
	"net"
	"sort"
	"strconv"
	"strings"
	"sync"
	"time"

	"github.com/bitcoin-sv/block-headers-service/config"
	"github.com/bitcoin-sv/block-headers-service/internal/chaincfg"
	"github.com/bitcoin-sv/block-headers-service/internal/wire"
	"github.com/bitcoin-sv/block-headers-service/transports/p2p/addrmgr"
	"github.com/bitcoin-sv/block-headers-service/transports/p2p/connmgr"
	"github.com/bitcoin-sv/block-headers-service/transports/p2p/p2putil"
	"github.com/bitcoin-sv/block-headers-service/verifharness/lib"
	"github.com/rs/zerolog"
)

const (
	c18SigAmHang   = "c18-addrmgr-getaddress-hangs"
	c18AmWatchdog  = 3 * time.Second
	c18AmAddrs     = 5
	c18AmSrcs      = 3
	c18SigAmTarget = "c18-addrmgr-connmgr-target-not-reached"
)

func c18AmNA(i int) *wire.NetAddress {
	return wire.NewNetAddressIPPort(net.ParseIP(fmt.Sprintf("60.%d.1.1", i+1)), 8333, wire.SFNodeNetwork)
}
func c18AmSrc(i int) *wire.NetAddress {
	return wire.NewNetAddressIPPort(net.ParseIP(fmt.Sprintf("70.%d.1.1", i+1)), 8333, wire.SFNodeNetwork)
}

type c18AmRig struct {
	am     *addrmgr.AddrManager
	keyIdx map[string]int
	dead   bool // a GetAddress hung: the manager's mutex is held for ever
	// oracle's own books
	have   map[int]bool // added while not banned, not banned since
	banEnd map[int]int
	tick   int
}

func c18NewAmRig() *c18AmRig {
	lg := lib.DiscardLog()
	r := &c18AmRig{am: addrmgr.New(func(string) ([]net.IP, error) { return nil, errors.New("offline") }, &lg), keyIdx: map[string]int{}, have: map[int]bool{}, banEnd: map[int]int{}}
	for i := 0; i < 16; i++ {
		r.keyIdx[addrmgr.NetAddressKey(c18AmNA(i))] = i
	}
	return r
}

// line renders the bookkeeping like the Lean driver's `amLine`.
func (r *c18AmRig) line() (string, addrmgr.VerifAMSnap, bool) {
	s, ok := addrmgr.VerifSnap(r.am)
	if !ok {
		return "mutex held", s, false
	}
	idxOf := func(k string) int {
		if i, ok := r.keyIdx[k]; ok {
			return i
		}
		return 999
	}
	var idx []string
	var keys []int
	byIdx := map[int]addrmgr.VerifKA{}
	for k, ka := range s.Index {
		keys = append(keys, idxOf(k))
		byIdx[idxOf(k)] = ka
	}
	sort.Ints(keys)
	for _, k := range keys {
		t := 0
		if byIdx[k].Tried {
			t = 1
		}
		idx = append(idx, fmt.Sprintf("%d:%d:%d", k, byIdx[k].Refs, t))
	}
	type pr struct{ b, a int }
	var nw []pr
	for i, e := range s.New {
		nw = append(nw, pr{s.NewInts[i], idxOf(e[1])})
	}
	sort.Slice(nw, func(i, j int) bool { return nw[i].b < nw[j].b || (nw[i].b == nw[j].b && nw[i].a < nw[j].a) })
	show := func(l []pr) string {
		var xs []string
		for _, p := range l {
			xs = append(xs, fmt.Sprintf("%d:%d", p.b, p.a))
		}
		return "[" + strings.Join(xs, ",") + "]"
	}
	var tr []pr
	for i, e := range s.Tried {
		tr = append(tr, pr{s.TriedInts[i], idxOf(e[1])})
	}
	var bn []pr
	for k, d := range s.BannedFor {
		t := 0
		if d > 0 {
			t = int((d + time.Hour - 1) / time.Hour)
		}
		bn = append(bn, pr{idxOf(k), t})
	}
	sort.Slice(bn, func(i, j int) bool { return bn[i].b < bn[j].b })
	return fmt.Sprintf("nNew=%d nTried=%d idx=[%s] new=%s tried=%s ban=%s", s.NNew, s.NTried, strings.Join(idx, ","), show(nw), show(tr), show(bn)), s, true
}

// getAddress runs GetAddress under the watchdog.
func (r *c18AmRig) getAddress() (ka *addrmgr.KnownAddress, hung bool) {
	ch := make(chan *addrmgr.KnownAddress, 1)
	go func() { ch <- r.am.GetAddress() }()
	select {
	case ka := <-ch:
		return ka, false
	case <-time.After(c18AmWatchdog):
		r.dead = true
		return nil, true
	}
}

// c18AmRun executes one history on the real manager, the model and the oracle. Returns false when the property failed.
func c18AmRun(c *Ctx, l *lib.Lean, name string, ops []string) (bool, error) {
	r := c18NewAmRig()
	banHours := int(addrmgr.VerifBanTime() / time.Hour)
	fail := func(i int, what, exp, obs, sig string) {
		c.R.Fail(lib.Failure{Case: name, Ops: append([]string(nil), ops[:i+1]...), What: what, Expected: exp, Observed: obs, Signature: sig})
	}
	drifted := false
	modelOff := false // after the first disagreement only the oracle goes on (so that a hang is still seen)
	for i, op := range ops {
		w := strings.Fields(op)
		if len(w) < 2 || w[0] != "am" {
			return false, fmt.Errorf("bad addrmgr op %q", op)
		}
		num := func(k int) int { n, _ := strconv.Atoi(w[k]); return n }
		mop := op
		switch w[1] {
		case "new":
			mop = fmt.Sprintf("am new %d %d", banHours, addrmgr.VerifNewBucketsPerAddress())
		case "add":
			a, src := num(2), num(3)
			na, sa := c18AmNA(a), c18AmSrc(src)
			b := addrmgr.VerifNewBucket(r.am, na, sa)
			before, _ := addrmgr.VerifSnap(r.am)
			r.am.AddAddresses([]*wire.NetAddress{na}, sa)
			after, _ := addrmgr.VerifSnap(r.am)
			key := addrmgr.NetAddressKey(na)
			kb, okb := before.Index[key]
			ka, oka := after.Index[key]
			took := oka && (!okb || ka.Refs != kb.Refs) // the dice of updateAddress for a known address
			mop = fmt.Sprintf("am add %d %d 0", a, b)
			if took {
				mop = fmt.Sprintf("am add %d %d 1", a, b)
			}
			if e, banned := r.banEnd[a]; !(banned && r.tick < e) {
				r.have[a] = true
			}
		case "good":
			mop = fmt.Sprintf("am good %d %d", num(2), addrmgr.VerifTriedBucket(r.am, c18AmNA(num(2))))
			r.am.Good(c18AmNA(num(2)))
		case "attempt":
			r.am.Attempt(c18AmNA(num(2)))
			mop = "am dump"
		case "connected":
			r.am.Connected(c18AmNA(num(2)))
			mop = "am dump"
		case "ban":
			r.am.BanAddress(addrmgr.NetAddressKey(c18AmNA(num(2))))
			r.have[num(2)] = false
			r.banEnd[num(2)] = r.tick + banHours
		case "clock":
			addrmgr.VerifAdvanceClock(r.am, time.Duration(num(2))*time.Hour)
			r.tick += num(2)
		case "dump":
		case "get":
			model, err := l.Ask("am get")
			if err != nil {
				return false, err
			}
			ka, hung := r.getAddress()
			c.R.OracleChecked++
			c.R.TracesValidated++
			if hung {
				fail(i, "AddrManager.GetAddress does not return (it loops over empty buckets with the manager's mutex held): the connection manager never gets another address",
					"an address or nil within "+c18AmWatchdog.String(), "no answer; the model says: "+model, c18SigAmHang)
				return false, nil
			}
			any := false
			for _, v := range r.have {
				any = any || v
			}
			impl := "nil"
			if ka != nil {
				a, known := r.keyIdx[addrmgr.NetAddressKey(ka.NetAddress())]
				snap, _ := addrmgr.VerifSnap(r.am)
				impl = "new"
				if snap.Index[addrmgr.NetAddressKey(ka.NetAddress())].Tried {
					impl = "tried"
				}
				if !known || !r.have[a] {
					fail(i, "GetAddress returned an address that is banned (or was never added)", "one of the known, unbanned addresses", addrmgr.NetAddressKey(ka.NetAddress()), "c18-addrmgr-banned-address-returned")
					return false, nil
				}
			}
			if (ka != nil) != any {
				fail(i, "GetAddress must return nil exactly when no unbanned address is known", fmt.Sprintf("address known: %v", any), impl, "c18-addrmgr-getaddress-nil-mismatch")
				return false, nil
			}
			okm := false
			for _, m := range strings.Split(model, "|") {
				okm = okm || m == impl
			}
			if !okm && !modelOff {
				c.R.Disagree(lib.Disagreement{Case: name, Ops: ops[:i+1], Op: op, Impl: impl, Model: model})
				modelOff = true
			}
			continue
		default:
			return false, fmt.Errorf("bad addrmgr op %q", op)
		}
		model, err := l.Ask(mop)
		if err != nil {
			return false, err
		}
		line, snap, ok := r.line()
		c.R.TracesValidated++
		c.R.OracleChecked++
		if !ok {
			return false, fmt.Errorf("addrmgr mutex held after %q", op)
		}
		if line != model && !modelOff {
			c.R.Disagree(lib.Disagreement{Case: name, Ops: ops[:i+1], Op: op + "  =>  " + mop, Impl: line, Model: model})
			modelOff = true
		}
		// counters: never negative, and they count what is in the buckets
		bad := snap.NNew < 0 || snap.NTried < 0 || snap.NTried != len(snap.Tried)
		withRefs := 0
		for _, ka := range snap.Index {
			if ka.Refs < 0 {
				bad = true
			}
			if ka.Refs > 0 {
				withRefs++
			}
		}
		if (bad || withRefs != snap.NNew) && !drifted {
			drifted = true
			fail(i, "address manager counters drift from its buckets (nTried = entries of the tried buckets, nNew = indexed addresses held by a new bucket, nothing negative)",
				fmt.Sprintf("nTried=%d nNew=%d", len(snap.Tried), withRefs), line, "c18-addrmgr-counter-drift")
		}
	}
	return !modelOff && !drifted, nil
}

func c18AmGen(rng *rand.Rand, n int) []string {
	ops := []string{"am new"}
	na := 1 + rng.Intn(c18AmAddrs) // small universes make "ban the only tried address" frequent
	for len(ops) < n {
		a := rng.Intn(na)
		x := rng.Intn(100)
		switch {
		case x < 28:
			ops = append(ops, fmt.Sprintf("am add %d %d", a, rng.Intn(c18AmSrcs)))
		case x < 43:
			ops = append(ops, fmt.Sprintf("am good %d", a))
		case x < 48:
			ops = append(ops, fmt.Sprintf("am attempt %d", a))
		case x < 52:
			ops = append(ops, fmt.Sprintf("am connected %d", a))
		case x < 67:
			ops = append(ops, fmt.Sprintf("am ban %d", a))
		case x < 92:
			ops = append(ops, "am get")
		default:
			ops = append(ops, fmt.Sprintf("am clock %d", []int{1, 12, 23, 24, 25}[rng.Intn(5)]))
		}
	}
	return append(ops, "am get")
}

type c18AmConn struct{}

func (c18AmConn) Read([]byte) (int, error)         { return 0, errors.New("not readable") }
func (c18AmConn) Write(b []byte) (int, error)      { return len(b), nil }
func (c18AmConn) Close() error                     { return nil }
func (c18AmConn) LocalAddr() net.Addr              { return &net.TCPAddr{} }
func (c18AmConn) RemoteAddr() net.Addr             { return &net.TCPAddr{} }
func (c18AmConn) SetDeadline(time.Time) error      { return nil }
func (c18AmConn) SetReadDeadline(time.Time) error  { return nil }
func (c18AmConn) SetWriteDeadline(time.Time) error { return nil }

// c18AmConnScenario: real connmgr + real addrmgr wired as server.go wires them (GetNewAddress =
// p2putil.NewAddressFunc over am.GetAddress, BanAddress = am.BanAddress, Attempt/Good on connection
// as outboundPeerConnected / OnVersion do). Target 1. Address A connects once (→ tried), the
// connection closes, A refuses until the connection manager bans it; then fresh addresses arrive
// through AddAddresses: the manager must reach its target again.
func c18AmConnScenario(c *Ctx, name string, ops []string) error {
	if config.ActiveNetParams == nil {
		config.ActiveNetParams = &chaincfg.MainNetParams
	}
	lg := lib.DiscardLog()
	am := addrmgr.New(func(string) ([]net.IP, error) { return nil, errors.New("offline") }, &lg)
	var mu sync.Mutex
	okAddr := map[string]bool{addrmgr.NetAddressKey(c18AmNA(0)): true}
	dials, bans := 0, 0
	var est []uint64
	fail := func(what, exp, obs, sig string) {
		c.R.Fail(lib.Failure{Case: name, Ops: ops, What: what, Expected: exp, Observed: obs, Signature: sig})
	}
	cm, err := connmgr.New(&connmgr.Config{
		TargetOutbound: 1, RetryDuration: time.Millisecond, Logger: &lg,
		GetNewAddress: p2putil.NewAddressFunc(am.GetAddress, func(string) int { return 0 }, func(string) ([]net.IP, error) { return nil, errors.New("offline") }),
		BanAddress: func(s string) {
			mu.Lock()
			bans++
			mu.Unlock()
			am.BanAddress(s)
		},
		Dial: func(a net.Addr) (net.Conn, error) {
			mu.Lock()
			defer mu.Unlock()
			dials++
			if !okAddr[a.String()] {
				return nil, errors.New("connection refused")
			}
			return c18AmConn{}, nil
		},
		OnConnection: func(cr *connmgr.ConnReq, _ net.Conn, _ *zerolog.Logger) {
			ta := cr.Addr.(*net.TCPAddr)
			na := wire.NewNetAddressIPPort(ta.IP, uint16(ta.Port), wire.SFNodeNetwork)
			am.Attempt(na) // outboundPeerConnected
			am.Good(na)    // serverPeer.OnVersion
			mu.Lock()
			est = append(est, cr.ID())
			mu.Unlock()
		},
		OnDisconnection: func(cr *connmgr.ConnReq) {
			mu.Lock()
			for i, id := range est {
				if id == cr.ID() {
					est = append(est[:i:i], est[i+1:]...)
					break
				}
			}
			mu.Unlock()
		},
	})
	if err != nil {
		return err
	}
	wait := func(d time.Duration, pred func() bool) bool {
		deadline := time.Now().Add(d)
		for {
			mu.Lock()
			ok := pred()
			mu.Unlock()
			if ok {
				return true
			}
			if time.Now().After(deadline) {
				return false
			}
			time.Sleep(time.Millisecond)
		}
	}
	state := func() string {
		mu.Lock()
		defer mu.Unlock()
		return fmt.Sprintf("established=%d dials=%d BanAddress calls=%d", len(est), dials, bans)
	}
	am.AddAddresses([]*wire.NetAddress{c18AmNA(0)}, c18AmSrc(0))
	cm.Start()
	defer cm.Stop()
	c.R.OracleChecked += 3
	c.R.Count("addrmgr:scenario:connmgr", 1)
	if !wait(30*time.Second, func() bool { return len(est) == 1 }) {
		fail("the connection manager did not connect to the only known address", "established=1", state(), c18SigAmTarget)
		return nil
	}
	mu.Lock()
	okAddr[addrmgr.NetAddressKey(c18AmNA(0))] = false
	id := est[0]
	mu.Unlock()
	cm.Disconnect(id)
	if !wait(60*time.Second, func() bool { return bans >= 1 }) {
		c.R.Notes = append(c.R.Notes, "addrmgr-connmgr scenario: the refusing address was not banned within 60 s: "+state())
		return nil
	}
	// fresh addresses arrive (an addr message from a peer)
	added := make(chan struct{})
	go func() {
		am.AddAddresses([]*wire.NetAddress{c18AmNA(1), c18AmNA(2)}, c18AmSrc(1))
		close(added)
	}()
	select {
	case <-added:
	case <-time.After(10 * time.Second):
		fail("after the connection manager banned an address that had been connected before, AddrManager.AddAddresses blocks: a GetAddress loops over empty tried buckets with the manager's mutex held",
			"AddAddresses returns", "blocked for 10 s; "+state(), c18SigAmHang)
		return nil
	}
	mu.Lock()
	okAddr[addrmgr.NetAddressKey(c18AmNA(1))] = true
	okAddr[addrmgr.NetAddressKey(c18AmNA(2))] = true
	mu.Unlock()
	if !wait(60*time.Second, func() bool { return len(est) == 1 }) {
		fail("fresh addresses arrived after a ban, but the connection manager did not reach its target again", "established=1", state(), c18SigAmTarget)
	}
	return nil
}
