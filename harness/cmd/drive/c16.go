package main

// C16 — no request crashes the API or earns a 5xx; client errors are structured 4xx.
//
// Implementation side: the real stack (SQLite + database.Init + repositories + services +
// the gin engine of lib.NewStack) with authentication off and on, stores with forks and
// orphans ingested through service.Chains.Add; every request goes through
// Engine.ServeHTTP under recover.
// Model side: `http req …` of the Lean driver (BHS/Model/Http.lean) fed with the abstract
// inputs that a shadow gin engine extracted from an identical copy of the request
// (c16_shadow.go).
// Oracle (independent of the model): no escaping panic, status < 500, body = exactly one
// JSON value, 4xx ⇒ {code, message} non-empty strings, headers table digest unchanged,
// status ≥ 400 ⇒ webhooks / tokens tables unchanged, the engine still answers afterwards.

import (
	"bytes"
	"crypto/sha256"
	"encoding/hex"
	"encoding/json"
	"fmt"
	"io"
	"math/rand"
	"net/http/httptest"
	"os"
	"sort"
	"strconv"
	"strings"
	"time"
	"unicode/utf8"

	"github.com/bitcoin-sv/block-headers-service/verifharness/lib"
	"github.com/gin-gonic/gin"
)

func init() { runners["C16"] = runC16 }

const c16Admin = "c16-admin-token-0123456789"

type c16Side struct {
	name     string
	auth     bool
	metrics  bool // metrics.enabled=true: request middleware + NoRoute marker + GET /metrics, as cmd/main.go registers them
	ci       *ChainImpl
	l        *lib.Lean
	sh       *c16Shadow
	user     string
	storeOps []string // reset + adds of the current store
	pool     *c16Pool
	routes   [][2]string
	n        int
	curPath  string // decoded path of the request being exchanged (what the metrics middleware uses as a label)
	// table digests taken after the previous exchange: they are the "before" of the next one (nothing but exchanges touches the
	// tables in between; loadStore / deactivate invalidate). A change that lands between two exchanges is therefore seen too.
	lastH, lastA string
	haveLast     bool
}

func c16NewSide(c *Ctx, name string, auth, withMetrics bool) (*c16Side, error) {
	ci, err := newChainImpl("c16-"+name+".db", lib.StackOpts{UseAuth: auth, AdminToken: c16Admin, Metrics: withMetrics})
	if err != nil {
		return nil, err
	}
	s := &c16Side{name: name, auth: auth, metrics: withMetrics, ci: ci, l: c.lean()}
	// development aid: VERIF_C16_FIX=switch[,switch…] (or `all`) overrides switches of the model's `codeToday` for this run,
	// to try a patch of /repo (e.g. through a build overlay) before flipping the definition in BHS/Model/Http.lean
	for _, f := range strings.Split(os.Getenv("VERIF_C16_FIX"), ",") {
		if f = strings.TrimSpace(f); f != "" {
			if ans, err := s.l.Ask("http fix " + f + " 1"); err != nil || ans != "ok" {
				return nil, fmt.Errorf("VERIF_C16_FIX: unknown switch %q (%s)", f, ans)
			}
			c.R.Notes = append(c.R.Notes, "model switch overridden for this run: "+f)
		}
	}
	return s, nil
}

func (s *c16Side) close() {
	s.l.Close()
	s.ci.Close()
}

// loadStore resets both sides and ingests the history (ops: reset / forbid / add).
func (s *c16Side) loadStore(c *Ctx, name string, ops []string) error {
	s.storeOps = nil
	s.haveLast = false
	defer func() { s.haveLast = false }()
	for _, op := range ops {
		w := strings.Fields(op)
		switch w[0] {
		case "reset":
			if out := s.ci.Op("reset"); out != "ok" {
				return fmt.Errorf("reset: %s", out)
			}
			if _, err := s.l.Ask("http reset"); err != nil {
				return err
			}
			s.storeOps = append(s.storeOps, "reset")
		case "add":
			s.ci.Op(op)
			if _, err := s.l.Ask("http add " + w[1]); err != nil {
				return err
			}
			s.storeOps = append(s.storeOps, op)
		}
	}
	rows, err := s.ci.Dump()
	if err != nil {
		return err
	}
	model, err := s.l.Ask("http dump")
	if err != nil {
		return err
	}
	c.R.TracesValidated++
	if impl := dumpStr(rows); impl != model && c.Driver != "none" {
		c.R.Disagree(lib.Disagreement{Case: name + "/" + s.name, Ops: s.storeOps, Op: "http dump", Impl: abbreviate(impl), Model: abbreviate(model)})
	}
	s.pool = c16NewPool(rows)
	// routing table at run time; the shadow engine copies it (and the real engine's router switches)
	s.routes = nil
	for _, r := range s.ci.Engine.Routes() {
		s.routes = append(s.routes, [2]string{r.Method, r.Path})
	}
	sort.Slice(s.routes, func(i, j int) bool {
		if s.routes[i][1] != s.routes[j][1] {
			return s.routes[i][1] < s.routes[j][1]
		}
		return s.routes[i][0] < s.routes[j][0]
	})
	s.sh = c16NewShadow(s.ci.Engine.Routes())
	real := s.ci.Engine
	s.sh.engine.RedirectTrailingSlash, s.sh.engine.RedirectFixedPath = real.RedirectTrailingSlash, real.RedirectFixedPath
	s.sh.engine.HandleMethodNotAllowed, s.sh.engine.UseRawPath = real.HandleMethodNotAllowed, real.UseRawPath
	s.sh.engine.UnescapePathValues, s.sh.engine.RemoveExtraSlash = real.UnescapePathValues, real.RemoveExtraSlash
	s.user = ""
	if s.auth {
		t, err := s.ci.Svc.Tokens.GenerateToken()
		if err != nil {
			return err
		}
		s.user = t.Token
	}
	return nil
}

// authHeader: an Authorization header of the given class (variant < 0: the canonical one).
func (s *c16Side) authHeader(class string, rng *rand.Rand) string {
	v := 0
	if rng != nil {
		v = rng.Intn(4)
	}
	switch class {
	case "admin":
		return "Bearer " + c16Admin
	case "user":
		return "Bearer " + s.user
	case "unknown":
		return []string{"Bearer nope", "Bearer " + c16Admin + "x", "Bearer " + strings.Repeat("a", 32), "Bearer \"" + c16Admin + "\""}[v]
	case "malformed":
		return []string{"Basic abc", "Bearer", "bearer " + c16Admin, "Bearer  " + c16Admin}[v]
	}
	return ""
}

func (s *c16Side) auxDigest() string {
	h := sha256.New()
	for _, tbl := range []string{"tokens", "webhooks"} {
		rows, err := s.ci.DB.Queryx("SELECT * FROM " + tbl)
		if err != nil {
			return "error:" + err.Error()
		}
		var lines []string
		for rows.Next() {
			vals, err := rows.SliceScan()
			if err != nil {
				rows.Close()
				return "error:" + err.Error()
			}
			lines = append(lines, fmt.Sprintf("%q", vals))
		}
		rows.Close()
		sort.Strings(lines)
		fmt.Fprintf(h, "%s %d\n%s\n", tbl, len(lines), strings.Join(lines, "\n"))
	}
	return hex.EncodeToString(h.Sum(nil)[:12])
}

// c16Classify parses the body as a sequence of JSON values.
func c16Classify(body []byte) (kinds []string, docs []any) {
	if len(bytes.TrimSpace(body)) == 0 {
		if len(body) == 0 {
			return nil, nil
		}
		return []string{"nonJson"}, nil
	}
	dec := json.NewDecoder(bytes.NewReader(body))
	for {
		var v any
		err := dec.Decode(&v)
		if err == io.EOF {
			break
		}
		if err != nil {
			return []string{"nonJson"}, nil
		}
		docs = append(docs, v)
		switch t := v.(type) {
		case map[string]any:
			code, ok1 := t["code"].(string)
			_, ok2 := t["message"].(string)
			if ok1 && ok2 && len(t) == 2 {
				kinds = append(kinds, "errorDoc:"+code)
			} else {
				kinds = append(kinds, "value")
			}
		case string:
			kinds = append(kinds, "bareString")
		default:
			kinds = append(kinds, "value")
		}
	}
	return kinds, docs
}

func c16Canon(status int, kinds []string) string {
	b := "empty"
	if len(kinds) > 0 {
		b = strings.Join(kinds, "+")
	}
	return fmt.Sprintf("%d|%s|%d", status, b, len(kinds))
}

func c16Short(b []byte) string {
	s := string(b)
	if len(s) > 160 {
		s = s[:160] + fmt.Sprintf("…(%d bytes)", len(b))
	}
	return strconv.QuoteToASCII(s)
}

// exchange sends one request to the implementation and the model, compares, and runs the oracle.
func (s *c16Side) exchange(c *Ctx, storeName string, q *c16Request, nontrivialStore bool) error {
	if !c16Sendable(q.Target) {
		c.R.Count("targets net/http itself would refuse (not sent)", 1)
		return nil
	}
	abs := s.sh.abstract(q)
	if abs == nil {
		c.R.Count("targets net/http itself would refuse (not sent)", 1)
		return nil
	}
	req, err := q.build()
	if err != nil {
		return nil
	}
	s.curPath = req.URL.Path
	route := abs.Kind
	if abs.Kind == "route" {
		route = abs.Method + " " + abs.Pattern
	}
	if !s.haveLast {
		s.lastH, s.lastA, s.haveLast = tableDigest(s.ci), s.auxDigest(), true
	}
	hBefore, aBefore := s.lastH, s.lastA
	w := httptest.NewRecorder()
	crashed := ""
	func() {
		defer func() {
			if r := recover(); r != nil {
				crashed = fmt.Sprint(r)
			}
		}()
		s.ci.Engine.ServeHTTP(w, req)
	}()
	hAfter := tableDigest(s.ci)
	aAfter := s.auxDigest()
	s.lastH, s.lastA = hAfter, aAfter
	body := w.Body.Bytes()
	kinds, docs := c16Classify(body)
	impl := c16Canon(w.Code, kinds)
	if crashed != "" {
		impl = "crash"
	}
	s.n++
	c.R.Count("requests: "+q.Gen, 1)
	if q.chunked() {
		c.R.Count("requests sent without a declared body length (chunked)", 1)
	}
	c.R.Count(fmt.Sprintf("answers: %s %dxx", s.name, w.Code/100), 1)
	hasInput := strings.ContainsAny(q.Target, "?") || q.Body != nil || strings.Contains(abs.Pattern, ":")
	c.R.Case(s.name+"|"+storeName+"|"+q.opLine(), nontrivialStore && hasInput && abs.Kind == "route")

	// correspondence
	model := ""
	switch {
	case abs.Line != "":
		ans, err := s.l.Ask("http req " + q.Auth + " " + abs.Line)
		if err != nil {
			return err
		}
		model = ans
		c.R.TracesValidated++
		if ans != impl && c.Driver != "none" {
			c.R.Disagree(lib.Disagreement{Case: s.name + "/" + storeName + " " + route, Ops: s.replayOps(true, q),
				Op: "http req " + q.Auth + " " + abbreviate(abs.Line), Impl: impl + " body=" + c16Short(body), Model: ans})
		}
	case !abs.Lite:
		c.R.Fail(lib.Failure{Case: route, Ops: s.replayOps(false, q), What: "a route of the routing table that the HTTP model does not know (the quantifier is every route)",
			Expected: "every API route has a handler model", Observed: route, Signature: "c16-unmodelled-route:" + route})
	}
	if len(c.R.Samples) < 10 && (s.n%97 == 1 || w.Code >= 500) {
		c.R.Sample(map[string]any{"side": s.name, "store": storeName, "request": q.Method + " " + abbreviate(q.Target), "body": c16Short(q.Body), "abstract": abbreviate(abs.Line),
			"impl": impl, "model": model}, 10)
	}

	// oracle
	c.R.OracleChecked++
	var broken []string
	if crashed != "" {
		broken = append(broken, "a panic escaped Engine.ServeHTTP: "+crashed)
	}
	if w.Code >= 500 || w.Code < 200 {
		broken = append(broken, fmt.Sprintf("status %d", w.Code))
	}
	if !abs.Lite {
		if len(kinds) != 1 || kinds[0] == "nonJson" {
			broken = append(broken, fmt.Sprintf("body is not exactly one JSON value (%d values: %s)", len(docs), strings.Join(kinds, "+")))
		}
		if w.Code >= 400 && w.Code < 500 {
			ok := false
			if len(docs) == 1 {
				if m, isObj := docs[0].(map[string]any); isObj {
					code, _ := m["code"].(string)
					msg, _ := m["message"].(string)
					ok = code != "" && msg != ""
				}
			}
			if !ok {
				broken = append(broken, "4xx without a {code, message} document")
			}
		}
	}
	if hBefore != hAfter {
		broken = append(broken, "table headers changed")
	}
	if w.Code >= 400 && aBefore != aAfter {
		broken = append(broken, "a request answered with an error changed the webhooks / tokens tables")
	}
	if len(broken) == 0 {
		return nil
	}
	sig, storeDependent := s.signature(abs, route, w.Code, kinds, body, crashed != "", hBefore != hAfter, aBefore != aAfter)
	ops := s.replayOps(storeDependent, q)
	c.R.Fail(lib.Failure{Case: s.name + "/" + storeName + " " + q.Method + " " + abbreviate(q.Target), Ops: ops, What: route + ": " + strings.Join(broken, "; "),
		Expected: "2xx/3xx/4xx, exactly one JSON document, 4xx with non-empty code and message, no table change", Observed: fmt.Sprintf("%d %s body=%s", w.Code, w.Header().Get("Content-Type"), c16Short(body)),
		Signature: sig, Extra: map[string]any{"abstract": abbreviate(abs.Line), "request_body": c16Short(q.Body), "content_type": q.CType, "auth": q.Auth}})
	return nil
}

// replayOps: the op lines that reproduce one exchange (store, configuration, request).
func (s *c16Side) replayOps(withStore bool, q *c16Request) []string {
	ops := []string{"reset"}
	if withStore {
		ops = append([]string{}, s.storeOps...)
	}
	if s.metrics {
		ops = append(ops, c16MetricsOp)
	}
	return append(ops, q.opLine())
}

// signature: a specific predicate over the failure (one per known defect), `c16-other:…` for anything else.
func (s *c16Side) signature(abs *c16Abs, route string, status int, kinds []string, body []byte, crashed, headersChanged, auxChanged bool) (sig string, storeDependent bool) {
	other := fmt.Sprintf("c16-other:%s:%d", route, status)
	if crashed {
		return "c16-server-crash:" + route, true
	}
	if headersChanged {
		return "c16-store-touched:" + route, true
	}
	is := func(ks ...string) bool { return strings.Join(kinds, "+") == strings.Join(ks, "+") }
	if s.metrics && status >= 500 && len(body) == 0 && !utf8.ValidString(s.curPath) {
		// the request metrics use the decoded path as a label value; prometheus panics on label values that are not UTF-8
		return "c16-metrics-path-not-utf8-5xx:" + route, false
	}
	switch route {
	case "GET " + c16Prefix + "/chain/header/byHeight":
		h := ""
		if v := abs.Query["height"]; v != nil {
			h = *v
		}
		_, err := strconv.Atoi(h)
		if status == 500 && is("errorDoc:error-unknown") && err != nil {
			return "c16-byheight-height-not-validated", false
		}
	case "POST " + c16Prefix + "/chain/header/commonAncestor":
		if status == 500 && len(kinds) == 0 && !abs.BindErr {
			if len(abs.Hashes) == 0 {
				return "c16-commonancestor-empty-list-panic", false
			}
			allKnown, zero := true, false
			for _, h := range abs.Hashes {
				ht, ok := s.pool.height[h]
				allKnown = allKnown && ok
				zero = zero || (ok && ht == 0)
			}
			if allKnown && zero {
				return "c16-commonancestor-genesis-nil", true
			}
			if allKnown {
				return "c16-commonancestor-walk-nil", true
			}
		}
	case "POST " + c16Prefix + "/webhook":
		if status == 400 && abs.BindErr && len(kinds) == 2 && kinds[0] == "errorDoc:ErrBindBody" {
			return "c16-webhook-double-body", false
		}
	case "POST " + c16Prefix + "/chain/merkleroot/verify":
		if status == 400 && abs.BindErr && is("bareString") && !auxChanged {
			return "c16-verify-binderr-unstructured", false
		}
	case "GET " + c16Prefix + "/access":
		if status == 400 && len(body) == 0 && !s.auth && !auxChanged {
			return "c16-access-get-noauth-empty", false
		}
	case "GET /status":
		if status == 200 && len(body) == 0 {
			return "c16-status-empty-body", false
		}
	case "noroute":
		if status == 404 && string(body) == "404 page not found" {
			return "c16-noroute-plain-text", false
		}
	case "redirect":
		if (status == 301 || status == 307) && is("nonJson") || (status == 307 && len(body) == 0) {
			return "c16-trailing-slash-redirect-html", false
		}
	}
	return other, true
}

// deactivate switches a registered webhook off on both sides (what repeated delivery failures do: C12).
func (s *c16Side) deactivate(url string) error {
	s.haveLast = false
	res, err := s.ci.DB.Exec("UPDATE webhooks SET is_active = 0 WHERE url = ?", url)
	if err != nil {
		return err
	}
	if n, _ := res.RowsAffected(); n == 1 {
		_, err = s.l.Ask("http hook " + c16x(url) + " 0")
	}
	return err
}

func (s *c16Side) alive() bool {
	w := httptest.NewRecorder()
	ok := true
	func() {
		defer func() {
			if recover() != nil {
				ok = false
			}
		}()
		s.ci.Engine.ServeHTTP(w, httptest.NewRequest("GET", "/status", nil))
	}()
	return ok && w.Code == 200
}

// sendAll shuffles the requests (webhook registrations, queries and deletions interleave), sends each one in the authentication
// variants of the side, and checks that the engine still answers.
func (s *c16Side) sendAll(c *Ctx, storeName string, reqs []*c16Request, rng *rand.Rand, nontrivial bool) error {
	rng.Shuffle(len(reqs), func(i, j int) { reqs[i], reqs[j] = reqs[j], reqs[i] })
	for k, q := range reqs {
		var variants []*c16Request
		if !s.auth {
			q.Auth = "disabled"
			if k%7 == 0 {
				q.AuthH = "Bearer whatever" // ignored when authentication is off
			}
			variants = []*c16Request{q}
		} else {
			a := *q
			a.Auth, a.AuthH = "admin", s.authHeader("admin", nil)
			variants = append(variants, &a)
			if k%3 == 0 || strings.HasPrefix(q.Target, c16Prefix+"/access") {
				b := *q
				b.Auth = []string{"missing", "malformed", "unknown", "user"}[rng.Intn(4)]
				b.AuthH = s.authHeader(b.Auth, rng)
				variants = append(variants, &b)
			}
		}
		for _, v := range variants {
			if err := s.exchange(c, storeName, v, nontrivial); err != nil {
				return err
			}
		}
		if k%50 == 49 && len(s.pool.hooks) > 0 {
			if err := s.deactivate(s.pool.hooks[rng.Intn(len(s.pool.hooks))]); err != nil {
				return err
			}
		}
		if k%500 == 499 && !s.alive() {
			c.R.Fail(lib.Failure{Case: s.name + "/" + storeName, What: "the engine stopped answering GET /status", Signature: "c16-server-dead"})
		}
	}
	if !s.alive() {
		c.R.Fail(lib.Failure{Case: s.name + "/" + storeName, What: "the engine stopped answering GET /status", Signature: "c16-server-dead"})
	}
	return nil
}

// c16CraftedStore: forks, a plain orphan, and two orphans whose parents arrive later (their heights stay 1).
func c16CraftedStore() []string {
	mk := func(parent [32]byte, i int, bits uint32) Hdr {
		var h Hdr
		h.Version = 1
		h.Prev = parent
		h.Merkle = shaStr(fmt.Sprintf("c16-crafted-merkle-%d", i))
		h.Time = 1600000000 + uint32(i)*600
		h.Bits = bits
		h.Nonce = uint32(7000 + i)
		return h
	}
	g := genesisHdr.Hash()
	m1 := mk(g, 1, bitsSmall[1])
	m2 := mk(m1.Hash(), 2, bitsSmall[1])
	m3 := mk(m2.Hash(), 3, bitsSmall[1])
	m4 := mk(m3.Hash(), 4, bitsSmall[1])
	m5 := mk(m4.Hash(), 5, bitsSmall[1])
	s2 := mk(m1.Hash(), 12, bitsSmall[0]) // stale sibling at height 2
	s3 := mk(s2.Hash(), 13, bitsSmall[0])
	p1 := mk(m3.Hash(), 21, bitsSmall[0]) // arrives AFTER its child o1
	o1 := mk(p1.Hash(), 22, bitsSmall[0])
	x1 := mk(o1.Hash(), 23, bitsSmall[0])
	p2 := mk(m4.Hash(), 31, bitsSmall[0]) // arrives AFTER its child o2
	o2 := mk(p2.Hash(), 32, bitsSmall[0])
	x2 := mk(o2.Hash(), 33, bitsSmall[0])
	lone := mk(shaStr("c16-nowhere"), 41, bitsSmall[0])
	ops := []string{"reset", "forbid"}
	for _, h := range []Hdr{m1, m2, s2, m3, s3, o1, x1, o2, x2, lone, m4, m5, p1, p2} {
		ops = append(ops, "add "+h.Hex())
	}
	return ops
}

func runC16(c *Ctx) error {
	rng := lib.Rng(c.Seed, "c16")
	c.R.Rule = "stores: genesis only; a crafted store (fork, orphans, orphans whose parents arrive later); random fork/orphan-rich histories (randomHistory). " +
		"For EVERY route of Engine.Routes() (read at run time, authentication off and on) requests from a grammar: path parameters {stored tip/longest/stale/orphan/genesis, unknown, 63/65 chars, non-hex, " +
		"upper case, NUL / non-UTF-8 / very long, reserved words, empty, raw odd escapes}, numbers {0, ±1, 2^31-1, 2^31, 2^63-1, 2^63, -2^63-1, 10^20, signs, spaces, floats, hex, underscores, non-ASCII digits, 1000 digits, empty, absent}, " +
		"query strings with duplicates / wrong case / missing values / semicolons / bad escapes / 2000 extra pairs, bodies {valid, [], {}, null, wrong JSON types, partial decodes, truncated, trailing data, " +
		"10^4 items, nesting 12000 deep, invalid UTF-8, BOM, empty, 200 kB string} x 17 content types (c.Bind picks the decoder), other methods, trailing slashes, unknown paths; plus a mutation stream over the valid requests " +
		"(byte / token / parameter level). With authentication on, every request is sent as admin and as one of {missing, malformed, unknown, user}. " +
		"Abstract inputs of the model are extracted by a shadow gin engine built from the same routing table. " +
		"Non-trivial: the request reaches a route handler with a parameter, query or body on a store with a fork and an orphan; distinct by (side, store, request)."
	nStores, nMut := 2, 1500
	if c.Thorough {
		nStores, nMut = 14, 20000
	}
	// metrics.EnableMetrics() cannot be undone within a process: the metrics-off engines are built here, first, and the
	// metrics-on engines (c16Sides.metricsSide) only when the metrics phase / a replay naming that configuration needs them.
	ss := &c16Sides{c: c}
	defer ss.close()
	for _, cf := range []struct {
		name string
		auth bool
	}{{"noauth", false}, {"auth", true}} {
		s, err := c16NewSide(c, cf.name, cf.auth, false)
		if err != nil {
			return err
		}
		ss.base = append(ss.base, s)
	}
	sides := ss.base

	if c.Replay != "" {
		ops, err := lib.ReadReplayOps(c.Replay)
		if err != nil {
			return err
		}
		return c16Replay(c, ss, "replay", ops)
	}

	// corpus first: the witnesses of repaired defects run as ordinary cases (a regression is a VIOLATION)
	for _, cs := range loadCorpus("C16") {
		if err := c16Replay(c, ss, cs.name, cs.ops); err != nil {
			return err
		}
		c.R.Count("corpus cases replayed", 1)
	}
	c.R.ModelOps = 0

	type store struct {
		name string
		ops  []string
	}
	stores := []store{{"genesis-only", []string{"reset", "forbid"}}, {"crafted", c16CraftedStore()}}
	for i := 0; i < nStores; i++ {
		n := 10 + rng.Intn(30)
		if c.Thorough && i%5 == 4 {
			n = 150
		}
		_, ops := genStore(rng, n, uint32(c.Seed)*131+uint32(i))
		stores = append(stores, store{fmt.Sprintf("random-%d", i), ops})
	}
	started := time.Now()
	for si, st := range stores {
		for _, s := range sides {
			if err := s.loadStore(c, st.name, st.ops); err != nil {
				return err
			}
			nontrivial := s.pool.forks && len(s.pool.orphan) > 0
			c.R.Count(fmt.Sprintf("stores (%s)", s.name), 1)
			if nontrivial {
				c.R.Count("stores with a fork and an orphan", 1)
			}
			c.R.Count("routes in the table ("+s.name+")", 0)
			if si == 0 {
				c.R.Count("routes in the table ("+s.name+")", len(s.routes))
			}
			var reqs, valid []*c16Request
			for _, r := range s.routes {
				g := c16Grammar(rng, r[0], r[1], s.pool, c.Thorough)
				reqs = append(reqs, g...)
				for _, q := range g {
					if q.Gen == "param" || q.Gen == "query" || q.Gen == "body" || q.Gen == "plain" || q.Gen == "ctype" {
						valid = append(valid, q)
					}
				}
			}
			reqs = append(reqs, c16OffTable(rng, s.routes, s.pool)...)
			nm := nMut / len(stores)
			for i := 0; i < nm && len(valid) > 0; i++ {
				reqs = append(reqs, c16Mutate(rng, valid[rng.Intn(len(valid))]))
			}
			if err := s.sendAll(c, st.name, reqs, rng, nontrivial); err != nil {
				return err
			}
		}
		if !c.Thorough && time.Since(started) > 75*time.Second {
			c.R.Notes = append(c.R.Notes, fmt.Sprintf("quick tier: stopped after %d of %d stores (time budget)", si+1, len(stores)))
			break
		}
	}
	for _, s := range sides {
		c.R.ModelOps += s.l.Ops
	}

	// known findings: replay each recorded witness on a fresh store
	for _, kn := range lib.KnownFor(c.Known, "C16") {
		sub := &Ctx{Prop: c.Prop, Tier: c.Tier, Seed: c.Seed, Driver: c.Driver, Known: c.Known, R: lib.NewResult("C16", c.Tier, c.Seed)}
		if err := c16Replay(sub, ss, kn.ID, kn.Witness.Ops); err != nil {
			return err
		}
		st := "not-reproduced"
		for _, f := range sub.R.Failures {
			if f.Signature == kn.Signature {
				st = "reproduced"
			}
		}
		c.R.KnownReplayed[kn.ID] = st
		for _, d := range sub.R.Disagreements {
			c.R.Disagree(d)
		}
	}

	// API requests overlapping header ingestion (metrics off: before the metrics phase)
	if err := c16Concurrent(c); err != nil {
		return err
	}
	// metrics.enabled=true — last, after every metrics-off engine has done its work
	return c16MetricsPhase(c, ss, rng)
}

// c16Replay runs recorded ops (`reset`, `add <hex160>`, `metrics on`, `req …`) on the side the first request (and a `metrics on` line) names.
func c16Replay(c *Ctx, ss *c16Sides, name string, ops []string) error {
	auth, withMetrics := false, false
	for _, op := range ops {
		if q, ok := c16ParseOp(op); ok {
			auth = q.Auth != "disabled"
			break
		}
	}
	for _, op := range ops {
		withMetrics = withMetrics || strings.TrimSpace(op) == c16MetricsOp
	}
	s := ss.base[0]
	if auth {
		s = ss.base[1]
	}
	if withMetrics {
		var err error
		if s, err = ss.metricsSide(auth); err != nil {
			return err
		}
	}
	var storeOps []string
	var reqs []*c16Request
	for _, op := range ops {
		if q, ok := c16ParseOp(op); ok {
			reqs = append(reqs, q)
		} else if w := strings.Fields(op); len(w) > 0 && (w[0] == "reset" || w[0] == "add" || w[0] == "forbid") {
			storeOps = append(storeOps, op)
		}
	}
	if len(storeOps) == 0 || storeOps[0] != "reset" {
		storeOps = append([]string{"reset"}, storeOps...)
	}
	if err := s.loadStore(c, name, storeOps); err != nil {
		return err
	}
	for _, q := range reqs {
		q.AuthH = s.authHeader(q.Auth, nil)
		if err := s.exchange(c, name, q, s.pool.forks && len(s.pool.orphan) > 0); err != nil {
			return err
		}
	}
	c.R.ModelOps += s.l.Ops
	return nil
}

var _ = gin.Version
