package main

import (
	"fmt"
	"math/big"
	"os"
	"path/filepath"
	"sort"
	"strings"

	"github.com/bitcoin-sv/block-headers-service/verifharness/lib"
)

func init() { runners["C01"] = runC01 }

var checkInvEvery = true

// chainCase is one history: operation lines for both sides.
type chainCase struct {
	name string
	ops  []string
}

// historyOps renders a delivery order as op lines (reset first; dump after every add when small).
func historyOps(nodes []Node, order []int, forbid []string, dumpEach bool) []string {
	ops := []string{"reset"}
	if len(forbid) > 0 {
		ops = append(ops, "forbid "+strings.Join(forbid, " "))
	} else {
		ops = append(ops, "forbid")
	}
	for _, i := range order {
		ops = append(ops, "add "+nodes[i].Hdr.Hex())
		if dumpEach {
			ops = append(ops, "tip", "dump")
		}
	}
	if !dumpEach {
		ops = append(ops, "tip", "dump")
	}
	return ops
}

// ---------------------------------------------------------------------------------------------
// the oracle: an independent statement of C01 over the dumped table

type arrival struct {
	expectOrphan bool
}

type c01Oracle struct {
	arrivals   map[string]arrival // by hash, fixed at first storage
	zeroOnTip  bool               // a zero-work header was stored as child of the then-tip
	forbidden  map[string]bool
	lastDigest string
}

func newC01Oracle() *c01Oracle {
	return &c01Oracle{arrivals: map[string]arrival{genesisHdr.HashStr(): {false}}, forbidden: map[string]bool{}}
}

func parseBig(s string) *big.Int {
	v, ok := new(big.Int).SetString(s, 10)
	if !ok {
		return big.NewInt(-1)
	}
	return v
}

const zeroHashStr = "0000000000000000000000000000000000000000000000000000000000000000"

// canon recomputes the best chain and compares labels and tip. Returns mismatch descriptions.
func canon(rows []DbRow, tip string) (mism []string, tieOnly bool) {
	by := map[string]*DbRow{}
	for i := range rows {
		by[rows[i].Hash] = &rows[i]
	}
	var best *DbRow
	for i := range rows {
		r := &rows[i]
		if r.State == "ORPHAN" {
			continue
		}
		if best == nil || parseBig(r.Cum).Cmp(parseBig(best.Cum)) > 0 {
			best = r // rows are in rowid order: the earliest among equals is kept
		}
	}
	if best == nil {
		return []string{"no genesis-connected header"}, false
	}
	onChain := map[string]bool{}
	for r := best; r != nil; r = by[r.Prev] {
		if onChain[r.Hash] {
			mism = append(mism, "cycle")
			break
		}
		onChain[r.Hash] = true
	}
	for i := range rows {
		r := &rows[i]
		switch {
		case r.State == "ORPHAN":
		case onChain[r.Hash] && r.State != "LONGEST_CHAIN":
			mism = append(mism, fmt.Sprintf("%s is on the best chain but labelled %s", r.Hash[:12], r.State))
		case !onChain[r.Hash] && r.State != "STALE":
			mism = append(mism, fmt.Sprintf("%s is off the best chain but labelled %s", r.Hash[:12], r.State))
		}
	}
	if tip != best.Hash {
		mism = append(mism, fmt.Sprintf("reported tip %.12s is not the greatest-work earliest-stored header %.12s", tip, best.Hash))
	}
	if t, ok := by[tip]; ok && parseBig(t.Cum).Cmp(parseBig(best.Cum)) == 0 {
		tieOnly = true
	}
	return mism, tieOnly
}

func tipHashOf(tipLine string) string {
	f := strings.Split(tipLine, ",")
	if len(f) > 1 {
		return f[1]
	}
	return tipLine
}

// step checks one submission: outcome class, orphan rule, duplicates change nothing, canon.
func (o *c01Oracle) step(h Hdr, tipBefore string, before []DbRow, out string, after []DbRow, tipAfter string) (fails []lib.Failure) {
	hash := h.HashStr()
	prev := display(h.Prev)
	cls := strings.Fields(out)[0]
	by := map[string]*DbRow{}
	for i := range before {
		by[before[i].Hash] = &before[i]
	}
	_, known := by[hash]
	switch {
	case known:
		if cls != "duplicate" {
			fails = append(fails, lib.Failure{What: "re-submitted known header not answered as duplicate: " + cls, Signature: "c01-unanswered"})
		}
		if dumpStr(before) != dumpStr(after) {
			fails = append(fails, lib.Failure{What: "re-submitting a known header changed the store", Signature: "c01-duplicate-changed-store"})
		}
	case o.forbidden[hash]:
		if cls != "rejected" {
			fails = append(fails, lib.Failure{What: "forbidden header not answered as rejected: " + cls, Signature: "c01-forbidden-not-rejected"})
		}
		if dumpStr(before) != dumpStr(after) {
			fails = append(fails, lib.Failure{What: "forbidden header changed the store", Signature: "c01-forbidden-stored"})
		}
	default:
		if cls != "stored" {
			fails = append(fails, lib.Failure{What: "new header not stored, answered: " + cls, Signature: "c01-unanswered:" + cls})
		}
		p, pk := by[prev]
		o.arrivals[hash] = arrival{expectOrphan: !pk || p.State == "ORPHAN"}
		if prev == tipBefore && refWorkBits(h.Bits).Sign() == 0 {
			o.zeroOnTip = true
		}
	}
	for i := range after {
		r := &after[i]
		a, ok := o.arrivals[r.Hash]
		if !ok {
			continue
		}
		if a.expectOrphan != (r.State == "ORPHAN") {
			fails = append(fails, lib.Failure{What: fmt.Sprintf("orphan rule: %.12s arrived with unknown/orphan parent=%v but is labelled %s", r.Hash, a.expectOrphan, r.State), Signature: "c01-orphan-rule"})
		}
	}
	mism, tieOnly := canon(after, tipAfter)
	if len(mism) > 0 {
		sig := "c01-canon"
		if o.zeroOnTip && tieOnly {
			sig = "c01-zero-work-tip-extension"
		}
		fails = append(fails, lib.Failure{What: "labels/tip differ from the greatest-work earliest-stored chain: " + strings.Join(mism, "; "), Signature: sig})
	}
	return fails
}

// ---------------------------------------------------------------------------------------------

// runChainCase runs one history on both sides, compares per op, and runs the C01 oracle.
func runChainCase(c *Ctx, ci *ChainImpl, l *lib.Lean, cs chainCase, withOracle bool) error {
	o := newC01Oracle()
	var before []DbRow
	tipBefore := ""
	nontrivial := false
	sawFork, sawReorg, sawOrphan, sawTie := false, false, false, false
	for k, op := range cs.ops {
		impl := ci.Op(op)
		model, err := l.Ask(op)
		if err != nil {
			return err
		}
		if impl != model && c.Driver != "none" {
			c.R.Disagree(lib.Disagreement{Case: cs.name, Ops: cs.ops[:k+1], Op: op, Impl: impl, Model: model})
		}
		ws := strings.Fields(op)
		if ws[0] == "forbid" {
			for _, h := range ws[1:] {
				o.forbidden[h] = true
			}
		}
		if ws[0] == "reset" {
			o = newC01Oracle()
			before, _ = ci.Dump()
			tipBefore = genesisHdr.HashStr()
		}
		if ws[0] == "add" && withOracle {
			h, _ := hdrFromHex(ws[1])
			after, err := ci.Dump()
			if err != nil {
				return err
			}
			tipAfter := tipHashOf(ci.Op("tip"))
			c.R.OracleChecked++
			for _, f := range o.step(h, tipBefore, before, impl, after, tipAfter) {
				f.Case, f.Ops = cs.name, cs.ops[:k+1]
				c.R.Fail(f)
			}
			if strings.Contains(impl, "W setstate") {
				sawReorg = true
			}
			if strings.HasPrefix(impl, "stored") && strings.HasSuffix(strings.Split(impl, " | ")[0], "STALE") {
				sawFork = true
			}
			if strings.HasPrefix(impl, "stored") && strings.HasSuffix(strings.Split(impl, " | ")[0], "ORPHAN") {
				sawOrphan = true
			}
			cums := map[string]bool{}
			for _, r := range after {
				if r.State != "ORPHAN" {
					if cums[r.Cum] {
						sawTie = true
					}
					cums[r.Cum] = true
				}
			}
			before, tipBefore = after, tipAfter
			// the model's own invariants, evaluated by the Lean driver on this reachable state
			// (truth test of the invariant the induction proof uses; skipped on the known zero-work case)
			if c.Driver != "none" && checkInvEvery {
				iv, err := l.Ask("inv")
				if err != nil {
					return err
				}
				c.R.Count("model-invariant-evaluated", 1)
				if !o.zeroOnTip && strings.Contains(iv, "false") {
					c.R.Disagree(lib.Disagreement{Case: cs.name, Ops: cs.ops[:k+1], Op: "inv (model invariant on a reachable state)", Impl: "wf=true lcinv=true canon=true struct=true", Model: iv})
				}
			}
		}
	}
	nontrivial = sawFork && (sawTie || sawReorg || sawOrphan)
	c.R.Case(strings.Join(cs.ops, "\n"), nontrivial)
	if sawFork {
		c.R.Count("history:fork", 1)
	}
	if sawReorg {
		c.R.Count("history:reorg", 1)
	}
	if sawOrphan {
		c.R.Count("history:orphan", 1)
	}
	if sawTie {
		c.R.Count("history:tie", 1)
	}
	if o.zeroOnTip {
		c.R.Count("history:zero-work-on-tip", 1)
	}
	c.R.TracesValidated++
	return nil
}

// enumerate all labelled trees of n nodes x work assignments x arrival orders.
func enumerateTrees(n int, alphabet []uint32, visit func(nodes []Node, order []int, id string)) {
	parents := make([]int, n)
	works := make([]int, n)
	var perms [][]int
	var permute func(a []int, k int)
	permute = func(a []int, k int) {
		if k == len(a) {
			perms = append(perms, append([]int(nil), a...))
			return
		}
		for i := k; i < len(a); i++ {
			a[k], a[i] = a[i], a[k]
			permute(a, k+1)
			a[k], a[i] = a[i], a[k]
		}
	}
	base := make([]int, n)
	for i := range base {
		base[i] = i
	}
	permute(base, 0)
	salt := uint32(0)
	var recP func(i int)
	var recW func(i int)
	recW = func(i int) {
		if i == n {
			nodes := make([]Node, n)
			for k := range nodes {
				nodes[k] = Node{Parent: parents[k], Bits: alphabet[works[k]]}
			}
			salt++
			buildTree(nodes, 7, nil, false)
			for pi, p := range perms {
				visit(nodes, p, fmt.Sprintf("tree n=%d parents=%v works=%v order=%v #%d", n, parents, works, p, pi))
			}
			return
		}
		for w := range alphabet {
			works[i] = w
			recW(i + 1)
		}
	}
	recP = func(i int) {
		if i == n {
			recW(0)
			return
		}
		for p := -2; p < i; p++ {
			parents[i] = p
			recP(i + 1)
		}
	}
	recP(0)
}

func loadCorpus(prop string) []chainCase {
	var res []chainCase
	files, _ := filepath.Glob(filepath.Join("/verif/corpus", prop, "*.ops"))
	sort.Strings(files)
	for _, f := range files {
		b, err := os.ReadFile(f)
		if err != nil {
			continue
		}
		var ops []string
		for _, ln := range strings.Split(string(b), "\n") {
			ln = strings.TrimSpace(ln)
			if ln != "" && !strings.HasPrefix(ln, "#") {
				ops = append(ops, ln)
			}
		}
		res = append(res, chainCase{name: "corpus/" + filepath.Base(f), ops: ops})
	}
	return res
}

// replayKnown runs the witnesses of the listed findings and reports whether they still reproduce.
func replayKnown(c *Ctx, ci *ChainImpl, l *lib.Lean) error {
	for _, k := range lib.KnownFor(c.Known, c.Prop) {
		sub := &Ctx{Prop: c.Prop, Tier: c.Tier, Seed: c.Seed, Driver: c.Driver, R: lib.NewResult(c.Prop, c.Tier, c.Seed)}
		if err := runChainCase(sub, ci, l, chainCase{name: "known/" + k.ID, ops: k.Witness.Ops}, true); err != nil {
			return err
		}
		st := "not-reproduced"
		for _, f := range sub.R.Failures {
			if f.Signature == k.Signature {
				st = "reproduced"
			}
		}
		c.R.KnownReplayed[k.ID] = st
		for _, d := range sub.R.Disagreements {
			c.R.Disagree(d)
		}
		for _, f := range sub.R.Failures {
			if f.Signature != k.Signature {
				c.R.Fail(f)
			}
		}
	}
	return nil
}

func runC01(c *Ctx) error {
	rng := lib.Rng(c.Seed, "c01")
	c.R.Rule = "histories = corpus, then all labelled trees (parent = unknown | genesis | earlier node) x work alphabet {0,1,2} x all arrival orders up to n nodes, then random tie-rich trees delivered out of order with duplicates, forbidden hashes and field extremes; after every submission the outcome, the write trace and the whole table are compared with the Lean model and the oracle recomputes the greatest-work earliest-stored chain. Non-trivial = the history contains a fork and at least one of {tie, reorganisation, orphan}; distinct by op list."
	ci, err := newChainImpl("c01.db", lib.StackOpts{NoEngine: true})
	if err != nil {
		return err
	}
	defer ci.Close()
	l := c.lean()
	defer l.Close()
	if os.Getenv("VERIF_C01_ONLY_DEEP") != "" { // development aid: only the exact-size / literal-derived reorganisations
		err := c01DeepReorgs(c, l)
		c.R.ModelOps = l.Ops
		return err
	}
	if c.Replay != "" {
		ops, err := lib.ReadReplayOps(c.Replay)
		if err != nil {
			return err
		}
		return runChainCase(c, ci, l, chainCase{name: "replay", ops: ops}, true)
	}
	if err := replayKnown(c, ci, l); err != nil {
		return err
	}
	for _, cs := range loadCorpus("C01") {
		if err := runChainCase(c, ci, l, cs, true); err != nil {
			return err
		}
		c.R.Count("corpus", 1)
	}
	// bounded-exhaustive
	maxN := 3
	if c.Thorough {
		maxN = 4
	}
	alphabet := []uint32{bitsZero[0], bitsSmall[0], bitsSmall[1]}
	for n := 1; n <= maxN; n++ {
		var ferr error
		cnt := 0
		enumerateTrees(n, alphabet, func(nodes []Node, order []int, id string) {
			if ferr != nil {
				return
			}
			// thorough n=4: sample one in three orders to bound the run
			cnt++
			if n == 4 && cnt%3 != int(c.Seed%3) {
				return
			}
			cs := chainCase{name: id, ops: historyOps(nodes, order, nil, true)}
			ferr = runChainCase(c, ci, l, cs, true)
			if cnt%977 == 1 {
				c.R.Sample(map[string]any{"case": id, "ops": cs.ops}, 6)
			}
		})
		if ferr != nil {
			return ferr
		}
		c.R.Count(fmt.Sprintf("exhaustive:n=%d", n), cnt)
	}
	c.R.Exhaustive = false
	// random histories
	nRand, maxLen := 150, 40
	if c.Thorough {
		nRand, maxLen = 1500, 200
	}
	for k := 0; k < nRand; k++ {
		n := 3 + rng.Intn(maxLen-2)
		allowZero := k%5 == 0
		nodes, order := randomHistory(rng, n, uint32(k)+uint32(c.Seed)*100000, allowZero, true)
		var forbid []string
		if k%4 == 0 {
			forbid = append(forbid, nodes[rng.Intn(n)].Hdr.HashStr())
		}
		cs := chainCase{name: fmt.Sprintf("random #%d n=%d zero=%v", k, n, allowZero), ops: historyOps(nodes, order, forbid, n <= 60)}
		if err := runChainCase(c, ci, l, cs, true); err != nil {
			return err
		}
		c.R.Count("random", 1)
		if k < 2 {
			c.R.Sample(map[string]any{"case": cs.name, "ops": cs.ops[:min(len(cs.ops), 12)]}, 8)
		}
	}
	// a few long chains with forks (dump only at the end)
	nLong, lenLong := 1, 400
	if c.Thorough {
		nLong, lenLong = 6, 3000
	}
	for k := 0; k < nLong; k++ {
		nodes, order := randomHistory(rng, lenLong, 900000+uint32(k)+uint32(c.Seed)*1000, false, false)
		cs := chainCase{name: fmt.Sprintf("long #%d n=%d", k, lenLong), ops: historyOps(nodes, order, nil, false)}
		if err := runChainCase(c, ci, l, cs, lenLong <= 400); err != nil {
			return err
		}
		c.R.Count("long", 1)
	}
	if c.Replay == "" {
		if err := c01DeepReorgs(c, l); err != nil {
			return err
		}
		if err := c01ImportedThenFork(c); err != nil {
			return err
		}
	}
	c.R.ModelOps = l.Ops
	return nil
}
