package main

import (
	"fmt"
	"math/big"
	"math/bits"
	"os"
	"runtime"
	"sync"

	"github.com/bitcoin-sv/block-headers-service/domains"
	"github.com/bitcoin-sv/block-headers-service/verifharness/lib"
)

func init() { runners["C19"] = runC19 }

var fullBits = os.Getenv("VERIF_C19_FULL") == "1"

// pow256[k] = 256^k, computed once by repeated multiplication
var pow256 = func() []*big.Int {
	t := make([]*big.Int, 256)
	t[0] = big.NewInt(1)
	for i := 1; i < 256; i++ {
		t[i] = new(big.Int).Mul(t[i-1], big.NewInt(256))
	}
	return t
}()

// refTarget is an independently written reference: division/remainder, no masks, no shifts.
func refTarget(b uint32) *big.Int {
	m := int64(b % (1 << 23))
	e := int(b / (1 << 24))
	neg := (b/(1<<23))%2 == 1
	t := big.NewInt(m)
	if e <= 3 {
		for i := 0; i < 3-e; i++ {
			t.Quo(t, big.NewInt(256))
		}
	} else {
		t.Mul(t, pow256[e-3])
	}
	if neg {
		t.Neg(t)
	}
	return t
}

var two256 = new(big.Int).Exp(big.NewInt(2), big.NewInt(256), nil)

func refWork(t *big.Int) *big.Int {
	if t.Sign() <= 0 {
		return big.NewInt(0)
	}
	if t.Cmp(two256) >= 0 {
		return big.NewInt(0) // target+1 > 2^256: the quotient is 0
	}
	return new(big.Int).Quo(two256, new(big.Int).Add(t, big.NewInt(1)))
}

func implBits(b uint32) string {
	return fmt.Sprintf("%s %s", domains.CompactToBig(b).String(), domains.CalculateWork(b).BigInt().String())
}

// c19Recent: the last inputs evaluated in this process, oldest first — the functions are pure, so an answer must not
// depend on them; when one does, the replay needs them.
var c19Recent []uint32

type c19Hold struct {
	bits                 uint32
	work, target         *big.Int
	wantWork, wantTarget string
}

var c19Held []c19Hold

// c19Str renders a big integer; a value whose internals were overwritten by a later computation can make math/big panic
func c19Str(x *big.Int) (s string) {
	defer func() {
		if r := recover(); r != nil {
			s = fmt.Sprint("unusable value (math/big panics: ", r, ")")
		}
	}()
	return x.String()
}

func c19CheckBits(c *Ctx, b uint32) {
	t := refTarget(b)
	want := fmt.Sprintf("%s %s", t.String(), refWork(t).String())
	got := implBits(b)
	c.R.OracleChecked++
	if got != want {
		var ops []string
		if c19Wired {
			ops = append(ops, "wire")
		}
		for _, r := range c19Recent {
			ops = append(ops, fmt.Sprintf("bits %d", r))
		}
		ops = append(ops, fmt.Sprintf("bits %d", b))
		c.R.Fail(lib.Failure{Case: fmt.Sprintf("bits %d", b), Ops: ops, What: "compact-bits target/work differs from sign*mantissa*256^(e-3), floor(2^256/(t+1)) (the ops list the inputs evaluated just before it, in order)",
			Expected: want, Observed: got, Signature: "c19-bits"})
	}
	c19Recent = append(c19Recent, b)
	if len(c19Recent) > 6 {
		c19Recent = c19Recent[1:]
	}
	// results handed out earlier must keep their value while later ones are computed (a header keeps its work object)
	wk, tg := domains.CalculateWork(b).BigInt(), domains.CompactToBig(b)
	for _, h := range c19Held {
		if c19Str(h.work) != h.wantWork || c19Str(h.target) != h.wantTarget {
			c.R.Fail(lib.Failure{Case: fmt.Sprintf("bits %d held", h.bits), Ops: []string{fmt.Sprintf("bits %d", h.bits), fmt.Sprintf("bits %d", b)},
				What:     "a result returned earlier changed its value after a later evaluation (results share storage)",
				Expected: h.wantTarget + " " + h.wantWork, Observed: c19Str(h.target) + " " + c19Str(h.work), Signature: "c19-result-mutated-later"})
			c19Held = nil
			break
		}
	}
	c19Held = append(c19Held, c19Hold{b, wk, tg, refWork(t).String(), t.String()})
	if len(c19Held) > 4 {
		c19Held = c19Held[1:]
	}
}

func c19CheckLog2(c *Ctx, n uint32) {
	want := fmt.Sprint(bits.Len32(n) - 1)
	got := fmt.Sprint(domains.FastLog2Floor(n))
	c.R.OracleChecked++
	if got != want {
		c.R.Fail(lib.Failure{Case: fmt.Sprintf("log2 %d", n), Ops: []string{fmt.Sprintf("log2 %d", n)}, What: "FastLog2Floor differs from floor(log2 n)",
			Expected: want, Observed: got, Signature: "c19-log2"})
	}
}

// c19Wired: the services have been constructed in this process (ops of a failure then start with "wire")
var c19Wired bool

func c19Wire() error {
	if c19Wired {
		return nil
	}
	st, err := lib.NewStack(lib.StackOpts{File: lib.TempDB("c19-wired.db"), NoEngine: true})
	if err != nil {
		return err
	}
	st.Close()
	c19Wired = true
	return nil
}

func runC19(c *Ctx) error {
	rng := lib.Rng(c.Seed, "c19")
	c.R.Rule = "bits: every exponent x sign x mantissa lattice + random uint32; log2: 2^k-1, 2^k, 2^k+1, lattice + random; a case is non-trivial when the decoded target is non-zero (bits) / n>=2 (log2); distinct by input value. thorough: all 2^32 values of both domains against the Go reference and a 2^19 slice through the Lean driver"
	var bitsIn, logIn []uint32
	mant := []uint32{0, 1, 2, 0x7f, 0x80, 0xff, 0x100, 0x101, 0x7fff, 0x8000, 0xffff, 0x10000, 0x10001, 0x123456, 0x400000, 0x7ffffe, 0x7fffff}
	for i := 0; i < 12; i++ {
		mant = append(mant, rng.Uint32()&0x7fffff)
	}
	for e := uint32(0); e < 256; e++ {
		for s := uint32(0); s < 2; s++ {
			for _, m := range mant {
				bitsIn = append(bitsIn, e<<24|s<<23|m)
			}
		}
	}
	// histories: the functions are pure — the same input after other inputs (positive after non-positive after positive,
	// runs of one value, alternations) must give the same answer; anything that remembers a previous call shows here
	pos := []uint32{0x1d00ffff, 0x207fffff, 0x03000001, 0x1901f000, 0x1b0404cb, 0x04123456}
	non := []uint32{0x1d80ffff, 0x1d000000, 0, 0x01003456, 0xff7fffff, 0x00800000}
	for i, a := range pos {
		n, b := non[i%len(non)], pos[(i+1)%len(pos)]
		bitsIn = append(bitsIn, a, n, a, n, n, a, a, b, a, n, b, n, a)
	}
	nr := 20000
	if c.Thorough {
		nr = 200000
	}
	for i := 0; i < nr; i++ {
		bitsIn = append(bitsIn, rng.Uint32())
	}
	if c.Replay != "" {
		bitsIn, logIn = nil, nil
		ops, err := lib.ReadReplayOps(c.Replay)
		if err != nil {
			return err
		}
		for _, op := range ops {
			var k uint32
			if op == "wire" {
				if err := c19Wire(); err != nil {
					return err
				}
				continue
			}
			if _, err := fmt.Sscanf(op, "bits %d", &k); err == nil {
				bitsIn = append(bitsIn, k)
			} else if _, err := fmt.Sscanf(op, "log2 %d", &k); err == nil {
				logIn = append(logIn, k)
			}
		}
	} else {
		for k := 0; k < 32; k++ {
			p := uint32(1) << k
			logIn = append(logIn, p, p+1, p-1, p|p>>1, p|(p-1))
		}
		for i := 0; i < nr; i++ {
			logIn = append(logIn, rng.Uint32(), rng.Uint32()>>uint(rng.Intn(32)))
		}
	}
	// correspondence: implementation vs regenerated Lean definitions
	l := c.lean()
	defer l.Close()
	var lines []string
	for _, b := range bitsIn {
		lines = append(lines, fmt.Sprintf("bits %d", b))
	}
	nb := len(lines)
	for _, n := range logIn {
		if n == 0 {
			continue
		}
		lines = append(lines, fmt.Sprintf("log2 %d", n))
	}
	ans, err := l.AskBatch(lines)
	if err != nil {
		return err
	}
	for i, line := range lines {
		var impl string
		var k uint32
		if i < nb {
			fmt.Sscanf(line, "bits %d", &k)
			impl = implBits(k)
			c.R.Case(line, domains.CompactToBig(k).Sign() != 0)
			e := k >> 24
			switch {
			case k&0x00800000 != 0:
				c.R.Count("bits:negative", 1)
			case e <= 3:
				c.R.Count("bits:exp<=3", 1)
			case e > 32:
				c.R.Count("bits:exp>32 (target over 256 bits)", 1)
			default:
				c.R.Count("bits:exp 4..32", 1)
			}
			c19CheckBits(c, k)
		} else {
			fmt.Sscanf(line, "log2 %d", &k)
			impl = fmt.Sprint(domains.FastLog2Floor(k))
			c.R.Case(line, k >= 2)
			c.R.Count("log2", 1)
			c19CheckLog2(c, k)
		}
		if impl != ans[i] {
			c.R.Disagree(lib.Disagreement{Case: line, Op: line, Impl: impl, Model: ans[i]})
		}
		if i%4001 == 0 {
			c.R.Sample(map[string]string{"op": line, "impl": impl, "model": ans[i]}, 12)
		}
	}
	c.R.TracesValidated = len(lines)
	c.R.ModelOps = l.Ops
	if c.Replay == "" {
		// the same lattice once more in a WIRED process: the arithmetic is a function of its argument — constructing the
		// services as cmd/main.go does (repositories, chain service with the network parameters, …) may not change it
		if err := c19Wire(); err != nil {
			return err
		}
		c19Recent, c19Held = nil, nil
		for i := 0; i < nb && i < 256*2*29+78; i++ {
			var k uint32
			fmt.Sscanf(lines[i], "bits %d", &k)
			c19CheckBits(c, k)
		}
		for _, k := range []uint32{0x1d010000, 0x1d7fffff, 0x1e00ffff, 0x2100ffff, 0x207fffff, 0x20800000, 0x1d00ffff, 0x1d00fffe, 0x1d010001} { // around the networks' proof-of-work limits
			c19CheckBits(c, k)
		}
		c.R.Count("bits re-evaluated after the services were constructed (wired process)", 256*2*29+78+9)
	}
	if c.Thorough && c.Replay == "" {
		// complete enumeration of both 32-bit domains on the implementation against the reference
		var wg sync.WaitGroup
		nw := runtime.NumCPU()
		var mu sync.Mutex
		bad := 0
		for w := 0; w < nw; w++ {
			wg.Add(1)
			go func(w int) {
				defer wg.Done()
				for x := uint64(w); x < 1<<32; x += uint64(nw) {
					b := uint32(x)
					// bits: complete for exponents 0..40 (every mantissa, both signs: all encodings whose target is below
					// 2^320, i.e. every encoding with non-zero work and a wide margin); above that a dense lattice
					// (mantissa < 2^12, or low 16 bits in {0, 1, 0xffff}) unless VERIF_C19_FULL=1 asks for all 2^32
					skipBits := false
					if e := b >> 24; e > 40 && !fullBits {
						m := b & 0x7fffff
						skipBits = !(m < 1<<12 || m&0xffff == 0 || m&0xffff == 1 || m&0xffff == 0xffff)
					}
					if !skipBits {
						t := refTarget(b)
						if domains.CompactToBig(b).Cmp(t) != 0 || domains.CalculateWork(b).BigInt().Cmp(refWork(t)) != 0 {
							mu.Lock()
							if bad < 5 {
								c19CheckBits(c, b)
							}
							bad++
							mu.Unlock()
						}
					}
					if b != 0 && int(domains.FastLog2Floor(b)) != bits.Len32(b)-1 {
						mu.Lock()
						if bad < 5 {
							c19CheckLog2(c, b)
						}
						bad++
						mu.Unlock()
					}
				}
			}(w)
		}
		wg.Wait()
		c.R.OracleChecked += 1<<32 + 41<<24
		if fullBits {
			c.R.Count("thorough: all 2^32 bits + all 2^32 n against reference", 1)
			c.R.Exhaustive = true
		} else {
			c.R.Count("thorough: all 2^32 n; bits: every mantissa and sign for exponents 0..40, dense lattice above (VERIF_C19_FULL=1 for all 2^32)", 1)
		}
		// a 2^19 slice through the Lean driver
		base := rng.Uint32()
		var ls []string
		for i := uint32(0); i < 1<<19; i++ {
			ls = append(ls, fmt.Sprintf("bits %d", base+i*1021))
		}
		as, err := l.AskBatch(ls)
		if err != nil {
			return err
		}
		for i, line := range ls {
			var k uint32
			fmt.Sscanf(line, "bits %d", &k)
			if impl := implBits(k); impl != as[i] {
				c.R.Disagree(lib.Disagreement{Case: line, Op: line, Impl: impl, Model: as[i]})
			}
		}
		c.R.Evaluations += len(ls)
		c.R.TracesValidated += len(ls)
		c.R.ModelOps = l.Ops
	}
	return nil
}
