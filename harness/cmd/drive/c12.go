package main

// C12 — webhook failure counting: runner.
//
// Generates operation sequences (register with bearer / custom header / no
// authorisation, delete, re-register, notify with every outcome kind, get,
// restart, every max_tries 1..5), runs them on the REAL stack
// (lib.NewStack: SQLite file + database.Init + SQL repository + WebhooksService
// + gin engine) with (a) a scripted WebhookTargetClient and (b) the production
// client posting to an httptest server, sends the same lines to the Lean model
// driver and compares the canonical answers, and evaluates the Go oracle
// (c12_oracle.go) on what the implementation showed.

import (
	"encoding/json"
	"fmt"
	"math/rand"
	"os"
	"strings"

	"github.com/bitcoin-sv/block-headers-service/verifharness/lib"
)

func init() { runners["C12"] = runC12 }

var c12Universe = []string{"u1", "u2", "u3", "u4"}

type c12SeqStats struct {
	failedDelivery, okAfterFail, reRegInactive, reRegActive, delThenReg, restartThenNotify bool
	ops                                                                                    int
}

// c12Run carries the per-run shared pieces.
type c12Run struct {
	c       *Ctx
	lean    *lib.Lean
	target  *c12Target
	nfile   int
	perSig  map[string]int
	shrink  bool
	implOps int
	last    c12SeqStats // situations observed in the sequence run last
}

// runSeq runs one sequence (first line: `hook cfg <max> <scripted|prod>`) on the
// implementation, the model (when `compare`) and the oracle. It returns the oracle
// failures (with the op prefix that produced them) and the first disagreement.
func (r *c12Run) runSeq(ops []string, compare bool) (fails []lib.Failure, dis *lib.Disagreement, err error) {
	r.last = c12SeqStats{}
	st := &r.last
	if len(ops) == 0 {
		return nil, nil, nil
	}
	var max int
	var cl string
	if _, e := fmt.Sscanf(ops[0], "hook cfg %d %s", &max, &cl); e != nil || (cl != "scripted" && cl != "prod") {
		return nil, nil, fmt.Errorf("sequence must start with `hook cfg <max> <scripted|prod>`: %q", ops[0])
	}
	r.nfile++
	file := lib.TempDB(fmt.Sprintf("c12-%d.db", r.nfile))
	m, e := c12Open(file, max, cl == "prod", r.target)
	if e != nil {
		return nil, nil, e
	}
	defer func() {
		m.close()
		_ = os.Remove(file)
		_ = os.Remove(file + "-journal")
	}()
	ref := newC12Ref(max, cl == "prod")
	if compare && r.lean != nil {
		if a, e := r.lean.Ask(ops[0]); e != nil {
			return nil, nil, e
		} else if a != "ok" {
			dis = &lib.Disagreement{Case: ops[0], Ops: ops[:1], Op: ops[0], Impl: "ok", Model: a}
		}
	}
	known := map[string]bool{}
	sawFail, wasDeleted := map[string]bool{}, map[string]bool{}
	afterRestart := false
	for i, op := range ops[1:] {
		obs := m.do(op)
		r.implOps++
		st.ops++
		// which situations the sequence really contains (from what the implementation showed)
		if f := strings.Fields(op); len(f) > 1 {
			switch f[1] {
			case "register":
				_, had := ref.hooks[c12Unesc(f[5])]
				switch {
				case had && obs.Report != nil:
					st.reRegInactive = true
					sawFail[f[5]] = false
				case had && obs.Refused == "ErrRefreshWebhook":
					st.reRegActive = true
				case !had && obs.Report != nil && wasDeleted[f[5]]:
					st.delThenReg = true
				}
			case "delete":
				if obs.Line == "ok" {
					wasDeleted[f[2]] = true
					sawFail[f[2]] = false
				}
			case "restart":
				afterRestart = true
			case "notify":
				outs := map[string]c12Out{}
				for _, p := range f[2:] {
					kv := strings.SplitN(p, "=", 2)
					outs[kv[0]], _ = c12ParseOutcome(kv[1])
				}
				for _, k := range obs.Calls {
					if afterRestart {
						st.restartThenNotify = true
					}
					if outs[k.Sym].ok() {
						if sawFail[k.Sym] {
							st.okAfterFail = true
						}
					} else {
						st.failedDelivery = true
						sawFail[k.Sym] = true
					}
				}
			}
		}
		if compare && r.lean != nil {
			a, e := r.lean.Ask(op)
			if e != nil {
				return fails, dis, e
			}
			if os.Getenv("VERIF_C12_TRACE") != "" {
				fmt.Fprintf(os.Stderr, "%s\n   impl : %s\n   model: %s\n", op, obs.Line, a)
			}
			if a != obs.Line && dis == nil {
				dis = &lib.Disagreement{Case: strings.Join(ops[:i+2], " ; "), Ops: append([]string(nil), ops[:i+2]...), Op: op, Impl: obs.Line, Model: a}
			}
		}
		fs := ref.check(op, obs)
		r.c.R.OracleChecked++
		w := strings.Fields(op)
		if len(w) > 1 && (w[1] == "notify" || w[1] == "restart") {
			// the query endpoint must report the reference record of every registered URL — also after a restart
			for sym, h := range ref.hooks {
				g := m.do("hook get " + sym)
				r.c.R.OracleChecked++
				fs = append(fs, ref.checkReport(sym, h, g.Report, "get")...)
			}
		}
		for _, f := range fs {
			key := f.Sig + "|" + f.What
			if known[key] { // one report per kind of deviation per sequence
				continue
			}
			known[key] = true
			fails = append(fails, lib.Failure{Case: fmt.Sprintf("%s max_tries=%d", cl, max), Ops: append([]string(nil), ops[:i+2]...), What: f.What, Expected: f.Expected, Observed: f.Observed, Signature: f.Sig})
		}
	}
	return fails, dis, nil
}

// shrinkTo greedily removes operations while a failure with the signature persists.
func (r *c12Run) shrinkTo(ops []string, sig string) []string {
	has := func(o []string) bool {
		fs, _, err := r.runSeq(o, false)
		if err != nil {
			return false
		}
		for _, f := range fs {
			if f.Signature == sig {
				return true
			}
		}
		return false
	}
	cur := append([]string(nil), ops...)
	budget := 150
	for changed := true; changed && budget > 0; {
		changed = false
		for i := len(cur) - 1; i >= 1 && budget > 0; i-- {
			cand := append(append([]string(nil), cur[:i]...), cur[i+1:]...)
			budget--
			if has(cand) {
				cur, changed = cand, true
			}
		}
	}
	return cur
}

func (r *c12Run) record(fails []lib.Failure, knownSigs map[string]bool) {
	for _, f := range fails {
		r.c.R.Count("oracle:"+f.Signature, 1)
		if r.perSig[f.Signature] >= 4 {
			continue
		}
		r.perSig[f.Signature]++
		if !knownSigs[f.Signature] && r.shrink {
			// shrink, then report the failure as it shows on the shrunk sequence
			small := r.shrinkTo(f.Ops, f.Signature)
			if fs, _, err := r.runSeq(small, false); err == nil {
				for _, g := range fs {
					if g.Signature == f.Signature {
						f = g
						break
					}
				}
			}
		}
		r.c.R.Fail(f)
	}
}

// ---- generator -------------------------------------------------------------

// c12GenBody draws a body token (and, for the production-client stream, a way of
// transmitting it): short texts, 0 B, 1 B, 4 KiB, 64 KiB and (rarely) 1 MiB.
func c12GenBody(rng *rand.Rand, prod bool) string {
	var b string
	switch x := rng.Intn(100); {
	case x < 40:
		b = []string{"OK", "accepted", "fail", "-"}[rng.Intn(4)]
	case x < 50:
		b = "-"
	case x < 60:
		b = "X1"
	case x < 78:
		b = "X4096"
	case x < 97:
		b = "X65536"
	default:
		b = "X1048576"
	}
	if prod {
		b += ":" + []string{"d", "l", "q", "p", "c"}[rng.Intn(5)]
	}
	return b
}

func c12GenOutcome(rng *rand.Rand, prod bool, pFail float64) string {
	b := c12GenBody(rng, prod)
	if rng.Float64() >= pFail {
		return "r200:" + b
	}
	switch rng.Intn(3) {
	case 0:
		codes := []int{500, 404, 201, 400, 503, 202}
		if !prod {
			codes = append(codes, 204, 301, 302, 100, 199, 299, 20)
		}
		return fmt.Sprintf("r%d:%s", codes[rng.Intn(len(codes))], b)
	case 1:
		return "terr"
	default:
		code := []string{"ub200", "ub500"}[rng.Intn(2)] // a 200 whose body cannot be read is a failure, too
		switch rng.Intn(4) {
		case 0:
			return code
		case 1:
			return code + ":0"
		case 2:
			return code + ":4096"
		default:
			return code + ":65536"
		}
	}
}

func c12GenRegister(rng *rand.Rand, prod bool, sym string) string {
	switch rng.Intn(7) {
	case 0, 1:
		ty := []string{"BEARER", "bearer", "Bearer"}[rng.Intn(3)]
		return fmt.Sprintf("hook register %s - tok%d %s", ty, rng.Intn(90)+10, sym)
	case 2, 3:
		names := []string{"X-Api-Key", "X-Hook-Token"}
		if !prod {
			names = append(names, "x-custom", "apikey", "Authorization")
		}
		return fmt.Sprintf("hook register CUSTOM_HEADER %s key%d %s", names[rng.Intn(len(names))], rng.Intn(90)+10, sym)
	case 4, 5:
		ty := []string{"-", "NONE", "none"}[rng.Intn(3)]
		return fmt.Sprintf("hook register %s - - %s", ty, sym)
	default:
		// type given, header name left out
		return fmt.Sprintf("hook register CUSTOM_HEADER - key%d %s", rng.Intn(90)+10, sym)
	}
}

// c12GenSeq draws one sequence. The shadow below only aims the choices (it is not
// the oracle and does not know which deactivation rule the code follows).
func c12GenSeq(rng *rand.Rand, max int, prod bool, n int) []string {
	cl := "scripted"
	if prod {
		cl = "prod"
	}
	ops := []string{fmt.Sprintf("hook cfg %d %s", max, cl)}
	pFail := []float64{0.35, 0.6, 0.85}[rng.Intn(3)]
	reg := map[string]bool{}
	recentFail := map[string]bool{}
	for len(ops) < n+1 {
		x := rng.Intn(100)
		sym := c12Universe[rng.Intn(len(c12Universe))]
		switch {
		case x < 20 || len(reg) == 0:
			reg[sym] = true
			recentFail[sym] = false
			ops = append(ops, c12GenRegister(rng, prod, sym))
		case x < 30:
			// aim a re-registration at a hook that failed recently (inactive under some rule)
			for _, s := range c12Universe {
				if reg[s] && recentFail[s] {
					sym = s
				}
			}
			reg[sym] = true
			recentFail[sym] = false
			ops = append(ops, c12GenRegister(rng, prod, sym))
		case x < 72:
			var ps []string
			for _, s := range c12Universe {
				o := c12GenOutcome(rng, prod, pFail)
				ps = append(ps, s+"="+o)
				if reg[s] {
					recentFail[s] = !strings.HasPrefix(o, "r200:")
				}
			}
			ops = append(ops, "hook notify "+strings.Join(ps, " "))
		case x < 83:
			ops = append(ops, "hook get "+sym)
		case x < 90:
			delete(reg, sym)
			ops = append(ops, "hook delete "+sym)
		case x < 92:
			// malformed stream: requests without url
			ops = append(ops, []string{"hook register BEARER - tok00 -", "hook get -", "hook delete -", "hook register - - - -"}[rng.Intn(4)])
		case x < 97:
			ops = append(ops, "hook restart")
		default:
			ops = append(ops, "hook dump")
		}
	}
	return ops
}

// c12Enumerate lists every sequence of length n over a small alphabet on one URL
// (+ a bystander URL registered first), for bounded-exhaustive coverage.
func c12Enumerate(max int, n int) [][]string {
	alpha := []string{
		"hook register BEARER - tokA u1",
		"hook register none - - u1",
		"hook notify u1=r200:OK u2=r500:fail",
		"hook notify u1=r500:fail u2=r200:OK",
		"hook notify u1=terr u2=ub200",
		"hook delete u1",
		"hook restart",
	}
	var res [][]string
	var rec func(prefix []string)
	rec = func(prefix []string) {
		if len(prefix) == n {
			seq := []string{fmt.Sprintf("hook cfg %d scripted", max), "hook register CUSTOM_HEADER X-Api-Key keyB u2"}
			seq = append(seq, prefix...)
			seq = append(seq, "hook get u1", "hook get u2")
			res = append(res, seq)
			return
		}
		for _, a := range alpha {
			rec(append(append([]string(nil), prefix...), a))
		}
	}
	rec(nil)
	return res
}

// c12Corpus: witnesses of the three defects this check found in the unrepaired code
// (repaired in /repo acffb03, 0c73de3, b2d3d75). They run first on every run as ordinary
// cases: nothing suppresses them, a regression is an unlisted oracle failure (VIOLATION).
// The last three extend them to the full life cycle the repaired code must show.
var c12Corpus = [][]string{
	{"hook cfg 3 scripted", "hook register BEARER - tok1 u1", "hook notify u1=r500:fail"},
	{"hook cfg 3 prod", "hook register NONE - - u1", "hook notify u1=r200:OK"},
	{"hook cfg 3 scripted", "hook register BEARER - tok1 u1", "hook notify u1=r200:OK", "hook get u1"},
	{"hook cfg 3 scripted", "hook register BEARER - tok1 u1", "hook notify u1=r500:fail", "hook notify u1=terr", "hook get u1", "hook restart", "hook notify u1=ub200", "hook get u1", "hook notify u1=r200:OK", "hook register BEARER - tok1 u1", "hook get u1", "hook notify u1=r200:OK", "hook get u1"},
	{"hook cfg 2 prod", "hook register NONE - - u1", "hook register CUSTOM_HEADER - key11 u2", "hook notify u1=r200:OK u2=r503:fail", "hook restart", "hook notify u1=terr u2=r200:OK", "hook notify u1=ub500 u2=r200:-", "hook get u1", "hook get u2"},
	{"hook cfg 2 scripted", "hook register BEARER - tok1 u1", "hook notify u1=r500:fail", "hook notify u1=r404:-", "hook get u1", "hook register CUSTOM_HEADER X-Api-Key other u1", "hook get u1", "hook dump", "hook restart", "hook get u1"},
}

// c12CorpusReplies: production client, max_tries 2, four healthy targets that answer 200 with
// bodies of 0 B / 1 B / 4 KiB / 64 KiB / 1 MiB in every transmission mode, twice in a row
// (a 200 counted as failure twice would deactivate), non-200 replies of the same shapes,
// and bodies cut off mid-way. Every readable 200 is the same outcome: count 0, active.
func c12CorpusReplies() [][]string {
	seq := []string{"hook cfg 2 prod", "hook register BEARER - tok1 u1", "hook register CUSTOM_HEADER X-Api-Key key22 u2",
		"hook register NONE - - u3", "hook register CUSTOM_HEADER X-Hook-Token key44 u4"}
	for round := 0; round < 2; round++ {
		for _, m := range []string{"d", "l", "q", "p", "c"} {
			seq = append(seq, fmt.Sprintf("hook notify u1=r200:-:%s u2=r200:X1:%s u3=r200:X4096:%s u4=r200:X65536:%s", m, m, m, m))
		}
	}
	seq = append(seq, "hook notify u1=r200:X1048576:p u2=r200:X1048576:c u3=r200:X1048576:l u4=r200:X1048576:d",
		"hook notify u1=r200:X1048576:q u2=r200:OK:p u3=r200:OK:c u4=r200:OK:q",
		"hook get u1", "hook get u2", "hook get u3", "hook get u4")
	seq2 := []string{"hook cfg 3 prod", "hook register BEARER - tok1 u1", "hook register NONE - - u2", "hook register CUSTOM_HEADER X-Api-Key key33 u3"}
	for _, m := range []string{"d", "l", "q", "p", "c"} {
		seq2 = append(seq2, fmt.Sprintf("hook notify u1=r500:X65536:%s u2=r200:X65536:%s u3=ub200:4096", m, m),
			fmt.Sprintf("hook notify u1=r200:X4096:%s u2=r404:-:%s u3=r200:X1:%s", m, m, m),
			fmt.Sprintf("hook notify u1=ub500:65536 u2=r200:-:%s u3=r201:X4096:%s", m, m))
	}
	seq2 = append(seq2, "hook get u1", "hook get u2", "hook get u3", "hook restart", "hook get u1", "hook get u2", "hook get u3")
	return [][]string{seq, seq2}
}

// c12FixedWitnesses reads the `fixed` entries of this property from KNOWN_FINDINGS.json.
func c12FixedWitnesses(path string) [][]string {
	b, err := os.ReadFile(path)
	if err != nil {
		return nil
	}
	var f struct {
		Fixed []struct {
			Property string `json:"property"`
			Witness  struct {
				Ops []string `json:"ops"`
			} `json:"witness"`
		} `json:"fixed"`
	}
	if json.Unmarshal(b, &f) != nil {
		return nil
	}
	var res [][]string
	for _, e := range f.Fixed {
		if e.Property == "C12" && len(e.Witness.Ops) > 0 {
			res = append(res, e.Witness.Ops)
		}
	}
	return res
}

// ---- entry point -----------------------------------------------------------

func runC12(c *Ctx) error {
	c.R.Rule = "sequences of 8..26 ops (thorough: ..60) over 4 URLs: register {BEARER|CUSTOM_HEADER|no auth|header name left out} (so re-registration of active and inactive URLs happens), " +
		"notify with a per-URL outcome from {200, other status incl. 2xx/3xx, transport error, body cut off after 0 B / 4 KiB / 64 KiB (status 200 or 500)}, reply bodies of 0 B / 1 B / 4 KiB / 64 KiB / 1 MiB and, for the production client, five ways of transmitting them (at once, Content-Length, Content-Length + flush + 10-30 ms pause, flush + pause + chunked, several flushed chunks), get, delete (also of unknown URLs), requests without url (malformed stream), restart (close + reopen the SQLite file), dump; " +
		"every max_tries 1..5; scripted client stream + production-client stream against an httptest server; plus every sequence of length <=3 (thorough <=4) over a 7-letter alphabet on one URL for max_tries 1..3. " +
		"The witnesses of the three repaired defects (corpus) run first. A sequence is non-trivial when it has a failed delivery and at least one of: success after failure, re-registration of an inactive URL, delete-then-register, notify after restart; distinct by op list."
	r := &c12Run{c: c, perSig: map[string]int{}, shrink: true}
	if c.Driver != "none" {
		r.lean = c.lean()
		defer r.lean.Close()
	} else {
		c.R.Notes = append(c.R.Notes, "model driver unavailable: oracle only")
	}
	r.target = c12NewTarget()
	defer r.target.srv.Close()

	knownSigs := map[string]bool{}
	known := lib.KnownFor(c.Known, "C12")
	for _, k := range known {
		knownSigs[k.Signature] = true
	}

	if c.Replay != "" {
		ops, err := lib.ReadReplayOps(c.Replay)
		if err != nil {
			return err
		}
		fails, dis, err := r.runSeq(ops, true)
		if err != nil {
			return err
		}
		c.R.Case(strings.Join(ops, ";"), true)
		r.shrink = false
		r.record(fails, knownSigs)
		if dis != nil {
			c.R.Disagree(*dis)
		}
		c.R.TracesValidated = r.implOps
		if r.lean != nil {
			c.R.ModelOps = r.lean.Ops
		}
		return nil
	}

	// known findings: replay each witness on the implementation
	for _, k := range known {
		fails, _, err := r.runSeq(k.Witness.Ops, false)
		st := "not-reproduced"
		if err == nil {
			for _, f := range fails {
				if f.Signature == k.Signature {
					st = "reproduced"
				}
			}
		}
		c.R.KnownReplayed[k.ID] = st
	}
	r.implOps = 0

	runOne := func(ops []string, kind string) error {
		fails, dis, err := r.runSeq(ops, true)
		if err != nil {
			return err
		}
		st := r.last
		if st.reRegInactive {
			c.R.Count("situation:re-register-inactive", 1)
		}
		if st.reRegActive {
			c.R.Count("situation:re-register-active", 1)
		}
		if st.delThenReg {
			c.R.Count("situation:delete-then-register", 1)
		}
		if st.restartThenNotify {
			c.R.Count("situation:delivery-after-restart", 1)
		}
		if st.okAfterFail {
			c.R.Count("situation:success-after-failure-while-active", 1)
		}
		nontrivial := st.failedDelivery && (st.okAfterFail || st.reRegInactive || st.delThenReg || st.restartThenNotify)
		c.R.Case(strings.Join(ops, ";"), nontrivial)
		c.R.Count("sequences:"+kind, 1)
		r.record(fails, knownSigs)
		if dis != nil {
			c.R.Disagree(*dis)
		}
		return nil
	}

	// corpus first: built-in witnesses + the witnesses of `fixed` entries
	seenCorpus := map[string]bool{}
	for _, seq := range append(append(append([][]string(nil), c12Corpus...), c12CorpusReplies()...), c12FixedWitnesses(c.Known)...) {
		key := strings.Join(seq, ";")
		if seenCorpus[key] {
			continue
		}
		seenCorpus[key] = true
		if err := runOne(seq, "corpus"); err != nil {
			return err
		}
	}

	// bounded-exhaustive stream
	depth := 3
	if c.Thorough {
		depth = 4
	}
	for max := 1; max <= 3; max++ {
		for _, seq := range c12Enumerate(max, depth) {
			if err := runOne(seq, "enumerated"); err != nil {
				return err
			}
		}
	}

	// random streams
	rng := lib.Rng(c.Seed, "c12")
	nScripted, nProd, maxLen := 30, 7, 26
	if c.Thorough {
		nScripted, nProd, maxLen = 400, 60, 60
	}
	for max := 1; max <= 5; max++ {
		for i := 0; i < nScripted+nProd; i++ {
			prod := i >= nScripted
			n := 8 + rng.Intn(maxLen-8+1)
			if prod && n > 30 {
				n = 30
			}
			ops := c12GenSeq(rng, max, prod, n)
			kind := "scripted"
			if prod {
				kind = "production-client"
			}
			if err := runOne(ops, kind); err != nil {
				return err
			}
			for _, op := range ops[1:] {
				w := strings.Fields(op)
				c.R.Count("op:"+w[1], 1)
				if w[1] == "notify" {
					for _, p := range w[2:] {
						o, _ := c12ParseOutcome(strings.SplitN(p, "=", 2)[1])
						if o.Kind == "reply" {
							c.R.Count(fmt.Sprintf("reply-body:%dB", len(o.Body)), 1)
							if prod {
								c.R.Count("reply-transmission:"+o.Mode, 1)
							}
						}
						switch {
						case o.ok():
							c.R.Count("outcome:200", 1)
						case o.Kind == "reply":
							c.R.Count("outcome:other-status", 1)
						case o.Kind == "terr":
							c.R.Count("outcome:transport-error", 1)
						default:
							c.R.Count("outcome:unreadable-body", 1)
						}
					}
				}
			}
			c.R.Count(fmt.Sprintf("max_tries=%d", max), 1)
			if i%9 == 0 {
				c.R.Sample(map[string]any{"ops": ops}, 10)
			}
		}
	}
	c.R.TracesValidated = r.implOps
	if r.lean != nil {
		c.R.ModelOps = r.lean.Ops
	}
	return nil
}
