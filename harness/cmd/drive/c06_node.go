package main

// C06/C07 — the scripted Bitcoin node: a protocol-conformant getheaders server over one block tree
// (its best chain is path[:pos]) speaking /repo/internal/wire over loopback TCP, plus scripted
// misbehaviour (stall, close at message index, announce by inv / headers, push arbitrary headers).
// The node records everything it receives.

import (
	"errors"
	"fmt"
	"math/rand"
	"net"
	"sync"
	"sync/atomic"
	"time"

	"github.com/bitcoin-sv/block-headers-service/internal/chaincfg/chainhash"
	"github.com/bitcoin-sv/block-headers-service/internal/wire"
)

const nodePver = uint32(70013)

// rigTimeout bounds every single wait of the rig (handshake, pong, disconnect notification). It is
// a failsafe only: all waits are event-driven and normally take well under a millisecond.
var rigTimeout = 60 * time.Second

type ghReq struct {
	Loc  [][32]byte
	Stop [32]byte
}

// nodeEv is one entry of the node's history (received and sent messages in order).
type nodeEv struct {
	Sent  bool
	Kind  string // getheaders | sendheaders | headers | inv | <other command>
	Idx   []int  // sent headers / inv: tree indices
	GH    *ghReq // received getheaders
	Multi bool   // sent inv: carried already announced blocks and non-block entries besides the new blocks
	Seq   int64  // global order of recording (all nodes)
}

type scriptNode struct {
	id   int
	tree *blockTree
	spec scnNode

	mu       sync.Mutex
	pos      int
	recvGH   []ghReq  // every getheaders received, in order
	recvLog  []string // every message received (command names; getheaders rendered)
	pending  []ghReq  // serial mode: not yet answered
	nServed  int      // number of getheaders taken up for an answer so far (message index)
	stalled  bool
	gotSendH bool
	sentLog  []string
	hist     []nodeEv
	peerBest int // height on the node's own chain up to which it believes the peer has its headers (BIP 130 bookkeeping)

	auto     bool // free mode: answer in the reader goroutine
	delayRng *rand.Rand

	wmu        sync.Mutex
	conn       net.Conn
	ln         net.Listener
	ready      chan error // handshake result
	pongs      chan uint64
	closedCh   chan struct{} // reader ended (remote closed or we closed)
	selfClosed int32         // we closed the connection ourselves
	nonce      uint64
	traffic    int64 // counter of received non-ping/pong messages (for quiescence detection)
}

func newScriptNode(id int, t *blockTree, spec scnNode, auto bool, seed int64) *scriptNode {
	return &scriptNode{id: id, tree: t, spec: spec, pos: spec.Pos, auto: auto, delayRng: rand.New(rand.NewSource(seed + int64(id)*7919)),
		ready: make(chan error, 1), pongs: make(chan uint64, 64), closedCh: make(chan struct{})}
}

// height of the node's best chain
func (n *scriptNode) tipHeight() int {
	n.mu.Lock()
	defer n.mu.Unlock()
	return n.pos
}

func (n *scriptNode) tipIdx() int {
	n.mu.Lock()
	defer n.mu.Unlock()
	if n.pos == 0 {
		return -1
	}
	return n.spec.Path[n.pos-1]
}

func (n *scriptNode) write(msg wire.Message) error {
	n.wmu.Lock()
	defer n.wmu.Unlock()
	if n.conn == nil {
		return errors.New("not connected")
	}
	_ = n.conn.SetWriteDeadline(time.Now().Add(rigTimeout))
	return wire.WriteMessage(n.conn, msg, nodePver, wire.MainNet)
}

func (n *scriptNode) versionMsg() *wire.MsgVersion {
	me := wire.NewNetAddressIPPort(net.IPv4(127, 0, 0, 1), 8333, wire.SFNodeNetwork)
	you := wire.NewNetAddressIPPort(net.IPv4(127, 0, 0, 1), 8333, 0)
	n.nonce = uint64(time.Now().UnixNano())<<8 | uint64(n.id)
	v := wire.NewMsgVersion(me, you, n.nonce, int32(n.tipHeight()))
	v.Services = wire.SFNodeNetwork
	v.ProtocolVersion = int32(nodePver)
	_ = v.AddUserAgent("scriptnode", "1.0")
	return v
}

// handshake as the answering side: the service sends its version first (legacy outbound peer and
// the experimental peer in both directions).
func (n *scriptNode) handshakeAnswer() error {
	_ = n.conn.SetDeadline(time.Now().Add(rigTimeout))
	defer n.conn.SetDeadline(time.Time{})
	m, _, err := wire.ReadMessage(n.conn, nodePver, wire.MainNet)
	if err != nil {
		return fmt.Errorf("read version: %w", err)
	}
	if _, ok := m.(*wire.MsgVersion); !ok {
		return fmt.Errorf("expected version, got %s", m.Command())
	}
	if err := n.write(n.versionMsg()); err != nil {
		return err
	}
	if err := n.write(wire.NewMsgVerAck()); err != nil {
		return err
	}
	_ = n.conn.SetDeadline(time.Now().Add(rigTimeout))
	m, _, err = wire.ReadMessage(n.conn, nodePver, wire.MainNet)
	if err != nil {
		return fmt.Errorf("read verack: %w", err)
	}
	if _, ok := m.(*wire.MsgVerAck); !ok {
		return fmt.Errorf("expected verack, got %s", m.Command())
	}
	return nil
}

// handshake as the dialling side (legacy inbound peer): we send version, the service answers
// verack + version, we send verack.
func (n *scriptNode) handshakeDial() error {
	_ = n.conn.SetDeadline(time.Now().Add(rigTimeout))
	defer n.conn.SetDeadline(time.Time{})
	if err := n.write(n.versionMsg()); err != nil {
		return err
	}
	gotVer, gotAck := false, false
	for !(gotVer && gotAck) {
		_ = n.conn.SetDeadline(time.Now().Add(rigTimeout))
		m, _, err := wire.ReadMessage(n.conn, nodePver, wire.MainNet)
		if err != nil {
			return fmt.Errorf("read version/verack: %w", err)
		}
		switch m.(type) {
		case *wire.MsgVersion:
			gotVer = true
		case *wire.MsgVerAck:
			gotAck = true
		default:
			return fmt.Errorf("unexpected %s during handshake", m.Command())
		}
	}
	return n.write(wire.NewMsgVerAck())
}

// listen opens the node's listener (service dials out) and serves exactly one connection.
func (n *scriptNode) listen() (string, error) {
	ln, err := net.Listen("tcp4", "127.0.0.1:0")
	if err != nil {
		return "", err
	}
	n.ln = ln
	go func() {
		c, err := ln.Accept()
		_ = ln.Close()
		if err != nil {
			n.ready <- err
			close(n.closedCh)
			return
		}
		n.start(c, true)
	}()
	return ln.Addr().String(), nil
}

// dial connects the node to the service's listener (service-inbound peer).
func (n *scriptNode) dial(addr string, answering bool) {
	go func() {
		c, err := net.DialTimeout("tcp4", addr, rigTimeout)
		if err != nil {
			n.ready <- err
			close(n.closedCh)
			return
		}
		n.start(c, answering)
	}()
}

func (n *scriptNode) start(c net.Conn, answering bool) {
	if tc, ok := c.(*net.TCPConn); ok {
		_ = tc.SetNoDelay(true)
	}
	n.wmu.Lock()
	n.conn = c
	n.wmu.Unlock()
	var err error
	if answering {
		err = n.handshakeAnswer()
	} else {
		err = n.handshakeDial()
	}
	n.ready <- err
	if err != nil {
		_ = c.Close()
		close(n.closedCh)
		return
	}
	n.readLoop()
}

func hashArr(h chainhash.Hash) [32]byte { return [32]byte(h) }

func (n *scriptNode) readLoop() {
	defer close(n.closedCh)
	for {
		m, _, err := wire.ReadMessage(n.conn, nodePver, wire.MainNet)
		if err != nil {
			return
		}
		switch msg := m.(type) {
		case *wire.MsgPing:
			_ = n.write(wire.NewMsgPong(msg.Nonce))
		case *wire.MsgPong:
			select {
			case n.pongs <- msg.Nonce:
			default:
			}
		case *wire.MsgGetHeaders:
			req := ghReq{Stop: hashArr(msg.HashStop)}
			for _, h := range msg.BlockLocatorHashes {
				req.Loc = append(req.Loc, hashArr(*h))
			}
			n.mu.Lock()
			n.recvGH = append(n.recvGH, req)
			n.recvLog = append(n.recvLog, "getheaders")
			n.hist = append(n.hist, nodeEv{Seq: atomic.AddInt64(&evSeq, 1), Kind: "getheaders", GH: &req})
			atomic.AddInt64(&n.traffic, 1)
			if n.auto {
				d := time.Duration(n.delayRng.Intn(2000)) * time.Microsecond
				if n.delayRng.Intn(4) == 0 {
					d = 0
				}
				n.mu.Unlock()
				if d > 0 {
					time.Sleep(d)
				}
				n.answer(req)
			} else {
				n.pending = append(n.pending, req)
				n.mu.Unlock()
			}
		case *wire.MsgSendHeaders:
			n.mu.Lock()
			n.gotSendH = true
			n.recvLog = append(n.recvLog, "sendheaders")
			n.hist = append(n.hist, nodeEv{Seq: atomic.AddInt64(&evSeq, 1), Kind: "sendheaders"})
			atomic.AddInt64(&n.traffic, 1)
			n.mu.Unlock()
		default:
			n.mu.Lock()
			n.recvLog = append(n.recvLog, m.Command())
			n.hist = append(n.hist, nodeEv{Seq: atomic.AddInt64(&evSeq, 1), Kind: m.Command()})
			atomic.AddInt64(&n.traffic, 1)
			n.mu.Unlock()
		}
	}
}

// conformantReply is the protocol's answer: the headers of the best chain after the first locator
// hash the node knows on its best chain (genesis when none), at most cap, up to the stop hash.
func (n *scriptNode) conformantReply(req ghReq) []int {
	n.mu.Lock()
	chain := n.spec.Path[:n.pos]
	n.mu.Unlock()
	start := 0
	for _, l := range req.Loc {
		if l == n.tree.genHash {
			start = 0
			break
		}
		if idx, ok := n.tree.byHash[l]; ok {
			h := n.tree.height[idx]
			if h <= len(chain) && chain[h-1] == idx {
				start = h
				break
			}
		}
	}
	n.mu.Lock()
	if start > n.peerBest {
		n.peerBest = start
	}
	n.mu.Unlock()
	var out []int
	for k := start; k < len(chain) && len(out) < n.spec.Cap; k++ {
		out = append(out, chain[k])
		if n.tree.hash[chain[k]] == req.Stop && !n.spec.NoStop {
			break
		}
	}
	return out
}

func (n *scriptNode) sendHeaders(idxs []int) error {
	m := wire.NewMsgHeaders()
	for _, i := range idxs {
		h := n.tree.hdrs[i]
		bh := &wire.BlockHeader{Version: h.Version, PrevBlock: chainhash.Hash(h.Prev), MerkleRoot: chainhash.Hash(h.Merkle),
			Timestamp: time.Unix(int64(h.Time), 0), Bits: h.Bits, Nonce: h.Nonce}
		if err := m.AddBlockHeader(bh); err != nil {
			return err
		}
	}
	n.mu.Lock()
	if len(idxs) > 0 {
		// the node assumes the peer accepts what it is sent, if it connects to what the peer has
		first, last := n.tree.height[idxs[0]], n.tree.height[idxs[len(idxs)-1]]
		if first <= n.peerBest+1 && last > n.peerBest && last <= len(n.spec.Path) && n.spec.Path[last-1] == idxs[len(idxs)-1] {
			n.peerBest = last
		}
	}
	n.sentLog = append(n.sentLog, "headers "+compactInts(idxs))
	n.hist = append(n.hist, nodeEv{Seq: atomic.AddInt64(&evSeq, 1), Sent: true, Kind: "headers", Idx: append([]int{}, idxs...)})
	n.mu.Unlock()
	return n.write(m)
}

func (n *scriptNode) sendInv(idxs []int) error {
	m := wire.NewMsgInv()
	for _, i := range idxs {
		h := chainhash.Hash(n.tree.hash[i])
		_ = m.AddInvVect(wire.NewInvVect(wire.InvTypeBlock, &h))
	}
	n.mu.Lock()
	n.sentLog = append(n.sentLog, "inv "+compactInts(idxs))
	n.hist = append(n.hist, nodeEv{Seq: atomic.AddInt64(&evSeq, 1), Sent: true, Kind: "inv", Idx: append([]int{}, idxs...)})
	n.mu.Unlock()
	return n.write(m)
}

// invEntry is one inventory vector of an inv message: a block, or a non-block (tx) entry carrying some hash.
type invEntry struct {
	Tx  bool
	Idx int
}

// sendInvEntries sends one inv with block and non-block entries in the given order; the history records the block
// entries (in order).
func (n *scriptNode) sendInvEntries(es []invEntry) error {
	m := wire.NewMsgInv()
	var blocks []int
	for _, e := range es {
		h := chainhash.Hash(n.tree.hash[e.Idx])
		typ := wire.InvTypeBlock
		if e.Tx {
			typ = wire.InvTypeTx
		} else {
			blocks = append(blocks, e.Idx)
		}
		_ = m.AddInvVect(wire.NewInvVect(typ, &h))
	}
	n.mu.Lock()
	n.sentLog = append(n.sentLog, "invx "+compactInts(blocks))
	n.hist = append(n.hist, nodeEv{Seq: atomic.AddInt64(&evSeq, 1), Sent: true, Kind: "inv", Idx: blocks, Multi: true})
	n.mu.Unlock()
	return n.write(m)
}

// answer applies the node's script to the request with the next message index.
// Result: "headers" (idxs sent), "close", "stall".
func (n *scriptNode) answer(req ghReq) (string, []int) {
	n.mu.Lock()
	k := n.nServed
	n.nServed++
	if n.spec.StallAt >= 0 && k >= n.spec.StallAt {
		n.stalled = true
	}
	stalled := n.stalled
	n.mu.Unlock()
	if n.spec.CloseAt >= 0 && k == n.spec.CloseAt {
		n.close()
		return "close", nil
	}
	if stalled {
		return "stall", nil
	}
	idxs := n.conformantReply(req)
	_ = n.sendHeaders(idxs)
	return "headers", idxs
}

// peerHas: the node believes the peer has the header at this height of the node's chain (height 0 = genesis).
func (n *scriptNode) peerHas(height int) bool {
	n.mu.Lock()
	defer n.mu.Unlock()
	return height <= n.peerBest
}

// takePending removes the oldest unanswered request (serial mode).
func (n *scriptNode) takePending() (ghReq, bool) {
	n.mu.Lock()
	defer n.mu.Unlock()
	if len(n.pending) == 0 {
		return ghReq{}, false
	}
	r := n.pending[0]
	n.pending = n.pending[1:]
	return r, true
}

func (n *scriptNode) hasPending() bool {
	n.mu.Lock()
	defer n.mu.Unlock()
	return len(n.pending) > 0 && !n.stalled
}

func (n *scriptNode) close() {
	if atomic.CompareAndSwapInt32(&n.selfClosed, 0, 1) {
		n.wmu.Lock()
		c := n.conn
		n.wmu.Unlock()
		if c != nil {
			_ = c.Close()
		}
	}
}

func (n *scriptNode) isClosed() bool {
	select {
	case <-n.closedCh:
		return true
	default:
		return false
	}
}

// closedByRemote: the connection ended and it was not the node that closed it.
func (n *scriptNode) closedByRemote() bool {
	return n.isClosed() && atomic.LoadInt32(&n.selfClosed) == 0
}

var pingSeq uint64

// evSeq numbers history entries across all nodes (an approximation of the order in which the service saw them; exact in
// serial runs, where the harness sends one message at a time)
var evSeq int64

// pingWait sends a ping and waits for its pong: when it returns true the remote reader has
// handled everything this node sent before, and everything the remote queued for this node
// before the pong has been received. Returns false when the connection is gone.
func (n *scriptNode) pingWait() (bool, error) {
	if n.isClosed() {
		return false, nil
	}
	nonce := atomic.AddUint64(&pingSeq, 1) + 1<<40
	if err := n.write(wire.NewMsgPing(nonce)); err != nil {
		return false, nil
	}
	t := time.NewTimer(rigTimeout)
	defer t.Stop()
	for {
		select {
		case got := <-n.pongs:
			if got == nonce {
				return true, nil
			}
		case <-n.closedCh:
			return false, nil
		case <-t.C:
			return false, fmt.Errorf("node %d: no pong within %v", n.id, rigTimeout)
		}
	}
}

func (n *scriptNode) history() []nodeEv {
	n.mu.Lock()
	defer n.mu.Unlock()
	return append([]nodeEv{}, n.hist...)
}

// snapshot of what the node received
func (n *scriptNode) received() (gh []ghReq, log []string) {
	n.mu.Lock()
	defer n.mu.Unlock()
	return append([]ghReq{}, n.recvGH...), append([]string{}, n.recvLog...)
}
