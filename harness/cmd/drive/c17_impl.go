package main

// C17, implementation side: an interpreter of the ImpExp operation lines over the REAL code
// (database.ExportHeaders, database.Init with prepared_db=true on temporary SQLite files) and the
// Go oracle, an independent statement of the property:
//   - the exported CSV is the projection of the source table's LONGEST_CHAIN rows, ascending by height;
//   - an acceptable file (judged here from the text alone: own field syntax, crypto/sha256, reference work
//     arithmetic) is imported as exactly the rows it describes; importing an export gives the source's longest
//     chain row for row; any other file makes start-up fail;
//   - a later start on the database a refused import worked on does not come up serving rows;
//   - a database that already holds headers is never changed by a start with prepared_db.

import (
	"bytes"
	"compress/gzip"
	"crypto/sha256"
	dbsql "database/sql"
	"encoding/hex"
	"fmt"
	"math/big"
	"os"
	"path/filepath"
	"regexp"
	"sort"
	"strconv"
	"strings"

	"github.com/bitcoin-sv/block-headers-service/database"
	"github.com/bitcoin-sv/block-headers-service/internal/chaincfg"
	"github.com/bitcoin-sv/block-headers-service/internal/chaincfg/chainhash"
	"github.com/bitcoin-sv/block-headers-service/verifharness/lib"
)

const c17Batch = 500 // sqliteBatchSize (unexported constant of /repo/database/sqlite_adapter.go)

const c17HeaderLine = "version,merkleroot,nonce,bits,timestamp"

// c17Sess is one session: a source store, a target database, and what the oracle remembers.
type c17Sess struct {
	c    *Ctx
	l    *lib.Lean
	name string
	ops  []string

	src     *ChainImpl
	dbFile  string // target database ("" = none yet)
	seq     int
	csvMode string

	lastExport    []string // records of the last export (cells joined by ',')
	expectLc      []DbRow  // the source's longest chain at that export
	leftByRefused bool     // the target's rows were left behind by a refused start
	lastRefusedBy string   // its refusal class
	modelLost     bool     // the model declared an input outside its domain: its table is no longer comparable
}

var c17NExports int

func newC17Sess(c *Ctx, l *lib.Lean, name string) *c17Sess {
	return &c17Sess{c: c, l: l, name: name, csvMode: "plain"}
}

func (s *c17Sess) close() {
	if s.src != nil {
		s.src.Close()
		_ = os.Remove(s.src.file)
		s.src = nil
	}
	if s.dbFile != "" {
		_ = os.Remove(s.dbFile)
	}
}

func (s *c17Sess) fail(what, exp, obs, sig string, extra map[string]any) {
	s.c.R.Fail(lib.Failure{Case: s.name, Ops: append([]string{}, s.ops...), What: what, Expected: exp, Observed: obs, Signature: sig, Extra: extra})
}

// c17Rel: getHeadersFile joins the working directory and the configured path, so the path handed to the code has
// to be relative to the working directory (an absolute prepared_db_file_path is never found).
func c17Rel(p string) string {
	wd, err := os.Getwd()
	if err != nil {
		return p
	}
	r, err := filepath.Rel(wd, p)
	if err != nil {
		return p
	}
	return r
}

// c17DumpFile reads table headers of a SQLite file directly (no Init, no migrations).
func c17DumpFile(file string) ([]DbRow, error) {
	if _, err := os.Stat(file); err != nil {
		return nil, nil
	}
	db, err := dbsql.Open("sqlite3", "file:"+file+"?mode=ro")
	if err != nil {
		return nil, err
	}
	defer db.Close()
	var n int
	if err := db.QueryRow("SELECT count(*) FROM sqlite_master WHERE type='table' AND name='headers'").Scan(&n); err != nil {
		return nil, err
	}
	if n == 0 {
		return nil, nil
	}
	rows, err := db.Query(dumpSQL + " ORDER BY rowid")
	if err != nil {
		return nil, err
	}
	defer rows.Close()
	var res []DbRow
	for rows.Next() {
		var r DbRow
		var tm, bits dbsql.NullString
		if err := rows.Scan(&r.ID, &r.Hash, &r.Prev, &r.Merkle, &r.Height, &r.Version, &tm, &bits, &r.Nonce, &r.Work, &r.Cum, &r.State); err != nil {
			return nil, err
		}
		r.Time, r.Bits = tm.String, bits.String
		if !tm.Valid {
			r.Time = "NULL"
		}
		res = append(res, r)
	}
	return res, rows.Err()
}

func c17Digest(rows []DbRow) string {
	h := sha256.Sum256([]byte(dumpStr(rows)))
	return hex.EncodeToString(h[:])
}

// lcOf: the LONGEST_CHAIN rows ascending by height (stable), as the export statement selects them.
func lcOf(rows []DbRow) []DbRow {
	var lc []DbRow
	for _, r := range rows {
		if r.State == "LONGEST_CHAIN" {
			lc = append(lc, r)
		}
	}
	sort.SliceStable(lc, func(i, j int) bool { return lc[i].Height < lc[j].Height })
	return lc
}

func csvOfRow(r DbRow) string {
	return fmt.Sprintf("%d,%s,%d,%s,%s", r.Version, r.Merkle, r.Nonce, r.Bits, r.Time)
}

// ---------------------------------------------------------------------------------------------
// the real export / start

func c17Export(srcFile, out string) (err error) {
	defer func() {
		if r := recover(); r != nil {
			err = fmt.Errorf("panic: %v", r)
		}
	}()
	cfg := lib.BaseConfig()
	cfg.Db.SQLite.FilePath = srcFile
	cfg.Db.PreparedDbFilePath = c17Rel(out)
	log := lib.DiscardLog()
	return database.ExportHeaders(cfg, &log)
}

func gunzipFile(p string) ([]byte, error) {
	b, err := os.ReadFile(p)
	if err != nil {
		return nil, err
	}
	zr, err := gzip.NewReader(bytes.NewReader(b))
	if err != nil {
		return nil, err
	}
	var buf bytes.Buffer
	if _, err := buf.ReadFrom(zr); err != nil {
		return nil, err
	}
	return buf.Bytes(), nil
}

func gzipBytes(b []byte) []byte {
	var buf bytes.Buffer
	zw := gzip.NewWriter(&buf)
	_, _ = zw.Write(b)
	_ = zw.Close()
	return buf.Bytes()
}

// c17Start runs database.Init (through lib.NewStack) with prepared_db=true; returns the refusal class ("" = started).
func c17Start(dbFile, prepared string, cps []chaincfg.Checkpoint) (class string, msg string) {
	defer func() {
		if r := recover(); r != nil {
			class, msg = "panic", fmt.Sprint(r)
		}
	}()
	st, err := lib.NewStack(lib.StackOpts{File: dbFile, PreparedDb: c17Rel(prepared), Checkpoints: cps, NoEngine: true})
	if err != nil {
		return c17Classify(err.Error()), err.Error()
	}
	st.Close()
	return "", ""
}

var (
	reHeightErr = regexp.MustCompile(`block on height (\d+): (.*)$`)
	reCsvLine   = regexp.MustCompile(`record on line (\d+)`)
)

// c17Classify maps the start-up error to the small enum the model answers with.
func c17Classify(e string) string {
	switch {
	case strings.Contains(e, "does not exist or is not readable"), strings.Contains(e, "gzip"), strings.Contains(e, "flate"), strings.Contains(e, "unexpected EOF"),
		strings.Contains(e, "invalid header"), strings.Contains(e, "no such file"):
		return "refused:unreadable"
	case strings.Contains(e, "wrong number of fields"):
		if m := reCsvLine.FindStringSubmatch(e); m != nil {
			n, _ := strconv.Atoi(m[1])
			return fmt.Sprintf("refused:row:%d:fieldcount", n-2)
		}
		return "refused:row:?:fieldcount"
	case strings.Contains(e, "error reading record"):
		return "refused:csv-syntax"
	case reHeightErr.MatchString(e):
		m := reHeightErr.FindStringSubmatch(e)
		what := "other"
		switch {
		case strings.Contains(m[2], "invalid record length"):
			what = "recordlength"
		case strings.Contains(m[2], "cannot parse version"):
			what = "version"
		case strings.Contains(m[2], "cannot parse merkleroot"):
			what = "merkleroot"
		case strings.Contains(m[2], "cannot parse nonce"):
			what = "nonce"
		case strings.Contains(m[2], "cannot parse bits"):
			what = "bits"
		case strings.Contains(m[2], "cannot parse timestamp"):
			what = "timestamp"
		case strings.Contains(m[2], "cannot parse previous block hash"):
			what = "prevhash"
		}
		return "refused:row:" + m[1] + ":" + what
	case strings.Contains(e, "number of headers in database"):
		return "refused:count"
	case strings.Contains(e, "current maximum header height"):
		return "refused:maxheight"
	case strings.Contains(e, "height values are"):
		return "refused:heights"
	case strings.Contains(e, "is not present in the database"):
		return "refused:cp-absent"
	case strings.Contains(e, "has different hash"):
		return "refused:cp-mismatch"
	case strings.HasSuffix(strings.TrimSpace(e), "EOF"):
		return "refused:noheader"
	}
	return "refused:other:" + e
}

// ---------------------------------------------------------------------------------------------
// the judge: what a file says, from its text alone

var (
	reSigned   = regexp.MustCompile(`^[+-]?[0-9]+$`)
	reUnsigned = regexp.MustCompile(`^[0-9]+$`)
	reHex      = regexp.MustCompile(`^[0-9a-fA-F]{0,64}$`)
)

func inRange(s string, lo, hi *big.Int) (*big.Int, bool) {
	v, ok := new(big.Int).SetString(strings.TrimPrefix(s, "+"), 10)
	if !ok || v.Cmp(lo) < 0 || v.Cmp(hi) > 0 {
		return nil, false
	}
	return v, true
}

var (
	bigMinI32 = big.NewInt(-1 << 31)
	bigMaxI32 = big.NewInt(1<<31 - 1)
	bigMaxU32 = big.NewInt(1<<32 - 1)
	bigMinI64 = new(big.Int).Neg(new(big.Int).Lsh(big.NewInt(1), 63))
	bigMaxI64 = new(big.Int).Sub(new(big.Int).Lsh(big.NewInt(1), 63), big.NewInt(1))
)

type c17Verdict struct {
	acceptable bool    // the file describes a chain and the newest checkpoint is on it
	why        string  // when not acceptable
	outside    bool    // a timestamp outside 0..2^32-1: the expected table is not computed
	table      []DbRow // the rows the file describes (when acceptable and !outside)
}

// c17Judge decides from the records alone. recs[0] is the column-name line (its content is not checked by the
// property: only rows are). cpHeight < 0 = no checkpoint configured.
func c17Judge(recs []string, cpHeight int64, cpHash string) c17Verdict {
	if len(recs) == 0 {
		return c17Verdict{why: "empty file"}
	}
	nh := len(strings.Split(recs[0], ","))
	prev := [32]byte{}
	cum := new(big.Int)
	var table []DbRow
	outside := false
	for i, rec := range recs[1:] {
		f := strings.Split(rec, ",")
		if len(f) != nh || len(f) != 5 {
			return c17Verdict{why: fmt.Sprintf("row %d has %d fields", i, len(f))}
		}
		ver, ok := inRange(f[0], bigMinI32, bigMaxI32)
		if !ok || !reSigned.MatchString(f[0]) {
			return c17Verdict{why: fmt.Sprintf("row %d: version %q is not an int32", i, f[0])}
		}
		if !reHex.MatchString(f[1]) {
			return c17Verdict{why: fmt.Sprintf("row %d: merkle root %q is not a hash", i, f[1])}
		}
		nonce, ok := inRange(f[2], big.NewInt(0), bigMaxU32)
		if !ok || !reUnsigned.MatchString(f[2]) {
			return c17Verdict{why: fmt.Sprintf("row %d: nonce %q is not a uint32", i, f[2])}
		}
		bits, ok := inRange(f[3], big.NewInt(0), bigMaxU32)
		if !ok || !reUnsigned.MatchString(f[3]) {
			return c17Verdict{why: fmt.Sprintf("row %d: bits %q is not a uint32", i, f[3])}
		}
		ts, ok := inRange(f[4], bigMinI64, bigMaxI64)
		if !ok || !reSigned.MatchString(f[4]) {
			return c17Verdict{why: fmt.Sprintf("row %d: timestamp %q is not an int64", i, f[4])}
		}
		if ts.Sign() < 0 || ts.Cmp(bigMaxU32) > 0 {
			outside = true
		}
		var h Hdr
		h.Version = int32(ver.Int64())
		h.Prev = prev
		m := strings.ToLower(strings.Repeat("0", 64-len(f[1])) + f[1])
		h.Merkle, _ = hexToWire(m)
		h.Time = uint32(new(big.Int).And(ts, bigMaxU32).Uint64())
		h.Bits = uint32(bits.Uint64())
		h.Nonce = uint32(nonce.Uint64())
		w := refWorkBits(h.Bits)
		cum = new(big.Int).Add(cum, w)
		table = append(table, DbRow{ID: int64(i), Hash: h.HashStr(), Prev: display(prev), Merkle: m, Height: int64(i), Version: ver.Int64(), Time: ts.String(),
			Bits: bits.String(), Nonce: nonce.Int64(), Work: w.String(), Cum: cum.String(), State: "LONGEST_CHAIN"})
		prev = h.Hash()
	}
	if cpHeight < 0 {
		return c17Verdict{why: "no checkpoint configured"}
	}
	if cpHeight >= int64(len(table)) {
		return c17Verdict{why: fmt.Sprintf("no block at the newest checkpoint height %d", cpHeight)}
	}
	if table[cpHeight].Hash != cpHash {
		return c17Verdict{why: fmt.Sprintf("block at the newest checkpoint height %d has hash %.16s, checkpoint %.16s", cpHeight, table[cpHeight].Hash, cpHash)}
	}
	return c17Verdict{acceptable: true, outside: outside, table: table}
}

// ---------------------------------------------------------------------------------------------
// the interpreter

func (s *c17Sess) nextFile(kind string) string {
	s.seq++
	return lib.TempDB(fmt.Sprintf("c17-%s-%d-%d.%s", sanitize(s.name), os.Getpid(), s.seq, kind))
}

func sanitize(n string) string {
	var b strings.Builder
	for _, r := range n {
		if (r >= 'a' && r <= 'z') || (r >= 'A' && r <= 'Z') || (r >= '0' && r <= '9') {
			b.WriteRune(r)
		} else {
			b.WriteByte('_')
		}
		if b.Len() > 40 {
			break
		}
	}
	return b.String()
}

// writePrepared renders the records as the prepared file; the token "!unreadable[:how]" makes an unreadable one.
func (s *c17Sess) writePrepared(recs []string) string {
	p := s.nextFile("csv.gz")
	if len(recs) == 1 && strings.HasPrefix(recs[0], "!unreadable") {
		switch strings.TrimPrefix(recs[0], "!unreadable") {
		case ":missing":
			_ = os.Remove(p)
		case ":plain":
			_ = os.WriteFile(p, []byte(c17HeaderLine+"\n1,00,1,1,1\n"), 0o644)
		case ":truncgz":
			b := gzipBytes([]byte(c17HeaderLine + "\n" + strings.Repeat("1,00,1,1,1\n", 400)))
			_ = os.WriteFile(p, b[:len(b)/2], 0o644)
		case ":dir":
			_ = os.Mkdir(p, 0o755)
		default:
			_ = os.WriteFile(p, []byte("this is not a gzip stream at all"), 0o644)
		}
		return p
	}
	var b strings.Builder
	eol := "\n"
	if s.csvMode == "crlf" {
		eol = "\r\n"
	}
	for i, r := range recs {
		switch s.csvMode {
		case "quoted":
			f := strings.Split(r, ",")
			for k := range f {
				f[k] = `"` + f[k] + `"`
			}
			b.WriteString(strings.Join(f, ","))
		default:
			b.WriteString(r)
		}
		if s.csvMode == "noeol" && i == len(recs)-1 {
			break
		}
		b.WriteString(eol)
		if s.csvMode == "blank" && i%3 == 1 {
			b.WriteString(eol)
		}
	}
	_ = os.WriteFile(p, gzipBytes([]byte(b.String())), 0o644)
	return p
}

func parseCp(h, hash string) (cps []chaincfg.Checkpoint, height int64, ok bool) {
	if h == "-" {
		return []chaincfg.Checkpoint{}, -1, true
	}
	n, err := strconv.ParseInt(h, 10, 32)
	if err != nil {
		return nil, 0, false
	}
	ch, err := chainhash.NewHashFromStr(hash)
	if err != nil {
		return nil, 0, false
	}
	return []chaincfg.Checkpoint{{Height: int32(n), Hash: ch}}, n, true
}

// startOp: iimport (fresh database) / istart (the current one).
func (s *c17Sess) startOp(fresh bool, ws []string) string {
	if len(ws) < 3 {
		return "bad-args"
	}
	cps, cpH, ok := parseCp(ws[1], ws[2])
	if !ok || ws[0] != strconv.Itoa(c17Batch) {
		return "bad-args"
	}
	recs := ws[3:]
	if fresh || s.dbFile == "" {
		if s.dbFile != "" {
			_ = os.Remove(s.dbFile)
		}
		s.dbFile = s.nextFile("db")
		s.leftByRefused = false
	}
	before, err := c17DumpFile(s.dbFile)
	if err != nil {
		return "error:dump:" + err.Error()
	}
	prepared := s.writePrepared(recs)
	class, msg := c17Start(s.dbFile, prepared, cps)
	_ = os.RemoveAll(prepared)
	after, err := c17DumpFile(s.dbFile)
	if err != nil {
		return "error:dump:" + err.Error()
	}
	out := ""
	switch {
	case class == "" && len(before) > 0:
		out = fmt.Sprintf("skipped %d %s", len(after), c17Digest(after))
	case class == "":
		out = fmt.Sprintf("ok %d %s", len(after), c17Digest(after))
	default:
		out = fmt.Sprintf("%s %d %s", class, len(after), c17Digest(after))
		s.c.R.Count("start-outcome:"+refusalKind(class), 1)
	}

	// ---- oracle
	s.c.R.OracleChecked++
	if len(before) > 0 {
		// never overwritten
		if class != "" {
			s.fail("a start with prepared_db on a database that already holds headers failed: "+msg, "started, table unchanged", out, "c17-start-on-populated-db-failed", nil)
		}
		if dumpStr(before) != dumpStr(after) {
			s.fail("a start with prepared_db changed a database that already holds headers", c17Digest(before), c17Digest(after), "c17-populated-db-overwritten", nil)
		}
		if class == "" && s.leftByRefused {
			s.fail(fmt.Sprintf("a start refused the prepared file (%s) and left %d rows behind; the next start on the same database came up serving them without import or validation",
				s.lastRefusedBy, len(before)), "the second start fails again (or finds an empty table and re-imports)",
				fmt.Sprintf("second start succeeded; table has %d rows, tip height %d", len(after), maxHeightOf(after)),
				"c17-refused-import-accepted-on-second-start", map[string]any{"first_refusal": s.lastRefusedBy, "rows_left": len(before)})
		}
		return out
	}
	unreadable := len(recs) == 1 && strings.HasPrefix(recs[0], "!unreadable")
	var v c17Verdict
	if unreadable {
		v = c17Verdict{why: "file unreadable"}
	} else {
		v = c17Judge(recs, cpH, ws[2])
	}
	switch {
	case v.acceptable && class != "":
		s.fail("an acceptable file was refused: "+msg, "import succeeds", out, "c17-good-file-refused", nil)
	case v.acceptable && !v.outside:
		if d := diffTables(v.table, after); d != "" {
			s.fail("the imported table differs from what the file describes: "+d, c17Digest(v.table), c17Digest(after), "c17-import-differs-from-file", nil)
		}
	case !v.acceptable && class == "":
		s.fail("a bad file was accepted ("+v.why+")", "start-up fails", out, "c17-bad-file-accepted", nil)
	}
	// the round trip proper: importing the last export gives the source's longest chain
	if s.lastExport != nil && equalStrs(recs, s.lastExport) && cpH >= 0 && cpH < int64(len(s.expectLc)) && s.expectLc[cpH].Hash == ws[2] {
		want := make([]DbRow, len(s.expectLc))
		for i, r := range s.expectLc {
			r.ID = r.Height
			want[i] = r
		}
		if class != "" {
			s.fail("importing the exported file failed: "+msg, "import succeeds", out, "c17-roundtrip-refused", nil)
		} else if d := diffTables(want, after); d != "" {
			s.fail("export then import does not reproduce the longest chain: "+d, c17Digest(want), c17Digest(after), "c17-roundtrip-differs", nil)
		}
		s.c.R.Count("oracle:roundtrip-compared-rows", len(want))
	}
	if class == "panic" {
		// config.Checkpoints empty: `config.Checkpoints[len-1]` panics after the import committed everything. The only
		// network the service can be configured for has checkpoints, so this configuration is outside the property's
		// quantifier; the outcome is compared with the model, the leftover rule is not applied.
		s.c.R.Count("panic-with-empty-checkpoints (outside the quantifier)", 1)
	} else if class != "" {
		s.leftByRefused = len(after) > 0
		s.lastRefusedBy = class
		if len(after) > 0 {
			s.c.R.Count("refused-start-left-rows-behind", 1)
		} else {
			s.c.R.Count("refused-start-left-nothing", 1)
		}
	}
	return out
}

// refusalKind drops the row index: refused:row:<i>:<what> -> refused:row:<what>.
func refusalKind(class string) string {
	p := strings.Split(class, ":")
	if len(p) >= 4 && p[1] == "row" {
		return "refused:row:" + p[3]
	}
	if len(p) >= 2 && p[1] == "other" {
		return "refused:other"
	}
	return class
}

func maxHeightOf(rows []DbRow) int64 {
	m := int64(-1)
	for _, r := range rows {
		if r.Height > m {
			m = r.Height
		}
	}
	return m
}

func equalStrs(a, b []string) bool {
	if len(a) != len(b) {
		return false
	}
	for i := range a {
		if a[i] != b[i] {
			return false
		}
	}
	return true
}

// diffTables compares row by row: rowid, hash, previous hash, merkle root, height, version, time, bits, nonce, work,
// cumulated work, state.
func diffTables(want, got []DbRow) string {
	if len(want) != len(got) {
		return fmt.Sprintf("%d rows expected, %d present", len(want), len(got))
	}
	for i := range want {
		if want[i].String() != got[i].String() {
			return fmt.Sprintf("row %d: expected %s, present %s", i, want[i].String(), got[i].String())
		}
	}
	return ""
}

// Op executes one line on the implementation.
func (s *c17Sess) Op(line string) string {
	ws := strings.Fields(line)
	if len(ws) == 0 {
		return "bad-op"
	}
	switch ws[0] {
	case "ireset":
		s.close()
		ci, err := newChainImpl(fmt.Sprintf("c17-src-%d-%s-%d", os.Getpid(), sanitize(s.name), s.seq), lib.StackOpts{NoEngine: true})
		s.seq++
		if err != nil {
			return "error:" + err.Error()
		}
		s.src, s.dbFile, s.lastExport, s.expectLc, s.leftByRefused, s.modelLost = ci, "", nil, nil, false, false
		return "ok"
	case "icsv":
		if len(ws) == 2 {
			s.csvMode = ws[1]
		}
		return "ok"
	case "iadd":
		if len(ws) != 2 || s.src == nil {
			return "bad-header"
		}
		h, err := hdrFromHex(ws[1])
		if err != nil {
			return "bad-header"
		}
		s.src.Rec.FailAt, s.src.Rec.KillAt = 0, -1
		out, _ := s.src.Add(h)
		return out
	case "iexport":
		if s.src == nil {
			return "error:no-source"
		}
		rows, err := s.src.Dump()
		if err != nil {
			return "error:" + err.Error()
		}
		out := s.nextFile("export.csv.gz")
		// every second export goes to a path where a LARGER file already lies (an older export of a longer chain,
		// the shipped data file): the export has to replace it, not write into it
		c17NExports++
		if c17NExports%2 == 0 {
			junk := make([]byte, 2<<20)
			x := uint32(c17NExports)*2654435761 + 12345
			for i := range junk {
				x = x*1664525 + 1013904223
				junk[i] = byte(x >> 24)
			}
			_ = os.WriteFile(out, junk, 0o644)
			s.c.R.Count("export over an existing larger file", 1)
		}
		// every third export finds the intermediate CSV of an earlier, longer export that did not finish
		// (<TempDir>/headers.csv is only removed by a successful export)
		if c17NExports%3 == 0 {
			var sb strings.Builder
			sb.WriteString(c17HeaderLine + "\n")
			for i := 0; i < 4000; i++ {
				fmt.Fprintf(&sb, "%d,%064x,%d,486604799,1231006505\n", 1+i%3, i*7919+13, 2083236893+i)
			}
			_ = os.WriteFile(filepath.Join(os.TempDir(), "headers.csv"), []byte(sb.String()), 0o644)
			s.c.R.Count("export with a left-over longer <TempDir>/headers.csv", 1)
		}
		if err := c17Export(s.src.file, out); err != nil {
			return "error:export:" + err.Error()
		}
		b, err := gunzipFile(out)
		_ = os.Remove(out)
		if err != nil {
			return "error:gunzip:" + err.Error()
		}
		recs := strings.Split(strings.TrimSuffix(string(b), "\n"), "\n")
		// oracle: header line + projection of the longest chain
		s.c.R.OracleChecked++
		lc := lcOf(rows)
		want := []string{c17HeaderLine}
		for _, r := range lc {
			want = append(want, csvOfRow(r))
		}
		if !equalStrs(want, recs) {
			k := 0
			for k < len(want) && k < len(recs) && want[k] == recs[k] {
				k++
			}
			s.fail(fmt.Sprintf("the exported file is not the longest chain ascending by height (first difference at line %d)", k+1), strings.Join(want[min(k, len(want)-1):min(k+1, len(want))], ""),
				strings.Join(recs[min(k, len(recs)-1):min(k+1, len(recs))], ""), "c17-export-differs", nil)
		}
		s.lastExport, s.expectLc = recs, lc
		return strings.Join(recs, " ")
	case "iuse":
		if s.src == nil {
			return "error:no-source"
		}
		rows, err := s.src.Dump()
		if err != nil {
			return "error:" + err.Error()
		}
		b, err := os.ReadFile(s.src.file)
		if err != nil {
			return "error:" + err.Error()
		}
		if s.dbFile != "" {
			_ = os.Remove(s.dbFile)
		}
		s.dbFile = s.nextFile("db")
		if err := os.WriteFile(s.dbFile, b, 0o644); err != nil {
			return "error:" + err.Error()
		}
		s.leftByRefused = false
		return fmt.Sprintf("ok %d", len(rows))
	case "iimport":
		return s.startOp(true, ws[1:])
	case "istart":
		return s.startOp(false, ws[1:])
	case "idump":
		rows, err := c17DumpFile(s.dbFile)
		if err != nil {
			return "error:" + err.Error()
		}
		return dumpStr(rows)
	}
	return "bad-op"
}

// Run executes the lines on both sides and compares.
func (s *c17Sess) Run(ops []string) error {
	for _, op := range ops {
		s.ops = append(s.ops, op)
		impl := s.Op(op)
		if s.c.Driver == "none" {
			continue
		}
		model, err := s.l.Ask(op)
		if err != nil {
			return err
		}
		s.c.R.TracesValidated++
		if strings.HasPrefix(model, "outside") {
			s.modelLost = true
			s.c.R.Count("model:outside-domain (timestamp beyond uint32)", 1)
			continue
		}
		w := strings.Fields(op)[0]
		if s.modelLost && (w == "istart" || w == "idump") {
			continue
		}
		if w == "iimport" {
			s.modelLost = false
		}
		if impl != model {
			s.c.R.Disagree(lib.Disagreement{Case: s.name, Ops: append([]string{}, s.ops...), Op: abbreviate(op), Impl: clip(impl), Model: clip(model)})
		}
	}
	return nil
}

// abbreviate shortens a long operation line for display in a disagreement record (the case's op list stays complete).
func abbreviate(op string) string {
	if len(op) <= 6000 {
		return op
	}
	return op[:3000] + " …[" + strconv.Itoa(len(op)-6000) + " bytes]… " + op[len(op)-3000:]
}

func clip(s string) string {
	if len(s) > 2000 {
		return s[:1000] + " … " + s[len(s)-1000:]
	}
	return s
}
