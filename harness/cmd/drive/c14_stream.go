package main

// C14, stream clause: wire.ReadMessageWithEncodingN called REPEATEDLY on one reader.
//
//	wstream <pver> <net> <hex>   ->   <item> ; <item> ; …    <item> = ok <command> <consumed> | err <class>
//
// Calls are made until one starts with less than a header left on the reader (that call answers eof and is the
// last). What one call returns is the subject of `wframe`; what this op adds is WHERE THE STREAM STANDS after a
// call that returned an error: the payload of a frame rejected on its header (wrong magic, unknown / non-UTF-8
// command, length above the type's MaxPayloadLength) is skipped by discardInput, a frame with a bad checksum or an
// undecodable payload has been read as a whole, so the next call starts at the next frame — the frames that follow
// are returned intact and nothing from inside a rejected payload is ever returned.
// Model side: BHS.Wire.readStream (lean/BHS/Model/WireStream.lean), theorems in lean/BHS/Props/C14Stream.lean.

import (
	"bytes"
	"crypto/sha256"
	"encoding/binary"
	"fmt"
	"strings"

	"github.com/bitcoin-sv/block-headers-service/internal/wire"
)

// execStream: implementation answer + the Go oracle (independent framing by the declared lengths).
func (x *c14Exec) execStream(op string, pver uint32, net wire.BitcoinNet, bs []byte) string {
	maxCalls := len(bs)/24 + 2
	var positions []int // reader position after each call
	r := x.bothEncodings(op, "stream", func(enc wire.MessageEncoding) c14Run {
		return c14Guard(false, func() string {
			rd := bytes.NewReader(bs)
			var items []string
			var pos []int
			for i := 0; i < maxCalls; i++ {
				last := rd.Len() < wire.MessageHeaderSize
				n, m, _, err := wire.ReadMessageWithEncodingN(rd, pver, net, enc)
				if err != nil {
					items = append(items, "err "+c14Class(err))
				} else {
					items = append(items, fmt.Sprintf("ok %s %d", m.Command(), n))
				}
				pos = append(pos, len(bs)-rd.Len())
				if last {
					break
				}
			}
			positions = pos
			return strings.Join(items, " ; ")
		})
	})
	if x.checkCrash(op, "stream", r) {
		return r.ans
	}
	items := strings.Split(r.ans, " ; ")
	// oracle: walk the stream frame by frame using nothing but the declared lengths
	off := 0
	for i := 0; ; i++ {
		x.nOracle++
		if i >= len(items) || i >= len(positions) {
			x.failure(op, fmt.Sprintf("the stream reader stopped after %d calls although the stream still holds a header at offset %d", len(items), off),
				"one answer per frame", c14Short(r.ans), "c14-stream-desync")
			return r.ans
		}
		it := items[i]
		if len(bs)-off < wire.MessageHeaderSize {
			if it != "err eof" || i != len(items)-1 {
				x.failure(op, fmt.Sprintf("call %d starts at offset %d with less than a header left and must answer eof and be the last", i, off), "err eof (last)", c14Short(r.ans), "c14-stream-desync")
			}
			return r.ans
		}
		hdrMagic := binary.LittleEndian.Uint32(bs[off:])
		cmdName := string(bytes.TrimRight(bs[off+4:off+16], "\x00"))
		hdrLen := binary.LittleEndian.Uint32(bs[off+16:])
		if hdrLen > c14GlobalMax() {
			// the code returns without skipping anything here: there is no framing to hold it to beyond this point
			if !strings.HasPrefix(it, "err") {
				x.failure(op, fmt.Sprintf("call %d: a frame declaring %d bytes (above the global limit) was accepted", i, hdrLen), "err", it, "c14-accept-oversize")
			}
			return r.ans
		}
		end := off + wire.MessageHeaderSize + int(hdrLen)
		if end > len(bs) {
			// the last frame is cut short: it must not be handed out; the reader ends at the end of the stream
			if !strings.HasPrefix(it, "err") {
				x.failure(op, fmt.Sprintf("call %d: a frame cut short by the end of the stream was accepted", i), "err", it, "c14-accept-truncated")
			} else if positions[i] != len(bs) {
				x.failure(op, fmt.Sprintf("call %d: a frame cut short by the end of the stream left the reader at %d, not at the end %d", i, positions[i], len(bs)), fmt.Sprint(len(bs)), fmt.Sprint(positions[i]), "c14-stream-desync")
			}
			return r.ans
		}
		payload := bs[off+wire.MessageHeaderSize : end]
		h1 := sha256.Sum256(payload)
		h2 := sha256.Sum256(h1[:])
		known := c14New(cmdName) != nil
		headerOK := hdrMagic == uint32(net) && known && uint64(hdrLen) <= c14Declared(cmdName, pver) && bytes.Equal(h2[:4], bs[off+20:off+24])
		want := "err"
		if headerOK {
			m := c14New(cmdName)
			d := c14Guard(false, func() string {
				if err := m.Bsvdecode(bytes.NewBuffer(append([]byte{}, payload...)), pver, wire.BaseEncoding); err != nil {
					return "err"
				}
				return fmt.Sprintf("ok %s %d", m.Command(), wire.MessageHeaderSize+int(hdrLen))
			})
			want = d.ans
		}
		switch {
		case want == "err" && !strings.HasPrefix(it, "err"):
			x.failure(op, fmt.Sprintf("call %d (frame at offset %d, command %q, declared %d bytes) must be rejected but a message was handed out", i, off, cmdName, hdrLen),
				"err", it, "c14-stream-desync")
			return r.ans
		case want != "err" && it != want:
			x.failure(op, fmt.Sprintf("call %d: the valid frame at offset %d (command %q, %d payload bytes) is not returned intact — the reader was not at a frame boundary after the preceding frames", i, off, cmdName, hdrLen),
				want, it, "c14-stream-desync")
			return r.ans
		case positions[i] != end:
			x.failure(op, fmt.Sprintf("after call %d (frame at offset %d, command %q, declared %d bytes, answer %q) the reader stands at %d, not at the next frame boundary %d", i, off, cmdName, hdrLen, it, positions[i], end),
				fmt.Sprint(end), fmt.Sprint(positions[i]), "c14-stream-desync")
			return r.ans
		}
		off = end
	}
}

// c14StreamAgrees compares the model's item sequence with the implementation's; a model sequence that ends in
// `err unmodelled` (a command whose type the model does not cover) is compared up to that point only.
func c14StreamAgrees(model, impl string) (agree, unmodelled bool) {
	if model == impl {
		return true, false
	}
	if model == "err unmodelled" {
		return true, true
	}
	if p, ok := strings.CutSuffix(model, " ; err unmodelled"); ok {
		return strings.HasPrefix(impl, p+" ; "), true
	}
	return false, false
}

// ---------------------------------------------------------------------------
// generator

var c14StreamLens = []int{0, 1, 10239, 10240, 10241, 20480, 30720, 40960}

// filler: a payload of n bytes made of back-to-back VALID frames (so that a reader that resumes anywhere on a
// frame boundary inside it would hand out messages), cut to length
func (g *c14Gen) streamFiller(net wire.BitcoinNet, n int) []byte {
	var unit []byte
	switch g.rng.Intn(4) {
	case 0:
		unit = c14Frame(net, "verack", nil) // 24 bytes
	case 1:
		var b bytes.Buffer
		h := &wire.MsgHeaders{Headers: []*wire.BlockHeader{{Timestamp: g.time32(), Bits: g.u32()}}}
		_ = wire.WriteMessage(&b, h, 70013, net)
		unit = b.Bytes() // 106 bytes
	default:
		var p [8]byte
		binary.LittleEndian.PutUint64(p[:], g.u64())
		unit = c14Frame(net, "ping", p[:]) // 32 bytes: 10240 = 320 x 32
	}
	out := make([]byte, 0, n+len(unit))
	if g.rng.Intn(5) == 0 {
		out = append(out, g.bytesN(g.rng.Intn(len(unit)))...) // misaligned start
	}
	for len(out) < n {
		out = append(out, unit...)
	}
	return out[:n]
}

func c14RawFrame(magic uint32, cmd string, declared uint32, ck []byte, payload []byte) []byte {
	var hdr [24]byte
	binary.LittleEndian.PutUint32(hdr[0:], magic)
	copy(hdr[4:16], cmd)
	binary.LittleEndian.PutUint32(hdr[16:], declared)
	copy(hdr[20:], ck)
	return append(hdr[:], payload...)
}

// rejectedFrame builds a frame of the given rejection kind with an L-byte payload ("" when the kind has no such frame)
func (g *c14Gen) rejectedFrame(kind string, net wire.BitcoinNet, pver uint32, L int) []byte {
	p := g.streamFiller(net, L)
	h1 := sha256.Sum256(p)
	h2 := sha256.Sum256(h1[:])
	good := h2[:4]
	ck := good
	if g.rng.Intn(2) == 0 {
		ck = g.bytesN(4)
	}
	others := []wire.BitcoinNet{wire.TestNet, wire.TestNet3, wire.SimNet, wire.BitcoinNet(g.rng.Uint32())}
	switch kind {
	case "magic":
		o := others[g.rng.Intn(len(others))]
		if o == net {
			o = wire.BitcoinNet(uint32(net) ^ 1)
		}
		return c14RawFrame(uint32(o), c14Commands[g.rng.Intn(len(c14Commands))], uint32(L), ck, p)
	case "unknown-command":
		names := []string{"foo", "Ping", "pingx", "versions", "zzzzzzzzzzzz", "ver\x00ack"}
		return c14RawFrame(uint32(net), names[g.rng.Intn(len(names))], uint32(L), ck, p)
	case "non-utf8-command":
		names := []string{"\xff\xfe", "ping\x80", "\xc0\xaf"}
		return c14RawFrame(uint32(net), names[g.rng.Intn(len(names))], uint32(L), ck, p)
	case "oversize-for-command":
		var cands []string
		for _, c := range []string{"verack", "getaddr", "mempool", "sendheaders", "ping", "pong", "feefilter", "version", "getheaders", "addr"} {
			if uint64(L) > c14Declared(c, pver) {
				cands = append(cands, c)
			}
		}
		if len(cands) == 0 {
			return nil
		}
		return c14RawFrame(uint32(net), cands[g.rng.Intn(len(cands))], uint32(L), ck, p)
	case "bad-checksum":
		bad := append([]byte{}, good...)
		bad[g.rng.Intn(4)] ^= 1 << uint(g.rng.Intn(8))
		for _, c := range []string{"headers", "inv", "getdata", "notfound"} {
			if uint64(L) <= c14Declared(c, pver) {
				return c14RawFrame(uint32(net), c, uint32(L), bad, p)
			}
		}
		return nil
	case "undecodable-payload":
		for _, c := range []string{"inv", "headers", "getheaders", "addr"} {
			if uint64(L) <= c14Declared(c, pver) {
				return c14RawFrame(uint32(net), c, uint32(L), good, p)
			}
		}
		return nil
	}
	return nil
}

var c14StreamKinds = []string{"magic", "unknown-command", "non-utf8-command", "oversize-for-command", "bad-checksum", "undecodable-payload"}

func (g *c14Gen) validFrame(net wire.BitcoinNet, pver uint32) []byte {
	kinds := []string{"ping", "verack", "headers", "inv", "getheaders", "pong", "getaddr", "addr"}
	for {
		m := g.wf(kinds[g.rng.Intn(len(kinds))], pver, false)
		var b bytes.Buffer
		if err := wire.WriteMessage(&b, m, pver, net); err == nil && b.Len() < 6000 {
			return b.Bytes()
		}
	}
}

// streams: 2–4 frames on one stream — optional valid prefix, a rejected frame of every kind x every boundary payload
// length (filled with embedded valid frames), then valid frames; some end cut short or with stray bytes.
func (g *c14Gen) streams() []c14Case {
	var cases []c14Case
	net := wire.MainNet
	lens := append([]int{}, c14StreamLens...)
	rounds := 2
	if g.c.Thorough {
		lens = append(lens, 8, 4096, 20479, 20481, 51200, 102400, 10240*7, 10240*13+1)
		rounds = 4
	}
	for round := 0; round < rounds; round++ {
		for _, kind := range c14StreamKinds {
			ls := append(append([]int{}, lens...), g.rng.Intn(50000), 10240*(1+g.rng.Intn(6)))
			for _, L := range ls {
				pver := uint32(70013)
				if g.rng.Intn(4) == 0 {
					pver = c14Pvers[g.rng.Intn(len(c14Pvers))]
				}
				rf := g.rejectedFrame(kind, net, pver, L)
				if rf == nil {
					continue
				}
				var s []byte
				if g.rng.Intn(2) == 0 {
					s = append(s, g.validFrame(net, pver)...)
				}
				s = append(s, rf...)
				if g.rng.Intn(6) == 0 { // a second rejected frame right behind
					k2 := c14StreamKinds[g.rng.Intn(len(c14StreamKinds))]
					if rf2 := g.rejectedFrame(k2, net, pver, c14StreamLens[g.rng.Intn(len(c14StreamLens))]); rf2 != nil {
						s = append(s, rf2...)
					}
				}
				for k := 1 + g.rng.Intn(2); k > 0; k-- {
					s = append(s, g.validFrame(net, pver)...)
				}
				switch g.rng.Intn(8) {
				case 0:
					s = append(s, g.bytesN(1+g.rng.Intn(23))...) // stray bytes: less than a header
				case 1:
					s = s[:len(s)-1-g.rng.Intn(10)] // the last frame is cut short
				}
				cases = append(cases, c14Case{fmt.Sprintf("wstream %d %d %s", pver, uint32(net), c14Hex(s)), fmt.Sprintf("stream:%s:len=%s", kind, c14LenClass(L)), true})
			}
		}
	}
	// a length above the global limit is the one header-level rejection that skips nothing (correspondence only beyond it)
	for i := 0; i < 4; i++ {
		p := g.streamFiller(net, 64+32*g.rng.Intn(4))
		s := append(c14RawFrame(uint32(net), "ping", c14GlobalMax()+1+uint32(g.rng.Intn(1000)), g.bytesN(4), p), g.validFrame(net, 70013)...)
		cases = append(cases, c14Case{fmt.Sprintf("wstream 70013 %d %s", uint32(net), c14Hex(s)), "stream:oversize-global(no skip)", true})
	}
	// plain sequences of valid frames, and unmodelled commands in the middle
	for i := 0; i < 6; i++ {
		var s []byte
		for k := 2 + g.rng.Intn(3); k > 0; k-- {
			s = append(s, g.validFrame(net, 70013)...)
		}
		if i%3 == 0 {
			s = append(s, c14Frame(net, "filterclear", nil)...)
			s = append(s, g.validFrame(net, 70013)...)
		}
		cases = append(cases, c14Case{fmt.Sprintf("wstream 70013 %d %s", uint32(net), c14Hex(s)), "stream:valid-sequence", true})
	}
	return cases
}

func c14LenClass(L int) string {
	for _, k := range c14StreamLens {
		if L == k {
			return fmt.Sprint(L)
		}
	}
	if L > 0 && L%10240 == 0 {
		return "k*10240"
	}
	return "other"
}
