package main

// C11, a webhook that fails until it is deactivated and is then registered again (seeded change C11-11): a healthy
// webhook and a recording channel next to a webhook whose receiver answers 500 for the first phase. After MaxTries
// failures the service deactivates it; the operator registers the same URL again (CreateWebhook → refreshWebhook),
// the receiver is healthy from then on, and ingestion continues. Oracle, the property's last clause only: the healthy
// webhook and the recording channel receive exactly one event per stored header in EVERY phase — whatever the
// service does with the failing webhook's row must not suppress delivery on the other channels. Nothing is demanded
// of the deliveries to the failing webhook itself (that is C12's subject).

import (
	"fmt"
	"io"
	"net/http"
	"net/http/httptest"
	"strings"
	"sync/atomic"
	"time"

	"github.com/bitcoin-sv/block-headers-service/verifharness/lib"
)

func c11Reregister(c *Ctx) error {
	const maxTries = 2
	var bad atomic.Bool
	var okPosts, flakyPosts atomic.Int64
	bad.Store(true)
	srv := httptest.NewServer(http.HandlerFunc(func(w http.ResponseWriter, r *http.Request) {
		_, _ = io.Copy(io.Discard, r.Body)
		if strings.HasPrefix(r.URL.Path, "/flaky") {
			flakyPosts.Add(1)
			if bad.Load() {
				w.WriteHeader(500)
				return
			}
		} else {
			okPosts.Add(1)
		}
		w.WriteHeader(200)
	}))
	defer srv.Close()
	ci, err := newChainImpl("c11-rereg.db", lib.StackOpts{MaxTries: maxTries})
	if err != nil {
		return err
	}
	defer ci.Close()
	rec := &behavChannel{}
	ci.Svc.Notifier.AddChannel(rec)
	ci.Svc.Notifier.AddChannel(ci.Svc.Webhooks)
	for _, path := range []string{"/ok", "/flaky"} {
		if _, err := ci.Svc.Webhooks.CreateWebhook("BEARER", "", "t", srv.URL+path); err != nil {
			return fmt.Errorf("create webhook: %v", err)
		}
	}
	phases := []int{maxTries + 2, 4, 4, 3} // fail until deactivated (+ slack) | after re-registration | after a second one | after the webhook was deleted
	total := 0
	for _, p := range phases {
		total += p
	}
	nodes := make([]Node, total)
	for i := range nodes {
		nodes[i] = Node{Parent: i - 1, Bits: bitsSmall[0]}
	}
	buildTree(nodes, 11900+uint32(c.Seed), nil, false)
	ops := []string{fmt.Sprintf("# c11 reregister: production webhook client, webhook.maxTries=%d; webhooks <loopback>/ok and <loopback>/flaky (answers 500 during phase 1) plus a recording channel; phases of %v headers (linear chain, seed %d); between the phases the receiver turns healthy and CreateWebhook is called again for <loopback>/flaky; before the last phase DeleteWebhook(<loopback>/flaky)", maxTries, phases, c.Seed)}
	stored, next := 0, 0
	for ph, cnt := range phases {
		name := fmt.Sprintf("re-registered webhook, phase %d (%d headers)", ph+1, cnt)
		c.R.Case(name, true)
		for i := 0; i < cnt; i++ {
			if strings.HasPrefix(ci.Op("add "+nodes[next].Hdr.Hex()), "stored") {
				stored++
			}
			next++
			// one event at a time: the deliveries of an event finish before the next submission, as in a live sync
			want := int64(stored)
			waitFor(func() bool { return okPosts.Load() >= want && len(rec.snapshot()) >= int(want) }, 3*time.Second)
		}
		time.Sleep(20 * time.Millisecond)
		c.R.Count("c11 reregister phase headers", cnt)
		c.R.OracleChecked++
		if stored != next {
			c.R.Fail(lib.Failure{Case: name, Ops: ops, What: "not every header of the phase was stored", Expected: fmt.Sprint(next), Observed: fmt.Sprint(stored), Signature: "c11-rereg-not-stored"})
			return nil
		}
		c.R.OracleChecked++
		if got, gotRec := okPosts.Load(), len(rec.snapshot()); got != int64(stored) || gotRec != stored {
			c.R.Fail(lib.Failure{Case: name, Ops: ops,
				What:      "after another webhook failed, was deactivated and was registered again, the healthy webhook / the recording channel did not receive exactly one event per stored header",
				Expected:  fmt.Sprintf("%d POSTs at the healthy webhook and %d events on the recording channel after phase %d", stored, stored, ph+1),
				Observed:  fmt.Sprintf("%d POSTs, %d events (POSTs seen by the flaky receiver so far: %d)", got, gotRec, flakyPosts.Load()),
				Signature: "c11-events:other-channels-after-reregistration"})
			return nil
		}
		if ph+2 == len(phases) {
			// last transition: the operator deletes the webhook; the remaining channels keep receiving
			if err := ci.Svc.Webhooks.DeleteWebhook(srv.URL + "/flaky"); err != nil {
				c.R.Count("c11 reregister: DeleteWebhook refused", 1)
			}
		} else if ph+1 < len(phases) {
			bad.Store(false)
			if _, err := ci.Svc.Webhooks.CreateWebhook("BEARER", "", "t", srv.URL+"/flaky"); err != nil {
				// a refused re-registration is not this property's subject; the phases still run
				c.R.Count("c11 reregister: CreateWebhook refused", 1)
			}
		}
	}
	return nil
}
