package main

// C18 part (a): the real handleAddPeerMsg / handleDonePeerMsg / handleBanPeerMsg on a
// real peerState (reached through the build overlay harness/overlay/p2p_verif.go) with
// real serverPeer / peer.Peer objects over in-memory connections, against the Lean model
// (per operation) and against an independent counting oracle.

import (
	"bytes"
	"fmt"
	"io"
	"math/rand"
	"net"
	"sort"
	"strconv"
	"strings"
	"sync"
	"time"

	"github.com/bitcoin-sv/block-headers-service/config"
	"github.com/bitcoin-sv/block-headers-service/internal/chaincfg"
	"github.com/bitcoin-sv/block-headers-service/internal/wire"
	"github.com/bitcoin-sv/block-headers-service/transports/p2p"
	"github.com/bitcoin-sv/block-headers-service/transports/p2p/addrmgr"
	"github.com/bitcoin-sv/block-headers-service/transports/p2p/peer"
	"github.com/bitcoin-sv/block-headers-service/verifharness/lib"
	"github.com/rs/zerolog"
)

// ---- in-memory connection: reads come from a preloaded script, writes are discarded ----

type c18MemConn struct {
	mu      sync.Mutex
	cond    *sync.Cond
	in      []byte
	closed  bool
	remote  net.Addr
	written int
}

func c18NewMemConn(remote net.Addr, script []byte) *c18MemConn {
	c := &c18MemConn{in: append([]byte(nil), script...), remote: remote}
	c.cond = sync.NewCond(&c.mu)
	return c
}

func (c *c18MemConn) Read(b []byte) (int, error) {
	c.mu.Lock()
	defer c.mu.Unlock()
	for len(c.in) == 0 && !c.closed {
		c.cond.Wait()
	}
	if len(c.in) == 0 {
		return 0, io.EOF
	}
	n := copy(b, c.in)
	c.in = c.in[n:]
	return n, nil
}

func (c *c18MemConn) Write(b []byte) (int, error) {
	c.mu.Lock()
	defer c.mu.Unlock()
	if c.closed {
		return 0, io.ErrClosedPipe
	}
	c.written += len(b)
	return len(b), nil
}

func (c *c18MemConn) Close() error {
	c.mu.Lock()
	c.closed = true
	c.cond.Broadcast()
	c.mu.Unlock()
	return nil
}
func (c *c18MemConn) LocalAddr() net.Addr {
	return &net.TCPAddr{IP: net.IPv4(127, 0, 0, 1), Port: 8333}
}
func (c *c18MemConn) RemoteAddr() net.Addr             { return c.remote }
func (c *c18MemConn) SetDeadline(time.Time) error      { return nil }
func (c *c18MemConn) SetReadDeadline(time.Time) error  { return nil }
func (c *c18MemConn) SetWriteDeadline(time.Time) error { return nil }

type c18StrAddr string

func (a c18StrAddr) Network() string { return "tcp" }
func (a c18StrAddr) String() string  { return string(a) }

// ---- the rig ----

const (
	c18Tick     = time.Hour // one model clock tick
	c18BanTicks = 24        // BanDuration = 24 h, the shipped default
)

type c18RigPeer struct {
	handle string
	sp     *p2p.VerifServerPeer
	kind   string // in | out | pers
	host   int
	group  int
	id     int32
	vk     bool
	logbuf *bytes.Buffer
	// oracle bookkeeping
	admitted bool
}

type c18PeerRig struct {
	srv      *p2p.VerifServer
	st       *p2p.VerifPeerState
	hostIPs  []string       // admission keys: what SplitHostPort(sp.Addr()) yields; index = the model's host
	keyIdx   map[string]int // key -> index in hostIPs
	specs    []string       // address texts the generators index (several textual families)
	groupIdx map[string]int
	groups   []string
	port     int
	peers    map[string]*c18RigPeer
	hsVerack []byte // version + verack
	hsDouble []byte // version + version (misbehaving remote)
	// oracle's own books
	tick     int
	banEnd   map[int]int
	shutdown bool
	valid    bool // history so far satisfies the theorem's assumptions (fresh ids, version known)
}

func c18HostIP(i, ngroups int) string {
	// routable IPv4; /16 group = 50+(i mod ngroups)
	return fmt.Sprintf("%d.1.%d.7", 50+i%ngroups, i/ngroups+1)
}

// c18FamilySpecs: the small universe. Peer addresses in several textual families; the code keys
// connectionCount / banned by the host part of sp.Addr() as text, so each distinct text is a host
// of its own for the model:
//
//	IPv4 (two hosts in one /16, one in another, one RFC1918), routable IPv6 in lower and in upper
//	case (an outbound peer keeps the text it was dialled with; an inbound one gets the canonical
//	text of its socket address), IPv6 link-local with two different zones, IPv4-mapped IPv6
//	(inbound: canonical dotted quad).
var c18FamilySpecs = []string{"50.1.1.7", "51.1.1.7", "50.1.2.7", "10.0.0.9", "2a01:4f8::1", "2A01:4F8::1", "fe80::1%eth0", "fe80::1%lo", "::ffff:52.1.1.7"}

// c18SpecTCP is the socket address of an inbound connection from `spec`.
func c18SpecTCP(spec string, port int) *net.TCPAddr {
	zone := ""
	if i := strings.Index(spec, "%"); i >= 0 {
		spec, zone = spec[:i], spec[i+1:]
	}
	return &net.TCPAddr{IP: net.ParseIP(spec), Port: port, Zone: zone}
}

func c18NewPeerRig(nhosts, ngroups int) *c18PeerRig {
	if ngroups <= 3 {
		return c18NewPeerRigSpecs(c18FamilySpecs)
	}
	var specs []string
	for i := 0; i < nhosts; i++ {
		specs = append(specs, c18HostIP(i, ngroups))
	}
	return c18NewPeerRigSpecs(specs)
}

func c18NewPeerRigSpecs(specs []string) *c18PeerRig {
	nop := lib.DiscardLog()
	r := &c18PeerRig{srv: p2p.VerifNewServer(c18BanTicks*c18Tick, &nop), st: p2p.VerifNewPeerState(), groupIdx: map[string]int{}, keyIdx: map[string]int{},
		peers: map[string]*c18RigPeer{}, banEnd: map[int]int{}, port: 20000, valid: true, specs: specs}
	// host and group indices are fixed up front so that they do not depend on the history:
	// first the texts themselves (what an outbound peer is keyed by), then the canonical socket texts
	addKey := func(k string) {
		if _, ok := r.keyIdx[k]; !ok {
			r.keyIdx[k] = len(r.hostIPs)
			r.hostIPs = append(r.hostIPs, k)
		}
	}
	addGroup := func(ip net.IP) {
		key := addrmgr.GroupKey(wire.NewNetAddressIPPort(ip, 8333, 0))
		if _, ok := r.groupIdx[key]; !ok {
			r.groupIdx[key] = len(r.groups)
			r.groups = append(r.groups, key)
		}
	}
	for _, sp := range specs {
		addKey(sp)
	}
	for _, sp := range specs {
		h, _, _ := net.SplitHostPort(c18SpecTCP(sp, 1).String())
		addKey(h)
	}
	for _, sp := range specs {
		addGroup(net.ParseIP(sp)) // NewOutboundPeer: net.ParseIP(host) — nil for a zoned text
		addGroup(c18SpecTCP(sp, 1).IP)
	}
	mk := func(msgs ...wire.Message) []byte {
		var b bytes.Buffer
		for _, m := range msgs {
			if err := wire.WriteMessage(&b, m, wire.ProtocolVersion, wire.MainNet); err != nil {
				panic(err)
			}
		}
		return b.Bytes()
	}
	me := wire.NewNetAddressIPPort(net.IPv4(9, 9, 9, 9), 8333, wire.SFspv)
	you := wire.NewNetAddressIPPort(net.IPv4(8, 8, 8, 8), 8333, wire.SFspv)
	v := wire.NewMsgVersion(me, you, 0x5eed5eed5eed, 0)
	_ = v.AddUserAgent("verif-remote", "0.0.1")
	v.Services = wire.SFspv
	r.hsVerack = mk(v, wire.NewMsgVerAck())
	r.hsDouble = mk(v, v)
	return r
}

// newPeer builds a real peer.Peer (+ serverPeer) the way inbound/outboundPeerConnected do,
// over an in-memory connection. vk: the remote side completes the version handshake
// (so VersionKnown() and the process-wide peer id are set by the real code) before the
// peer is handed to handleAddPeerMsg; !vk: connected, no version yet (id 0).
// onVersion, when set, replaces the default listener (used by the double-version scenario).
func (r *c18PeerRig) newPeer(handle, kind string, host int, vk bool, script []byte, onVersion func(*c18RigPeer)) (*c18RigPeer, error) {
	return r.newPeerWith(handle, kind, host, vk, script, onVersion, 1)
}

// newPeerWith waits for `versions` OnVersion callbacks before returning.
func (r *c18PeerRig) newPeerWith(handle, kind string, host int, vk bool, script []byte, onVersion func(*c18RigPeer), versions int) (*c18RigPeer, error) {
	r.port++
	spec := r.specs[host]
	addr := net.JoinHostPort(spec, strconv.Itoa(r.port))
	lb := &bytes.Buffer{}
	lg := zerolog.New(lb).Level(zerolog.DebugLevel)
	nop := lib.DiscardLog()
	seen := make(chan struct{}, 4)
	rp := &c18RigPeer{handle: handle, kind: kind, host: host, vk: vk, logbuf: lb}
	cfg := &peer.Config{
		Listeners: peer.MessageListeners{OnVersion: func(p *peer.Peer, _ *wire.MsgVersion) *wire.MsgReject {
			if onVersion != nil {
				onVersion(rp)
			}
			select {
			case seen <- struct{}{}:
			default:
			}
			return nil
		}},
		Log: &nop, ChainParams: &chaincfg.MainNetParams, ProtocolVersion: 70013, Services: wire.SFspv,
		UserAgentName: "verif", UserAgentVersion: "0.0.1", TrickleInterval: config.TrickleInterval,
	}
	var p *peer.Peer
	if kind == "in" {
		p = peer.NewInboundPeer(cfg)
	} else {
		var err error
		if p, err = peer.NewOutboundPeer(cfg, addr); err != nil {
			return nil, err
		}
	}
	rp.sp = p2p.VerifNewServerPeer(r.srv, p, kind == "pers", &lg)
	if !vk {
		script = nil
	}
	conn := c18NewMemConn(c18SpecTCP(spec, r.port), script)
	p.AssociateConnection(conn)
	gone := make(chan struct{})
	go func() { p.WaitForDisconnect(); close(gone) }()
	for i := 0; vk && i < versions; i++ {
		select {
		case <-seen:
		case <-gone:
			if i == 0 {
				return nil, fmt.Errorf("peer %s: disconnected during the version handshake", handle)
			}
			// a further version message was refused by the peer code (what a repaired peer.go does)
			i = versions
		case <-time.After(60 * time.Second):
			return nil, fmt.Errorf("peer %s: version handshake over the in-memory connection did not complete", handle)
		}
	}
	rp.id = rp.sp.ID()
	key, _, err := net.SplitHostPort(rp.sp.Addr())
	if err != nil {
		return nil, fmt.Errorf("peer %s: address %q does not split", handle, rp.sp.Addr())
	}
	ki, ok := r.keyIdx[key]
	if !ok {
		return nil, fmt.Errorf("peer %s: unexpected admission key %q", handle, key)
	}
	rp.host = ki
	g := "?"
	if na := rp.sp.NA(); na != nil {
		g = addrmgr.GroupKey(na)
	}
	gi, okg := r.groupIdx[g]
	if !okg {
		return nil, fmt.Errorf("peer %s: unexpected group key %q", handle, g)
	}
	rp.group = gi
	if rp.vk != rp.sp.VersionKnown() {
		return nil, fmt.Errorf("peer %s: VersionKnown()=%v, wanted %v", handle, rp.sp.VersionKnown(), rp.vk)
	}
	r.peers[handle] = rp
	return rp, nil
}

func (r *c18PeerRig) closeAll() {
	for _, p := range r.peers {
		p.sp.Disconnect()
	}
}

func c18Reason(log string) string {
	switch {
	case strings.Contains(log, "shutting down"):
		return "shutdown"
	case strings.Contains(log, "can't split hostport"):
		return "badaddr"
	case strings.Contains(log, "is banned for another"):
		return "banned"
	case strings.Contains(log, "Max peers per IP reached"):
		return "perhost"
	case strings.Contains(log, "Max peers reached"):
		return "total"
	}
	return "?"
}

func (r *c18PeerRig) counters(host, group int) string {
	s := p2p.VerifSnap(r.st)
	return fmt.Sprintf("n=%d ip=%d grp=%d", s.Count, s.ConnectionCount[r.hostIPs[host]], s.OutboundGroups[r.groups[group]])
}

func (r *c18PeerRig) dump() string {
	s := p2p.VerifSnap(r.st)
	hostOf := func(addr string) string {
		h, _, err := net.SplitHostPort(addr)
		if err != nil {
			return "?" + addr
		}
		for i, ip := range r.hostIPs {
			if ip == h {
				return strconv.Itoa(i)
			}
		}
		return "?" + h
	}
	list := func(l []p2p.VerifPeerInfo) string {
		var xs []string
		for _, p := range l {
			g := "?" + p.Group
			if gi, ok := r.groupIdx[p.Group]; ok {
				g = strconv.Itoa(gi)
			}
			xs = append(xs, fmt.Sprintf("%d:%s:%s", p.ID, hostOf(p.Addr), g))
		}
		return "[" + strings.Join(xs, ",") + "]"
	}
	var cc, og, ban []string
	known := map[string]bool{}
	for i, ip := range r.hostIPs {
		known[ip] = true
		if v := s.ConnectionCount[ip]; v != 0 {
			cc = append(cc, fmt.Sprintf("%d:%d", i, v))
		}
		if d, ok := s.BannedFor[ip]; ok {
			t := 0
			if d > 0 {
				t = int((d + c18Tick - 1) / c18Tick)
			}
			ban = append(ban, fmt.Sprintf("%d:%d", i, t))
		}
	}
	for i, g := range r.groups {
		known[g] = true
		if v := s.OutboundGroups[g]; v != 0 {
			og = append(og, fmt.Sprintf("%d:%d", i, v))
		}
	}
	// entries under keys the harness never used would be a bug of the rig or of the code: show them
	var extra []string
	for k, v := range s.ConnectionCount {
		if !known[k] && v != 0 {
			extra = append(extra, fmt.Sprintf("cc?%s:%d", k, v))
		}
	}
	for k, v := range s.OutboundGroups {
		if !known[k] && v != 0 {
			extra = append(extra, fmt.Sprintf("og?%s:%d", k, v))
		}
	}
	for k := range s.BannedFor {
		if !known[k] {
			extra = append(extra, "ban?"+k)
		}
	}
	sort.Strings(extra)
	res := fmt.Sprintf("in=%s out=%s pers=%s cc=[%s] og=[%s] ban=[%s]", list(s.Inbound), list(s.Outbound), list(s.Persistent),
		strings.Join(cc, ","), strings.Join(og, ","), strings.Join(ban, ","))
	if len(extra) > 0 {
		res += " " + strings.Join(extra, " ")
	}
	return res
}

// ---- one history: abstract ops -> implementation outputs + concrete model lines ----
//
// abstract ops (what generators emit and replay files contain):
//   peer add <in|out|pers> <host> <vk:0|1> #<handle>     peer done #<handle>     peer addbad
//   peer ban <host>     peer clock <ticks>     peer shutdown     peer dump
// concrete lines sent to the Lean driver carry the real peer id and the group index.

type c18PeerStepOut struct {
	abstract string
	model    string // line for the Lean driver
	impl     string // canonical output of the implementation
}

type c18Oracle struct {
	c       *Ctx
	ops     []string
	checked int
}

func (o *c18Oracle) fail(what, exp, obs, sig string) {
	o.c.R.Fail(lib.Failure{Case: "peers", Ops: append([]string(nil), o.ops...), What: what, Expected: exp, Observed: obs, Signature: sig})
}

// checkBooks: the independent counting statement. Uses only what the handlers returned
// (admitted / rejected), never the peerState, to decide what SHOULD be in the state.
func (r *c18PeerRig) checkBooks(o *c18Oracle) {
	s := p2p.VerifSnap(r.st)
	o.checked++
	if s.Count > config.MaxPeers {
		o.fail("more admitted peers than MaxPeers", fmt.Sprint("<= ", config.MaxPeers), fmt.Sprint(s.Count), "c18-total-limit-exceeded")
	}
	for ip, v := range s.ConnectionCount {
		if v > config.MaxPeersPerIP || (v < 0 && r.valid) {
			o.fail("connectionCount outside 0..MaxPeersPerIP", fmt.Sprintf("0..%d", config.MaxPeersPerIP), fmt.Sprintf("%s:%d", ip, v), "c18-perhost-counter-out-of-range")
		}
	}
	if !r.valid {
		return
	}
	total := 0
	perHost := map[string]int{}
	perGroup := map[string]int{}
	for _, p := range r.peers {
		if !p.admitted {
			continue
		}
		total++
		if p.kind != "pers" {
			perHost[r.hostIPs[p.host]]++
		}
		if p.kind != "in" {
			perGroup[r.groups[p.group]]++
		}
	}
	if total != s.Count {
		o.fail("Count() differs from the number of peers admitted and not yet done", fmt.Sprint(total), fmt.Sprint(s.Count), "c18-count-mismatch")
	}
	for _, ip := range r.hostIPs {
		if perHost[ip] > config.MaxPeersPerIP {
			o.fail("more admitted non-persistent peers of one host than MaxPeersPerIP", fmt.Sprint("<= ", config.MaxPeersPerIP), fmt.Sprintf("%s:%d", ip, perHost[ip]), "c18-perhost-limit-exceeded")
		}
		if perHost[ip] != s.ConnectionCount[ip] {
			o.fail("connectionCount[host] differs from the admitted non-persistent peers of the host (leak or wedge)", fmt.Sprintf("%s:%d", ip, perHost[ip]), fmt.Sprintf("%s:%d", ip, s.ConnectionCount[ip]), "c18-perhost-counter-drift")
		}
	}
	for _, g := range r.groups {
		if perGroup[g] != s.OutboundGroups[g] {
			o.fail("outboundGroups[group] differs from the admitted outbound peers of the group (leak)", fmt.Sprintf("%s:%d", g, perGroup[g]), fmt.Sprintf("%s:%d", g, s.OutboundGroups[g]), "c18-group-counter-drift")
		}
	}
}

func (r *c18PeerRig) run(c *Ctx, ops []string, o *c18Oracle) ([]c18PeerStepOut, error) {
	var out []c18PeerStepOut
	emit := func(abs, model, impl string) { out = append(out, c18PeerStepOut{abs, model, impl}) }
	emit("peer new", fmt.Sprintf("peer new %d", c18BanTicks), "ok")
	nbad := 0
	for _, op := range ops {
		o.ops = append(o.ops, op)
		w := strings.Fields(op)
		if len(w) < 2 || w[0] != "peer" {
			return out, fmt.Errorf("bad peers op %q", op)
		}
		switch w[1] {
		case "add":
			if len(w) != 6 {
				return out, fmt.Errorf("bad op %q", op)
			}
			spec, _ := strconv.Atoi(w[3])
			vk := w[4] == "1"
			if spec >= len(r.specs) {
				return out, fmt.Errorf("address %d outside the universe in %q", spec, op)
			}
			p, err := r.newPeer(w[5], w[2], spec, vk, r.hsVerack, nil)
			if err != nil {
				return out, err
			}
			host := p.host // the host the code keys on: SplitHostPort(sp.Addr())
			// assumptions of the theorems: fresh id, version known for outbound peers
			for _, q := range r.peers {
				if q != p && q.admitted && q.id == p.id {
					r.valid = false
				}
			}
			if !vk && p.kind != "in" {
				r.valid = false
			}
			// what the property demands, decided from the history alone
			banned := false
			if e, ok := r.banEnd[host]; ok && r.tick < e {
				banned = true
			}
			nHost, nTot := 0, 0
			for _, q := range r.peers {
				if q.admitted {
					nTot++
					if q.host == host && q.kind != "pers" {
						nHost++
					}
				}
			}
			ok := p2p.VerifAddPeer(r.srv, r.st, p.sp)
			p.admitted = ok
			res := "admitted"
			if !ok {
				res = "rejected:" + c18Reason(p.logbuf.String())
			}
			vkb := 0
			if vk {
				vkb = 1
			}
			emit(op, fmt.Sprintf("peer add %s %d %d %d %d", p.kind, p.host, p.group, p.id, vkb), res+" "+r.counters(p.host, p.group))
			o.checked++
			if ok != p.sp.Connected() {
				o.fail("an admitted peer must stay connected and a refused one must be disconnected", fmt.Sprintf("Connected()=%v", ok), fmt.Sprintf("Connected()=%v", p.sp.Connected()), "c18-connected-flag")
			}
			if banned && ok {
				o.fail("peer of a banned host admitted before the ban duration elapsed", "rejected", "admitted", "c18-admitted-while-banned")
			}
			if r.valid && !r.shutdown {
				want := !banned && nHost < config.MaxPeersPerIP && nTot < config.MaxPeers
				if want != ok {
					o.fail("admission differs from: not banned, fewer than MaxPeersPerIP non-persistent peers of the host and fewer than MaxPeers peers admitted now",
						fmt.Sprintf("admitted=%v (banned=%v host=%d total=%d)", want, banned, nHost, nTot), fmt.Sprintf("admitted=%v", ok), "c18-admission-wrong")
				}
			}
			if r.shutdown && ok {
				o.fail("peer admitted while shutting down", "rejected", "admitted", "c18-admitted-in-shutdown")
			}
		case "addbad":
			nbad++
			nop := lib.DiscardLog()
			lb := &bytes.Buffer{}
			lg := zerolog.New(lb).Level(zerolog.DebugLevel)
			bp := peer.NewInboundPeer(&peer.Config{Log: &nop, ChainParams: &chaincfg.MainNetParams})
			bp.AssociateConnection(c18NewMemConn(c18StrAddr("not-a-host-port"), nil))
			sp := p2p.VerifNewServerPeer(r.srv, bp, false, &lg)
			ok := p2p.VerifAddPeer(r.srv, r.st, sp)
			res := "admitted"
			if !ok {
				res = "rejected:" + c18Reason(lb.String())
			}
			bp.Disconnect()
			emit(op, "peer addbad", fmt.Sprintf("%s n=%d", res, p2p.VerifSnap(r.st).Count))
		case "done":
			p := r.peers[w[2]]
			if p == nil {
				return out, fmt.Errorf("done of unknown handle in %q", op)
			}
			// assumption of the theorems: the id names this peer object only
			for _, q := range r.peers {
				if q != p && q.admitted && q.id == p.id {
					r.valid = false
				}
			}
			p.sp.Disconnect() // production: the done message follows the disconnection
			p2p.VerifDonePeer(r.srv, r.st, p.sp)
			p.admitted = false
			vkb := 0
			if p.vk {
				vkb = 1
			}
			emit(op, fmt.Sprintf("peer done %s %d %d %d %d", p.kind, p.host, p.group, p.id, vkb), "done "+r.counters(p.host, p.group))
		case "ban":
			spec, _ := strconv.Atoi(w[2])
			if spec >= len(r.specs) {
				return out, fmt.Errorf("address %d outside the universe in %q", spec, op)
			}
			host := r.keyIdx[r.specs[spec]]
			// handleBanPeerMsg takes a *peer.Peer and reads only its address
			bp, err := peer.NewOutboundPeer(&peer.Config{Log: func() *zerolog.Logger { l := lib.DiscardLog(); return &l }(), ChainParams: &chaincfg.MainNetParams}, net.JoinHostPort(r.specs[spec], "8333"))
			if err != nil {
				return out, err
			}
			p2p.VerifBanPeer(r.srv, r.st, bp)
			r.banEnd[host] = r.tick + c18BanTicks
			emit(op, fmt.Sprintf("peer ban %d", host), "banned")
		case "clock":
			dt, _ := strconv.Atoi(w[2])
			p2p.VerifAdvanceClock(r.st, time.Duration(dt)*c18Tick)
			r.tick += dt
			emit(op, op, "clock")
		case "shutdown":
			p2p.VerifSetShutdown(r.srv)
			r.shutdown = true
			emit(op, op, "shutdown")
		case "universe":
			// handled by the caller (which address universe the rig is built with)
		case "dump":
			emit(op, fmt.Sprintf("peer dump %d %d", len(r.hostIPs), len(r.groups)), r.dump())
		default:
			return out, fmt.Errorf("bad peers op %q", op)
		}
		r.checkBooks(o)
	}
	return out, nil
}

// ---- generators ----

type c18PeerHistory struct {
	name            string
	nhosts, ngroups int
	ops             []string
	accident        bool // contains peers outside the theorems' assumptions (no version / id 0)
}

func c18GenPeerHistory(rng *rand.Rand, n int, style string) c18PeerHistory {
	h := c18PeerHistory{name: style, nhosts: len(c18FamilySpecs), ngroups: 2}
	h.ops = append(h.ops, "peer universe small")
	if style == "wide" {
		h.nhosts, h.ngroups = 30, 7
		h.ops[0] = "peer universe wide"
	}
	// a few addresses are busier than the rest, so that the per-host limit is reached
	hot := rng.Perm(h.nhosts)[:3]
	pick := func() int {
		if style != "wide" && rng.Intn(100) < 55 {
			return hot[rng.Intn(len(hot))]
		}
		return rng.Intn(h.nhosts)
	}
	type live struct {
		handle string
		done   bool
	}
	var made []*live
	next := 0
	add := func(kind string, host int, vk int) {
		next++
		hd := fmt.Sprintf("#p%d", next)
		h.ops = append(h.ops, fmt.Sprintf("peer add %s %d %d %s", kind, host, vk, hd))
		made = append(made, &live{handle: hd})
	}
	kinds := []string{"in", "in", "out", "out", "pers"}
	shutdown := false
	for len(h.ops) < n {
		x := rng.Intn(100)
		switch {
		case style == "fill" && len(made) < 140 && x < 80:
			// persistent peers do not occupy per-host slots: the way to reach MaxPeers with 4 hosts
			k := "pers"
			if x < 15 {
				k = kinds[rng.Intn(4)]
			}
			add(k, pick(), 1)
		case style == "wide" && len(made) < 170 && x < 80:
			add(kinds[rng.Intn(4)], pick(), 1)
		case x < 45:
			vk := 1
			if style == "accident" && rng.Intn(4) == 0 {
				vk = 0
				h.accident = true
			}
			add(kinds[rng.Intn(len(kinds))], pick(), vk)
		case x < 75 && len(made) > 0:
			// done: mostly peers not yet done (admitted or refused), sometimes a second time
			var cand []*live
			for _, l := range made {
				if !l.done || rng.Intn(10) == 0 {
					cand = append(cand, l)
				}
			}
			if len(cand) == 0 {
				continue
			}
			l := cand[rng.Intn(len(cand))]
			l.done = true
			h.ops = append(h.ops, "peer done "+l.handle)
		case x < 82:
			h.ops = append(h.ops, fmt.Sprintf("peer ban %d", pick()))
		case x < 92:
			dts := []int{1, 1, 2, 5, 11, 12, 23, 24, 25, 48}
			h.ops = append(h.ops, fmt.Sprintf("peer clock %d", dts[rng.Intn(len(dts))]))
		case x < 94:
			h.ops = append(h.ops, "peer addbad")
		case x < 99:
			h.ops = append(h.ops, "peer dump")
		default:
			if !shutdown && len(h.ops) > n*3/4 {
				shutdown = true
				h.ops = append(h.ops, "peer shutdown")
			}
		}
	}
	// everybody leaves; the books must be empty again and a fresh peer per host is admitted
	// unless its host is still banned
	h.ops = append(h.ops, "peer dump")
	for _, l := range made {
		if !l.done {
			h.ops = append(h.ops, "peer done "+l.handle)
		}
	}
	h.ops = append(h.ops, "peer dump")
	if !shutdown {
		for i := 0; i < h.nhosts && i < 10; i++ {
			next++
			h.ops = append(h.ops, fmt.Sprintf("peer add in %d 1 #p%d", i, next))
		}
		h.ops = append(h.ops, "peer dump")
	}
	return h
}

// c18RunPeerHistory executes one history on the implementation, compares with the model, runs the oracle.
func c18RunPeerHistory(c *Ctx, l *lib.Lean, h c18PeerHistory) error {
	r := c18NewPeerRig(h.nhosts, h.ngroups)
	defer r.closeAll()
	o := &c18Oracle{c: c}
	outs, err := r.run(c, h.ops, o)
	if err != nil {
		return err
	}
	// after "everybody leaves" (second to last dump of generated histories) nothing may be left
	var lines []string
	for _, s := range outs {
		lines = append(lines, s.model)
	}
	ans, err := l.AskBatch(lines)
	if err != nil {
		return err
	}
	nontrivial := false
	kinds := map[string]bool{}
	for i, s := range outs {
		impl, model := s.impl, ans[i]
		// a refusal whose log line the harness does not recognise matches any reason
		if strings.HasPrefix(impl, "rejected:? ") && strings.HasPrefix(model, "rejected:") {
			if j := strings.Index(model, " "); j > 0 {
				model = "rejected:? " + model[j+1:]
			}
		}
		if impl != model {
			c.R.Disagree(lib.Disagreement{Case: "peers/" + h.name, Ops: h.ops, Op: s.abstract + "  =>  " + s.model, Impl: s.impl, Model: ans[i]})
			break
		}
		if strings.HasPrefix(impl, "rejected:") {
			kinds[strings.Fields(impl)[0]] = true
		}
	}
	for k := range kinds {
		c.R.Count("peers:"+k, 1)
	}
	if kinds["rejected:perhost"] || kinds["rejected:total"] || kinds["rejected:banned"] {
		nontrivial = true
	}
	c.R.Case("peers|"+strings.Join(h.ops, ";"), nontrivial)
	c.R.Count("peers:history:"+h.name, 1)
	c.R.Count("peers:ops", len(h.ops))
	c.R.TracesValidated += len(outs)
	c.R.OracleChecked += o.checked
	// the property's closing clause, checked on the implementation: once everyone has left, every counter is zero
	if strings.HasPrefix(h.name, "gen:") {
		idx := -1
		n := 0
		for i := len(outs) - 1; i >= 0; i-- {
			if outs[i].abstract == "peer dump" {
				n++
				if (r.shutdown && n == 1) || (!r.shutdown && n == 2) {
					idx = i
					break
				}
			}
		}
		if idx >= 0 && !h.accident {
			want := "in=[] out=[] pers=[] cc=[] og=[]"
			c.R.OracleChecked++
			if !strings.HasPrefix(outs[idx].impl, want) {
				o.ops = h.ops
				o.fail("after every peer has left, peer maps and per-host / per-group counters must be empty", want+" …", outs[idx].impl, "c18-counters-not-zero-after-all-left")
			}
		}
	}
	if len(c.R.Samples) < 6 {
		k := len(outs)
		if k > 14 {
			k = 14
		}
		var smp []map[string]string
		for _, s := range outs[:k] {
			smp = append(smp, map[string]string{"op": s.model, "impl": s.impl})
		}
		c.R.Sample(map[string]any{"history": h.name, "first_ops": smp}, 6)
	}
	return nil
}

// c18RealTimeBan: the ban window once against the real clock (no clock shifting): 40 ms ban.
func c18RealTimeBan(c *Ctx) error {
	nop := lib.DiscardLog()
	r := c18NewPeerRig(2, 2)
	defer r.closeAll()
	r.srv = p2p.VerifNewServer(40*time.Millisecond, &nop)
	o := &c18Oracle{c: c, ops: []string{"scenario real-time-ban: ban host 0 (BanDuration 40 ms), add, sleep 60 ms, add"}}
	bp, err := peer.NewOutboundPeer(&peer.Config{Log: &nop, ChainParams: &chaincfg.MainNetParams}, net.JoinHostPort(r.hostIPs[0], "8333"))
	if err != nil {
		return err
	}
	t0 := time.Now()
	p2p.VerifBanPeer(r.srv, r.st, bp)
	p1, err := r.newPeer("#a", "in", 0, true, r.hsVerack, nil)
	if err != nil {
		return err
	}
	ok1 := p2p.VerifAddPeer(r.srv, r.st, p1.sp)
	early := time.Since(t0) < 40*time.Millisecond
	time.Sleep(60 * time.Millisecond)
	p2, err := r.newPeer("#b", "in", 0, true, r.hsVerack, nil)
	if err != nil {
		return err
	}
	ok2 := p2p.VerifAddPeer(r.srv, r.st, p2.sp)
	_, still := p2p.VerifSnap(r.st).BannedFor[r.hostIPs[0]]
	c.R.OracleChecked += 2
	c.R.Count("peers:scenario:real-time-ban", 1)
	if early && ok1 {
		o.fail("peer admitted during a 40 ms ban (real clock)", "rejected", "admitted", "c18-admitted-while-banned")
	}
	if !ok2 || still {
		o.fail("peer must be admitted (and the ban entry dropped) once the 40 ms ban has elapsed (real clock)", "admitted, no ban entry", fmt.Sprintf("admitted=%v entry=%v", ok2, still), "c18-ban-does-not-expire")
	}
	return nil
}
